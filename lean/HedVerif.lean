-- Root of the `HedVerif` library: executable models, driver handlers and property theorems.
import HedVerif.Model.Tok
