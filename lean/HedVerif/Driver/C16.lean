import HedVerif.Driver.Util
import HedVerif.Model.Bids
open Lean
namespace HedVerif.Driver.C16
open HedVerif HedVerif.Driver HedVerif.Bids

def errName : PErr → String
  | .blankFileName => "BlankFileName"
  | .badSuffixPiece => "BadSuffixPiece"
  | .badKeyValue => "BadKeyValue"

def colsOf : Json → Except String (Columns Json)
  | Json.null => .ok []
  | Json.obj kvs => .ok (kvs.toList.map fun (k, v) => (k.toList, v))
  | _ => .error "content must be an object or null"

def entryOf (j : Json) : Except String (Path × Columns Json) := do
  let p ← (← getArr j "path").mapM asStr
  let c ← colsOf (← getVal j "content")
  pure (p, c)

def pathStr (p : Path) : String := "/".intercalate (p.map String.ofList)
def colsJson (c : Columns Json) : Json := jobj (c.map fun (k, v) => (String.ofList k, v))
def chainJson (c : List (PFile Json)) : Json := jarr (c.map fun s => Json.str (pathStr s.path))

def fileJson (g : Group Json) (o : PFile Json) : Json :=
  jobj [("path", Json.str (pathStr o.path)),
        ("suffix", jopt jstr o.suffix),
        ("entities", jarr (o.ents.map fun (k, v) => jarr [jstr k, jstr v])),
        ("chain", chainJson (chain g o)),
        ("spec_chain", chainJson (specChain g o)),
        ("has_sidecar", jbool (hasSidecar g o)),
        ("merged", colsJson (mergeImpl g o)),
        ("merged_old", colsJson (mergeImplOld g o)),
        ("spec", colsJson (mergeSpec g o))]

/-- requests of property C16:
`{"op":"c16.group","tree":[{"path":[comp,…,name],"content":object|null},…] (walk order),
  "excluded":[name,…],"suffix":"events"}` →
`{"error":code}` or `{"sidecars":[file…],"datafiles":[file…]}` with, per file, its chain, the code's
merge (fixed and unchanged algorithm) and the property's merge. -/
def handle (op : String) (j : Json) : Option (Except String Json) :=
  match op with
  | "c16.group" => some do
      let t ← (← getArr j "tree").mapM entryOf
      let excl ← (← getArr j "excluded").mapM asStr
      let sfx ← getStr j "suffix"
      match load t excl sfx with
      | .error e => pure <| jobj [("error", Json.str (errName e))]
      | .ok g => pure <| jobj [("sidecars", jarr (g.sidecars.map (fileJson g))),
                               ("datafiles", jarr (g.datafiles.map (fileJson g)))]
  | "c16.exit" => some do
      pure <| jobj [("exit", jnat (exitCode (← getArr j "issues")))]
  | _ => none

end HedVerif.Driver.C16
