import HedVerif.Driver.Util
import HedVerif.Driver.C08
import HedVerif.Driver.Closed
import HedVerif.Model.Bids
import HedVerif.Model.BidsV
import HedVerif.Model.ClosedDataset
import HedVerif.Model.ClosedDatasetRaw
open Lean
namespace HedVerif.Driver.C16
open HedVerif HedVerif.Driver HedVerif.Bids

def errName : PErr → String
  | .blankFileName => "BlankFileName"
  | .badSuffixPiece => "BadSuffixPiece"
  | .badKeyValue => "BadKeyValue"

/-- plain JSON of a model value -/
partial def plain : SJson → Json
  | .null => Json.null
  | .bool b => Json.bool b
  | .num n => jint n
  | .str s => jstr s
  | .arr xs => jarr (xs.map plain)
  | .obj kvs => jobj (kvs.map fun (k, v) => (String.ofList k, plain v))

/-- content of a `.json` file in the tagged encoding of `Driver/C08.decode`: object → columns, else `none` -/
def contentOf (j : Json) : Except String (Option (Columns SJson)) := do
  match ← C08.decode j with
  | .obj kvs => pure (some kvs)
  | _ => pure none

/-- `{"f":[[name] | [name, content],…], "d":[[name, dir],…]}` in scandir order -/
partial def dirOf (j : Json) : Except String (Dir SJson) := do
  let fs ← (← getArr j "f").mapM fun e => match e with
    | Json.arr #[Json.str n] => pure (n.toList, (some [] : Option (Columns SJson)))
    | Json.arr #[Json.str n, c] => do pure (n.toList, ← contentOf c)
    | _ => .error "file entry must be [name] or [name, content]"
  let ds ← (← getArr j "d").mapM fun e => match e with
    | Json.arr #[Json.str n, d] => do pure (n.toList, ← dirOf d)
    | _ => .error "dir entry must be [name, dir]"
  pure (Dir.mk fs (ds.foldr (fun nd acc => DirList.cons nd.1 nd.2 acc) DirList.nil))

def pathStr (p : Path) : String := "/".intercalate (p.map String.ofList)
def colsJson (c : Columns SJson) : Json := plain (.obj c)
def chainJson (c : List (PFile SJson)) : Json := jarr (c.map fun s => Json.str (pathStr s.path))
def pathsJson (t : Tree SJson) : Json := jarr (t.map fun f => Json.str (pathStr f.1))

def fileJson (g : Group SJson) (o : PFile SJson) : Json :=
  jobj [("path", Json.str (pathStr o.path)),
        ("suffix", jopt jstr o.suffix),
        ("entities", jarr (o.ents.map fun (k, v) => jarr [jstr k, jstr v])),
        ("chain", chainJson (chain g o)),
        ("chosen_chain", chainJson (chosenChain g o)),
        ("spec_chain", chainJson (specChain g o)),
        ("has_sidecar", jbool (hasSidecar g o)),
        ("load_issues", jnat (loadIssueCount g o)),
        ("merged", colsJson (mergeImpl g o)),
        ("merged_old", colsJson (mergeImplOld g o)),
        ("spec", colsJson (mergeSpec g o))]

def filterOf (j : Json) : Except String NameFilter := do
  pure ⟨← (← getArr j "prefixes").mapM asStr, ← (← getArr j "suffixes").mapM asStr, ← (← getArr j "exts").mapM asStr⟩

def sissueJson (file : Path) (i : SidecarV.Issue) : Json :=
  jarr [Json.str (String.ofList (file.getLastD [])), jstr i.code, jnat i.sev, jopt jstr i.col, jopt jstr i.key]

/-- the table layer as data: the `(code, severity)` list the real `TabularInput.validate` gave for a data
file (with the oracle's merged sidecar), keyed by path; fed through `Tabular.validate` as mapping issues
of an otherwise empty table -/
def stubCfg (is : List Tabular.RIssue) : Tabular.Cfg :=
  { rowAdj := 2, hasOnset := false, columns := [], catCols := [], mapIssues := is, refs := [], allColumns := [],
    maskByRow := true, guardDelay := true, kKey := ⟨[], 1⟩, kRef := ⟨[], 1⟩, kUnordered := ⟨[], 1⟩,
    kTemporal := fun _ => ⟨[], 1⟩,
    o := { cell := fun _ => [], full := fun _ => [], pfull := fun _ => [], banned := fun _ => [],
           items := fun _ => none, markers := fun _ => [], fold := id } }

def tableOracleOf (j : Json) : Except String (List (Path × List Tabular.RIssue)) := do
  (← getArr j "tables").mapM fun e => match e with
    | Json.arr #[p, is] => do
        let path ← (← asArr p).mapM asStr
        let l ← (← asArr is).mapM fun c => match c with
          | Json.arr #[Json.str code, sev] => do pure (⟨code.toList, ← asNat sev⟩ : Tabular.RIssue)
          | _ => .error "table issue must be [code, severity]"
        pure (path, l)
    | _ => .error "tables entries must be [path, issues]"

def dissueJson : DIssue → Json
  | .sidecar f i => sissueJson f i
  | .table f i => jarr [Json.str (String.ofList (f.getLastD [])), jstr i.kind, jnat i.sev, Json.null, Json.null]

def runExnName : RunExn → String
  | .fileError e => errName e
  | .validation (.sidecar _ e) => "sidecar:" ++ C08.exnName e
  | .validation (.table _ _) => "table"

/-! ### closed dataset stream -/

def tissueJson (i : Tabular.Issue) : Json :=
  jarr [jstr i.kind, jnat i.sev, jopt jnat i.row, jopt jstr i.col, Json.str (C07.srcName i.src), jstr i.text]

def dissueClosedJson : DIssue → Json
  | .sidecar f i => jarr [Json.str (pathStr f), Json.str "sidecar", C08.issueJson i]
  | .table f i => jarr [Json.str (pathStr f), Json.str "table", tissueJson i]

/-- `c16.closed`: schema environment of `c01.run` + `trees`, each `dir` + `excluded`, `types`, `cfw`, the two variant
flags of the file layer and `tables` (`[[path components], header, rows]`: the raw cells of every `.tsv` file).
Nothing comes from the real `TabularInput`: the per-file step is `Tabular.validateClosedRaw` on the file's cells and
the sidecar merged by the model.  Answer: the `HedFileError` code, or per participating object (sidecars first,
discovery order) `unmodelled` / `raise` / `exc` / `issues` (warnings included), and — when nothing is unmodelled —
`all` = `validateDatasetClosedRaw` (filtered by `cfw`). -/
def closedJson (env : Validate.Env) (j : Json) : Except String Json := do
  let D ← dirOf (← getVal j "dir")
  let excl ← (← getArr j "excluded").mapM asStr
  let types ← (← getArr j "types").mapM asStr
  let cfw := getBoolD j "cfw" false
  let defsModelled := getBoolD j "defs_modelled" false
  let k ← Closed.rawConsts j
  let tabs ← (← getArr j "tables").mapM fun e => match e with
    | Json.arr #[p, h, rs] => do
        pure ((← (← asArr p).mapM asStr),
              (⟨← (← asArr h).mapM asStr, ← (← asArr rs).mapM fun r => do (← asArr r).mapM asStr⟩ : Assemble.Table))
    | _ => .error "tables entries must be [path, header, rows]"
  -- the dataset: every file with its content (JSON of the listing, cells of the tables)
  let raw : RawTree := D.listing.map fun f => match tabs.find? (·.1 == f.1) with
    | some (_, tb) => (f.1, Content.tsv tb)
    | none => (f.1, Content.json f.2)
  let kB := k.kBanned
  let F := rawFrames k raw.table
  match loadAll raw.listing excl types with
  | .error e => pure <| jobj [("error", Json.str (errName e))]
  | .ok gs =>
    let sideJson (g : Group SJson) (s : PFile SJson) : Json × Bool :=
      let head := [("path", Json.str (pathStr s.path)), ("kind", Json.str "sidecar")]
      -- the checks run against the document's own definitions followed by the external ones (as `closed.c08`)
      let doc : SJson := .obj (mergeImpl g s)
      let envS := HedVerif.Closed.envWith env (HedVerif.Closed.sidecarDict env .fixed doc)
      let why := if loadIssueCount g s == 0 then
          (if defsModelled then Closed.sidecarUnmodelled envS .fixed doc true else Closed.sidecarUnmodelled env .fixed doc false)
        else none
      match why with
      | some w => (jobj (head ++ [("unmodelled", Json.str w)]), true)
      | none => match sidecarClosed env g s with
        | .ok is => (jobj (head ++ [("issues", jarr (is.map C08.issueJson))]), false)
        | .error .unmodelled => (jobj (head ++ [("unmodelled", Json.str "pandas coercion")]), true)
        | .error e => (jobj (head ++ [("raise", Json.str (C08.exnName e))]), false)
    let tabJson (g : Group SJson) (d : PFile SJson) : Json × Bool :=
      let head := [("path", Json.str (pathStr d.path)), ("kind", Json.str "table")]
      let sc := toJs ((sidecarOf g d).getD [])
      let t := raw.table d.path
      let skip (w : String) : Json × Bool := (jobj (head ++ [("unmodelled", Json.str w)]), true)
      if !Raw.headerOk t.header then skip "header"
      else if !defsModelled && Raw.declaresDefinition sc then skip "definition in the sidecar"
      else if Raw.onsetUnmodelled t then skip "onset spelling"
      else if Raw.refOrderMatters sc t then skip "reference set order"
      else
        let (cfg, T) := F d (sidecarOf g d)
        let envF := fileEnv env (sidecarOf g d)      -- the merged sidecar's definitions, then the external ones
        match HedVerif.Closed.skipReason envF kB cfg T with     -- consulted texts of the CLOSED configuration, tie-sensitive tables
        | some (w, _) => skip w
        | none =>
          if T.any (HedVerif.Closed.rowSplit envF kB cfg) then skip "malformed cell in a checked row"
          else match tableClosed env kB F g d with     -- = `Tabular.validateClosedRawD` (`C16.raw_table_step`)
            | .ok is => (jobj (head ++ [("issues", jarr (is.map tissueJson))]), false)
            | .error e => (jobj (head ++ [("raise", Json.str (C07.excName e))]), false)
    let per := gs.flatMap fun g => g.sidecars.map (sideJson g) ++ g.datafiles.map (tabJson g)
    let all := if per.any (·.2) then Json.null else
      match validateDatasetClosedRaw env k raw excl types cfw with
      | .ok l => jarr (l.map dissueClosedJson)
      | .error e => Json.str (runExnName e)
    pure <| jobj [("files", jarr (per.map (·.1))), ("all", all)]

/-- requests of property C16 (trees as nested directories in scandir order):
* `c16.group {dir, excluded, suffix}` → discovery, chains and merges of every object, or the `HedFileError` code
* `c16.discover {dir, excluded, prefixes, suffixes, exts, skip_empty}` → `get_file_list`, `get_dir_dictionary`,
  and the filter-of-listing characterisation
* `c16.cli {dir, format, output, cfw, basic/full/defs/repna/defissues (string layer), tables}` → `cliMain`
* `c16.exit {issues}` -/
def handle (op : String) (j : Json) : Option (Except String Json) :=
  match op with
  | "c16.group" => some do
      let D ← dirOf (← getVal j "dir")
      let excl ← (← getArr j "excluded").mapM asStr
      let sfx ← getStr j "suffix"
      let t := D.listing
      let walk := jobj [("json", pathsJson (getFileList D ⟨[], [sfx], [jsonExt]⟩ excl)),
                        ("tsv", pathsJson (getFileList D ⟨[], [sfx], [tsvExt]⟩ excl)),
                        ("json_flat", pathsJson (discover t excl sfx jsonExt)),
                        ("tsv_flat", pathsJson (discover t excl sfx tsvExt)),
                        ("is_listing", jbool (isListingB t))]
      match load t excl sfx with
      | .error e => pure <| jobj [("error", Json.str (errName e)), ("walk", walk)]
      | .ok g => pure <| jobj [("sidecars", jarr (g.sidecars.map (fileJson g))),
                               ("datafiles", jarr (g.datafiles.map (fileJson g))), ("walk", walk)]
  | "c16.discover" => some do
      let D ← dirOf (← getVal j "dir")
      let excl ← (← getArr j "excluded").mapM asStr
      let f ← filterOf j
      let skip := getBoolD j "skip_empty" true
      let spec := D.listing.filter fun e => visible excl e.1 && checkFilename f (e.1.getLastD [])
      pure <| jobj [("files", pathsJson (getFileList D f excl)), ("spec", pathsJson spec),
                    ("dict", jarr ((getDirDictionary D f excl skip).map fun (d, l) =>
                      jarr [Json.str (pathStr d), jarr (l.map fun p => Json.str (pathStr p))]))]
  | "c16.cli" => some do
      let D ← dirOf (← getVal j "dir")
      let O ← C08.oracleOf j
      let tabs ← tableOracleOf j
      let fmt ← match ← getString j "format" with
        | "text" => pure Fmt.text | "json" => pure Fmt.json | "json_pp" => pure Fmt.jsonPp
        | f => .error s!"bad format {f}"
      let out := match j.getObjVal? "output" with
        | .ok (Json.str s) => some s.toList
        | _ => none
      let W : Oracles := { sidecar := fun _ => O,
                           table := fun d _ => (stubCfg (((tabs.find? (·.1 == d.path)).map (·.2)).getD
                                                  [⟨"ORACLE-MISS-TABLE".toList, 1⟩]), []) }
      match cliMain W D.listing ⟨fmt, out, getBoolD j "cfw" false⟩ with
      | .error e => pure <| jobj [("raise", Json.str (runExnName e))]
      | .ok r => pure <| jobj [("exit", jnat r.exit),
                               ("dest", match r.dest with | .stdout => Json.null | .file f => jstr f),
                               ("issues", jarr (r.issues.map dissueJson))]
  | "c16.closed" => some do
      let env ← C01.envOf j
      pure (jobj [("answers", jarr (← (← getArr j "trees").mapM (closedJson env)))])
  | "c16.exit" => some do
      pure <| jobj [("exit", jnat (exitCode (← getArr j "issues")))]
  | _ => none

end HedVerif.Driver.C16
