import HedVerif.Driver.Util
open Lean
namespace HedVerif.Driver.C16
open HedVerif HedVerif.Driver

/-- requests `{"op":"c16.<name>", ...}` of property C16 (stub: none yet) -/
def handle (_op : String) (_j : Json) : Option (Except String Json) := none

end HedVerif.Driver.C16
