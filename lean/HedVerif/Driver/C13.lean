import HedVerif.Driver.Util
open Lean
namespace HedVerif.Driver.C13
open HedVerif HedVerif.Driver

/-- requests `{"op":"c13.<name>", ...}` of property C13 (stub: none yet) -/
def handle (_op : String) (_j : Json) : Option (Except String Json) := none

end HedVerif.Driver.C13
