import HedVerif.Driver.Util
import HedVerif.Driver.Store
import HedVerif.Model.Group
import HedVerif.Model.GroupValidate
import HedVerif.Driver.C01
import Std.Data.HashMap
open Lean
namespace HedVerif.Driver.C13
open HedVerif HedVerif.Driver HedVerif.Schema HedVerif.Group

/-- the driver's fold: ASCII lower case, character-wise (the harness only varies case over ASCII) -/
def fc : Char → Char := Char.toLower

def strList (j : Json) (k : String) : Except String (List Str) := do
  (← getArr j k).mapM asStr

def strListD (j : Json) (k : String) : Except String (List Str) :=
  match j.getObjVal? k with
  | .ok (Json.arr a) => a.toList.mapM asStr
  | _ => .ok []

/-- `{"ns": "sc:", "tags": [long names], "required": [...], "unique": [...]}` -/
def member (j : Json) : Except String (Str × Member) := do
  let ns ← getStr j "ns"
  let tags ← strListD j "tags"
  pure (ns, ⟨Vocab.build (foldS fc) (tags.map splitSlash), ← strListD j "required", ← strListD j "unique"⟩)

def group (j : Json) : Except String Group := do
  (← getArr j "members").mapM member

/-- `str.isalpha` per character: ASCII letters, plus the non-ASCII code points the harness lists (computed by
CPython for the alphabet in use) -/
def alphaOf (j : Json) : Char → Bool :=
  let extra : List Char := match j.getObjVal? "alpha" with
    | .ok (Json.arr a) => a.toList.filterMap fun x => match x.getNat? with
      | .ok n => some (Char.ofNat n)
      | .error _ => none
    | _ => []
  fun c => if c.toNat < 128 then c.isAlpha else extra.contains c

/-- same shape as `c03.find` answers, for the member that owns the namespace -/
def findJson (alpha : Char → Bool) (g : Group) (text : Str) : Json :=
  let ns := namespaceOf text
  let extra := [("prefix_issue", jbool (prefixIssue alpha ns))]
  match Group.find g fc text with
  | .unmatched ns => jobj ([("err", Json.str "HED_LIBRARY_UNMATCHED"), ("ns", jstr ns)] ++ extra)
  | .res r =>
    match lookup g ns with
    | none => jobj [("bad-op", Json.str "unreachable: resolved without a member")]
    | some m =>
      match r with
      | .found i rem =>
        jobj ([("node", jstr (joinSlash (m.vocab.name i))), ("rem", jstr rem), ("ns", jstr ns),
              ("short", jstr (shortTag m.vocab ns i rem)), ("long", jstr (longTag m.vocab ns i rem))] ++ extra)
      | .noValidTag stop =>
        jobj ([("err", Json.str "NO_VALID_TAG_FOUND"), ("a", jnat ns.length), ("b", jnat (ns.length + stop))] ++ extra)
      | .invalidParent a b x =>
        jobj ([("err", Json.str "INVALID_PARENT_NODE"), ("a", jnat (ns.length + a)), ("b", jnat (ns.length + b)),
              ("expected", jstr (joinSlash (m.vocab.name x)))] ++ extra)

/-- evaluates `C03.WF` on a table -/
def functionalTable (t : Table) : Bool := Id.run do
  let mut m : Std.HashMap String Nat := {}
  for (k, i) in t do
    let ks := String.ofList (joinSlash k)
    match m.get? ks with
    | some j => if j != i then return false
    | none => m := m.insert ks i
  return true

def tableMap (t : Table) : Std.HashMap String Nat := Id.run do
  -- newest binding first in `t`: keep the first seen (= `Table.get`)
  let mut m : Std.HashMap String Nat := {}
  for (k, i) in t do
    let ks := String.ofList (joinSlash k)
    if !m.contains ks then m := m.insert ks i
  return m

def clashJson : Clash → Json
  | .duplicate d => jobj [("err", Json.str "SCHEMA_DUPLICATE_NAMES"), ("dups", jarr (d.map jnat))]
  | .rootedMissing r => jobj [("err", Json.str "ROOTED_TAG_DOES_NOT_EXIST"), ("root", jstr r)]
  | .rootedNotRoot n => jobj [("err", Json.str "ROOTED_TAG_INVALID"), ("name", jstr (joinSlash n))]

def libEntry (j : Json) : Except String LibEntry := do
  let n ← getStr j "name"
  let r := match j.getObjVal? "rooted" with
    | .ok (Json.str s) => some s.toList
    | _ => none
  pure (splitSlash n, r)

/-- `{"ws": "8.2.0", "tags": [long names], "lib": [indices of inLibrary tags]}` -/
def source (j : Json) : Except String Source := do
  let ws ← getStr j "ws"
  let tags := (← strList j "tags").map splitSlash
  let lib ← (← getArr j "lib").mapM asNat
  let flags := (Array.replicate tags.length false)
  let flags := lib.foldl (fun a i => if i < a.size then a.set! i true else a) flags
  pure ⟨ws, tags.zip flags.toList⟩

def optBool (j : Json) (k : String) : Option Bool :=
  match j.getObjVal? k with
  | .ok (Json.bool b) => some b
  | _ => none

/-- one member: the `c01.run` environment fields + `ws83`/`std83`/`ed` -/
def vmember (j : Json) : Except String GroupValidate.VMember := do
  let env ← C01.envOf j
  pure ⟨env, optBool j "ws83", optBool j "std83", getBoolD j "ed" false⟩

def chosen (g : GroupValidate.VGroup) (text : Str) : Option GroupValidate.VMember :=
  match GroupValidate.speaking g text with
  | [] => g.head?
  | [p] => GroupValidate.member g p
  | _ => none

def vcase (g : GroupValidate.VGroup) (j : Json) : Except String Json := do
  let text ← getStr j "text"
  let ph ← getBool j "ph"
  match chosen g text, GroupValidate.validate g ph text with
  | some m, some issues =>
    let env := GroupValidate.view g m
    let pr := Validate.parse env text
    pure (jobj [("issues", jarr (issues.map C01.issueJson)), ("member", jstr m.env.ns),
                ("raises", jbool (GroupValidate.raisesFor g m ph text)),
                ("unmodelled", jbool (Validate.unmodelledP env pr)),
                -- conclusion of `group_validate_eq_single`, evaluated
                ("eq_single", jbool (issues == Validate.validate m.env ph text)),
                ("hmod", jbool (GroupValidate.groupModern g == m.env.modern)),
                ("hreq", jbool (GroupValidate.otherNames g m.env.ns (·.required)).isEmpty)])
  | _, _ => pure (jobj [("mixed", jbool true), ("speaking", jarr ((GroupValidate.speaking g text).map jstr))])

/-- `{"name": "...", "attrs": [["k","v"],...], "lib": bool}` -/
def sentry (j : Json) : Except String SEntry := do
  let attrs ← (← getArr j "attrs").mapM fun kv => do
    match ← asArr kv with
    | [k, v] => pure ((← asStr k), (← asStr v))
    | _ => .error "attribute pair expected"
  pure ⟨← getStr j "name", attrs, getBoolD j "lib" false⟩

def sentryJson (e : SEntry) : Json :=
  jobj [("name", jstr e.name), ("attrs", jarr (e.attrs.map fun kv => jarr [jstr kv.1, jstr kv.2])), ("lib", jbool e.inLib)]

def handle (op : String) (j : Json) : Option (Except String Json) :=
  match op with
  | "c13.sections" => some do
      let base ← (← getArr j "base").mapM sentry
      let lib ← (← getArr j "lib").mapM sentry
      let am := getBoolD j "am" false
      let ph := getBoolD j "placeholder" false
      let key : SEntry → Str := if getBoolD j "units" false then unitKey fc else nameKeyExact
      match mergeSection key ph base lib am with
      | .ok m =>
        -- conclusion of `section_conservative`, evaluated
        let kept := base.all fun b => sectionGet key m (key b) == sectionGet key base (key b)
        let present := (offered lib am).all fun e => m.contains e || (ph && isPlaceholder e)
        pure (jobj [("ok", jarr (m.map sentryJson)), ("base_kept", jbool kept), ("lib_present", jbool present),
                    ("prefix_kept", jbool (m.take base.length == base))])
      | .error d => pure (jobj [("err", Json.str "SCHEMA_DUPLICATE_NAMES"), ("dups", jarr (d.map jstr))])
  | "c13.validate" => some do
      let g ← (← getArr j "members").mapM vmember
      let answers ← (← getArr j "cases").mapM (vcase g)
      pure (jobj [("answers", jarr answers), ("group_modern", jbool (GroupValidate.groupModern g)),
                  ("alone_modern", jarr (g.map fun m => jbool (GroupValidate.aloneModern m))),
                  ("dups", jarr (g.map fun m => jarr (m.env.vocab.dups.map jnat)))])
  | "c13.load" => some do
      let first ← source (← getVal j "first")
      let rest ← (← getArr j "rest").mapM source
      match loadVersions fc first rest with
      | .ok m => pure (jobj [("ok", jarr (m.map fun n => jstr (joinSlash n)))])
      | .error .notPartnered => pure (jobj [("err", Json.str "SCHEMA_DUPLICATE_PREFIX")])
      | .error .withStandardDiffers => pure (jobj [("err", Json.str "BAD_WITH_STANDARD_MULTIPLE_VALUES")])
      | .error (.clash c) => pure (clashJson c)
  | "c13.find" => some do
      let g ← group j
      let texts ← strList j "texts"
      pure (jobj [("wellformed", jbool (wellFormed fc g)),
                  ("wf", jarr (g.map fun e => jbool (functionalTable e.2.vocab.table))),
                  ("results", jarr (texts.map (findJson (alphaOf j) g)))])
  | "c13.attrs" => some do
      let g ← group j
      let anns ← (← getArr j "annotations").mapM fun a => do (← asArr a).mapM asStr
      pure (jobj [("required_names", jarr ((tagsWithAttribute (·.required) g).map jstr)),
                  ("unique_names", jarr ((tagsWithAttribute (·.unique) g).map jstr)),
                  ("results", jarr (anns.map fun longs =>
                    jobj [("required", jarr ((requiredIssues g fc longs).map jstr)),
                          ("unique", jarr ((uniqueIssues g fc longs).map jstr))]))])
  | "c13.prefix" => some do
      let ns ← getStr j "ns"
      pure (jobj [("issue", jbool (prefixIssue (alphaOf j) ns)),
                  ("set", match setPrefix (alphaOf j) ns with
                    | .ok p => jstr p
                    | .error _ => Json.str "INVALID_LIBRARY_PREFIX")])
  | "c13.versions" => some do
      let vs ← strList j "versions"
      match parseVersionList vs with
      | .ok l => pure (jobj [("ok", jarr (l.map fun e => jarr [jstr e.1, jstr e.2]))])
      | .error (.duplicateLibrary v) => pure (jobj [("err", Json.str "SCHEMA_DUPLICATE_LIBRARY"), ("version", jstr v)])
      | .error _ => pure (jobj [("err", Json.str "other")])
  | "c13.merge" => some do
      -- {"base": [...], "nstd": n, "libs": [[{name, rooted}...], ...], "first_unchecked": bool}
      let base := (← strList j "base").map splitSlash
      let nstd ← getNat j "nstd"
      let libs ← (← getArr j "libs").mapM fun l => do (← asArr l).mapM libEntry
      let unchecked := getBoolD j "first_unchecked" false
      let res : Except Clash (List Schema.Name) :=
        match libs, unchecked with
        | l :: ls, true => do
          let first ← place fc base nstd l
          ls.foldlM (fun cur lib => mergeInto fc cur nstd lib) first
        | _, _ => libs.foldlM (fun cur lib => mergeInto fc cur nstd lib) base
      match res with
      | .error e => pure (clashJson e)
      | .ok m =>
        let vb := Vocab.build (foldS fc) base
        let vm := Vocab.build (foldS fc) m
        let mm := tableMap vm.table
        -- conclusion of `merge_conservative`, evaluated: every key of the base is bound to the same entry
        let kept := vb.table.all fun (k, _) =>
          vb.table.get k == mm.get? (String.ofList (joinSlash k))
        pure (jobj [("ok", jarr (m.map fun n => jstr (joinSlash n))), ("wf", jbool (functionalTable vm.table)),
                    ("base_wf", jbool (functionalTable vb.table)),
                    ("dups", jarr (vm.dups.map jnat)), ("base_keys", jnat vb.table.length),
                    ("base_keys_kept", jbool kept),
                    ("prefix_kept", jbool (m.take base.length == base))])
  | _ => none

end HedVerif.Driver.C13
