import HedVerif.Driver.Util
import HedVerif.Model.Compliance
open Lean
namespace HedVerif.Driver.C14
open HedVerif HedVerif.Driver HedVerif.Compliance

def secOf (s : String) : Except String Sec :=
  match s with
  | "tags" => pure .tags
  | "unitClasses" => pure .unitClasses
  | "units" => pure .units
  | "unitModifiers" => pure .unitModifiers
  | "valueClasses" => pure .valueClasses
  | "attributes" => pure .attributes
  | "properties" => pure .properties
  | _ => .error s!"unknown section {s}"

def valOf : Json → Except String AttrVal
  | Json.null => pure .flag
  | Json.str s => pure (.text s.toList)
  | _ => .error "attribute value must be a string or null"

def attrOfJson (j : Json) : Except String (Str × AttrVal) := do
  match ← asArr j with
  | [n, v] => pure (← asStr n, ← valOf v)
  | _ => .error "attribute must be [name, value]"

/-- entry: `[name, [[attr, value|null]…], description, owner, plural]` -/
def entryOf (j : Json) : Except String Entry := do
  match ← asArr j with
  | [n, a, d, o, p] =>
    pure { name := ← asStr n, attrs := ← (← asArr a).mapM attrOfJson, desc := ← asStr d, owner := ← asStr o,
           plural := ← asStr p }
  | _ => .error "entry must be [name, attrs, desc, owner, plural]"

def schemaOf (j : Json) : Except String Schema := do
  let h ← getVal j "header"
  let secs ← getVal j "secs"
  let get (k : String) : Except String (List Entry) := do (← getArr secs k).mapM entryOf
  let tags ← get "tags"
  let unitClasses ← get "unitClasses"
  let units ← get "units"
  let unitModifiers ← get "unitModifiers"
  let valueClasses ← get "valueClasses"
  let attributes ← get "attributes"
  let properties ← get "properties"
  pure { header := ⟨← getStr h "version", ← getStr h "library", ← getStr h "withStandard"⟩,
         prologue := ← getStr j "prologue", epilogue := ← getStr j "epilogue",
         sec := fun
           | .tags => tags | .unitClasses => unitClasses | .units => units | .unitModifiers => unitModifiers
           | .valueClasses => valueClasses | .attributes => attributes | .properties => properties }

def envOf (j : Json) : Except String Env := do
  let known ← (← getArr j "known").mapM fun r => do
    match ← asArr r with
    | [l, vs] => pure (← asStr l, ← (← asArr vs).mapM asStr)
    | _ => .error "known: [library, [versions]]"
  let ranges ← (← getArr j "ranges").mapM fun r => do
    match ← asArr r with
    | [l, lo, hi] => pure (← asStr l, ← asNat lo, ← asNat hi)
    | _ => .error "ranges: [library, lo, hi]"
  let prev ← (← getArr j "prev").mapM fun r => do
    match ← asArr r with
    | [l, Json.str t, n, v] => pure (← asStr l, ← secOf t, ← asStr n, ← asStr v)
    | _ => .error "prev: [library, section, name, hedId]"
  let uni ← (← getArr j "uni").mapM fun r => do
    match ← asArr r with
    | [Json.str c, Json.bool a, Json.bool u, Json.bool d] =>
      match c.toList with
      | [ch] => pure (ch, a, u, d)
      | _ => .error "uni: one character"
    | _ => .error "uni: [char, alnum, upper, digit]"
  pure ⟨known, ranges, prev, uni⟩

def faultOf (j : Json) : Except String Fault := do
  let k ← getString j "k"
  let i ← getNat j "i"
  let t : Except String Sec := do secOf (← getString j "t")
  let a : Except String String := getString j "a"
  let v : Except String Str := getStr j "v"
  match k with
  | "dupNode" => pure (.dupNode i)
  | "undeclared" => pure (.undeclared (← t) i (← a).toList)
  | "missingRef" =>
    let r ← match ← a with
      | "unitClass" => pure RefAttr.unitClass
      | "valueClass" => pure RefAttr.valueClass
      | "suggestedTag" => pure RefAttr.suggestedTag
      | "relatedTag" => pure RefAttr.relatedTag
      | x => .error s!"missingRef attribute {x}"
    pure (.missingRef r i (← v))
  | "classAttr" =>
    let c ← match ← a with
      | "unitClass" => pure ClassAttr.unitClass
      | "valueClass" => pure ClassAttr.valueClass
      | "takesValue" => pure ClassAttr.takesValue
      | x => .error s!"classAttr attribute {x}"
    pure (.classAttr c i (← valOf (← getVal j "v")))
  | "deprecatedFrom" => pure (.deprecatedFrom (← t) i (← v))
  | "conversionFactor" => pure (.conversionFactor (← t) i (← v))
  | "defaultUnits" => pure (.defaultUnits i (← v))
  | "allowedCharacter" => pure (.allowedCharacter (← t) i (← v))
  | "inLibrary" => pure (.inLibrary (← t) i (← v))
  | "hedId" => pure (.hedId (← t) i (← v))
  | _ => .error s!"unknown fault kind {k}"

def issueJson (i : Issue) : Json :=
  jarr [jstr i.code, jnat i.sev, jstr i.sec, jstr i.entry, jstr i.attr]

def resultJson (env : Env) (s : Schema) : List (String × Json) :=
  [("on", jarr ((check env s true).map issueJson)), ("off", jarr ((check env s false).map issueJson))]

/-- for seeded schemas the warnings-off list is the error-severity subset of the warnings-on list
(`HedVerif.C14.errors_only` proves `check env s false` equal to it for every schema); `check … false` itself is
run on the released schemas -/
def seededJson (env : Env) (s : Schema) : List (String × Json) :=
  let on := check env s true
  [("on", jarr (on.map issueJson)), ("off", jarr ((on.filter (·.sev ≤ sevError)).map issueJson))]

/-- a seed request: one of the ten attribute / node faults, or `dupAt`: one more entry `e` (a full entry: for a
tag its long name says where it is placed) appended to section `t` -/
inductive SeedReq
  | fault (f : Fault)
  | dup (t : Sec) (e : Entry)
  | edits (l : List (Sec × Nat × Str × AttrVal))   -- several "set attribute `a` to `v` on entry `i` of section `t`" at once

def seedReqOf (j : Json) : Except String SeedReq := do
  if (← getString j "k") == "dupAt" then
    pure (.dup (← secOf (← getString j "t")) (← entryOf (← getVal j "e")))
  else if (← getString j "k") == "edits" then
    pure (.edits (← (← getArr j "l").mapM fun x => do
      pure (← secOf (← getString x "t"), ← getNat x "i", ← getStr x "a", ← valOf (← getVal x "v"))))
  else pure (.fault (← faultOf j))

def seedAnswer (env : Env) (s : Schema) : SeedReq → Json
  | .fault f =>
    jobj (("adm", jbool (admissible env f s)) :: ("kind", Json.str (reprStr f.kind)) :: seededJson env (seed f s))
  | .edits l =>
    let s' := l.foldl (fun acc x => acc.modify x.1 x.2.1 (withAttr x.2.2.1 x.2.2.2)) s
    jobj (("adm", jbool true) :: ("kind", Json.str "edits") ::
          ("valid", jarr (l.map fun x => jbool (decide (x.2.2.1 ∈ validAttrs s' x.1)))) :: seededJson env s')
  | .dup t e =>
    let s' := s.append t e
    jobj (("adm", jbool (dupAdmissible s t e)) :: ("kind", Json.str "dupAt") ::
          ("dupCode", jstr (dupCodeOf s' (tagCtx s') t (probeOf t e)).code) :: seededJson env s')

/-- `c14.run`: one schema, its environment, and a list of faults to seed; self-contained -/
def handle (op : String) (j : Json) : Option (Except String Json) :=
  match op with
  | "c14.run" => some do
    let s ← schemaOf (← getVal j "schema")
    let env ← envOf (← getVal j "env")
    let seeds ← (← getArr j "seeds").mapM seedReqOf
    pure (jobj [
      ("gen83", jbool (gen83 s)), ("stdRanges", jbool (stdRanges s)), ("compliant", jbool (compliantB env s)),
      ("counts", jarr (secOrder.map fun t => jarr [jnat (s.sec t).length, jnat (visible s t).length])),
      ("base", jobj (resultJson env s)),
      ("seeds", jarr (seeds.map (seedAnswer env s)))])
  | _ => none

end HedVerif.Driver.C14
