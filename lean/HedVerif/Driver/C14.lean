import HedVerif.Driver.Util
open Lean
namespace HedVerif.Driver.C14
open HedVerif HedVerif.Driver

/-- requests `{"op":"c14.<name>", ...}` of property C14 (stub: none yet) -/
def handle (_op : String) (_j : Json) : Option (Except String Json) := none

end HedVerif.Driver.C14
