/- JSON helpers for the line-protocol driver. -/
import Lean.Data.Json
import HedVerif.Model.Tok
open Lean

namespace HedVerif.Driver

def jstr (s : Str) : Json := Json.str (String.ofList s)
def jnat (n : Nat) : Json := Json.num (JsonNumber.fromNat n)
def jint (n : Int) : Json := Json.num (JsonNumber.fromInt n)
def jarr (xs : List Json) : Json := Json.arr xs.toArray
def jobj (kvs : List (String × Json)) : Json := Json.mkObj kvs
def jbool (b : Bool) : Json := Json.bool b
def jopt {α} (f : α → Json) : Option α → Json
  | none => Json.null
  | some a => f a

def getStr (j : Json) (k : String) : Except String Str :=
  match j.getObjVal? k with
  | .ok (Json.str s) => .ok s.toList
  | _ => .error s!"missing string field {k}"

def getString (j : Json) (k : String) : Except String String :=
  match j.getObjVal? k with
  | .ok (Json.str s) => .ok s
  | _ => .error s!"missing string field {k}"

def getNat (j : Json) (k : String) : Except String Nat :=
  match j.getObjVal? k with
  | .ok v => match v.getNat? with
    | .ok n => .ok n
    | .error _ => .error s!"field {k} is not a natural number"
  | _ => .error s!"missing field {k}"

def getInt (j : Json) (k : String) : Except String Int :=
  match j.getObjVal? k with
  | .ok v => match v.getInt? with
    | .ok n => .ok n
    | .error _ => .error s!"field {k} is not an integer"
  | _ => .error s!"missing field {k}"

def getBool (j : Json) (k : String) : Except String Bool :=
  match j.getObjVal? k with
  | .ok (Json.bool b) => .ok b
  | _ => .error s!"missing bool field {k}"

def getBoolD (j : Json) (k : String) (d : Bool) : Bool :=
  match j.getObjVal? k with
  | .ok (Json.bool b) => b
  | _ => d

def getArr (j : Json) (k : String) : Except String (List Json) :=
  match j.getObjVal? k with
  | .ok (Json.arr a) => .ok a.toList
  | _ => .error s!"missing array field {k}"

def getVal (j : Json) (k : String) : Except String Json :=
  match j.getObjVal? k with
  | .ok v => .ok v
  | _ => .error s!"missing field {k}"

def asStr : Json → Except String Str
  | Json.str s => .ok s.toList
  | _ => .error "expected string"

def asNat (j : Json) : Except String Nat :=
  match j.getNat? with
  | .ok n => .ok n
  | .error _ => .error "expected nat"

def asArr : Json → Except String (List Json)
  | Json.arr a => .ok a.toList
  | _ => .error "expected array"

/-- A handler answers one request or fails with a message (reported as `bad-op`). -/
abbrev Handler := Json → Except String Json

end HedVerif.Driver
