import HedVerif.Driver.Util
import HedVerif.Driver.C11
import HedVerif.Model.Validate
open Lean
namespace HedVerif.Driver.C01
open HedVerif HedVerif.Driver HedVerif.Validate

/- requests of property C01.  `c01.run` is self-contained (vocabulary, attributes, unit classes, character
   data and a list of cases in one request), so no session state is needed. -/

def getStrList (j : Json) (k : String) : Except String (List Str) := do
  (← getArr j k).mapM asStr

def getCharList (j : Json) (k : String) : Except String (List Char) := do
  pure ((← getArr j k).filterMap fun x => match x.getNat? with
    | .ok n => some (Char.ofNat n)
    | .error _ => none)

def attrOf (j : Json) : Except String TagAttr := do
  let parent := match j.getObjVal? "parent" with
    | .ok v => (match v.getNat? with | .ok n => some n | .error _ => none)
    | .error _ => none
  pure { extensionAllowed := getBoolD j "ext" false, takesValue := getBoolD j "tv" false,
         requireChild := getBoolD j "rc" false, tagGroup := getBoolD j "tg" false,
         topLevelTagGroup := getBoolD j "tl" false, unique := getBoolD j "uq" false,
         required := getBoolD j "rq" false, deprecated := getBoolD j "dep" false,
         unitClasses := (← (← getArr j "uc").mapM asNat), valueClasses := (← getStrList j "vc"),
         parent := parent }

def envOf (j : Json) : Except String Env := do
  let tags ← getStrList j "tags"
  let attrs ← (← getArr j "attrs").mapM attrOf
  let mods ← (← getArr j "mods").mapM C11.modOf
  let classes ← (← getArr j "classes").mapM C11.classOf
  let cd : CharData := { nonPrintable := ← getCharList j "nonprintable", space := ← getCharList j "space",
                         alnum := ← getCharList j "alnum", alpha := ← getCharList j "alpha" }
  let var : Variant := { sortCanonical := getBoolD j "sortCanonical" false, eqFold := getBoolD j "eqFold" false,
                         emptyDupSafe := getBoolD j "emptyDupSafe" false,
                         defCharRelocate := getBoolD j "defCharRelocate" false }
  let ns ← getStr j "ns"
  let modern ← getBool j "modern"
  let env0 : Env := { var := var, vocab := Schema.Vocab.build fold (tags.map Schema.splitSlash), ns := ns,
                      attrs := attrs.toArray, mods := mods, unitClasses := classes.toArray,
                      modern := modern, cd := cd }
  -- the definition dictionary: content text of each definition, resolved against the same vocabulary
  let defs ← (match j.getObjVal? "defs" with
    | .ok (Json.arr a) => a.toList.mapM fun d => do
        let text ← getStr d "text"
        let key ← getStr d "key"
        let takes ← getBool d "takes"
        pure ({ key := key, takes := takes, content := resolveList env0 text (Tree.construct text) } : DefEntry)
    | _ => pure [])
  pure { env0 with defs := defs }

def pairJson : Option (Nat × Nat) → Json
  | some (a, b) => jarr [jnat a, jnat b]
  | none => Json.null

/-- text as code points: the harness splits the driver's output with `str.splitlines`, which also breaks at
U+0085, U+001C.., U+2028 -/
def jcps (s : Str) : Json := jarr (s.map fun c => jnat c.toNat)

def issueJson (i : Issue) : Json :=
  jobj [("kind", jstr i.kind.name), ("code", jstr i.code), ("sev", jnat i.sev), ("span", pairJson i.span),
        ("sub", pairJson i.sub), ("chr", jopt jnat i.chr), ("txt", jopt jcps i.txt)]

def valueJson : DelayVal → Json
  | .value d => jobj [("v", C11.decJson d)]
  | .absent => Json.str "absent"
  | .raises => Json.str "raises"
  | .unsure => Json.str "unsure"

/-- `Validate.delayItems` for texts that hold `delay/` (what `split_delay_tags` looks at) -/
def itemsJson (env : Env) (text : Str) : Json :=
  if (findSub (fold text) (fold Generated.CodeMap.delayKey ++ ['/'])).isSome then
    jarr ((delayItems env text).map fun (s, d) => jobj [("str", jcps s), ("delay", jopt valueJson d)])
  else Json.null

def caseJson (env : Env) (j : Json) : Except String Json := do
  let text ← getStr j "text"
  let ph ← getBool j "ph"
  let p := parse env text
  pure (jobj [("issues", jarr ((validateP env ph text p).map issueJson)),
              ("raises", jbool (raisesP env ph text p)),
              ("unmodelled", jbool (unmodelledP env p)),
              ("why", match unmodelledWhy env p with | some w => Json.str w | none => Json.null),
              ("unmodelled_old", jbool (unmodelledOldP env p)),
              ("items", itemsJson env text),
              -- the hypothesis `LookupStable` of `C01.issue_indices_in_tag`, evaluated on this text
              ("stable", jbool ((tagsList p.root0).all fun t => !t.entry.isSome ||
                ((canon env t).2.isEmpty && decide ((canon env t).1.extVal.length ≤ t.extVal.length)))),
              -- its conclusion, evaluated directly: every index pair inside its tag, every tag inside the text
              ("inrange", jbool ((validateP env ph text p).all fun i => match i.span, i.sub with
                | some (s, e), some (a, b) => decide (a ≤ b ∧ b ≤ e - s ∧ s ≤ e ∧ e ≤ text.length)
                | _, _ => true))])

def handle (op : String) (j : Json) : Option (Except String Json) :=
  match op with
  | "c01.run" => some do
      let env ← envOf j
      let answers ← (← getArr j "cases").mapM (caseJson env)
      pure (jobj [("answers", jarr answers), ("dups", jarr (env.vocab.dups.map jnat))])
  | _ => none

end HedVerif.Driver.C01
