import HedVerif.Driver.Util
open Lean
namespace HedVerif.Driver.C01
open HedVerif HedVerif.Driver

/-- requests `{"op":"c01.<name>", ...}` of property C01 (stub: none yet) -/
def handle (_op : String) (_j : Json) : Option (Except String Json) := none

end HedVerif.Driver.C01
