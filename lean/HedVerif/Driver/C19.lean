import HedVerif.Driver.Util
import HedVerif.Model.Cache
open Lean
namespace HedVerif.Driver.C19
open HedVerif HedVerif.Driver HedVerif.Cache

def parseProto (s : String) : Except String Proto :=
  match s with
  | "safe" => .ok .safe
  | "current" => .ok .current
  | "pathlock" => .ok .pathlock
  | "buffered" => .ok .buffered
  | "unanchored" => .ok .unanchored
  | _ => .error s!"unknown proto {s}"

def parseProc (j : Json) : Except String (Kind × Nat × Nat) := do
  let k ← getString j "kind"
  let a ← getNat j "arg"
  let now ← getNat j "now"
  let al := match getNat j "alias" with | .ok a => a | .error _ => 0
  match k with
  | "populate" => pure (.populate, now, al)
  | "load" => pure (.load a, now, al)
  | "refresh" => pure (.refresh a, now, al)
  | "peek" => pure (.peek a, now, al)
  | _ => throw s!"unknown process kind {k}"

def parseAction (j : Json) : Except String Action := do
  let xs ← asArr j
  match xs with
  | [p, c] =>
    let p ← asNat p
    let c ← asNat c
    pure (if c = 0 then .step p else .crash p)
  | _ => throw "action must be [pid, 0|1]"

def contentJson (ct : Content) : Json := jarr [jnat ct.src, jarr (ct.chunks.map jbool)]

def statusName : Status → String
  | .running => "running" | .finished => "finished" | .crashed => "crashed"

def errJson : Option CErr → Json
  | none => Json.null
  | some .tooRecent => Json.str "tooRecent"
  | some .lockTimeout => Json.str "lockTimeout"
  | some .tsUnreadable => Json.str "tsUnreadable"

def gotJson : Option (Option Content) → Json
  | none => Json.null
  | some none => Json.str "notFound"
  | some (some ct) => contentJson ct

def pcName : Pc → String
  | .list1 => "list1" | .readTs => "readTs" | .openLock => "openLock" | .tryLock _ => "tryLock"
  | .pick _ => "pick" | .mktemp _ => "mktemp" | .create _ => "create" | .append _ _ => "append"
  | .close _ => "close" | .rename _ => "rename" | .truncTs => "truncTs" | .writeTs => "writeTs" | .unlock => "unlock" | .list2 => "list2" | .read => "read"

def procJson (pr : Proc) : Json :=
  jobj [("status", Json.str (statusName pr.status)), ("err", errJson pr.err), ("saw", jbool pr.saw),
        ("got", gotJson pr.got), ("pc", Json.str (pcName pr.pc)), ("region", jbool pr.inRegion)]

/-- `{"op":"c19.run","proto":"safe"|"current","cfg":{nFiles,chunks,thr,retries},
"procs":[{"kind","arg","now"}],"sched":[[pid,0=step|1=crash],…]}` → trace of primitives, whether two
processes were ever inside the locked region together, final directory and process records. -/
def handle (op : String) (j : Json) : Option (Except String Json) :=
  match op with
  | "c19.run" => some do
      let proto ← parseProto (← getString j "proto")
      let cj ← getVal j "cfg"
      let c : Cfg := ⟨← getNat cj "nFiles", ← getNat cj "chunks", ← getNat cj "thr", ← getNat cj "retries"⟩
      let ps ← (← getArr j "procs").mapM parseProc
      let sched ← (← getArr j "sched").mapM parseAction
      let n := ps.length
      let (tr, ov, s) := run c proto n sched (init ps)
      let nf := ps.foldl (fun m (k, _, _) => match k with | .refresh r => max m r | _ => m) c.nFiles
      let finals := (List.range nf).filterMap fun f =>
        (s.files (.final f)).map fun ct => jarr [jnat f, contentJson ct, jbool (ct == full c f)]
      let tmps := (List.range n).flatMap fun p => (List.range nf).filterMap fun f =>
        (s.files (.tmp p f)).map fun ct => jarr [jnat p, jnat f, contentJson ct]
      pure <| jobj [
        ("trace", jarr (tr.map fun e => jarr [jnat e.pid, Json.str e.what, jnat e.i, jnat e.j])),
        ("overlap", jbool ov),
        ("finals", jarr finals), ("tmps", jarr tmps),
        ("lockFile", jbool s.lockFile), ("holder", jopt jnat s.holder), ("ts", jopt jnat s.ts), ("tsTorn", jbool s.tsTorn),
        ("dirty", jbool s.dirty),
        ("procs", jarr ((List.range n).map fun p => procJson (s.procs p)))]
  | "c19.isurl" => some do
      let t ← getStr j "text"
      pure <| jobj [("url", jbool (checkIfUrl t))]
  | _ => none

end HedVerif.Driver.C19
