import HedVerif.Driver.Util
open Lean
namespace HedVerif.Driver.C19
open HedVerif HedVerif.Driver

/-- requests `{"op":"c19.<name>", ...}` of property C19 (stub: none yet) -/
def handle (_op : String) (_j : Json) : Option (Except String Json) := none

end HedVerif.Driver.C19
