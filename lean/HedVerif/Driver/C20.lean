import HedVerif.Driver.Util
import HedVerif.Model.Events
open Lean
namespace HedVerif.Driver.C20
open HedVerif HedVerif.Driver HedVerif.Events

/-- ASCII case folding (the harness generates ASCII names only; Python `casefold` = `lower` there) -/
def foldAscii (s : Events.Str) : Events.Str := s.map Char.toLower

def strs (xs : List Events.Str) : Json := jarr (xs.map jstr)

def rejectName : Reject → String
  | .unordered => "unordered"
  | .unmatchedOffset => "unmatchedOffset"
  | .noDef => "noDef"
  | .badValue => "badValue"

structure Variant where
  types : List Events.Str
  ctx : Bool
  replace : Bool

def variantOf (j : Json) : Except String Variant := do
  let ts ← (← getArr j "types").mapM asStr
  pure ⟨ts, ← getBool j "ctx", ← getBool j "replace"⟩

/-- request `{"op":"c20.text","rows":[{"time":t,"hed":"…"}],"vals":[[tag text,int]],"defs":[[name,"contents"]],
"variants":[{"types":[…],"ctx":bool,"replace":bool}]}` — the whole pipeline on the text of the file -/
def handle (op : String) (j : Json) : Option (Except String Json) :=
  match op with
  | "c20.text" => some do
      let rows ← (← getArr j "rows").mapM fun r => do
        pure (⟨← getInt r "time", parse (← getStr r "hed")⟩ : TextRow)
      let valTbl ← (← getArr j "vals").mapM fun v => do
        match ← asArr v with
        | [Json.str t, n] => match n.getInt? with
          | .ok i => pure (t.toList, i)
          | .error _ => .error "value must be int"
        | _ => .error "vals entry must be [text, int]"
      let defs ← (← getArr j "defs").mapM fun d => do
        match ← asArr d with
        | [Json.str n, Json.str c] => pure (n.toList, parse c.toList)
        | _ => .error "defs entry must be [name, contents]"
      let variants ← (← getArr j "variants").mapM variantOf
      let vals : Events.Str → Option Int := fun t => (valTbl.find? fun e => e.1 == t).map (·.2)
      match buildText foldAscii vals rows with
      | .error e => pure <| jobj [("ok", jbool false), ("reject", Json.str (rejectName e))]
      | .ok b =>
        let tbl := table rows
        let n := b.ts.length
        let idx := List.range n
        let rs := (toRows vals 0 rows).toOption.getD []
        let sp := specProcs foldAscii b.ts (timed (history rs))
        let txt := fun (c : Nat) => render (contentOf tbl c)
        pure <| jobj [
          ("ok", jbool true),
          ("onsets", jarr (b.ts.map jint)),
          ("procs", jarr (b.procs.map fun p => jarr [jnat p.start, jopt jnat p.stop, jstr (txt p.content)])),
          ("base", jarr (idx.map fun i => strs ((baseNodes tbl b i).map render))),
          ("contexts", jarr (idx.map fun i =>
              jarr ((b.procs.filter (inContext i)).map fun p => jarr [jstr (txt p.content), jnat p.start]))),
          ("hed", jarr (idx.map fun i => strs ((remNodes tbl b i).map render))),
          ("objs", jarr (variants.map fun v => jarr (idx.map fun i =>
              strs ((objNodes defs v.types v.ctx v.replace tbl b i).map render)))),
          ("typedefs", jarr (variants.map fun v => strs (typeDefNames defs v.types))),
          ("spec", jarr (b.ts.map fun τ => jarr [strs ((specContext sp τ).map txt),
              strs ((specContextIncl sp τ).map txt), strs ((specStarts sp τ).map txt)]))]
  | _ => none

end HedVerif.Driver.C20
