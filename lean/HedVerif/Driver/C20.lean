import HedVerif.Driver.Util
import HedVerif.Model.Events
open Lean
namespace HedVerif.Driver.C20
open HedVerif HedVerif.Driver HedVerif.Events

/-- ASCII case folding (the harness generates ASCII names only; Python `casefold` = `lower` there) -/
def foldAscii (s : Events.Str) : Events.Str := s.map Char.toLower

def itemOf (j : Json) : Except String Item := do
  let a ← asArr j
  match a with
  | [Json.str "onset", Json.str n, c] => pure (.onset n.toList (← asNat c))
  | [Json.str "offset", Json.str n] => pure (.offset n.toList)
  | [Json.str "duration", l, c] =>
    match l.getInt? with
    | .ok len => pure (.duration len (← asNat c))
    | .error _ => .error "duration length must be int"
  | [Json.str "plain", c] => pure (.plain (← asNat c))
  | _ => .error "bad item"

def rowOf (j : Json) : Except String Row := do
  let t ← getInt j "time"
  let items ← (← getArr j "items").mapM itemOf
  let ds ← (← getArr j "delayed").mapM fun d => do
    let a ← asArr d
    match a with
    | [dt, it] => match dt.getInt? with
      | .ok n => pure (n, ← itemOf it)
      | .error _ => .error "delay must be int"
    | _ => .error "delayed entry must be [delay, item]"
  pure ⟨t, items, ds⟩

def nats (xs : List Nat) : Json := jarr (xs.map jnat)

/-- requests `{"op":"c20.build","rows":[{"time":t,"items":[…],"delayed":[[d,item],…]},…]}` -/
def handle (op : String) (j : Json) : Option (Except String Json) :=
  match op with
  | "c20.build" => some do
      let rows ← (← getArr j "rows").mapM rowOf
      match build foldAscii rows with
      | .error .unordered => pure <| jobj [("ok", jbool false), ("reject", Json.str "unordered")]
      | .error .unmatchedOffset => pure <| jobj [("ok", jbool false), ("reject", Json.str "unmatchedOffset")]
      | .ok b =>
        let n := b.ts.length
        let sp := specProcs foldAscii b.ts (timed (history rows))
        pure <| jobj [
          ("ok", jbool true),
          ("onsets", jarr (b.ts.map jint)),
          ("procs", jarr (b.procs.map fun p => jarr [jnat p.start, jopt jnat p.stop, jnat p.content])),
          ("base", jarr (base b |>.map nats)),
          ("contexts", jarr ((List.range n).map fun i =>
              jarr ((b.procs.filter (inContext i)).map fun p => jarr [jnat p.content, jnat p.start]))),
          ("remainder", jarr (b.rem.map nats)),
          ("spec", jarr (b.ts.map fun τ => jarr [nats (specContext sp τ), nats (specContextIncl sp τ),
                                                 nats (specStarts sp τ)]))]
  | _ => none

end HedVerif.Driver.C20
