import HedVerif.Driver.Util
open Lean
namespace HedVerif.Driver.C20
open HedVerif HedVerif.Driver

/-- requests `{"op":"c20.<name>", ...}` of property C20 (stub: none yet) -/
def handle (_op : String) (_j : Json) : Option (Except String Json) := none

end HedVerif.Driver.C20
