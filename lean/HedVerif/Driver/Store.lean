/- Session state of the driver: vocabularies installed by preamble requests. -/
import HedVerif.Model.Schema
namespace HedVerif.Driver

structure Installed where
  vocab : Schema.Vocab
  ns : Str                -- "" or "xx:"

initialize schemaStore : IO.Ref (List (String × Installed)) ← IO.mkRef []

def foldAscii (s : Str) : Str := s.map Char.toLower

def getSchema (name : String) : IO (Option Installed) := do
  let st ← schemaStore.get
  pure ((st.find? (·.1 == name)).map (·.2))

end HedVerif.Driver
