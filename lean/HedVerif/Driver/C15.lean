import HedVerif.Driver.Util
import HedVerif.Model.Query
open Lean
namespace HedVerif.Driver.C15
open HedVerif HedVerif.Driver

def errName : Query.ParseErr → String
  | .nextToken => "nextToken" | .trailing => "trailing" | .missingParen => "missingParen"
  | .missingBracket => "missingBracket" | .missingCurly => "missingCurly"
  | .negWildcard => "negWildcard" | .negInExact => "negInExact" | .unexpected => "unexpected"
  | .fuel => "fuel"

/-- a node `["t", id, str, fold, orgFold, [terms]]` or `["g", id, [kids]]` -/
partial def nodeOf (j : Json) : Except String Query.Node := do
  let a ← asArr j
  match a with
  | [Json.str "t", i, s, f, o, ts] =>
    let terms ← (← asArr ts).mapM asStr
    pure (.tag ⟨← asNat i, ← asStr s, ← asStr f, ← asStr o, terms⟩)
  | [Json.str "g", i, ks] =>
    let kids ← (← asArr ks).mapM nodeOf
    pure (.group (← asNat i) true kids)
  | _ => throw "bad tree node"

/-- the `HedString`: `{"id": n, "kids": [...]}` -/
def treeOf (j : Json) : Except String Query.Tree := do
  let kids ← (← getArr j "kids").mapM nodeOf
  pure ⟨← getNat j "id", kids⟩

def resJson (r : Query.Result) : Json :=
  jarr [jnat r.group.id, jarr (r.tags.map (fun n => jnat n.id))]

def tokJson (t : Query.Token) : Json := jarr [Json.str (toString (repr t.kind)), jstr t.text]

/-- `c15.parse {text}` → parse outcome; `c15.eval {text, tree}` → outcome, match, results;
`c15.tok {text}` → token texts.  `legacy: true` selects the code before the repair. -/
def handle (op : String) (j : Json) : Option (Except String Json) :=
  match op with
  | "c15.tok" => some do
      let s ← getStr j "text"
      let legacy := getBoolD j "legacy" false
      pure <| jarr ((Query.tokenizeWith legacy (Query.asciiFold s)).map (fun t => jstr t.text))
  | "c15.parse" => some do
      let s ← getStr j "text"
      let legacy := getBoolD j "legacy" false
      match Query.parseWith legacy s with
      | .ok _ => pure <| jobj [("ok", jbool true), ("err", Json.null)]
      | .error e => pure <| jobj [("ok", jbool false), ("err", Json.str (errName e))]
  | "c15.eval" => some do
      let s ← getStr j "text"
      let legacy := getBoolD j "legacy" false
      let t ← treeOf (← getVal j "tree")
      match Query.parseWith legacy s with
      | .ok e =>
        let rs := Query.eval e t
        pure <| jobj [("ok", jbool true), ("err", Json.null), ("match", jbool (Query.isMatch e t)),
                      ("results", jarr (rs.map resJson))]
      | .error e => pure <| jobj [("ok", jbool false), ("err", Json.str (errName e))]
  | _ => none

end HedVerif.Driver.C15
