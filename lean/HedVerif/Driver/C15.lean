import HedVerif.Driver.Util
open Lean
namespace HedVerif.Driver.C15
open HedVerif HedVerif.Driver

/-- requests `{"op":"c15.<name>", ...}` of property C15 (stub: none yet) -/
def handle (_op : String) (_j : Json) : Option (Except String Json) := none

end HedVerif.Driver.C15
