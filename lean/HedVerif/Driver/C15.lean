import HedVerif.Driver.Util
import HedVerif.Model.Query
open Lean
namespace HedVerif.Driver.C15
open HedVerif HedVerif.Driver

def errName : Query.ParseErr → String
  | .nextToken => "nextToken" | .trailing => "trailing" | .missingParen => "missingParen"
  | .missingBracket => "missingBracket" | .missingCurly => "missingCurly"
  | .negWildcard => "negWildcard" | .negInExact => "negInExact" | .unexpected => "unexpected"
  | .fuel => "fuel"

/-- a node `["t", id, str, fold, orgFold, [terms]]` or `["g", id, [kids]]` -/
partial def nodeOf (j : Json) : Except String Query.Node := do
  let a ← asArr j
  match a with
  | [Json.str "t", i, s, f, o, ts] =>
    let terms ← (← asArr ts).mapM asStr
    pure (.tag ⟨← asNat i, ← asStr s, ← asStr f, ← asStr o, terms⟩)
  | [Json.str "g", i, ks] =>
    let kids ← (← asArr ks).mapM nodeOf
    pure (.group (← asNat i) true kids)
  | _ => throw "bad tree node"

/-- the `HedString`: `{"id": n, "kids": [...]}` -/
def treeOf (j : Json) : Except String Query.Tree := do
  let kids ← (← getArr j "kids").mapM nodeOf
  pure ⟨← getNat j "id", kids⟩

def resJson (r : Query.Result) : Json :=
  jarr [jnat r.group.id, jarr (r.tags.map (fun n => jnat n.id))]

def tokJson (t : Query.Token) : Json := jarr [Json.str (toString (repr t.kind)), jstr t.text]

/-- `c15.parse {text}` → parse outcome; `c15.eval {text, tree}` → outcome, match, results;
`c15.tok {text}` → token texts; `c15.batch {queries, names, trees}` → the batch interface.
`legacy: true` / `structeq: true` select the code before the two repairs. -/
def handle (op : String) (j : Json) : Option (Except String Json) :=
  match op with
  | "c15.tok" => some do
      let s ← getStr j "text"
      let legacy := getBoolD j "legacy" false
      pure <| jarr ((Query.tokenizeWith legacy (Query.asciiFold s)).map (fun t => jstr t.text))
  | "c15.parse" => some do
      let s ← getStr j "text"
      let legacy := getBoolD j "legacy" false
      match Query.parseWith legacy s with
      | .ok _ => pure <| jobj [("ok", jbool true), ("err", Json.null)]
      | .error e => pure <| jobj [("ok", jbool false), ("err", Json.str (errName e))]
  | "c15.eval" => some do
      let s ← getStr j "text"
      let legacy := getBoolD j "legacy" false
      let se := getBoolD j "structeq" false
      let t ← treeOf (← getVal j "tree")
      match Query.parseWith legacy s with
      | .ok e =>
        let rs := Query.evalWith se e t
        pure <| jobj [("ok", jbool true), ("err", Json.null), ("match", jbool (Query.isMatchWith se e t)),
                      ("results", jarr (rs.map resJson))]
      | .error e => pure <| jobj [("ok", jbool false), ("err", Json.str (errName e))]
  | "c15.batch" => some do
      -- `get_query_handlers(queries, names)` then `search_hed_objs(objs, <compiled handlers>, ...)`
      let qs ← (← getArr j "queries").mapM asStr
      let names : Option (List Str) ← match j.getObjVal? "names" with
        | .ok (Json.arr a) => (a.toList.mapM asStr).map some
        | _ => pure none
      let se := getBoolD j "structeq" false
      let trees ← (← getArr j "trees").mapM treeOf
      match Query.getHandlers qs names with
      | none => pure <| jobj [("none", jbool true)]
      | some (hs, nm, n) =>
        let good := hs.filterMap id
        pure <| jobj [("none", jbool false), ("handlers", jarr (hs.map (fun h => jbool h.isSome))),
                      ("names", jarr (nm.map jstr)), ("issues", jnat n),
                      ("cells", jarr ((Query.searchObjs se trees good).map (fun row => jarr (row.map jnat))))]
  | _ => none

end HedVerif.Driver.C15
