import HedVerif.Driver.Util
import HedVerif.Driver.Closed
import HedVerif.Model.Issue
import HedVerif.Model.IssueFlow
import HedVerif.Generated.C12Sort
open Lean
namespace HedVerif.Driver.C12
open HedVerif HedVerif.Driver HedVerif.Issue

def optNat (j : Json) (k : String) : Option Nat :=
  match j.getObjVal? k with
  | .ok v => match v.getNat? with | .ok n => some n | .error _ => none
  | .error _ => none

/-- context values on the wire: JSON number = int, JSON string = str, `{"ref": text}` = an object whose `str()` is text -/
def valOf (v : Json) : Val :=
  match v with
  | Json.str s => Val.str s.toList
  | Json.num n => Val.num n.mantissa   -- integers only (exponent 0)
  | Json.obj _ => match v.getObjVal? "ref" with
    | .ok (Json.str t) => Val.ref t.toList
    | _ => Val.str []
  | _ => Val.str []

def valJson : Val → Json
  | .num n => jint n
  | .str s => jstr s
  | .ref t => jobj [("ref", jstr t)]
  | .list _ => Json.null

def issueOf (j : Json) : Except String Issue := do
  let sev ← getNat j "severity"
  let span := match j.getObjVal? "span" with
    | .ok (Json.arr #[a, b]) => match a.getNat?, b.getNat? with
      | .ok x, .ok y => some (x, y)
      | _, _ => none
    | _ => none
  let ctx : List (Str × Val) := match j.getObjVal? "ctx" with
    | .ok (Json.obj kvs) => kvs.toList.map fun (k, v) => (k.toList, valOf v)
    | .ok (Json.arr kvs) => kvs.toList.filterMap fun kv =>      -- ordered: [[key, value], …]
        match kv with
        | Json.arr #[Json.str k, v] => some (k.toList, valOf v)
        | _ => none
    | _ => []
  pure { code := [], severity := sev, span := span, modified := getBoolD j "modified" false,
         idx := optNat j "idx", idxEnd := optNat j "idxEnd", ctx := ctx }

def iterN (f : Issue → Issue) : Nat → Issue → Issue
  | 0, a => a
  | n + 1, a => iterN f n (f a)

def opOf (j : Json) : Except String Op := do
  match ← getString j "t" with
  | "push" =>
    let k ← getStr j "k"
    let v := match j.getObjVal? "v" with
      | .ok Json.null => none
      | .ok v => some (valOf v)
      | .error _ => none
    pure (.push k v)
  | "pop" => pure .pop
  | "reset" => pure .reset
  | "format" => pure (.format (← issueOf j))
  | t => .error s!"unknown history op {t}"

def ctxJson (d : List (Str × Val)) : Json := jarr (d.map fun kv => jarr [jstr kv.1, valJson kv.2])

def intKeys : List Str := (Generated.C12.sortList.filter (·.2)).map (·.1)

def lineJson : Line → Json
  | .ctx n k => jarr [jnat n, Json.str "c", jstr k.1, jstr k.2]
  | .issue n i => jarr [jnat n, Json.str "i", jnat (i.idx.getD 0)]

def locJson (i : Issue) : Json :=
  jarr [jstr i.code, jnat i.severity,
        match i.span with | some (a, b) => jarr [jnat a, jnat b] | none => Json.null,
        match i.charIdx with | some (a, b) => jarr [jnat a, jnat b] | none => Json.null]

/-- one string under `ErrorHandler(check_for_warnings = w)` holding the HED_STRING context -/
def stringJson (env : Validate.Env) (j : Json) : Except String Json := do
  let text ← getStr j "text"
  let ph ← getBool j "ph"
  let p := Validate.parse env text
  if Validate.unmodelledP env p then pure (jobj [("unmodelled", jbool true)]) else
  if Validate.raisesP env ph text p then pure (jobj [("raises", jbool true)]) else
  let loc := fun (w : Bool) => (Flow.validateWP w env ph text p).map fun i => updateCharPos true (Flow.toIssue i)
  pure (jobj [("on", jarr ((loc true).map locJson)), ("off", jarr ((loc false).map locJson)),
              ("stable", jbool ((Validate.tagsList p.root0).all fun t => !t.entry.isSome ||
                ((Validate.canon env t).2.isEmpty && decide ((Validate.canon env t).1.extVal.length ≤ t.extVal.length))))])

def tabOut (r : Except Tabular.PyExc (List Tabular.Issue)) : Json :=
  match r with
  | .error e => jobj [("exc", Json.str (C07.excName e))]
  | .ok out => jobj [("issues", jarr (out.map fun i =>
      jarr [jstr i.kind, jnat i.sev, jopt jnat i.row, jopt jstr i.col, Json.str (C07.srcName i.src)]))]

/-- `Flow.Tab.validateClosedW w` for both values of `w` (oracle values tabulated: `Closed.memoTab_eq`) -/
def tableJson (env : Validate.Env) (j : Json) : Except String Json := do
  let cfg ← C07.cfgOf j
  let T ← (← getArr j "rows").mapM C07.rowOf
  match (HedVerif.Closed.consulted cfg T).find? (HedVerif.Closed.textUnmodelled env) with
  | some t => pure <| jobj [("unmodelled", jstr t)]
  | none =>
    if T.any (HedVerif.Closed.rowSplit env Closed.kBanned cfg) then pure <| jobj [("unmodelled", Json.str "malformed cell in a checked row")] else
    let ccfg := HedVerif.Closed.closeCfg env Closed.kBanned cfg
    let mcfg := { ccfg with o := HedVerif.Closed.memoTab ccfg.o (HedVerif.Closed.consulted cfg T).eraseDups }
    pure <| jobj [("on", tabOut (Flow.Tab.validateW Tabular.anyError true mcfg T)),
                  ("off", tabOut (Flow.Tab.validateW Tabular.anyError false mcfg T))]

def scOut (r : Except SidecarV.Exn (List SidecarV.Issue)) : Json :=
  match r with
  | .ok is => jobj [("ok", jarr (is.map C08.issueJson))]
  | .error .unmodelled => jobj [("unmodelled", Json.str "pandas coercion")]
  | .error e => jobj [("raise", Json.str (C08.exnName e))]

def docJson (env : Validate.Env) (j : Json) : Except String Json := do
  let doc ← C08.decode (← getVal j "doc")
  let g := if getBoolD j "fixed" true then SidecarV.Guards.fixed else SidecarV.Guards.unfixed
  match Closed.sidecarUnmodelled env g doc with
  | some why => pure <| jobj [("unmodelled", Json.str why)]
  | none =>
    let texts := match Closed.sidecarTexts env g doc with
      | .ok (entries, full) => (entries ++ full).eraseDups
      | .error _ => []
    let O := HedVerif.Closed.memoSidecar (HedVerif.Closed.sidecarOracle env) texts
    -- `early`: the exit before `sort_issues` is taken (structure / reference errors): the list is then not promised sorted
    pure <| jobj [("on", scOut (Flow.Sc.validateW true g O doc)), ("off", scOut (Flow.Sc.validateW false g O doc)),
                  ("early", jbool (C08.early g doc))]

def handle (op : String) (j : Json) : Option (Except String Json) :=
  match op with
  | "c12.ctx" => some do
      let w ← getBool j "w"
      let ops ← (← getArr j "ops").mapM opOf
      match run intKeys w {} ops with
      | none => pure (jobj [("raised", jbool true)])
      | some s => pure (jobj [("raised", jbool false), ("stack", ctxJson s.stack),
                              ("out", jarr (s.out.map fun i => jobj [("id", jnat (i.idx.getD 0)), ("ctx", ctxJson i.ctx)]))])
  | "c12.print" => some do
      let items ← (← getArr j "issues").mapM fun x => do
        let i ← issueOf x
        let id ← getNat x "id"
        pure { i with idx := some id }
      let sev := optNat j "severity"
      pure (jobj [("lines", jarr ((printLines (← getBool j "skipFile") sev items).map lineJson))])
  | "c12.string" => some do
      let env ← C01.envOf j
      pure (jobj [("answers", jarr (← (← getArr j "cases").mapM (stringJson env)))])
  | "c12.file" => some do
      let env ← C01.envOf j
      pure (jobj [("answers", jarr (← (← getArr j "tables").mapM (tableJson env)))])
  | "c12.sidecar" => some do
      let env ← C01.envOf j
      pure (jobj [("answers", jarr (← (← getArr j "docs").mapM (docJson env)))])
  | "c12.decorate" => some do
      let i ← issueOf (← getVal j "issue")
      let hs ← getBool j "hasString"
      let n ← getNat j "passes"
      let d := iterN (updateCharPos hs) n i
      pure <| jobj [("charIdx", match d.charIdx with | some (a, b) => jarr [jnat a, jnat b] | none => Json.null),
                    ("suffixes", jnat d.suffixes)]
  | "c12.sort" => some do
      let items ← (← getArr j "issues").mapM fun x => do
        let i ← issueOf x
        let id ← getNat x "id"
        pure { i with idx := some id }     -- carry the id in an unused field
      let sorted := sortBy (keyOf Generated.C12.sortList) items
      pure <| jobj [("order", jarr (sorted.map fun i => jnat (i.idx.getD 0)))]
  | "c12.sortlist" => some (pure <| jarr (Generated.C12.sortList.map fun (n, b) => jarr [jstr n, jbool b]))
  | _ => none

end HedVerif.Driver.C12
