import HedVerif.Driver.Util
import HedVerif.Model.Issue
import HedVerif.Generated.C12Sort
open Lean
namespace HedVerif.Driver.C12
open HedVerif HedVerif.Driver HedVerif.Issue

def optNat (j : Json) (k : String) : Option Nat :=
  match j.getObjVal? k with
  | .ok v => match v.getNat? with | .ok n => some n | .error _ => none
  | .error _ => none

def issueOf (j : Json) : Except String Issue := do
  let sev ← getNat j "severity"
  let span := match j.getObjVal? "span" with
    | .ok (Json.arr #[a, b]) => match a.getNat?, b.getNat? with
      | .ok x, .ok y => some (x, y)
      | _, _ => none
    | _ => none
  let ctx : List (Str × Val) := match j.getObjVal? "ctx" with
    | .ok (Json.obj kvs) => kvs.toList.map fun (k, v) =>
        (k.toList, match v with
          | Json.str s => Val.str s.toList
          | Json.num n => Val.num n.mantissa   -- integers only (exponent 0)
          | _ => Val.str [])
    | _ => []
  pure { code := [], severity := sev, span := span, modified := getBoolD j "modified" false,
         idx := optNat j "idx", idxEnd := optNat j "idxEnd", ctx := ctx }

def iterN (f : Issue → Issue) : Nat → Issue → Issue
  | 0, a => a
  | n + 1, a => iterN f n (f a)

def handle (op : String) (j : Json) : Option (Except String Json) :=
  match op with
  | "c12.decorate" => some do
      let i ← issueOf (← getVal j "issue")
      let hs ← getBool j "hasString"
      let n ← getNat j "passes"
      let d := iterN (updateCharPos hs) n i
      pure <| jobj [("charIdx", match d.charIdx with | some (a, b) => jarr [jnat a, jnat b] | none => Json.null),
                    ("suffixes", jnat d.suffixes)]
  | "c12.sort" => some do
      let items ← (← getArr j "issues").mapM fun x => do
        let i ← issueOf x
        let id ← getNat x "id"
        pure { i with idx := some id }     -- carry the id in an unused field
      let sorted := sortBy (keyOf Generated.C12.sortList) items
      pure <| jobj [("order", jarr (sorted.map fun i => jnat (i.idx.getD 0)))]
  | "c12.sortlist" => some (pure <| jarr (Generated.C12.sortList.map fun (n, b) => jarr [jstr n, jbool b]))
  | _ => none

end HedVerif.Driver.C12
