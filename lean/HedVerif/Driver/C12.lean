import HedVerif.Driver.Util
open Lean
namespace HedVerif.Driver.C12
open HedVerif HedVerif.Driver

/-- requests `{"op":"c12.<name>", ...}` of property C12 (stub: none yet) -/
def handle (_op : String) (_j : Json) : Option (Except String Json) := none

end HedVerif.Driver.C12
