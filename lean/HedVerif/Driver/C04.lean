import HedVerif.Driver.Util
open Lean
namespace HedVerif.Driver.C04
open HedVerif HedVerif.Driver

/-- requests `{"op":"c04.<name>", ...}` of property C04 (stub: none yet) -/
def handle (_op : String) (_j : Json) : Option (Except String Json) := none

end HedVerif.Driver.C04
