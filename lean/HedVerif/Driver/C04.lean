import HedVerif.Driver.Util
import HedVerif.Model.Dup
open Lean
namespace HedVerif.Driver.C04
open HedVerif HedVerif.Driver HedVerif.Dup

/-- a tree: `[text, key, org]` (three strings) is a tag, `{"g": [...]}` a group -/
partial def treeOf (j : Json) : Except String Tree :=
  match j with
  | Json.arr #[Json.str t, Json.str k, Json.str o] => pure (.tag ⟨t.toList, k.toList, o.toList⟩)
  | _ => do
    let cs ← getArr j "g"
    pure (.grp (← cs.mapM treeOf))

def kindName : Kind → String
  | .tag => "tag"
  | .grp => "group"

def issuesJson (is : List Issue) : Json :=
  jarr (is.map fun i => jarr [Json.str (kindName i.kind), jstr i.key])

def codeName : Scan.Code → String
  | .tagEmpty => "TAG_EMPTY"
  | .commaMissing => "COMMA_MISSING"

/-- requests of property C04:
* `c04.dup`  `{top: [tree…], old: bool}` → `{ok, issues: [[kind, key]…], view: [printout of each element of the sorted view]}`
* `c04.scan` `{s: string, ws: string}` → `{codes: […]}` -/
def handle (op : String) (j : Json) : Option (Except String Json) :=
  match op with
  | "c04.dup" => some do
      let top ← (← getArr j "top").mapM treeOf
      let old := getBoolD j "old" false
      let sv := if old then sortedViewOld top else sortedView top
      let r := if old then dupIssuesOld top else dupIssues top
      let view := jarr (sv.map fun c => jstr (render Tag.text c))
      match r with
      | .ok is => pure <| jobj [("ok", jbool true), ("issues", issuesJson is), ("view", view)]
      | .error _ => pure <| jobj [("ok", jbool false), ("issues", jarr []), ("view", view)]
  | "c04.scan" => some do
      let s ← getStr j "s"
      let ws ← getStr j "ws"
      pure <| jobj [("codes", jarr ((Scan.scan (fun c => ws.contains c) s).map fun c => Json.str (codeName c)))]
  | _ => none

end HedVerif.Driver.C04
