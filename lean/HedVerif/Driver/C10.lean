import HedVerif.Driver.Util
open Lean
namespace HedVerif.Driver.C10
open HedVerif HedVerif.Driver

/-- requests `{"op":"c10.<name>", ...}` of property C10 (stub: none yet) -/
def handle (_op : String) (_j : Json) : Option (Except String Json) := none

end HedVerif.Driver.C10
