import HedVerif.Driver.Util
import HedVerif.Model.Temporal
open Lean
namespace HedVerif.Driver.C10
open HedVerif HedVerif.Driver HedVerif.Temporal

/-- ASCII case folding (the harness generates ASCII names only; Python `casefold` = `lower` there) -/
def foldAscii (s : Temporal.Str) : Temporal.Str := s.map Char.toLower

def kindOf : String → Except String MKind
  | "onset" => .ok .onset | "offset" => .ok .offset | "inset" => .ok .inset
  | k => .error s!"bad marker kind {k}"

def errName : Err → String
  | .sameDefs => "ONSET_SAME_DEFS_ONE_ROW"
  | .offsetBeforeOnset => "OFFSET_BEFORE_ONSET"
  | .insetBeforeOnset => "INSET_BEFORE_ONSET"

def markerOf (j : Json) : Except String Marker := do
  let a ← asArr j
  match a with
  | [Json.str k, Json.str n] => pure ⟨← kindOf k, n.toList⟩
  | _ => .error "marker must be [kind, name]"

def markersOf (j : Json) : Except String (List Marker) := do (← asArr j).mapM markerOf

def errsJson (es : List (Nat × Nat × Err)) : Json :=
  jarr (es.map fun (t, i, e) => jarr [jnat t, jnat i, Json.str (errName e)])

def rowOf (j : Json) : Except String Row := do
  let t ← getInt j "time"
  let ms ← markersOf (← getVal j "markers")
  let ds ← (← getArr j "delayed").mapM fun d => do
    let a ← asArr d
    match a with
    | [dt, ms] => match dt.getInt? with
      | .ok n => pure (n, ← markersOf ms)
      | .error _ => .error "delay must be int"
    | _ => .error "delayed entry must be [delay, markers]"
  pure ⟨t, ms, ds⟩

def shapeName : ShapeErr → String
  | .noDef => "ONSET_NO_DEF_TAG_FOUND"
  | .tooManyDefs => "ONSET_TOO_MANY_DEFS"
  | .wrongNumberGroups => "ONSET_WRONG_NUMBER_GROUPS"
  | .tagOutsideGroup => "ONSET_TAG_OUTSIDE_OF_GROUP"
  | .defUnmatched => "ONSET_DEF_UNMATCHED"
  | .placeholderWrong => "ONSET_PLACEHOLDER_WRONG"

/-- child of a top-level group: ["anchor", kind] | ["def", ext] | ["delay"] | ["tag"] | ["group", [ext…]] -/
def childOf (j : Json) : Except String Child := do
  match ← asArr j with
  | [Json.str "anchor", Json.str k] => pure (.anchor (← kindOf k))
  | [Json.str "def", Json.str e] => pure (.defTag e.toList)
  | [Json.str "delay"] => pure .delay
  | [Json.str "tag"] => pure .tag
  | [Json.str "group", des] => do
      let ds ← (← asArr des).mapM fun d => match d with
        | Json.str e => pure e.toList
        | _ => .error "def-expand extension must be a string"
      pure (.group ds)
  | _ => .error "bad child"

def handle (op : String) (j : Json) : Option (Except String Json) :=
  match op with
  | "c10.shape" => some do
      let groups ← (← getArr j "groups").mapM fun g => do (← asArr g).mapM childOf
      let defs ← (← getArr j "defs").mapM fun d => do
        match ← asArr d with
        | [Json.str n, Json.bool tv] => pure (n.toList, tv)
        | _ => .error "def must be [folded name, takes_value]"
      let look : Temporal.Str → Option Bool := fun n => (defs.find? (·.1 == n)).map (·.2)
      pure <| jobj [("kinds", jarr ((validateOnsetOffset look foldAscii groups).map fun e => Json.str (shapeName e))),
                    ("per_group", jarr (groups.map fun g =>
                        jarr ((groupShapeIssues look foldAscii g).map fun e => Json.str (shapeName e))))]
  | "c10.run" => some do
      let h ← (← getArr j "history").mapM markersOf
      pure <| jobj [("errors", errsJson (run foldAscii [] 0 h))]
  | "c10.file" => some do
      let rowsJ ← getArr j "rows"
      let rows ← rowsJ.mapM rowOf
      -- severities of the row's cell issues (optional key "issues": ["warning" | "error", …])
      let sevs ← rowsJ.mapM fun r => match r.getObjVal? "issues" with
        | .ok v => do (← asArr v).mapM fun x => match x with
            | Json.str "warning" => pure Sev.warning
            | Json.str "error" => pure Sev.error
            | _ => .error "issue severity must be warning|error"
        | .error _ => pure []
      let ci : Nat → List Sev := fun i => sevs.getD i []
      let tps := keptPoints rows ci
      let labelled := (fileErrors foldAscii rows ci).map fun (l, e) => jarr [jnat l, Json.str (errName e)]
      -- original rows that take part in a time point merged from several frame rows
      let split := sortRows (splitRows rows)
      let amb := (timePoints rows).filterMap fun tp =>
        if (split.filter (fun r => r.time == tp.time)).length > 1 then some tp.time else none
      let ambRows := (split.filter (fun r => amb.contains r.time)).map (·.orig)
      pure <| jobj [("errors", jarr labelled), ("ambiguous_labels", jarr (ambRows.eraseDups.map jnat)),
                    ("timepoints", jarr ((timePoints rows).map fun r => jarr [jint r.time, jnat r.markers.length, jnat r.orig])),
                    ("kept", jarr (tps.map fun r => jarr [jint r.time, jnat r.markers.length, jnat r.orig]))]
  | _ => none

end HedVerif.Driver.C10
