import HedVerif.Driver.Util
open Lean
namespace HedVerif.Driver.C02
open HedVerif HedVerif.Driver

def tokJson (t : Token) : Json := jarr [jbool t.isTag, jnat t.start, jnat t.stop]

partial def nodeJson (s : Str) : Node → Json
  | .tag a b => jarr [Json.str "t", jnat a, jnat b, jstr (Tree.slice s a b)]
  | .group a b kids => jarr [Json.str "g", jnat a, jnat b, jarr (kids.map (nodeJson s))]

def errName : Tree.BuildErr → String
  | .closing => "closing" | .unmatched => "unmatched" | .index => "index"

/-- `{"op":"c02.tok","text":..}` → tokens; `c02.parse` → tree, printed original form, build error. -/
def handle (op : String) (j : Json) : Option (Except String Json) :=
  match op with
  | "c02.tok" => some do
      let s ← getStr j "text"
      let st := Tok.finalSt s
      pure <| jobj [("tokens", jarr ((Tok.split s).map tokJson)), ("bad", jbool st.bad)]
  | "c02.parse" => some do
      let s ← getStr j "text"
      let r := Tree.build s
      let kids := Tree.construct s
      pure <| jobj [
        ("err", match r with | .ok _ => Json.null | .error e => Json.str (errName e)),
        ("tree", jarr (kids.map (nodeJson s))),
        ("str", jstr (Tree.printOrg s kids)),
        ("mismatch", jbool (Paren.mismatch s))]
  | _ => none

end HedVerif.Driver.C02
