import HedVerif.Driver.Util
import HedVerif.Model.Units
open Lean
namespace HedVerif.Driver.C11
open HedVerif HedVerif.Driver HedVerif.Units

structure UnitSchema where
  mods : List Modifier
  classes : List UnitClass

initialize unitStore : IO.Ref (List (String × UnitSchema)) ← IO.mkRef []

def decOf (j : Json) : Except String Dec := do
  match ← asArr j with
  | [m, e] => match m.getInt?, e.getInt? with
    | .ok a, .ok b => pure ⟨a, b⟩
    | _, _ => .error "dec must be [int,int]"
  | _ => .error "dec must be [m,e]"

def decOpt (j : Json) (k : String) : Except String (Option Dec) :=
  match j.getObjVal? k with
  | .ok Json.null => pure none
  | .ok v => do pure (some (← decOf v))
  | .error _ => pure none

def unitOf (j : Json) : Except String UnitDef := do
  pure ⟨← getStr j "name", ← getBool j "isSymbol", ← getBool j "isSI", ← getBool j "isPrefix",
        ← decOpt j "factor", ← getStr j "plural"⟩

def classOf (j : Json) : Except String UnitClass := do
  let d := match j.getObjVal? "default" with
    | .ok (Json.str s) => some s.toList
    | _ => none
  pure ⟨← getStr j "name", ← (← getArr j "units").mapM unitOf, d⟩

def modOf (j : Json) : Except String Modifier := do
  pure ⟨← getStr j "name", ← getBool j "forSymbol", ← getBool j "forName", ← decOf (← getVal j "factor")⟩

def decJson (d : Dec) : Json := jarr [jint d.m, jint d.e]

def issueName : Issue → String
  | .unitsInvalid => "UNITS_INVALID" | .unitsMissing => "UNITS_MISSING" | .valueInvalid => "VALUE_INVALID"

/-- evaluates `Units.Functional` on a class dictionary -/
def functional (tbl : List Derived) : Bool :=
  tbl.all fun a => tbl.all fun b => a.key != b.key || (a.unit == b.unit && a.modFactor == b.modFactor)

def handleIO (op : String) (j : Json) : Option (IO (Except String Json)) :=
  match op with
  | "c11.schema" => some do
      match (do
        let name ← getString j "name"
        let mods ← (← getArr j "mods").mapM modOf
        let classes ← (← getArr j "classes").mapM classOf
        pure (name, mods, classes) : Except String _) with
      | .error e => pure (.error e)
      | .ok (name, mods, classes) =>
        unitStore.modify fun st => (name, ⟨mods, classes⟩) :: st.filter (·.1 != name)
        pure (.ok (jobj [("classes", jarr (classes.map fun c =>
          jobj [("name", jstr c.name), ("derived", jnat (deriveClass mods c).length),
                ("functional", jbool (functional (deriveClass mods c))),
                ("emptyKey", jbool (lookupClass mods c foldAsciiU [] |>.isSome)),
                ("unitsDistinct", jbool (unitsDistinct mods c foldAsciiU)),
                ("nonEmptyKeys", jbool ((deriveClass mods c).all fun a => a.key != [])),
                ("nameKeysFolded", jbool ((deriveClass mods c).all fun a => isSymD c a || foldAsciiU a.key == a.key)),
                ("symbolsApart", jbool ((deriveClass mods c).all fun a => !isSymD c a ||
                    (deriveClass mods c).all fun b => isSymD c b || foldAsciiU a.key != b.key))]))]))
  | "c11.eval" => some do
      match (do pure (← getString j "schema", ← (← getArr j "classes").mapM asStr, ← getBool j "numeric",
                      ← getStr j "ext") : Except String _) with
      | .error e => pure (.error e)
      | .ok (name, cnames, numeric, ext) =>
        let st ← unitStore.get
        match st.find? (·.1 == name) with
        | none => pure (.error s!"unit schema {name} not installed")
        | some (_, us) =>
          let classes := cnames.filterMap fun n => us.classes.find? (·.name == n)
          let (sv, m) := stripped us.mods classes foldAsciiU ext
          let v := valueAsDefault us.mods classes foldAsciiU ext
          pure (.ok (jobj [
            ("stripped", jstr sv), ("unit", jopt (fun (x : Match) => jstr x.unitText) m),
            ("issues", jarr ((check us.mods classes foldAsciiU numeric ext).map fun i => Json.str (issueName i))),
            ("value", match v with
              | .value d => jobj [("v", decJson d)]
              | .absent => Json.str "absent"
              | .raises w => jobj [("raises", jstr w)])]))
  | _ => none
where foldAsciiU (s : Str) : Str := s.map Char.toLower

def handle (_op : String) (_j : Json) : Option (Except String Json) := none

end HedVerif.Driver.C11
