import HedVerif.Driver.Util
open Lean
namespace HedVerif.Driver.C11
open HedVerif HedVerif.Driver

/-- requests `{"op":"c11.<name>", ...}` of property C11 (stub: none yet) -/
def handle (_op : String) (_j : Json) : Option (Except String Json) := none

end HedVerif.Driver.C11
