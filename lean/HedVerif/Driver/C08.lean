import HedVerif.Driver.Util
import HedVerif.Driver.C09
import HedVerif.Model.SidecarV
open Lean
namespace HedVerif.Driver.C08
open HedVerif HedVerif.Driver HedVerif.SidecarV

/-- tagged encoding of a JSON value (keeps object order): scalars as themselves, `{"a":[..]}` list, `{"o":[[k,v],..]}` object -/
partial def decode (j : Lean.Json) : Except String SidecarV.Json :=
  match j with
  | .null => pure .null
  | .bool b => pure (.bool b)
  | .str s => pure (.str s.toList)
  | .num _ => match j.getInt? with
    | .ok n => pure (.num n)
    | .error _ => .error "only integer numbers"
  | _ =>
    match j.getObjVal? "a" with
    | .ok (Lean.Json.arr xs) => do pure (.arr (← xs.toList.mapM decode))
    | _ => match j.getObjVal? "o" with
      | .ok (Lean.Json.arr kvs) => do
        let ps ← kvs.toList.mapM fun kv => match kv with
          | Lean.Json.arr #[Lean.Json.str k, v] => do pure (k.toList, ← decode v)
          | _ => .error "object entries must be [key, value]"
        if (ps.map (·.1)).eraseDups.length != ps.length then .error "duplicate keys" else pure (.obj ps)
      | _ => .error "bad encoded value"

def optStr : Lean.Json → Option SidecarV.Str
  | Lean.Json.str s => some s.toList
  | _ => none

def codesOf (j : Lean.Json) : Except String (List (SidecarV.Str × Nat)) := do
  (← asArr j).mapM fun c => match c with
    | Lean.Json.arr #[Lean.Json.str code, sev] => do pure (code.toList, ← asNat sev)
    | _ => .error "issue must be [code, severity]"

def tableOf (j : Lean.Json) (k : String) : Except String (List (SidecarV.Str × List (SidecarV.Str × Nat))) := do
  (← getArr j k).mapM fun e => match e with
    | Lean.Json.arr #[Lean.Json.str s, cs] => do pure (s.toList, ← codesOf cs)
    | _ => .error s!"{k} entries must be [string, issues]"

def miss (what : String) : List (SidecarV.Str × Nat) := [(("ORACLE-MISS-" ++ what).toList, 1)]

/-- an optional array field -/
def getArrD (j : Lean.Json) (k : String) : List Lean.Json :=
  match j.getObjVal? k with
  | .ok (Lean.Json.arr a) => a.toList
  | _ => []

/-- `basic`, `full`, `defexpand` as recorded; `defs` / `defissues` (recorded definition counts and issues: used by
`validate`, i.e. by callers that do not ask for the extraction) and `trees` (the resolved tree of each entry, in the encoding
of `Driver/C09.nodeOf`: used by `validateD`) are optional -/
def oracleOf (j : Lean.Json) : Except String Oracle := do
  let basic ← tableOf j "basic"
  let full ← tableOf j "full"
  let trees ← (getArrD j "trees").mapM fun e => match e with
    | Lean.Json.arr #[Lean.Json.str s, t] => do pure (s.toList, ← C09.kidsOf t)
    | _ => .error "trees entries must be [string, nodes]"
  let defs ← (getArrD j "defs").mapM fun e => match e with
    | Lean.Json.arr #[Lean.Json.str s, n] => do pure (s.toList, ← asNat n)
    | _ => .error "defs entries must be [string, n]"
  let dx ← (← getArr j "defexpand").mapM asStr
  let di ← (getArrD j "defissues").mapM fun e => match e with
    | Lean.Json.arr #[Lean.Json.str k, Lean.Json.str c, sev, col, key] => do
        pure (⟨k.toList, c.toList, ← asNat sev, optStr col, optStr key⟩ : Issue)
    | _ => .error "defissues entries must be [kind, code, sev, col, key]"
  pure { basic := fun s => ((basic.find? (·.1 == s)).map (·.2)).getD (miss "BASIC")
         full := fun s => ((full.find? (·.1 == s)).map (·.2)).getD (miss "FULL")
         defCount := fun s => ((defs.find? (·.1 == s)).map (·.2)).getD 0
         defIssues := di
         isDefExpand := fun t => dx.contains t
         defTree := fun s => ((trees.find? (·.1 == s)).map (·.2)).getD []
         fold := C09.foldAscii }

def issueJson (i : Issue) : Lean.Json :=
  jarr [jstr i.kind, jstr i.code, jnat i.sev, jopt jstr i.col, jopt jstr i.key]

def exnName : Exn → String
  | .attributeError => "AttributeError" | .typeError => "TypeError" | .valueError => "ValueError"
  | .keyError => "KeyError" | .unmodelled => "unmodelled"

def ctypeJson : Option CType → Lean.Json
  | none => Lean.Json.null
  | some .ignore => "ignore" | some .categorical => "categorical" | some .value => "value"

/-- was the early exit taken (structure or reference errors)? evidence only -/
def early (g : Guards) (doc : SidecarV.Json) : Bool :=
  match load g doc with
  | .ok (li, src) => match structureIssues li src, columnData src with
    | .ok s, .ok cols => match refIssues g cols with
      | .ok r => anyError (s ++ r)
      | _ => true
    | _, _ => true
  | _ => true

def handle (op : String) (j : Lean.Json) : Option (Except String Lean.Json) :=
  match op with
  | "c08.validate" => some do
      let doc ← decode (← getVal j "doc")
      let g := if getBoolD j "fixed" true then Guards.fixed else Guards.unfixed
      let O ← oracleOf j
      if getBoolD j "extract" false then
        -- the definition part computed by the model (`validateD`); `ext` = folded names of the external dictionaries
        let ext ← (getArrD j "ext").mapM asStr
        let dd := match extractDefsDoc g O doc with
          | .ok (dd, _) => dd
          | .error _ => []
        match validateD g O ext doc with
        | .ok is => pure <| jobj [("ok", jarr (is.map issueJson)), ("early", jbool (early g doc)),
                                  ("dict", jarr (dd.map C09.entryJson))]
        | .error e => pure <| jobj [("raise", Lean.Json.str (exnName e))]
      else
      match validate g O doc with
      | .ok is => pure <| jobj [("ok", jarr (is.map issueJson)), ("early", jbool (early g doc))]
      | .error e => pure <| jobj [("raise", Lean.Json.str (exnName e))]
  | "c08.strings" => some do
      let s ← getStr j "s"
      let old ← getStr j "old"
      let new ← getStr j "new"
      pure <| jobj [("braces", jarr ((braces s).map jnat)), ("refs", jarr ((findRefs s).map jstr)),
                    ("replaced", jstr (replaceAll s old new))]
  | "c08.replaceref" => some do   -- `df_util.replace_ref(text, "{ref}", value)`
      pure <| jobj [("out", jstr (Assemble.replaceRef (← getStr j "text") (← getStr j "ref") (← getStr j "value")))]
  | "c08.treehash" => some do     -- `#` counted by `_validate_pound_sign_count`, and whether `shrink_defs` raises unguarded
      let s ← getStr j "s"
      let dx ← (← getArr j "defexpand").mapM asStr
      let O : Oracle := { basic := fun _ => [], full := fun _ => [], defCount := fun _ => 0, defIssues := [],
                          isDefExpand := fun t => dx.contains t }
      pure <| jobj [("hash", jnat (treeHash O s)), ("twice", jbool (twiceList O s (entryTree s)))]
  | "c08.kind" => some do
      let e ← decode (← getVal j "entry")
      let f := fun b => match detect b e with
        | .ok t => ctypeJson t
        | .error x => Lean.Json.str (exnName x)
      pure <| jobj [("basic", f true), ("raw", f false)]
  | _ => none

end HedVerif.Driver.C08
