import HedVerif.Driver.Util
open Lean
namespace HedVerif.Driver.C08
open HedVerif HedVerif.Driver

/-- requests `{"op":"c08.<name>", ...}` of property C08 (stub: none yet) -/
def handle (_op : String) (_j : Json) : Option (Except String Json) := none

end HedVerif.Driver.C08
