import HedVerif.Driver.Util
import HedVerif.Driver.C01
import HedVerif.Driver.C07
import HedVerif.Driver.C08
import HedVerif.Driver.C06
import HedVerif.Model.Closed
import HedVerif.Model.ClosedRaw
open Lean
namespace HedVerif.Driver.Closed
open HedVerif HedVerif.Driver

/-!
Closed mode of C07 / C08: self-contained requests, no oracle table.

`closed.c07`: the environment of `c01.run` (vocabulary, attributes, unit classes, character data, definitions, variant)
+ `"tables"`: requests of the shape of `c07.validate` (their `"S"` is ignored).  Answer per table: `unmodelled`
(a reason) or `exc` / `issues` computed by `Tabular.validateClosed`.

`closed.c07raw`: the environment + `"pairs"`: `{"sidecar": [[name, entry]], "header", "rows", "maskByRow", "guardDelay"}`
(sidecar entries encoded as for `c06.assemble`).  Answer per pair: `unmodelled` or `exc` / `issues` computed by
`Tabular.validateClosedRaw` from the raw inputs only.

`closed.c08`: the same environment + `"docs"`: `{"doc": encoded JSON, "fixed": bool}`.  Answer per document:
`unmodelled` or `ok` / `raise` computed by `SidecarV.validateClosed`.
-/

def kBanned : Tabular.RIssue := ⟨"TEMPORAL_TAG_ERROR:TEMPORAL_TAG_NO_TIME".toList, 1⟩

/-- `Tabular.validateClosed env kBanned cfg T`, or why the table is outside the closed fragment -/
def runTable (env : Validate.Env) (kB : Tabular.RIssue) (cfg : Tabular.Cfg) (T : List Tabular.Row) : Json :=
  match HedVerif.Closed.skipReason env kB cfg T with
  | some (why, t) => jobj [("unmodelled", Json.str why), ("text", jstr t)]
  | none =>
    let split := T.any (HedVerif.Closed.rowSplit env kB cfg)
    let cfg := HedVerif.Closed.closeCfg env kB cfg      -- the time points depend on the closed `items`
    -- no split row: `Tabular.validateClosed env kB cfg T` (= `validateClosedCells`, `C07.cells_eq_closed`); otherwise
    -- `Tabular.validateClosedCells env kB cfg T`; each string validated once (`Closed.memoTab_eq`)
    let o := if split then HedVerif.Closed.cellsOracle env kB cfg T else HedVerif.Closed.tabOracle env kB
    match Tabular.validate { cfg with o := HedVerif.Closed.memoTab o (HedVerif.Closed.consulted cfg T).eraseDups } T with
    | .error e => jobj [("exc", Json.str (C07.excName e))]
    | .ok out =>
      let labs := (Tabular.frame cfg T).map (·.1)
      jobj [("split", jbool split),
            ("parts", jarr ((HedVerif.Closed.timeParts env kB cfg T).map fun x => jarr [jint x.1, jnat (labs[x.2]?.getD 0)])),
            ("issues", jarr (out.map fun i =>
        jarr [jstr i.kind, jnat i.sev, jopt jnat i.row, jopt jstr i.col, Json.str (C07.srcName i.src), jstr i.text]))]

def tableJson (env : Validate.Env) (j : Json) : Except String Json := do
  let cfg ← C07.cfgOf j
  let T ← (← getArr j "rows").mapM C07.rowOf
  pure (runTable env kBanned cfg T)

/-- `closed.c07raw`: one (sidecar, events table) pair; everything the file layer needs is computed from them
(`Tabular.validateClosedRaw`) -/
def rawConsts (j : Json) : Except String Raw.Consts := do
  pure { maskByRow := ← getBool j "maskByRow", guardDelay := ← getBool j "guardDelay",
         kKey := ⟨"SIDECAR_KEY_MISSING:SIDECAR_KEY_MISSING".toList, 10⟩,
         kRef := ⟨"SIDECAR_BRACES_INVALID:INVALID_COLUMN_REF".toList, 1⟩,
         kUnordered := ⟨"ONSETS_UNORDERED:ONSETS_UNORDERED".toList, 10⟩,
         kUnknownCol := ⟨"HED_UNKNOWN_COLUMN:HED_UNKNOWN_COLUMN".toList, 10⟩,
         kBanned := kBanned, kTemporal := C07.temporalKind }

def pairJson (env : Validate.Env) (j : Json) : Except String Json := do
  let sc ← (← getArr j "sidecar").mapM fun kv => do
    match kv with
    | Json.arr #[Json.str k, v] => pure (k.toList, ← C06.toJ v)
    | _ => throw "sidecar member must be [name, entry]"
  let t : Assemble.Table := ⟨← C06.strList (← getVal j "header"), ← (← getArr j "rows").mapM C06.strList⟩
  let k ← rawConsts j
  if !Raw.headerOk t.header then pure <| jobj [("unmodelled", Json.str "header")]
  else if (sc.map (·.1)).eraseDups.length != sc.length then pure <| jobj [("unmodelled", Json.str "duplicate sidecar keys")]
  else if Raw.onsetUnmodelled t then pure <| jobj [("unmodelled", Json.str "onset spelling")]
  else if Raw.refOrderMatters sc t then pure <| jobj [("unmodelled", Json.str "reference set order")]
  else
    -- `Tabular.validateClosedRawD env k sc t`: the sidecar's definitions join the dictionary (`Raw.envD`)
    let r := runTable (Raw.envD env sc) k.kBanned (Raw.rawCfg k sc t) (Raw.rawRows sc t)
    pure <| (r.setObjVal! "columns" (jarr ((Raw.aColumns sc t.header).map jstr))).setObjVal! "defs"
      (jarr ((Raw.sidecarDict env sc).map fun e => jstr e.key))

/-- every entry string of the sidecar and every assembled string the full checks are asked about -/
def sidecarTexts (env : Validate.Env) (g : SidecarV.Guards) (doc : SidecarV.Json) :
    Except SidecarV.Exn (List SidecarV.Str × List SidecarV.Str) := do
  let (_, src) ← SidecarV.load g doc
  let cols ← SidecarV.columnData src
  let rs ← SidecarV.refsStringsOf g cols
  let per ← SidecarV.mapE (fun c => do
      let t ← SidecarV.detect false c.entry
      SidecarV.hedStrings g { c with ctype := t }) cols
  let entries := per.flatMap fun strs => strs.map (·.2)
  let O := HedVerif.Closed.sidecarOracle env
  let full := entries.flatMap fun s =>
    let refs := SidecarV.findRefs s
    let lists := refs.filterMap fun r => SidecarV.lookup r rs
    if lists.length != refs.length then [] else (SidecarV.product lists).map (SidecarV.combine O s refs)
  pure (entries, full)

/-- `defsModelled = false`: for callers that evaluate with `validateClosed` (no definition extraction), a sidecar that
declares definitions is outside their fragment -/
def sidecarUnmodelled (env : Validate.Env) (g : SidecarV.Guards) (doc : SidecarV.Json) (defsModelled : Bool := false) :
    Option String :=
  match sidecarTexts env g doc with
  | .error _ => none      -- the model's own answer (a raise) stands
  | .ok (entries, full) =>
    if !defsModelled && entries.any (fun s => HedVerif.Closed.defCount env s != 0) then some "definition in the sidecar"
    else if entries.any (fun s => Validate.unmodelledP env (HedVerif.Closed.parseNoRefs env s)) then some "value class pattern"
    else if full.any (fun s => Validate.unmodelledP env (Validate.parse env s)
                               || Validate.dupRaises env (Validate.parse env s).root0) then some "assembled string"
    else none

def docJson (env0 : Validate.Env) (j : Json) : Except String Json := do
  let doc ← C08.decode (← getVal j "doc")
  let g := if getBoolD j "fixed" true then SidecarV.Guards.fixed else SidecarV.Guards.unfixed
  -- stage 1: the sidecar's own definitions; stage 2: every check against them followed by the external ones
  let env := HedVerif.Closed.envWith env0 (HedVerif.Closed.sidecarDict env0 g doc)
  match sidecarUnmodelled env g doc true with
  | some why => pure <| jobj [("unmodelled", Json.str why)]
  | none =>
    -- = `SidecarV.validateClosedD env0 g doc` (`Closed.memoSidecar_eq`), each string validated once
    let texts := match sidecarTexts env g doc with
      | .ok (entries, full) => (entries ++ full).eraseDups
      | .error _ => []
    match SidecarV.validateD g (HedVerif.Closed.memoSidecar (HedVerif.Closed.sidecarOracleD env) texts)
        (env0.defs.map (·.key)) doc with
    | .ok is => pure <| jobj [("ok", jarr (is.map C08.issueJson)),
                              ("defs", jarr ((HedVerif.Closed.sidecarDict env0 g doc).map fun e => jstr e.key))]
    | .error .unmodelled => pure <| jobj [("unmodelled", Json.str "pandas coercion")]
    | .error e => pure <| jobj [("raise", Json.str (C08.exnName e))]

def handle (op : String) (j : Json) : Option (Except String Json) :=
  match op with
  | "closed.c07" => some do
      let env ← C01.envOf j
      pure (jobj [("answers", jarr (← (← getArr j "tables").mapM (tableJson env)))])
  | "closed.c07raw" => some do
      let env ← C01.envOf j
      pure (jobj [("answers", jarr (← (← getArr j "pairs").mapM (pairJson env)))])
  | "closed.c08" => some do
      let env ← C01.envOf j
      pure (jobj [("answers", jarr (← (← getArr j "docs").mapM (docJson env)))])
  | _ => none

end HedVerif.Driver.Closed
