import HedVerif.Driver.Util
import HedVerif.Driver.C01
import HedVerif.Driver.C07
import HedVerif.Driver.C08
import HedVerif.Model.Closed
open Lean
namespace HedVerif.Driver.Closed
open HedVerif HedVerif.Driver

/-!
Closed mode of C07 / C08: self-contained requests, no oracle table.

`closed.c07`: the environment of `c01.run` (vocabulary, attributes, unit classes, character data, definitions, variant)
+ `"tables"`: requests of the shape of `c07.validate` (their `"S"` is ignored).  Answer per table: `unmodelled`
(a reason) or `exc` / `issues` computed by `Tabular.validateClosed`.

`closed.c08`: the same environment + `"docs"`: `{"doc": encoded JSON, "fixed": bool}`.  Answer per document:
`unmodelled` or `ok` / `raise` computed by `SidecarV.validateClosed`.
-/

def kBanned : Tabular.RIssue := ⟨"TEMPORAL_TAG_ERROR:TEMPORAL_TAG_NO_TIME".toList, 1⟩

def tableJson (env : Validate.Env) (j : Json) : Except String Json := do
  let cfg ← C07.cfgOf j
  let T ← (← getArr j "rows").mapM C07.rowOf
  match (HedVerif.Closed.consulted cfg T).find? (HedVerif.Closed.textUnmodelled env) with
  | some t => pure <| jobj [("unmodelled", jstr t)]
  | none =>
    if T.any (HedVerif.Closed.rowSplit env kBanned cfg) then pure <| jobj [("unmodelled", Json.str "malformed cell in a checked row")] else
    -- = `Tabular.validateClosed env kBanned cfg T` (`Closed.memoTab_eq`), each string validated once
    let ccfg := HedVerif.Closed.closeCfg env kBanned cfg
    match Tabular.validate { ccfg with o := HedVerif.Closed.memoTab ccfg.o (HedVerif.Closed.consulted cfg T).eraseDups } T with
    | .error e => pure <| jobj [("exc", Json.str (C07.excName e))]
    | .ok out => pure <| jobj [("issues", jarr (out.map fun i =>
        jarr [jstr i.kind, jnat i.sev, jopt jnat i.row, jopt jstr i.col, Json.str (C07.srcName i.src), jstr i.text]))]

/-- every entry string of the sidecar and every assembled string the full checks are asked about -/
def sidecarTexts (env : Validate.Env) (g : SidecarV.Guards) (doc : SidecarV.Json) :
    Except SidecarV.Exn (List SidecarV.Str × List SidecarV.Str) := do
  let (_, src) ← SidecarV.load g doc
  let cols ← SidecarV.columnData src
  let rs ← SidecarV.refsStringsOf g cols
  let per ← SidecarV.mapE (fun c => do
      let t ← SidecarV.detect false c.entry
      SidecarV.hedStrings g { c with ctype := t }) cols
  let entries := per.flatMap fun strs => strs.map (·.2)
  let O := HedVerif.Closed.sidecarOracle env
  let full := entries.flatMap fun s =>
    let refs := SidecarV.findRefs s
    let lists := refs.filterMap fun r => SidecarV.lookup r rs
    if lists.length != refs.length then [] else (SidecarV.product lists).map (SidecarV.combine O s refs)
  pure (entries, full)

def sidecarUnmodelled (env : Validate.Env) (g : SidecarV.Guards) (doc : SidecarV.Json) : Option String :=
  match sidecarTexts env g doc with
  | .error _ => none      -- the model's own answer (a raise) stands
  | .ok (entries, full) =>
    let refs := entries.flatMap SidecarV.findRefs
    if entries.any (fun s => HedVerif.Closed.defCount env s != 0) then some "definition in the sidecar"
    else if !refs.isEmpty && (entries.contains SidecarV.NA || refs.contains SidecarV.HED) then some "n/a spliced into a reference"
    else if entries.any (fun s => Validate.unmodelledP env (HedVerif.Closed.parseNoRefs env s)) then some "value class pattern"
    else if full.any (fun s => Validate.unmodelledP env (Validate.parse env s)
                               || Validate.dupRaises env (Validate.parse env s).root0) then some "assembled string"
    else none

def docJson (env : Validate.Env) (j : Json) : Except String Json := do
  let doc ← C08.decode (← getVal j "doc")
  let g := if getBoolD j "fixed" true then SidecarV.Guards.fixed else SidecarV.Guards.unfixed
  match sidecarUnmodelled env g doc with
  | some why => pure <| jobj [("unmodelled", Json.str why)]
  | none =>
    -- = `SidecarV.validateClosed env g doc` (`Closed.memoSidecar_eq`), each string validated once
    let texts := match sidecarTexts env g doc with
      | .ok (entries, full) => (entries ++ full).eraseDups
      | .error _ => []
    match SidecarV.validate g (HedVerif.Closed.memoSidecar (HedVerif.Closed.sidecarOracle env) texts) doc with
    | .ok is => pure <| jobj [("ok", jarr (is.map C08.issueJson))]
    | .error .unmodelled => pure <| jobj [("unmodelled", Json.str "pandas coercion")]
    | .error e => pure <| jobj [("raise", Json.str (C08.exnName e))]

def handle (op : String) (j : Json) : Option (Except String Json) :=
  match op with
  | "closed.c07" => some do
      let env ← C01.envOf j
      pure (jobj [("answers", jarr (← (← getArr j "tables").mapM (tableJson env)))])
  | "closed.c08" => some do
      let env ← C01.envOf j
      pure (jobj [("answers", jarr (← (← getArr j "docs").mapM (docJson env)))])
  | _ => none

end HedVerif.Driver.Closed
