import HedVerif.Driver.Util
open Lean
namespace HedVerif.Driver.C09
open HedVerif HedVerif.Driver

/-- requests `{"op":"c09.<name>", ...}` of property C09 (stub: none yet) -/
def handle (_op : String) (_j : Json) : Option (Except String Json) := none

end HedVerif.Driver.C09
