import HedVerif.Driver.Util
import HedVerif.Model.Defs
open Lean
namespace HedVerif.Driver.C09
open HedVerif HedVerif.Driver HedVerif.Defs

/-- ASCII case folding (the harness generates ASCII names only; Python `casefold` = `lower` there) -/
def foldAscii (s : Defs.Str) : Defs.Str := s.map Char.toLower

def baseOf : String → Except String Base
  | "def" => .ok .def_ | "de" => .ok .defExpand | "dfn" => .ok .definition | "o" => .ok .other
  | b => .error s!"bad base {b}"

/-- tag: `{"b":base,"n":name,"e":ext,"o":folded original,"tv":bool,"ur":bool}`; group: `{"g":[…]}` -/
partial def nodeOf (j : Json) : Except String Defs.Node :=
  match j.getObjVal? "g" with
  | .ok (Json.arr a) => do pure (Defs.Node.grp (← a.toList.mapM nodeOf))
  | _ => do
    let b ← baseOf (← getString j "b")
    let n ← getStr j "n"
    let e ← getStr j "e"
    let og ← getStr j "o"
    let t : Defs.Tag := { base := b, name := n, ext := e, org := og,
                          takesValue := getBoolD j "tv" false, uniqReq := getBoolD j "ur" false }
    pure (Defs.Node.tag t)

def kidsOf (j : Json) : Except String (List Defs.Node) := do (← asArr j).mapM nodeOf

def issueName : Issue → String
  | .wrongNumberGroups => "WRONG_NUMBER_GROUPS"
  | .noDefinitionContents => "NO_DEFINITION_CONTENTS"
  | .wrongNumberTags => "WRONG_NUMBER_TAGS"
  | .invalidDefExtension => "invalidDefExtension"
  | .defTagInDefinition => "DEF_TAG_IN_DEFINITION"
  | .badPropInDefinition => "BAD_PROP_IN_DEFINITION"
  | .wrongNumberPlaceholderTags => "wrongNumberPlaceholderTags"
  | .placeholderNoTakesValue => "PLACEHOLDER_NO_TAKES_VALUE"
  | .duplicateDefinition => "duplicateDefinition"

def vkindName : VKind → String
  | .defUnmatched => "HED_DEF_UNMATCHED"
  | .defExpandUnmatched => "HED_DEF_EXPAND_UNMATCHED"
  | .defValueMissing => "HED_DEF_VALUE_MISSING"
  | .defExpandValueMissing => "HED_DEF_EXPAND_VALUE_MISSING"
  | .defValueExtra => "HED_DEF_VALUE_EXTRA"
  | .defExpandValueExtra => "HED_DEF_EXPAND_VALUE_EXTRA"
  | .defExpandInvalid => "HED_DEF_EXPAND_INVALID"
  | .internalError => "ValueError"

def errName : Err → String
  | .keyError => "KeyError" | .valueError => "ValueError" | .recursion => "RecursionError"
  | .indexError => "IndexError"

def opOf : String → Except String Op
  | "expand" => .ok .expand | "shrink" => .ok .shrink | "copy" => .ok .copy | "str" => .ok .str
  | "validate" => .ok .validate | "sorted" => .ok .str
  | o => .error s!"bad op {o}"

/-- dictionary from definition strings, with the issues of each string -/
def buildDict (strings : List (List Defs.Node)) : DefDict × List (List Issue) :=
  strings.foldl (fun acc s => let r := acceptString foldAscii acc.1 s; (r.1, acc.2 ++ [r.2])) ([], [])

def entryJson (e : Entry) : Json :=
  jarr [jstr e.key, jstr e.name, jbool e.takes,
        if e.content.isEmpty then Json.null else jstr (Defs.str (Defs.Node.grp e.content))]

/-- the object after each operation: printed form (and the def-validator kinds for `validate`), or the
exception class at which the history stops -/
def runSteps (fix srt cpy : Bool) (dd : DefDict) : Obj → List (String × Op) → List Json
  | _, [] => []
  | o, (nm, op) :: rest =>
    match stepG foldAscii fix cpy dd o op with
    | .error e => [jobj [("err", Json.str (errName e))]]
    | .ok o' =>
      let base := [("s", jstr (strL o'.kids))]
      let extra := if nm == "validate" then
          [("v", jarr ((validateDefs foldAscii srt dd o'.kids).map fun k => Json.str (vkindName k)))]
        else if nm == "sorted" then [("sorted", jstr (strL (sortG foldAscii o'.kids)))]
        else []
      jobj (base ++ extra) :: runSteps fix srt cpy dd o' rest

def handle (op : String) (j : Json) : Option (Except String Json) :=
  match op with
  | "c09.accept" => some do
      let strings ← (← getArr j "strings").mapM kidsOf
      let r := buildDict strings
      pure <| jobj [("defs", jarr (r.1.map entryJson)),
                    ("issues", jarr (r.2.map fun is => jarr (is.map fun i => Json.str (issueName i))))]
  | "c09.run" => some do
      let strings ← (← getArr j "defs").mapM kidsOf
      let kids ← kidsOf (← getVal j "kids")
      let names ← (← getArr j "ops").mapM fun o => match o with
        | Json.str s => pure s
        | _ => .error "op must be a string"
      let ops ← names.mapM fun s => do pure (s, ← opOf s)
      -- `dicts` (lists of definition strings, each built separately, then merged through the dict path)
      -- takes precedence over `defs`
      let dd ← match j.getObjVal? "dicts" with
        | .ok (Json.arr a) => do
            let ds ← a.toList.mapM fun d => do pure (buildDict (← (← asArr d).mapM kidsOf)).1
            pure (mergeDicts ds).1
        | _ => pure (buildDict strings).1
      let o : Obj := { kids := kids }
      pure <| jobj [("start", jstr (strL kids)),
                    ("steps", jarr (runSteps (getBoolD j "fix" true) (getBoolD j "sorted" true) (getBoolD j "copytag" true) dd o ops))]
  | "c09.merge" => some do
      let ds ← (← getArr j "dicts").mapM fun d => do pure (buildDict (← (← asArr d).mapM kidsOf)).1
      let r := mergeDicts ds
      pure <| jobj [("defs", jarr (r.1.map entryJson)), ("issues", jnat r.2.length)]
  | "c09.gather" => some do
      -- known definitions (strings), then the cells; answer: final dictionary, errors, number of ambiguous pairs
      let strings ← (← getArr j "defs").mapM kidsOf
      let cells ← (← getArr j "cells").mapM kidsOf
      let st0 : GState := { dd := (buildDict strings).1 }
      let pairs := cells.flatMap dePairs
      match gatherAll foldAscii (getBoolD j "gfix" false) st0 pairs with
      | .error e => pure <| jobj [("err", Json.str (errName e))]
      | .ok st =>
        pure <| jobj [("defs", jarr (st.dd.map entryJson)),
                      ("errors", jarr (st.errors.map fun e =>
                         jarr [jstr e.1, jarr (e.2.map fun g => jstr (Defs.str (Defs.Node.grp g)))])),
                      ("ambiguous", jnat st.ambiguous.length)]
  | _ => none

end HedVerif.Driver.C09
