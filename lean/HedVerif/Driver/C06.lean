import HedVerif.Driver.Util
open Lean
namespace HedVerif.Driver.C06
open HedVerif HedVerif.Driver

/-- requests `{"op":"c06.<name>", ...}` of property C06 (stub: none yet) -/
def handle (_op : String) (_j : Json) : Option (Except String Json) := none

end HedVerif.Driver.C06
