import HedVerif.Driver.Util
import HedVerif.Model.Assemble
open Lean
namespace HedVerif.Driver.C06
open HedVerif HedVerif.Driver HedVerif.Assemble

/-- sidecar values arrive order-preserving: `{"s": str}` | `{"o": [[key, value], …]}` | anything else -/
partial def toJ (j : Json) : Except String J :=
  match j.getObjVal? "s" with
  | .ok (Json.str s) => pure (.str s.toList)
  | _ => match j.getObjVal? "o" with
    | .ok (Json.arr kvs) => do
        let l ← kvs.toList.mapM fun kv => do
          match kv with
          | Json.arr #[Json.str k, v] => pure (k.toList, ← toJ v)
          | _ => throw "object member must be [key, value]"
        pure (.obj l)
    | _ => pure .other

def strList (j : Json) : Except String (List Str) := do (← asArr j).mapM asStr

def kindName : Kind → String
  | .ignore => "ignore" | .categorical => "categorical" | .value => "value" | .unknown => "none"

def trKind : Tr → String
  | .ident => "ident" | .value _ => "value" | .cat _ => "cat"

def handle (op : String) (j : Json) : Option (Except String Json) :=
  match op with
  | "c06.replace_refs" => some do
      let texts ← strList (← getVal j "texts")
      let name ← getStr j "name"
      let value ← getStr j "value"
      let variant ← getString j "variant"
      let f : Str → Except String (Option Str) ← match variant with
        | "fixed" => pure fun t => pure (some (replaceRef t name value))
        | "old" => pure fun t => pure (some (replaceRefOld t name value))
        | "oldnum" => pure fun t => match (String.ofList name).toNat? with
            | some n => pure (replaceRefOldNumeric t n)
            | none => throw "oldnum needs a numeric name"
        | _ => throw "variant must be fixed|old|oldnum"
      let outs ← texts.mapM f
      pure <| jobj [("outs", jarr (outs.map (jopt jstr))),
                    ("ok_in", jarr (texts.map fun t => jbool (delimOk t))),
                    ("ok_out", jarr (outs.map fun o => jbool ((o.map delimOk).getD false)))]
  | "c06.handlers" => some do
      -- `_value_handler(template, cell)` and `_category_handler(entries, cell)` for many cells
      let template ← getStr j "template"
      let cells ← strList (← getVal j "cells")
      let entries ← (← getArr j "entries").mapM fun kv => do
        match kv with
        | Json.arr #[Json.str k, Json.str v] => pure (k.toList, v.toList)
        | _ => throw "entry must be [key, value]"
      pure <| jobj [("missing", jarr (cells.map fun c => jbool (isMissing c))),
                    ("value", jarr (cells.map fun c => jstr (valueHandler template c))),
                    ("category", jarr (cells.map fun c => jstr (categoryHandler entries c))),
                    ("keep", jarr (cells.map fun c => jbool (keep c)))]
  | "c06.delim" => some do
      let texts ← strList (← getVal j "texts")
      pure <| jobj [("ok", jarr (texts.map fun t => jbool (delimOk t)))]
  | "c06.assemble" => some do
      let sc ← (← getArr j "sidecar").mapM fun kv => do
        match kv with
        | Json.arr #[Json.str k, v] => pure (k.toList, ← toJ v)
        | _ => throw "sidecar member must be [name, entry]"
      let header ← strList (← getVal j "header")
      let rows ← (← getArr j "rows").mapM strList
      let refs := refsOf sc
      let order ← match j.getObjVal? "ref_order" with
        | .ok v => strList v
        | .error _ => pure refs
      let cols := activeCols sc header
      let t : Table := ⟨header, rows⟩
      pure <| jobj [
        ("kinds", jarr (sc.map fun p => jarr [jstr p.1, Json.str (kindName (kind p.2))])),
        ("refs", jarr (refs.map jstr)),
        ("columns", jarr (cols.map fun c => jarr [jstr c.name, Json.str (trKind c.tr)])),
        ("transformed", jarr (rows.map fun r => jarr ((transformed cols header r).map fun p => jstr p.2))),
        ("series", jarr ((seriesWith order sc t).map jstr)),
        ("series_rev", jarr ((seriesWith order.reverse sc t).map jstr)),
        ("calls", jarr ((calls 3 ⟨sc, t⟩).1.map fun s => jarr (s.map jstr)))]
  | _ => none

end HedVerif.Driver.C06
