import HedVerif.Driver.Util
import HedVerif.Driver.Store
import HedVerif.Model.SchemaBulk
import Std.Data.HashMap
import Std.Data.HashSet
open Lean
namespace HedVerif.Driver.C03
open HedVerif HedVerif.Driver HedVerif.Schema

/-- `HedTag(text, schema)` as far as lookup and forms go. -/
def findJson (inst : Installed) (text : Str) : Json :=
  let ns := namespaceOf text
  if ns != inst.ns then jobj [("err", Json.str "HED_LIBRARY_UNMATCHED"), ("ns", jstr ns)]
  else
    let clean := text.drop ns.length
    match find inst.vocab foldAscii clean with
    | .found i rem =>
      jobj [("node", jstr (joinSlash (inst.vocab.name i))), ("rem", jstr rem), ("ns", jstr ns),
            ("short", jstr (shortTag inst.vocab ns i rem)), ("long", jstr (longTag inst.vocab ns i rem)),
            ("base", jstr (inst.vocab.longName i)), ("short_base", jstr (inst.vocab.shortName i))]
    | .noValidTag stop =>
      jobj [("err", Json.str "NO_VALID_TAG_FOUND"), ("a", jnat ns.length), ("b", jnat (ns.length + stop))]
    | .invalidParent a b x =>
      jobj [("err", Json.str "INVALID_PARENT_NODE"), ("a", jnat (ns.length + a)), ("b", jnat (ns.length + b)),
            ("expected", jstr (joinSlash (inst.vocab.name x)))]

/-- evaluates `C03.WF` (`Functional table`): every key is bound to one entry only -/
def functionalTable (t : Table) : Bool := Id.run do
  let mut m : Std.HashMap String Nat := {}
  for (k, i) in t do
    let ks := String.ofList (joinSlash k)
    match m.get? ks with
    | some j => if j != i then return false
    | none => m := m.insert ks i
  return true

/-- evaluates `C03.TreeClosed` in the form of `C03.treeClosed_iff_parents`: the parent of every tag of
depth ≥ 2 is a tag -/
def treeClosedB (tags : List Schema.Name) : Bool := Id.run do
  let mut m : Std.HashSet String := {}
  for n in tags do
    m := m.insert (String.ofList (joinSlash n))
  for n in tags do
    if n.length ≥ 2 && !m.contains (String.ofList (joinSlash n.dropLast)) then return false
  return true

/-- same definition as `C03.shortKey` (the driver does not import the proofs) -/
def shortKey (n : Schema.Name) : Schema.Name :=
  if n.getLast? = some ['#'] then n.drop (n.length - 2) else [nameKey n]

/-- evaluates `C03.ShortDistinct fold tags`: folded short keys pairwise distinct, only `#` folds to `#` -/
def shortDistinctB (fold : Str → Str) (tags : List Schema.Name) : Bool := Id.run do
  let mut m : Std.HashSet String := {}
  for n in tags do
    if fold (nameKey n) == fold ['#'] && nameKey n != ['#'] then return false
    let ks := String.ofList (joinSlash (foldName fold (shortKey n)))
    if m.contains ks then return false
    m := m.insert ks
  return true

def parseForm (s : String) : Option Form :=
  if s == "short_tag" || s == "short" then some .short
  else if s == "long_tag" || s == "long" then some .long else none

def handleIO (op : String) (j : Json) : Option (IO (Except String Json)) :=
  match op with
  | "c03.schema" => some do
      match (do
        let name ← getString j "name"
        let ns ← getStr j "ns"
        let tags ← (← getArr j "tags").mapM asStr
        pure (name, ns, tags) : Except String _) with
      | .error e => pure (.error e)
      | .ok (name, ns, tags) =>
        let v := Vocab.build foldAscii (tags.map splitSlash)
        schemaStore.modify fun st => (name, ⟨v, ns⟩) :: st.filter (·.1 != name)
        pure (.ok (jobj [("tags", jnat tags.length), ("table", jnat v.table.length), ("wf", jbool (functionalTable v.table)),
                         ("treeClosed", jbool (treeClosedB (tags.map splitSlash))),
                         ("shortDistinct", jbool (shortDistinctB foldAscii (tags.map splitSlash))),
                         ("cleanNames", jbool (cleanNamesB (tags.map splitSlash))),
                         ("dups", jarr (v.dups.map fun i => jstr (joinSlash (v.name i))))]))
  | "c03.find" => some do
      match (do pure (← getString j "schema", ← getStr j "text") : Except String _) with
      | .error e => pure (.error e)
      | .ok (name, text) =>
        match ← getSchema name with
        | none => pure (.error s!"schema {name} not installed")
        | some inst => pure (.ok (findJson inst text))
  | "c03.convert" => some do
      -- `df_util._convert_to_form(text, schema, form)` = `str(HedString(text, schema).get_as_form(form))`
      match (do pure (← getString j "schema", ← getString j "form", ← getStr j "text") : Except String _) with
      | .error e => pure (.error e)
      | .ok (name, form, text) =>
        match ← getSchema name, parseForm form with
        | none, _ => pure (.error s!"schema {name} not installed")
        | _, none => pure (.error s!"unknown form {form}")
        | some inst, some f =>
          pure (.ok (jobj [("out", jstr (convertText inst.vocab foldAscii inst.ns f text))]))
  | "c03.convertdf" => some do
      -- `df_util.convert_to_form(df, schema, form, columns)`; `columns` absent or null = None
      match (do
        let name ← getString j "schema"
        let form ← getString j "form"
        let names ← (← getArr j "names").mapM asStr
        let cols ← (← getArr j "cols").mapM fun c => do (← asArr c).mapM asStr
        let columns ← match j.getObjVal? "columns" with
          | .ok (Json.arr a) => (a.toList.mapM asStr).map some
          | _ => pure none
        pure (name, form, names, cols, columns) : Except String _) with
      | .error e => pure (.error e)
      | .ok (name, form, names, cols, columns) =>
        match ← getSchema name, parseForm form with
        | none, _ => pure (.error s!"schema {name} not installed")
        | _, none => pure (.error s!"unknown form {form}")
        | some inst, some f =>
          match convertFrame (convertText inst.vocab foldAscii inst.ns f) (names.zip cols) columns with
          | .ok df => pure (.ok (jobj [("names", jarr (df.map fun c => jstr c.1)),
                                       ("cols", jarr (df.map fun c => jarr (c.2.map jstr)))]))
          | .error (.keyError c) => pure (.ok (jobj [("err", Json.str "KeyError"), ("column", jstr c)]))
  | _ => none

def handle (_op : String) (_j : Json) : Option (Except String Json) := none

end HedVerif.Driver.C03
