import HedVerif.Driver.Util
open Lean
namespace HedVerif.Driver.C03
open HedVerif HedVerif.Driver

/-- requests `{"op":"c03.<name>", ...}` of property C03 (stub: none yet) -/
def handle (_op : String) (_j : Json) : Option (Except String Json) := none

end HedVerif.Driver.C03
