import HedVerif.Driver.Util
import HedVerif.Model.Remodel
open Lean
namespace HedVerif.Driver.C17
open HedVerif HedVerif.Driver HedVerif.Remodel

/-- text of a float on the 1/2 grid (`1.0`, `-0.5`, `12.5`) → twice its value -/
def parseHalf (s : String) : Option Int :=
  let (neg, body) := match s.toList with
    | '-' :: r => (true, r)
    | r => (false, r)
  match body.span Char.isDigit with
  | (ds, '.' :: [f]) =>
    if ds.isEmpty then none else
    let n : Nat := ds.foldl (fun a c => a * 10 + (c.toNat - '0'.toNat)) 0
    let h : Option Nat := if f = '0' then some (2 * n) else if f = '5' then some (2 * n + 1) else none
    h.map fun v => if neg then -(v : Int) else (v : Int)
  | _ => none

/-- Wire format: integers are JSON numbers; a float is `{"$f": "<Python repr>"}` (Lean's JSON reader normalises
`1.0` to `1`, and the distinction is observable in `str()`); a dictionary is `{"$o": [[key, value], …]}` so that
its insertion order survives (Lean's JSON objects are sorted). -/
def fltOf? (j : Json) : Option String :=
  match j with
  | .obj kvs => match kvs.toList with
    | [("$f", .str r)] => some r
    | _ => none
  | _ => none

def ordOf? (j : Json) : Option (Array Json) :=
  match j with
  | .obj kvs => match kvs.toList with
    | [("$o", .arr ps)] => some ps
    | _ => none
  | _ => none

partial def toJVal (j : Json) : Except String JVal :=
  match fltOf? j with
  | some r => match parseHalf r with
    | some h => pure (.flt h)
    | none => throw s!"float {r} is not on the 1/2 grid"
  | none =>
    match ordOf? j with
    | some ps => do
      let kvs ← ps.toList.mapM fun p => match p with
        | .arr #[.str k, v] => do pure (k.toList, ← toJVal v)
        | _ => throw "bad $o entry"
      pure (.obj kvs)
    | none =>
      match j with
      | .null => pure .null
      | .bool b => pure (.bool b)
      | .num n => if n.exponent == 0 then pure (.int n.mantissa) else throw "float must be {\"$f\": repr}"
      | .str s => pure (.str s.toList)
      | .arr xs => do pure (.arr (← xs.toList.mapM toJVal))
      | .obj kvs => do pure (.obj (← kvs.toList.mapM fun (k, v) => do pure (k.toList, ← toJVal v)))

def toCell : Json → Except String Cell
  | .null => .ok .nan
  | .str s => .ok (.str s.toList)
  | .num n => if n.exponent == 0 then .ok (.int n.mantissa) else .error "float cell must be {\"$f\": repr}"
  | j => match fltOf? j with
    | some r => match parseHalf r with
      | some h => .ok (.flt h)
      | none => .error s!"float {r} is not on the 1/2 grid"
    | none => .error "bad cell"

def toTable (j : Json) : Except String Table := do
  let cols ← asArr j
  cols.mapM fun c => do
    match c with
    | .arr #[.str name, .arr cells] => pure (name.toList, ← cells.toList.mapM toCell)
    | _ => throw "bad column"

def tableJson (t : Table) : Json :=
  jobj [("header", jarr ((header t).map jstr)), ("cols", jarr (t.map fun p => jarr (p.2.map fun c => jstr (pyStr c))))]

def excName : OpErr → String
  | .raised .KeyError => "KeyError" | .raised .ValueError => "ValueError"
  | .raised .TypeError => "TypeError" | .raised .IndexError => "IndexError"
  | .unmodelled => "unmodelled"

def resJson : Except OpErr Table → Json
  | .ok t => jobj [("ok", tableJson t)]
  | .error e => jobj [("err", Json.str (excName e))]

def valJson : Val → Json
  | .str s => jstr s
  | .int n => jint n
  | .flt h => jobj [("$f", jstr (fltRepr h))]
  | .nan => Json.null

def strsJson (xs : List Str) : Json := jarr (xs.map jstr)
def optStrs (k : String) : Option (List Str) → List (String × Json)
  | none => [] | some xs => [(k, strsJson xs)]

/-- the parameter dictionary an operation holds (its state) -/
def opJson : Op → Json
  | .removeRows c vs => jobj [("column_name", jstr c), ("remove_values", jarr (vs.map valJson))]
  | .removeColumns cs i => jobj [("column_names", strsJson cs), ("ignore_missing", jbool i)]
  | .renameColumns m i =>
    jobj [("column_mapping", jobj (m.map fun kv => (String.ofList kv.1, jstr kv.2))), ("ignore_missing", jbool i)]
  | .reorderColumns o i k => jobj [("column_order", strsJson o), ("ignore_missing", jbool i), ("keep_others", jbool k)]
  | .factorColumn c vs ns => jobj ([("column_name", jstr c)] ++ optStrs "factor_values" vs ++ optStrs "factor_names" ns)
  | .mergeConsecutive c code m sd i =>
    jobj ([("column_name", jstr c), ("event_code", valJson code), ("set_durations", jbool sd),
           ("ignore_missing", jbool i)] ++ optStrs "match_columns" m)
  | .remapColumns s d ml i is =>
    jobj ([("source_columns", strsJson s), ("destination_columns", strsJson d),
           ("map_list", jarr (ml.map fun r => jarr (r.map valJson))), ("ignore_missing", jbool i)]
          ++ optStrs "integer_sources" is)
  | .splitRows a evs rp =>
    jobj [("anchor_column", jstr a), ("remove_parent_row", jbool rp),
          ("new_events", jobj (evs.map fun e => (String.ofList e.1,
            jobj ([("onset_source", jarr (e.2.onsetSrc.map valJson)), ("duration", jarr (e.2.duration.map valJson))]
                  ++ optStrs "copy_columns" e.2.copy))))]

def errJson (e : Err) : Json := jarr [jnat e.index, Json.str (toString (repr e.kind))]

/-- `{"op":"c17.validate","ops":[…]}` → number of errors (only emptiness is compared) and their kinds.
`{"op":"c17.run","ops":[…],"tables":[[[name,[cell…]]…]…],"old":bool}` → the CLI outcome: rejected, or the results of
the tables pushed in this order through one dispatcher, the parameters afterwards, `hasColumns` per table. -/
def handle (op : String) (j : Json) : Option (Except String Json) :=
  match op with
  | "c17.validate" => some do
      let raws ← (← getArr j "ops").mapM toJVal
      let errs := validateParams raws
      pure <| jobj [("errors", jnat errs.length), ("kinds", jarr (errs.map errJson)),
                    ("modelled", jbool (parseOps raws).isSome)]
  | "c17.run" => some do
      let raws ← (← getArr j "ops").mapM toJVal
      let tables ← (← getArr j "tables").mapM toTable
      let old := getBoolD j "old" false
      let errs := validateParams raws
      if !errs.isEmpty then
        pure <| jobj [("outcome", Json.str "rejected"), ("errors", jnat errs.length), ("kinds", jarr (errs.map errJson))]
      else match parseOps raws with
        | none => pure <| jobj [("outcome", Json.str "notModelled"), ("errors", jnat 0)]
        | some ops =>
          let r := if old then runManyWith opImplOld ops tables else runMany ops tables
          pure <| jobj [("outcome", Json.str "ran"), ("errors", jnat 0),
                        ("results", jarr (r.2.map resJson)),
                        ("state", jarr (r.1.map opJson)),
                        ("before", jarr (ops.map opJson)),
                        ("hasColumns", jarr (tables.map fun t => jbool (hasColumns ops t)))]
  | _ => none

end HedVerif.Driver.C17
