import HedVerif.Driver.Util
open Lean
namespace HedVerif.Driver.C17
open HedVerif HedVerif.Driver

/-- requests `{"op":"c17.<name>", ...}` of property C17 (stub: none yet) -/
def handle (_op : String) (_j : Json) : Option (Except String Json) := none

end HedVerif.Driver.C17
