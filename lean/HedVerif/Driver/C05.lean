import HedVerif.Driver.Util
open Lean
namespace HedVerif.Driver.C05
open HedVerif HedVerif.Driver

/-- requests `{"op":"c05.<name>", ...}` of property C05 (stub: none yet) -/
def handle (_op : String) (_j : Json) : Option (Except String Json) := none

end HedVerif.Driver.C05
