import HedVerif.Driver.Util
import HedVerif.Model.SchemaIO
open Lean
namespace HedVerif.Driver.C05
open HedVerif HedVerif.Driver HedVerif.SchemaIO

def attrsJson (as : Attrs) : Json := jarr (as.map fun kv => jarr [jstr kv.1, jarr (kv.2.map jstr)])

def attrsOf (j : Json) : Except String Attrs := do
  (← asArr j).mapM fun kv => do
    match ← asArr kv with
    | [k, vs] => pure (← asStr k, ← (← asArr vs).mapM asStr)
    | _ => .error "attribute must be [name,[values]]"

def descOf (j : Json) (k : String) : Option Str :=
  match j.getObjVal? k with
  | .ok (Json.str s) => some s.toList
  | _ => none

def entryOf (j : Json) : Except String Entry := do
  pure ⟨← getStr j "name", ← attrsOf (← getVal j "attrs"), descOf j "desc"⟩

def entryJson (e : Entry) : Json :=
  jobj [("name", jstr e.name), ("attrs", attrsJson e.attrs), ("desc", jopt jstr e.desc)]

def werr : WErr → String
  | .nowiki => "nowiki" | .noName => "noName" | .attrDelims => "attrDelims" | .attrBad => "attrBad"
  | .descDelims => "descDelims" | .skipLevel => "skipLevel" | .crash => "crash"

def flagsJson (f : Flags) : Json :=
  jobj [("saveLib", jbool f.saveLib), ("saveBase", jbool f.saveBase), ("saveMerged", jbool f.saveMerged),
        ("stripInLib", jbool f.stripInLib)]

def terr : TErr → String
  | .noName => "noName" | .crash => "crash" | .unresolvedParent => "unresolvedParent"
  | .needsPartner => "needsPartner"

def rowJson (r : TsvRow) : Json :=
  jarr [jstr r.hedId, jnat r.level, jstr r.name, jstr r.parent, jstr r.attrs, jstr r.desc]

def rowOf (j : Json) : Except String TsvRow := do
  match ← asArr j with
  | [h, l, n, p, a, d] => pure ⟨← asStr h, ← asNat l, ← asStr n, ← asStr p, ← asStr a, ← asStr d⟩
  | _ => .error "row must be [hedId, level, name, parent, attrs, desc]"

mutual
def xnodeJson : XNode → Json
  | .node n d as ch => jarr [jstr n, jopt jstr d, attrsJson as, jarr (xforestJson ch)]
def xforestJson : List XNode → List Json
  | [] => []
  | x :: xs => xnodeJson x :: xforestJson xs
end

partial def xnodeOf (j : Json) : Except String XNode := do
  match ← asArr j with
  | [n, d, as, ch] =>
    let desc := match d with | Json.str s => some s.toList | _ => none
    pure (.node (← asStr n) desc (← attrsOf as) (← (← asArr ch).mapM xnodeOf))
  | _ => .error "node must be [name, desc, attrs, children]"

def entriesResult {ε} (f : ε → String) : Except ε (List Entry) → Json
  | .ok es => jarr (es.map entryJson)
  | .error e => Json.str (f e)

/-- requests `{"op":"c05.<name>", ...}` of property C05 -/
def handle (op : String) (j : Json) : Option (Except String Json) :=
  match op with
  | "c05.parse" => some do
      let s ← getStr j "s"
      pure (match parseAttr s with
        | .ok as => jobj [("ok", attrsJson as)]
        | .error .malformed => jobj [("err", Json.str "malformed")]
        | .error .flagPlusValue => jobj [("err", Json.str "crash")])
  | "c05.format" => some do
      let as ← attrsOf (← getVal j "attrs")
      pure (jobj [("s", jstr (formatAttr as)), ("wf", jbool (attrsWF as)),
                  ("back", match parseAttr (formatAttr as) with
                    | .ok b => attrsJson b
                    | .error _ => Json.null)])
  | "c05.readline" => some do
      let raw ← getStr j "raw"
      pure (match cleanLine raw with
        | .error e => jobj [("err", Json.str (werr e))]
        | .ok none => jobj [("dropped", jbool true)]
        | .ok (some row) =>
          match readEntry row with
          | .error e => jobj [("err", Json.str (werr e))]
          | .ok (name, attrs, desc) =>
            jobj [("root", jbool (quote3.isPrefixOf row)), ("level", jopt jnat (tagLevel row)),
                  ("name", jstr name), ("attrs", attrsJson attrs), ("desc", jopt jstr desc)])
  | "c05.writeline" => some do
      let lv ← getNat j "level"
      let short ← getStr j "short"
      let as ← attrsOf (← getVal j "attrs")
      let desc := descOf j "desc"
      let ex := extras (formatAttr as) desc
      let line := if getBoolD j "entry" false then entryLine lv short ex else tagLine lv short ex
      pure (jobj [("line", jstr line), ("wf", jbool (lineWF lv short as desc)),
                  ("trimmed", jbool (descTrimmed desc))])
  | "c05.tags" => some do
      let es ← (← getArr j "entries").mapM entryOf
      let lib ← getStr j "library"
      let ws ← getStr j "withStandard"
      let merged ← getBool j "merged"
      pure (match saveTags lib ws merged es with
        | .error _ => jobj [("refuse", jbool true)]
        | .ok out =>
          let lines := toWikiLeveled out
          jobj [("levels", jarr (out.map fun p => jnat p.1)),
                ("entries", jarr (out.map fun p => entryJson p.2)),
                ("lines", jarr (lines.map jstr)),
                ("wf", jbool (out.all fun p => entryWF p.2 && descTrimmed p.2.desc)),
                ("preorder", jbool (Preorder [] (out.map (·.2)))),
                ("reread", match ofWiki lines with
                  | .ok back => jarr (back.map entryJson)
                  | .error e => Json.str (werr e))])
  | "c05.flags" => some do
      let lib ← getStr j "library"
      let ws ← getStr j "withStandard"
      let merged ← getBool j "merged"
      pure (match processFlags lib ws merged with
        | .error _ => jobj [("refuse", jbool true)]
        | .ok f => flagsJson f)
  | "c05.sections" => some do
      let lib ← getStr j "library"
      let ws ← getStr j "withStandard"
      let merged ← getBool j "merged"
      let secs ← (← getArr j "sections").mapM fun s => do (← asArr s).mapM entryOf
      let ucs ← (← getArr j "unitClasses").mapM fun u => do
        pure (← entryOf (← getVal u "entry"), ← (← getArr u "units").mapM entryOf)
      pure (match processFlags lib ws merged with
        | .error _ => jobj [("refuse", jbool true)]
        | .ok f =>
          let line (d : Nat) (e : Entry) (props : Bool) : Json :=
            jstr (entryLine d e.name (if props then entryExtras e else []))
          jobj [("sections", jarr (secs.map fun s =>
                  let out := outputSection f s
                  jobj [("entries", jarr (out.map entryJson)), ("lines", jarr (out.map fun e => line 1 e true))])),
                ("wf", jbool ((secs.all fun s => (outputSection f s).all (secWF 1)) &&
                  (outputUnits f ucs).all fun t => (!t.2.1 || secWF 1 t.1) && t.2.2.all (secWF 2))),
                ("unitClasses", jarr ((outputUnits f ucs).map fun t =>
                  jobj [("entry", entryJson t.1), ("props", jbool t.2.1), ("units", jarr (t.2.2.map entryJson)),
                        ("lines", jarr (line 1 t.1 t.2.1 :: t.2.2.map fun u => line 2 u true))]))])
  | "c05.tsv" => some do
      let es ← (← getArr j "entries").mapM entryOf
      let lib ← getStr j "library"
      let ws ← getStr j "withStandard"
      let merged ← getBool j "merged"
      pure (match saveTags lib ws merged es with
        | .error _ => jobj [("refuse", jbool true)]
        | .ok out =>
          let rows := toTsvRows out
          jobj [("rows", jarr (rows.map rowJson)),
                ("reread", entriesResult terr (ofTsvRows rows)),
                ("wf", jbool (out.all fun p => tsvWF p.2)),
                ("resolvable", jbool (TsvResolvable [(hedTag, [])] (out.map (·.2))))])
  | "c05.readtsv" => some do
      let rows ← (← getArr j "rows").mapM rowOf
      pure (jobj [("entries", entriesResult terr (ofTsvRows rows))])
  | "c05.xml" => some do
      let es ← (← getArr j "entries").mapM entryOf
      let lib ← getStr j "library"
      let ws ← getStr j "withStandard"
      let merged ← getBool j "merged"
      pure (match saveTags lib ws merged es with
        | .error _ => jobj [("refuse", jbool true)]
        | .ok out =>
          match toXmlTree out with
          | none => jobj [("tree", Json.null)]
          | some F =>
            jobj [("tree", jarr (xforestJson F)), ("reread", jarr ((ofXmlTree F).map entryJson)),
                  ("wf", jbool (out.all fun p => xmlWF p.2))])
  | "c05.readxml" => some do
      let F ← (← getArr j "tree").mapM xnodeOf
      pure (jobj [("entries", jarr ((ofXmlTree F).map entryJson))])
  | "c05.readsection" => some do
      let lines ← (← getArr j "lines").mapM asStr
      pure (if getBoolD j "units" false then
        match ofWikiUnits lines with
        | .ok cls => jobj [("classes", jarr (cls.map fun c =>
            jobj [("entry", entryJson c.1), ("units", jarr (c.2.map entryJson))]))]
        | .error e => jobj [("err", Json.str (werr e))]
      else jobj [("entries", entriesResult werr (ofWikiSection lines))])
  | "c05.treeorder" => some do
      let names ← (← getArr j "names").mapM asStr
      let es : List Entry := names.map fun n => ⟨n, [], none⟩
      let out := treeOrder es
      pure (jobj [("order", jarr (out.map fun e => jstr e.name)), ("closed", jbool (groupClosed es)),
                  ("preorder", jbool (Preorder [] out)), ("fixed", jbool (treeOrder out == out))])
  | "c05.savefiles" => some do
      let base ← getStr j "base"
      let pair (x : Json) : Except String (Str × String) := do
        match ← asArr x with
        | [a, b] => pure (← asStr a, String.ofList (← asStr b))
        | _ => .error "expected [name, content]"
      let old ← (← getArr j "old").mapM pair
      let sheets ← (← getArr j "sheets").mapM pair
      let files := saveFrames base old sheets
      pure (jobj [("files", jarr (files.map fun f => jarr [jstr f.1, Json.str f.2])),
                  ("keysAreTheTenSheets", jbool (sheets.map (·.1) == sheetNames)),
                  ("load", jarr ((loadFrames base files).map fun f => jarr [jstr f.1, jopt Json.str f.2]))])
  | "c05.escape" => some do
      let s ← getStr j "s"
      pure (jobj [("esc", jstr (escapeNl s)), ("back", jstr (unescapeNl (escapeNl s)))])
  | _ => none

end HedVerif.Driver.C05
