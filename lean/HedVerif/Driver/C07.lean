import HedVerif.Driver.Util
open Lean
namespace HedVerif.Driver.C07
open HedVerif HedVerif.Driver

/-- requests `{"op":"c07.<name>", ...}` of property C07 (stub: none yet) -/
def handle (_op : String) (_j : Json) : Option (Except String Json) := none

end HedVerif.Driver.C07
