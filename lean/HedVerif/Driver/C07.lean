import HedVerif.Driver.Util
import HedVerif.Driver.C10
import HedVerif.Model.Tabular
open Lean
namespace HedVerif.Driver.C07
open HedVerif HedVerif.Driver HedVerif.Tabular

/-!
`c07.validate`: one table + the string-level oracle collected so far (`"S": {text: {part: value}}`, parts
`cell`, `full`, `banned`, `pfull`, `markers`, `items`).  Answer: `need` = the (part, text) pairs the model asks for that
are not in `S` yet (the harness computes them with the real HedValidator and asks again), and, once nothing
is needed, `exc` or `issues`.
`c07.span`: `remapSpan`.
-/

def rissueOf (j : Json) : Except String RIssue := do
  match (← asArr j) with
  | [Json.str k, s] => pure ⟨k.toList, ← asNat s⟩
  | _ => .error "issue must be [kind, sev]"

def rissuesOf (j : Json) : List RIssue :=
  match (do (← asArr j).mapM rissueOf : Except String (List RIssue)) with
  | .ok l => l
  | .error _ => []

def dvalOf : Json → Option DVal
  | Json.str "none" => some .none
  | Json.str "bad" => some .bad
  | Json.null => none
  | j => match j.getInt? with
    | .ok n => some (.num n)
    | .error _ => none

def itemsOf (j : Json) : Option (List Item) :=
  match j with
  | Json.arr a => some (a.toList.map fun it =>
      match it with
      | Json.arr #[Json.str t, d] => ⟨t.toList, dvalOf d⟩
      | _ => ⟨[], none⟩)
  | _ => none

def part (S : Json) (p : String) (text : Str) : Option Json :=
  match S.getObjVal? (String.ofList text) with
  | .ok e => match e.getObjVal? p with
    | .ok v => some v
    | .error _ => none
  | .error _ => none

def oracleOf (S : Json) : Oracle where
  cell t := ((part S "cell" t).map rissuesOf).getD []
  full t := ((part S "full" t).map rissuesOf).getD []
  pfull t := ((part S "pfull" t).map rissuesOf).getD []
  banned t := ((part S "banned" t).map rissuesOf).getD []
  items t := (part S "items" t).bind itemsOf
  markers t := match (part S "markers" t).map C10.markersOf with
    | some (.ok l) => l
    | _ => []
  fold := C10.foldAscii

def strList (j : Json) (k : String) : Except String (List Str) := do (← getArr j k).mapM asStr

def rowOf (j : Json) : Except String Row := do
  let onset := match j.getObjVal? "onset" with
    | .ok v => match v.getInt? with
      | .ok n => some n
      | .error _ => none
    | .error _ => none
  pure ⟨onset, ← strList j "cells", ← strList j "cats"⟩

def temporalKind (e : Temporal.Err) : RIssue := ⟨("TEMPORAL_TAG_ERROR:" ++ C10.errName e).toList, 1⟩

def cfgOf (j : Json) : Except String Cfg := do
  let cats ← (← getArr j "catCols").mapM fun c => do
    match (← asArr c) with
    | [n, Json.arr ks] => pure (← asStr n, ← ks.toList.mapM asStr)
    | _ => .error "catCols entry must be [name, keys]"
  let S ← getVal j "S"
  pure { rowAdj := ← getNat j "rowAdj", hasOnset := ← getBool j "hasOnset", columns := ← strList j "columns",
         catCols := cats, mapIssues := rissuesOf (← getVal j "mapIssues"), refs := ← strList j "refs",
         allColumns := ← strList j "allColumns", maskByRow := ← getBool j "maskByRow",
         guardDelay := ← getBool j "guardDelay",
         colIdx := match j.getObjVal? "colIdx" with
           | .ok (Json.arr a) => a.toList.map fun v => match v.getNat? with
             | .ok n => some n
             | .error _ => none
           | _ => [],
         kKey := ⟨"SIDECAR_KEY_MISSING:SIDECAR_KEY_MISSING".toList, 10⟩,
         kRef := ⟨"SIDECAR_BRACES_INVALID:INVALID_COLUMN_REF".toList, 1⟩,
         kUnordered := ⟨"ONSETS_UNORDERED:ONSETS_UNORDERED".toList, 10⟩,
         kTemporal := temporalKind, o := oracleOf S }

def srcName : Src → String
  | .mapping => "mapping" | .ref => "ref" | .unordered => "unordered" | .key .. => "key"
  | .cell .. => "cell" | .row .. => "row" | .point .. => "point" | .temporal .. => "temporal"

def needs (S : Json) (cfg : Cfg) (T : List Row) : List Json :=
  let miss (p : String) (t : Str) : Option Json :=
    if (part S p t).isSome then none else some (jarr [Json.str p, jstr t])
  let R := (frame cfg T).map (·.2)
  let cells := R.flatMap fun r => (live cfg r).filterMap fun c => miss "cell" c.2.2
  let items := if cfg.hasOnset then R.filterMap fun r => miss "items" (seriesText cfg r) else []
  if !(cells ++ items).isEmpty then cells ++ items
  else
    let rows := R.filterMap fun r => if (live cfg r).isEmpty then none else some (rowText cfg r)
    let pts := if cfg.hasOnset then (timeFrame cfg R).filterMap fun x => if x.2.1.isEmpty then none else some x.2.1
               else []
    (rows.flatMap fun t => (["full", "banned"].filterMap fun p => miss p t)) ++
    (pts.flatMap fun t => (["pfull", "markers"].filterMap fun p => miss p t))

/-- the typed column label: a JSON number for an integer label, a JSON string for a name -/
def labelJson : ColLabel → Json
  | .name s => jstr s
  | .idx n => jnat n

def excName : PyExc → String
  | .typeError => "TypeError" | .valueError => "ValueError" | .indexError => "IndexError"

def handle (op : String) (j : Json) : Option (Except String Json) :=
  match op with
  | "c07.validate" => some do
      let cfg ← cfgOf j
      let S ← getVal j "S"
      let T ← (← getArr j "rows").mapM rowOf
      let nd := (needs S cfg T).eraseDups
      if !nd.isEmpty then pure <| jobj [("need", jarr nd)]
      else
        let F := frame cfg T
        let extra := [("need", jarr []), ("sorted", jbool (needsSorting cfg T)), ("labels", jarr (F.map fun kr => jnat kr.1)),
                      ("timeframe", if cfg.hasOnset then
                          jarr ((timeFrame cfg (F.map (·.2))).map fun x =>
                            jarr [jint x.1, jstr x.2.1, jnat ((F.map (·.1))[x.2.2]?.getD 0)]) else Json.null)]
        match validate cfg T with
        | .error e => pure <| jobj (("exc", Json.str (excName e)) :: extra)
        | .ok out => pure <| jobj (("issues", jarr (out.map fun i =>
            jarr [jstr i.kind, jnat i.sev, jopt jnat i.row, jopt jstr i.col, Json.str (srcName i.src), jstr i.text,
                  jopt labelJson (i.label cfg)])) :: extra)
  | "c07.concat" => some do
      let cells ← strList j "cells"
      pure <| jobj [("same", jbool (sameTree cells)), ("code", jarr ((listCode (concatTrees cells)).map jnat)),
                    ("balanced", jarr (cells.map fun c => jbool (!Paren.mismatch c)))]
  | "c07.span" => some do
      let cells ← strList j "cells"
      let sp := remapSpan cells (← getNat j "i") (← getNat j "a", ← getNat j "b")
      pure <| jobj [("span", jarr [jnat sp.1, jnat sp.2]), ("joined", jstr (joinWith [','] cells))]
  | _ => none

end HedVerif.Driver.C07
