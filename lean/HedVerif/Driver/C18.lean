import HedVerif.Driver.Util
import HedVerif.Model.Backup
open Lean
namespace HedVerif.Driver.C18
open HedVerif HedVerif.Driver HedVerif.FS HedVerif.Backup

def asPath (j : Json) : Except String Path := do
  let a ← asArr j
  a.mapM asStr

def jpath (p : Path) : Json := jarr (p.map jstr)

def asBytes (j : Json) : Except String (List Sym) := do
  let a ← asArr j
  a.mapM (fun x => do let n ← asNat x; pure (Sym.byte n))

def symNat : Sym → Nat
  | .byte n => n
  | _ => 0

def getCfg (j : Json) : Except String Cfg := do
  let d ← asPath (← getVal j "dataRoot")
  let b ← asPath (← getVal j "backups")
  let n ← getStr j "name"
  let st ← getStr j "stamp"
  pure { dataRoot := d, backups := b, name := n, stamp := st }

/-- tree entry: `[path, null]` directory, `[path, [bytes]]` file,
`[path, {"keys":[..], "stamp":".."}]` a complete backup record written by `json.dump(indent=4)` -/
def getTree (j : Json) : Except String St := do
  let a ← getArr j "tree"
  a.foldlM (fun s e => do
    let pr ← asArr e
    match pr with
    | [p, v] =>
      let p ← asPath p
      match v with
      | Json.null => pure (set s p .dir)
      | Json.arr _ => do let b ← asBytes v; pure (set s p (.reg b))
      | _ => do
        let ks ← (← getArr v "keys").mapM asStr
        let st ← getStr v "stamp"
        pure (set s p (.reg (record st ks)))
    | _ => throw "bad tree entry") []

def getFiles (j : Json) : Except String (List Path) := do
  (← getArr j "files").mapM asPath

def errName : Err → String
  | .badBackupPath => "BadBackupPath" | .badBackupFormat => "BadBackupFormat"
  | .badDictPath => "BadBackupDictionaryPath" | .badRootPath => "BadBackupRootPath"
  | .isADirectory => "IsADirectoryError" | .jsonDecode => "JSONDecodeError"
  | .missingBackupFile => "MissingBackupFile" | .extraFiles => "ExtraFilesInBackup"
  | .noBackup => "NoBackup" | .backupDoesNotExist => "BackupDoesNotExist" | .backupExists => "BackupExists" | .badDataFile => "BadDataFile"
  | .fileNotFound => "FileNotFoundError"

def scanJson (r : Except Err Listing) : Json :=
  match r with
  | .error e => jobj [("err", Json.str (errName e))]
  | .ok l => jobj [("ok", jarr (l.map (fun e => jarr [jstr e.1, jarr (e.2.map jstr)])))]

def isRecordSym : Sym → Bool
  | .byte _ => false
  | _ => true

/-- regular files of the state: `[path, [bytes]]`, a record as `[path, {"len": n}]` -/
def filesJson (s : St) (under : Path) : Json :=
  jarr (s.filterMap (fun e => match e.2 with
    | .dir => none
    | .reg b =>
      if under.isPrefixOf e.1 then
        if b.any isRecordSym || e.1.getLast? == some lockName then
          some (jarr [jpath e.1, jobj [("len", jnat b.length)]])
        else some (jarr [jpath e.1, jarr (b.map (fun x => jnat (symNat x)))])
      else none))

def stepJson : Step Sym → Json
  | .mkdir p => jarr [Json.str "mkdir", jpath p]
  | .create p => jarr [Json.str "create", jpath p]
  | .append p ch => jarr [Json.str "append", jpath p, jnat ch.length]
  | .close p => jarr [Json.str "close", jpath p]
  | .rename a b => jarr [Json.str "rename", jpath a, jpath b]
  | .remove p => jarr [Json.str "remove", jpath p]

def getOp (j : Json) : Except String Op := do
  let k ← getString j "op"
  match k with
  | "modify" => do pure (.modify (← asPath (← getVal j "path")) (← asBytes (← getVal j "bytes")))
  | "delete" => do pure (.delete (← asPath (← getVal j "path")))
  | "restore" => do pure (.restore (← (← getArr j "tasks").mapM asStr))
  | "remodel" => do pure (.remodel (← (← getArr j "tasks").mapM asStr))
  | "restoreCrash" => do pure (.restoreCrash (← (← getArr j "tasks").mapM asStr) (← getNat j "k"))
  | "remodelCrash" => do
      pure (.remodelCrash (← (← getArr j "tasks").mapM asStr) (← (← getArr j "order").mapM asPath) (← getNat j "k"))
  | _ => throw s!"unknown history op {k}"

/-- the transformation of the remodel run as a finite table (content -> content), identity elsewhere -/
def getT (j : Json) : Except String (List Sym → List Sym) := do
  let a ← getArr j "T"
  let tab ← a.mapM (fun e => do
    match (← asArr e) with
    | [x, y] => do pure ((← asBytes x), (← asBytes y))
    | _ => throw "bad T entry")
  pure (fun b => match tab.find? (fun e => e.1 == b) with | some e => e.2 | none => b)

def handle (op : String) (j : Json) : Option (Except String Json) :=
  match op with
  /- every crash point of `create_backup`: steps, and for each k the scan and the surviving backup files -/
  | "c18.crash" => some do
      let c ← getCfg j
      let s0 ← getTree j
      let files ← getFiles j
      let listing := scan s0 c.backups
      let l := match listing with | .ok l => l | .error _ => []
      let (ret, steps) := create c l s0 files
      let pts := (List.range (steps.length + 1)).map (fun k =>
        let s := crashAfter k steps s0
        jobj [("k", jnat k), ("scan", scanJson (scan s c.backups)), ("files", filesJson s c.bdir)])
      pure <| jobj [("pre", scanJson listing), ("ret", jbool ret), ("steps", jarr (steps.map stepJson)),
                    ("points", jarr pts)]
  /- complete backup, then a history of operations; state of all regular files after each -/
  | "c18.history" => some do
      let c ← getCfg j
      let s0 ← getTree j
      let files ← getFiles j
      let T ← getT j
      let ops ← (← getArr j "ops").mapM getOp
      let s := exec (createSteps c s0 files) s0
      match scan s c.backups with
      | .error e => pure <| jobj [("scan-err", Json.str (errName e))]
      | .ok l =>
        let ks := match l.find? (fun e => e.1 == c.name) with | some e => e.2 | none => []
        let fs := ks.map splitKey
        let rec go (s : St) : List Op → List Json → List Json
          | [], acc => acc.reverse
          | o :: r, acc => match applyOp c T fs s o with
            | .error e => (jobj [("err", Json.str (errName e))] :: acc).reverse
            | .ok s' => go s' r (jobj [("files", filesJson s' [])] :: acc)
        pure <| jobj [("keys", jarr (ks.map jstr)), ("after-create", filesJson s []),
                      ("trace", jarr (go s ops []))]
  /- every crash point of a restore / remodel run on the given tree (backup `name` complete in it):
     steps, and for each k the regular files of the tree; `expect` = the files a complete run rewrites -/
  | "c18.opcrash" => some do
      let c ← getCfg j
      let s ← getTree j
      let T ← getT j
      let tasks ← (← getArr j "tasks").mapM asStr
      let order ← (← getArr j "order").mapM asPath
      let kind ← getString j "kind"
      match scan s c.backups with
      | .error e => pure <| jobj [("scan-err", Json.str (errName e))]
      | .ok l =>
        let ks := match l.find? (fun e => e.1 == c.name) with | some e => e.2 | none => []
        let fs := ks.map splitKey
        let steps := if kind == "restore" then restoreSteps c fs tasks s else remodelSteps c T fs tasks order s
        let pts := (List.range (steps.length + 1)).map (fun k =>
          jobj [("k", jnat k), ("files", filesJson (crashAfter k steps s) c.dataRoot)])
        let whole := if kind == "restore" then restore c fs tasks s else remodel c T fs tasks s
        pure <| jobj [("steps", jarr (steps.map stepJson)), ("points", jarr pts),
                      ("expect", jarr ((fs.filter (fun f => selKey f && taskOk tasks f &&
                          (picked tasks f || isReg s (c.dpath f)))).map jpath)),
                      ("whole", match whole with
                        | .error e => jobj [("err", Json.str (errName e))]
                        | .ok s' => jobj [("files", filesJson s' c.dataRoot)])]
  /- a session on the level of whole backups: creations (API / CLI, any selection incl. empty), re-opened
     managers, restores, data modifications; after each operation: returned value / error, all files -/
  | "c18.bhist" => some do
      let c ← getCfg j
      let s0 ← getTree j
      let ops ← getArr j "ops"
      let m0 := match scan s0 c.backups with | .ok l => l | .error _ => []
      let rec goB (m : Listing) (s : St) : List Json → List Json → Except String (List Json)
        | [], acc => pure acc.reverse
        | o :: r, acc => do
          let k ← getString o "op"
          let fresh := getBoolD o "fresh" false
          let cli := getBoolD o "cli" false
          -- a fresh manager (always for the CLI): constructing it may fail
          let opened : Except Err Listing := if fresh || cli then scan s c.backups else .ok m
          let out (m' : Listing) (s' : St) (ret : Json) (err : Json) : Json :=
            jobj [("ret", ret), ("err", err), ("files", filesJson s' c.dataRoot), ("scan", scanJson (scan s' c.backups)),
                  ("dict", jarr (m'.map (fun e => jarr [jstr e.1, jarr (e.2.map jstr)])))]
          match k with
          | "reopen" => match scan s c.backups with
            | .ok l => goB l s r (out l s Json.null Json.null :: acc)
            | .error e => goB m s r (out m s Json.null (Json.str (errName e)) :: acc)
          | "modify" => do
              let s' := set s (← asPath (← getVal o "path")) (.reg (← asBytes (← getVal o "bytes")))
              goB m s' r (out m s' Json.null Json.null :: acc)
          | "delete" => do
              let s' := delTree s (← asPath (← getVal o "path"))
              goB m s' r (out m s' Json.null Json.null :: acc)
          | "create" => do
              let n ← getStr o "name"
              let files ← getFiles o
              let c' := { c with name := n }
              match opened with
              | .error e => goB m s r (out m s Json.null (Json.str (errName e)) :: acc)
              | .ok mm =>
                let res : Except Err (Bool × List (Step Sym)) := if cli then createCli c' mm s files else .ok (create c' mm s files)
                match res with
                | .error e => goB mm s r (out mm s Json.null (Json.str (errName e)) :: acc)
                | .ok (ret, steps) =>
                  let s' := exec steps s
                  let mm' := if ret then mm ++ [(n, (files.map joinKey).eraseDups)] else mm
                  -- after a creation by another manager the session re-opens its own (no stale managers)
                  goB mm' s' r (out mm' s' (jbool ret) Json.null :: acc)
          | "restore" => do
              let n ← getStr o "name"
              let tasks ← (← getArr o "tasks").mapM asStr
              let c' := { c with name := n }
              match opened with
              | .error e => goB m s r (out m s Json.null (Json.str (errName e)) :: acc)
              | .ok mm =>
                let fs := ((lookup mm n).getD []).map splitKey
                let res := if cli then restoreCli c' fs tasks s else restore c' fs tasks s
                match res with
                | .error e => goB m s r (out mm s Json.null (Json.str (errName e)) :: acc)
                | .ok s' => goB m s' r (out mm s' Json.null Json.null :: acc)
          | _ => throw s!"unknown bhist op {k}"
      let tr ← goB m0 s0 ops []
      pure <| jobj [("pre", scanJson (scan s0 c.backups)), ("trace", jarr tr)]
  /- key mapping and task filter in isolation -/
  | "c18.key" => some do
      let p ← asPath (← getVal j "path")
      let tasks ← (← getArr j "tasks").mapM asStr
      pure <| jobj [("key", jstr (joinKey p)), ("split", jpath (splitKey (joinKey p))),
                    ("picked", jbool (picked tasks p)), ("sel", jbool (selKey p)),
                    ("bidsTask", jstr (bidsTask (p.getLastD []))), ("taskOk", jbool (taskOk tasks p)),
                    ("recordLen", jnat (record (← getStr j "stamp") [joinKey p]).length)]
  | _ => none

end HedVerif.Driver.C18
