import HedVerif.Driver.Util
open Lean
namespace HedVerif.Driver.C18
open HedVerif HedVerif.Driver

/-- requests `{"op":"c18.<name>", ...}` of property C18 (stub: none yet) -/
def handle (_op : String) (_j : Json) : Option (Except String Json) := none

end HedVerif.Driver.C18
