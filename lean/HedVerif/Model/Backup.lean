/-
Model of `hed/tools/remodeling/backup_manager.py` (`BackupManager`), of the backup-related part of
`cli/run_remodel.py` (`handle_backup`, `main`) and of `Dispatcher.get_data_file`, on the step model of
`Model/FS.lean`.

File content alphabet `Sym`: data files are lists of `byte`s; the backup record `backup_lock.json`
is a list of *lexed* JSON characters (one symbol per written character; characters inside a JSON
string are tagged `s c`, so `s '}'` is not a closing brace).  A byte prefix of the real record
corresponds to a prefix of the symbol list, because JSON lexing is left-to-right.
File names are arbitrary code points (`json.dump` with `ensure_ascii`: `\uXXXX`, surrogate pairs, `\n`...;
`"` and `\` as two symbols); paths are normalised component lists (no `..`, no symlinks).
`parse` is exact on prefixes of rendered records, which is all a crashed `create_backup` can leave.
No Mathlib imports: linked into the native driver.
-/
import HedVerif.Model.FS
namespace HedVerif.Backup
open HedVerif.FS

inductive Sym where
  | byte (n : Nat)
  | lb | rb | q | colon | comma | sp | nl
  | s (c : Char)
deriving DecidableEq, Repr, Inhabited

abbrev St := State Sym
/-- A record key: the `'/'.join(...)` of the path components relative to the data root. -/
abbrev Key := List Char

inductive Err where
  | badBackupPath | badBackupFormat | badDictPath | badRootPath     -- HedFileError codes of the scan
  | isADirectory | jsonDecode                                       -- `open` / `json.load` failures
  | missingBackupFile | extraFiles                                  -- HedFileError codes of the scan
  | noBackup | backupDoesNotExist | backupExists | badDataFile                     -- HedFileError codes of restore/remodel
  | fileNotFound                                                    -- `shutil.copy2` of a missing file
deriving DecidableEq, Repr, Inhabited

def lockName : Name := ['b', 'a', 'c', 'k', 'u', 'p', '_', 'l', 'o', 'c', 'k', '.', 'j', 's', 'o', 'n']
def rootName : Name := ['b', 'a', 'c', 'k', 'u', 'p', '_', 'r', 'o', 'o', 't']

/-- `data_root`, `backups_path` (already real-pathed), backup name, time stamp text. -/
structure Cfg where
  dataRoot : Path
  backups : Path
  name : Name
  stamp : List Char := []

namespace Cfg
def bdir (c : Cfg) : Path := c.backups ++ [c.name]
def broot (c : Cfg) : Path := c.backups ++ [c.name, rootName]
def lock (c : Cfg) : Path := c.backups ++ [c.name, lockName]
/-- `get_backup_path` -/
def bpath (c : Cfg) (f : Path) : Path := c.broot ++ f
/-- `get_backup_files(original_paths=True)` -/
def dpath (c : Cfg) (f : Path) : Path := c.dataRoot ++ f
end Cfg

/-! ### Keys (`get_file_key`) -/

def joinKey : Path → Key
  | [] => []
  | [a] => a
  | a :: r => a ++ '/' :: joinKey r

/-- `os.path.join(root, key)` + `realpath`: split on `/`, empty components vanish. -/
def splitKey (k : Key) : Path :=
  (k.foldr (fun ch acc => if ch = '/' then [] :: acc else
      match acc with | [] => [[ch]] | h :: t => (ch :: h) :: t) [[]]).filter (fun x => !x.isEmpty)

/-! ### The record text (`json.dump(backup, fp, indent=4)`) -/

def hexDigit (n : Nat) : Char :=
  if n < 10 then Char.ofNat (48 + n) else Char.ofNat (87 + n)

/-- `\\uXXXX` for one UTF-16 code unit -/
def u4 (n : Nat) : List Sym :=
  [.s '\\', .s 'u', .s (hexDigit (n / 4096 % 16)), .s (hexDigit (n / 256 % 16)), .s (hexDigit (n / 16 % 16)),
   .s (hexDigit (n % 16))]

/-- `json.encoder.py_encode_basestring_ascii`: everything outside `' '..'~'` is escaped; astral
characters become a surrogate pair. -/
def escape (ch : Char) : List Sym :=
  if ch = '"' ∨ ch = '\\' then [.s '\\', .s ch]
  else if ' ' ≤ ch ∧ ch ≤ '~' then [.s ch]
  else if ch = '\n' then [.s '\\', .s 'n']
  else if ch = '\r' then [.s '\\', .s 'r']
  else if ch = '\t' then [.s '\\', .s 't']
  else if ch.toNat = 8 then [.s '\\', .s 'b']
  else if ch.toNat = 12 then [.s '\\', .s 'f']
  else if ch.toNat < 65536 then u4 ch.toNat
  else u4 (55296 + (ch.toNat - 65536) / 1024) ++ u4 (56320 + (ch.toNat - 65536) % 1024)
def strToks (k : List Char) : List Sym := k.flatMap escape

def entry (ts : List Char) (k : Key) : List Sym :=
  [.nl, .sp, .sp, .sp, .sp, .q] ++ strToks k ++ [.q, .colon, .sp, .q] ++ strToks ts ++ [.q]

def entries (ts : List Char) : List Key → List Sym
  | [] => []
  | [k] => entry ts k
  | k :: r => entry ts k ++ .comma :: entries ts r

/-- Everything before the closing brace. -/
def recordBody (ts : List Char) (ks : List Key) : List Sym :=
  if ks.isEmpty then [.lb] else .lb :: entries ts ks ++ [.nl]

def record (ts : List Char) (ks : List Key) : List Sym := recordBody ts ks ++ [.rb]

/-! ### Reading the record (`json.load`) -/

def skipWs : List Sym → List Sym
  | .sp :: r => skipWs r
  | .nl :: r => skipWs r
  | r => r

/-- After an opening quote: raw characters up to the closing quote. -/
def readStr : List Sym → Option (List Char × List Sym)
  | .q :: r => some ([], r)
  | .s c :: r => match readStr r with | some (k, r') => some (c :: k, r') | none => none
  | _ => none

def hexVal (ch : Char) : Nat :=
  if '0' ≤ ch ∧ ch ≤ '9' then ch.toNat - 48
  else if 'a' ≤ ch ∧ ch ≤ 'f' then ch.toNat - 87
  else if 'A' ≤ ch ∧ ch ≤ 'F' then ch.toNat - 55 else 0

/-- JSON string body -> UTF-16 code units / code points -/
def decodeUnits : List Char → List Nat
  | '\\' :: 'u' :: a :: b :: c :: d :: r =>
    (hexVal a * 4096 + hexVal b * 256 + hexVal c * 16 + hexVal d) :: decodeUnits r
  | '\\' :: c :: r =>
    (if c = 'n' then 10 else if c = 'r' then 13 else if c = 't' then 9 else if c = 'b' then 8
     else if c = 'f' then 12 else c.toNat) :: decodeUnits r
  | c :: r => c.toNat :: decodeUnits r
  | [] => []

def combine : List Nat → List Char
  | hi :: lo :: r =>
    if 55296 ≤ hi ∧ hi < 56320 ∧ 56320 ≤ lo ∧ lo < 57344
    then Char.ofNat (65536 + (hi - 55296) * 1024 + (lo - 56320)) :: combine r
    else Char.ofNat hi :: combine (lo :: r)
  | [n] => [Char.ofNat n]
  | [] => []

def unescape (k : List Char) : List Char := combine (decodeUnits k)

def parseEntries : Nat → List Sym → Option (List Key)
  | 0, _ => none
  | n + 1, t =>
    match skipWs t with
    | .q :: r =>
      match readStr r with
      | some (k, r1) =>
        match skipWs r1 with
        | .colon :: r2 =>
          match skipWs r2 with
          | .q :: r3 =>
            match readStr r3 with
            | some (_, r4) =>
              match skipWs r4 with
              | .comma :: r5 => (parseEntries n r5).map (fun ks => unescape k :: ks)
              | [.rb] => some [unescape k]
              | _ => none
            | none => none
          | _ => none
        | _ => none
      | none => none
    | _ => none

def parseObj : List Sym → Option (List Key)
  | .lb :: r => match skipWs r with
    | [.rb] => some []
    | r' => parseEntries r.length r'
  | _ => none

/-- `json.load` of the record: `none` = `JSONDecodeError`.  A JSON object text ends with `}`. -/
def parse (c : List Sym) : Option (List Key) :=
  if c.getLast? = some .rb then parseObj c else none

/-! ### `create_backup` as primitive steps -/

def srcOf (c : Cfg) (s0 : St) (f : Path) : List Sym :=
  match get s0 (c.dpath f) with | some (.reg b) => b | _ => []

/-- `os.makedirs(dirname(backup_file)); shutil.copy2(file, backup_file)` -/
def perFile (c : Cfg) (s0 : St) (f : Path) : List (Step Sym) :=
  mkdirsSteps c.backups ([c.name, rootName] ++ f.dropLast) ++ writeSteps (c.bpath f) (srcOf c s0 f)

/-- `os.makedirs(backup_root)` and the loop over `file_list`. -/
def copyPhase (c : Cfg) (s0 : St) (files : List Path) : List (Step Sym) :=
  mkdirsSteps c.backups [c.name, rootName] ++ files.flatMap (perFile c s0)

def recordOf (c : Cfg) (files : List Path) : List Sym := record c.stamp ((files.map joinKey).eraseDups)

/-- `with open(lock,'w') as fp: json.dump(backup, fp, indent=4)` -/
def lockPhase (c : Cfg) (files : List Path) : List (Step Sym) := writeSteps c.lock (recordOf c files)

/-- All primitive steps of `create_backup(file_list, name)` when `name` is not listed:
copies first, the record last. -/
def createSteps (c : Cfg) (s0 : St) (files : List Path) : List (Step Sym) :=
  copyPhase c s0 files ++ lockPhase c files

abbrev Listing := List (Name × List Key)

/-- `create_backup`: `(returned bool, steps)`; a listed name returns `False` before any I/O. -/
def create (c : Cfg) (listing : Listing) (s : St) (files : List Path) : Bool × List (Step Sym) :=
  if listing.any (fun e => e.1 == c.name) then (false, []) else (true, createSteps c s files)

/-! ### The consistency scan (`_get_backups` / `_check_backup_consistency`) -/

def scanOne (s : St) (backups : Path) (n : Name) : Except Err (List Key) :=
  let bdir := backups ++ [n]
  let broot := backups ++ [n, rootName]
  if !isDir s bdir then .error .badBackupPath
  else if (children s bdir).length != 2 then .error .badBackupFormat
  else match get s (backups ++ [n, lockName]) with
    | none => .error .badDictPath
    | some f =>
      if !isDir s broot then .error .badRootPath
      else match f with
        | .dir => .error .isADirectory
        | .reg txt => match parse txt with
          | none => .error .jsonDecode
          | some ks =>
            let bpaths := ks.map (fun k => broot ++ splitKey k)
            let fpaths := walk s broot
            if fpaths.any (fun p => !bpaths.contains p) then .error .missingBackupFile
            else if bpaths.any (fun p => !fpaths.contains p) then .error .extraFiles
            else .ok ks

def scanList (s : St) (backups : Path) : List Name → Except Err Listing
  | [] => .ok []
  | e :: r => match scanOne s backups e with
    | .error x => .error x
    | .ok ks => match scanList s backups r with
      | .error x => .error x
      | .ok l => .ok ((e, ks) :: l)

/-- `BackupManager(data_root)._get_backups()`: an error means the manager cannot be constructed. -/
def scan (s : St) (backups : Path) : Except Err Listing := scanList s backups (children s backups)

/-! ### Restore and remodel (whole operations, no crash inside) -/

def isInfix (a : List Char) : List Char → Bool
  | [] => a.isEmpty
  | ch :: r => a.isPrefixOf (ch :: r) || isInfix a r

/-- truthiness of `BackupManager.get_task(task_names, path)`: the *first* task whose `task_<name>` occurs in
the base name is returned, and an empty name is falsy (so `['', 'go']` never selects anything that
contains `task_`). -/
def getTask (tasks : List Name) (base : Name) : Bool :=
  match tasks.find? (fun t => isInfix (['t', 'a', 's', 'k', '_'] ++ t) base) with
  | some t => !t.isEmpty
  | none => false

/-- The `continue` test of `restore_backup`. -/
def picked (tasks : List Name) (f : Path) : Bool := tasks.isEmpty || getTask tasks (f.getLastD [])

/-- For every picked file: data file := `g` (backup copy).  `g = id`: `restore_backup`;
`g = T`: the remodel loop (`get_data_file` reads the backup copy, `to_csv` writes the data file). -/
def copyMap (c : Cfg) (g : List Sym → List Sym) (pick : Path → Bool) : List Path → St → Except Err St
  | [], s => .ok s
  | f :: r, s =>
    if pick f then
      match get s (c.bpath f) with
      | some (.reg b) => copyMap c g pick r (set s (c.dpath f) (.reg (g b)))
      | _ => .error .fileNotFound
    else copyMap c g pick r s

/-- `restore_backup(name, task_names)`; `fs` = the recorded keys as paths. -/
def restore (c : Cfg) (fs : List Path) (tasks : List Name) (s : St) : Except Err St :=
  if fs.isEmpty then .error .noBackup else copyMap c id (picked tasks) fs s

def toLower (ch : Char) : Char := if 'A' ≤ ch ∧ ch ≤ 'Z' then Char.ofNat (ch.toNat + 32) else ch

/-- `get_file_list(data_dir, name_suffix='events', extensions=['.tsv'], exclude_dirs=['remodel'])` -/
def selKey (f : Path) : Bool :=
  f.dropLast.all (fun d => d != ['r', 'e', 'm', 'o', 'd', 'e', 'l']) &&
    ((f.getLastD []).map toLower).reverse.take 10 == ['e', 'v', 'e', 'n', 't', 's', '.', 't', 's', 'v'].reverse

/-- `io_util.get_task_from_file`: the BIDS task entity (`task-<name>` up to `_` or `.`) of a file name. -/
def dropExt (b : Name) : Name :=
  let r := b.reverse
  match r.findIdx? (· == '.') with
  | some i => if (r.drop (i + 1)).any (· != '.') then (r.drop (i + 1)).reverse else b
  | none => b

def strip (b : Name) : Name := ((b.dropWhile (· == ' ')).reverse.dropWhile (· == ' ')).reverse

def afterTask : List Char → List Char → Option (List Char)      -- lowercased view, original view
  | [], _ => none
  | l :: ls, o => if ['t', 'a', 's', 'k', '-'].isPrefixOf (l :: ls) then some (o.drop 5)
                  else afterTask ls (o.drop 1)

def bidsTask (base : Name) : Name :=
  let stem := strip (dropExt base)
  match afterTask (stem.map toLower) stem with
  | some r => r.takeWhile (fun ch => ch != '_' && ch != '.')
  | none => []

/-- `parse_tasks`: which selected files a run with `-t tasks` rewrites (`*` first = every file with a task) -/
def taskOk (tasks : List Name) (f : Path) : Bool :=
  tasks.isEmpty ||
    (let t := bidsTask (f.getLastD [])
     !t.isEmpty && (tasks.head? == some ['*'] || tasks.contains t))

/-- restore the picked files, then rewrite the chosen files from their backup copies. -/
def remodelCore (c : Cfg) (T : List Sym → List Sym) (pick1 pick2 : Path → Bool) (fs : List Path) (s : St) :
    Except Err St :=
  match copyMap c id pick1 fs s with
  | .error e => .error e
  | .ok s1 => copyMap c T pick2 fs s1

def relTo (root p : Path) : Path := p.drop root.length

/-- which recorded files a run rewrites: selected by name, of a requested BIDS task, and present in the
data tree `s1` (the state after `handle_backup`'s restore) - `get_file_list` only sees existing files -/
def rewritten (c : Cfg) (tasks : List Name) (s1 : St) (f : Path) : Bool :=
  selKey f && taskOk tasks f && isReg s1 (c.dpath f)

/-- `run_remodel.main` (default options, `-t tasks`): `handle_backup` restores the files picked by
`task_<t>`, then every selected *existing* data file of the requested BIDS tasks (`task-<t>`) is
rewritten from its backup copy (`BadDataFile` if it has none).  Without `-t` everything is restored
first, so every recorded selected file exists and is rewritten. -/
def remodel (c : Cfg) (T : List Sym → List Sym) (fs : List Path) (tasks : List Name) (s : St) : Except Err St :=
  if fs.isEmpty then .error .backupDoesNotExist else
  match copyMap c id (picked tasks) fs s with
  | .error e => .error e
  | .ok s1 =>
    if ((walk s1 c.dataRoot).map (relTo c.dataRoot)).any (fun f => selKey f && taskOk tasks f && !fs.contains f)
    then .error .badDataFile
    else copyMap c T (rewritten c tasks s1) fs s1

/-! ### Restore and remodel as primitive steps (for crashes inside them) -/

/-- For every picked file with a backup copy: (`os.makedirs(dirname)`;) create; half; rest; close of the data
file.  Contents are read from `s`: the steps never write below the backup directory. -/
def copySteps (c : Cfg) (g : List Sym → List Sym) (mk : Bool) (pick : Path → Bool) : List Path → St → List (Step Sym)
  | [], _ => []
  | f :: r, s =>
    if pick f then
      match get s (c.bpath f) with
      | some (.reg b) =>
        (if mk then mkdirsSteps c.dataRoot f.dropLast else []) ++ writeSteps (c.dpath f) (g b) ++ copySteps c g mk pick r s
      | _ => []
    else copySteps c g mk pick r s

/-- `restore_backup(name, tasks)` -/
def restoreSteps (c : Cfg) (fs : List Path) (tasks : List Name) (s : St) : List (Step Sym) :=
  copySteps c id true (picked tasks) fs s

/-- `run_remodel.main`: the restore, then `df.to_csv(file_path)` for the files of `order` (the order in
which `get_file_list`/`parse_tasks` deliver them). -/
def remodelSteps (c : Cfg) (T : List Sym → List Sym) (fs : List Path) (tasks : List Name) (order : List Path)
    (s : St) : List (Step Sym) :=
  restoreSteps c fs tasks s ++ copySteps c T false (fun _ => true) order s

inductive Op where
  | modify (p : Path) (b : List Sym)     -- overwrite / create a data file
  | delete (p : Path)                    -- remove a file or a whole directory
  | restore (tasks : List Name)
  | remodel (tasks : List Name)
  | restoreCrash (tasks : List Name) (k : Nat)                        -- a restore interrupted after k steps
  | remodelCrash (tasks : List Name) (order : List Path) (k : Nat)    -- a remodel run interrupted after k steps
deriving Repr

def applyOp (c : Cfg) (T : List Sym → List Sym) (fs : List Path) (s : St) : Op → Except Err St
  | .modify p b => .ok (set s p (.reg b))
  | .delete p => .ok (delTree s p)
  | .restore tasks => restore c fs tasks s
  | .remodel tasks => remodel c T fs tasks s
  | .restoreCrash tasks k => .ok (crashAfter k (restoreSteps c fs tasks s) s)
  | .remodelCrash tasks order k => .ok (crashAfter k (remodelSteps c T fs tasks order s) s)

def runOps (c : Cfg) (T : List Sym → List Sym) (fs : List Path) : List Op → St → Except Err St
  | [], s => .ok s
  | o :: r, s => match applyOp c T fs s o with
    | .error e => .error e
    | .ok s' => runOps c T fs r s'

/-- An operation that does not write into the backup directory (restore/remodel, complete or
interrupted, never do, given the recorded files live outside it). -/
def Op.safe (c : Cfg) : Op → Prop
  | .modify p _ => ¬ c.bdir <+: p
  | .delete p => ¬ c.bdir <+: p ∧ ¬ p <+: c.bdir
  | .remodelCrash _ order _ => ∀ f ∈ order, ¬ c.bdir <+: c.dpath f
  | _ => True

/-! ### Histories on the level of whole backups: one manager object, re-opened managers, several names -/

/-- `backups_dict.get(name)`; NB the record may be `[]` (a backup made from an empty file selection):
the name still EXISTS - `create`'s guard is `name in backups_dict`, not truthiness of the record. -/
def lookup (m : Listing) (n : Name) : Option (List Key) := (m.find? (fun e => e.1 == n)).map (·.2)

/-- `run_remodel_restore.main` / `handle_backup`: the CLI tests `if not get_backup(name)` first, so an
empty record is reported as `BackupDoesNotExist` (the API call reports `NoBackup`). -/
def restoreCli (c : Cfg) (fs : List Path) (tasks : List Name) (s : St) : Except Err St :=
  if fs.isEmpty then .error .backupDoesNotExist else restore c fs tasks s

/-- `run_remodel_backup.main`: a fresh manager; `if backup_man.get_backup(name)` (truthiness of the RECORD)
raises `BackupExists`; otherwise `create_backup` is called, whose own guard (`name in backups_dict`)
still refuses an existing name with an empty record - silently, returning `False`. -/
def createCli (c : Cfg) (m : Listing) (s : St) (files : List Path) : Except Err (Bool × List (Step Sym)) :=
  match lookup m c.name with
  | some (_ :: _) => .error .backupExists
  | _ => .ok (create c m s files)

inductive BOp where
  | create (name : Name) (files : List Path)   -- `manager.create_backup(files, name)`, any selection incl. `[]`
  | reopen                                     -- a fresh `BackupManager(data_root)` replaces the manager
  | restore (name : Name) (tasks : List Name)  -- `manager.restore_backup(name, tasks)`
  | modify (p : Path) (b : List Sym)           -- a data file is overwritten / created
deriving Repr

/-- state of a session: the manager's dictionary and the file system -/
def bstep (c : Cfg) (ms : Listing × St) : BOp → Listing × St
  | .create n files =>
    let r := create { c with name := n } ms.1 ms.2 files
    if r.1 then (ms.1 ++ [(n, (files.map joinKey).eraseDups)], exec r.2 ms.2) else ms
  | .reopen => match scan ms.2 c.backups with
    | .ok l => (l, ms.2)
    | .error _ => ms          -- the constructor raises; the old manager stays in use
  | .restore n tasks => match lookup ms.1 n with
    | some ks => match restore { c with name := n } (ks.map splitKey) tasks ms.2 with
      | .ok s' => (ms.1, s')
      | .error _ => ms        -- `NoBackup` (empty record) raises before any copy
    | none => ms
  | .modify p b => (ms.1, set ms.2 p (.reg b))

def brun (c : Cfg) (h : List BOp) (ms : Listing × St) : Listing × St := h.foldl (bstep c) ms

/-- side conditions of a session, checked where they arise: data files that are written, and the files
recorded in a backup that is restored, live outside the backups directory. -/
def BOp.ok (c : Cfg) (ms : Listing × St) : BOp → Prop
  | .restore n _ => ∀ ks, lookup ms.1 n = some ks → ∀ k ∈ ks, ¬ c.backups <+: c.dataRoot ++ splitKey k
  | .modify p _ => ¬ c.backups <+: p
  | _ => True

def BOk (c : Cfg) : List BOp → Listing × St → Prop
  | [], _ => True
  | o :: r, ms => o.ok c ms ∧ BOk c r (bstep c ms o)

end HedVerif.Backup
