/-
Validation of an annotation against a `HedSchemaGroup` (property C13), on top of the string-validator model
of C01 (Model/Validate.lean, imported, not changed):
  `HedValidator.__init__` with a group: `hed_schema.schema_83_props` (hed/schema/hed_schema_base.py,
     `schema_util.schema_version_greater_equal`) decides the character rules for the WHOLE string
  `HedSchemaGroup.schema_for_namespace/find_tag_entry` per tag (`HedTag._calculate_to_canonical_forms`)
  `HedSchemaGroup.get_tags_with_attribute` (union) in `check_for_required_tags/check_multiple_unique_tags_exist`.
Every other step of `HedValidator.validate` reads a tag's own `_schema_entry`, i.e. the member that resolved it.

What is modelled: annotations whose tags speak at most ONE loaded prefix (any number of tags may carry prefixes
that are not loaded).  For such an annotation the validator working on the group goes through the code of
Model/Validate.lean with (1) the member's vocabulary for every lookup (`canonG_eq_view` proves this is what the
per-tag dispatch does), (2) the group's character-rule flag, (3) the other members' required/unique names
added to the two full-string checks.  Annotations mixing two loaded prefixes are modelled at the lookup level
only (`canonG`, `Group.find`).
-/
import HedVerif.Model.Validate
import HedVerif.Model.Group

namespace HedVerif.GroupValidate
open HedVerif HedVerif.Schema HedVerif.Validate

/-- one member of the group: its validation environment (`env.ns` = its prefix) and the header facts
`schema_83_props` looks at -/
structure VMember where
  env : Env
  /-- `with_standard` present: is it ≥ 8.3.0 -/
  ws83 : Option Bool
  /-- `library == ""`: is `version_number` ≥ 8.3.0 -/
  std83 : Option Bool
  /-- the properties section has `elementDomain` -/
  elementDomain : Bool

abbrev VGroup := List VMember

/-- `schema_for_namespace` -/
def member (g : VGroup) (p : Str) : Option VMember := g.find? (fun m => m.env.ns == p)

/-- `schema_version_greater_equal(group, "8.3.0")`: the partners named by `withStandard` if any member has
one, else the versions of the standard members; true when ANY candidate is ≥ 8.3.0 -/
def versionGE (g : VGroup) : Bool :=
  let cands := g.filterMap (·.ws83)
  if cands.isEmpty then (g.filterMap (·.std83)).any id else cands.any id

/-- `schema_83_props` of the group: the version test, or the UNPREFIXED member declares `elementDomain`
(`group.get_tag_entry(name, Properties)` dispatches on the empty namespace) -/
def groupModern (g : VGroup) : Bool :=
  versionGE g || (match member g [] with | some m => m.elementDomain | none => false)

/-- `schema_83_props` of a member loaded alone (its own prefix does not matter for a non-tag section) -/
def aloneModern (m : VMember) : Bool := versionGE [m] || m.elementDomain

/-- per-tag dispatch of `HedTag._calculate_to_canonical_forms(group)` -/
def canonG (g : VGroup) (t : RTag) : RTag × List Issue :=
  match member g t.ns with
  | none => ({ t with entry := none }, [tagIssue .libraryUnmatched t])
  | some m => canon m.env t

/-- the environment the group presents to an annotation speaking `m`'s prefix -/
def view (g : VGroup) (m : VMember) : Env := { m.env with modern := groupModern g }

/-- names of `get_tags_with_attribute` contributed by the members other than `p` -/
def otherNames (g : VGroup) (p : Str) (sel : TagAttr → Bool) : List Str :=
  (g.filter fun o => o.env.ns != p).flatMap fun o => namesWith o.env sel

def extraRequired (g : VGroup) (env : Env) (tags : List RTag) : List Issue :=
  (otherNames g env.ns (·.required)).flatMap fun n =>
    if countPrefix env tags n == 0 then [{ Issue.plain .requiredMissing with txt := some n }] else []

def extraUnique (g : VGroup) (env : Env) (tags : List RTag) : List Issue :=
  (otherNames g env.ns (·.unique)).flatMap fun n =>
    if countPrefix env tags n > 1 then [{ Issue.plain .notUnique with txt := some n }] else []

/-- `HedValidator(group).validate` on an annotation speaking (at most) `m`'s prefix -/
def validateFor (g : VGroup) (m : VMember) (ph : Bool) (text : Str) : List Issue :=
  let env := view g m
  let pr := parse env text
  let b := basicP env ph text pr
  if hasError b then b
  else
    let tags := tagsList (pr.final env)
    b ++ fullIssues env text.length pr ++ extraRequired g env tags ++ extraUnique g env tags

/-- the loaded prefixes spoken by the tags of a text (`RTag.ns` = `namespaceOf org_tag`, whatever the schema) -/
def speaking (g : VGroup) (text : Str) : List Str :=
  match g with
  | [] => []
  | m :: _ =>
    let nss := (tagsList (resolveList m.env text (Tree.construct text))).map (·.ns)
    Group.dedup (nss.filter fun n => (member g n).isSome)

/-- the whole function: defined when at most one loaded prefix is spoken -/
def validate (g : VGroup) (ph : Bool) (text : Str) : Option (List Issue) :=
  match speaking g text with
  | [] => g.head?.map fun m => validateFor g m ph text
  | [p] => (member g p).map fun m => validateFor g m ph text
  | _ => none

/-- `Validate.raises` for the group (the duplicate check's descent) -/
def raisesFor (g : VGroup) (m : VMember) (ph : Bool) (text : Str) : Bool :=
  raises (view g m) ph text

end HedVerif.GroupValidate
