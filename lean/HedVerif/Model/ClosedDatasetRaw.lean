/-
RAW closed mode at dataset level (property C16): `BidsDataset(root).validate(check_for_warnings)` as a closed Lean
function of the dataset tree alone — every file with its content: the top-level JSON of a `.json` file, the header and
the rows of cells of a `.tsv` file — and of the schema environment of the string-validator model.

  participating files      `Bids.load`                 (discovery, pruning by directory name, file-name parsing)
  sidecar of each file     `Bids.mergeImpl`            (inherited chain, `dict.update`)
  issues of each sidecar   `SidecarV.validateClosed`   (C08 with the C01 model inside) on the merged document
  issues of each file      `Tabular.validateClosedRawD` (the merged sidecar's definitions join the dictionary; assembly C06 ∘ file layer C07 ∘ string validator C01) on the raw
                                                       cells of the file and the merged sidecar
  order, labels            sidecars first, then files, each in discovery order; every issue carries its file

No input is supplied by the real code any more: `rawFrames` instantiates the `Frames` parameter of
`Model/ClosedDataset.lean` by the raw pipeline, so every theorem of `Props/C16Closed.lean` specialises to it.
A file without an applicable sidecar is presented with the empty sidecar (`TabularInput(file, sidecar=None)`).
No Mathlib: linked into the native driver.
-/
import HedVerif.Model.ClosedDataset
import HedVerif.Model.ClosedRaw
import HedVerif.Generated.C16Defaults

namespace HedVerif.Bids

/-- what a file of the dataset holds -/
inductive Content where
  /-- a `.json` file: its top-level object, `none` if the top level is not an object -/
  | json (c : Option (Columns SJson))
  /-- a `.tsv` file: header and rows of cells, as text -/
  | tsv (t : Assemble.Table)
  | other

/-- the dataset: every file (path below the root, content) in `os.walk` order -/
abbrev RawTree := List (Path × Content)

/-- the listing `Bids.load` works on -/
def RawTree.listing (t : RawTree) : Tree SJson :=
  t.map fun f => (f.1, match f.2 with | .json c => c | _ => some [])

/-- `BaseInput` reading a file: `pd.read_csv(file, delimiter="\t", dtype=str, keep_default_na=True,
na_values=("", "null")).fillna("n/a")` — every cell spelled like a missing value (the list is regenerated from the
source and the installed pandas) becomes `"n/a"`; other cells are kept as text -/
def readCell (c : Str) : Str := if Generated.C16.fileNaValues.contains c then Assemble.NA else c

def readTable (tb : Assemble.Table) : Assemble.Table := ⟨tb.header, tb.rows.map (·.map readCell)⟩

/-- the table of the events file at `p` as `BaseInput` reads it (empty if `p` is not a `.tsv` entry) -/
def RawTree.table (t : RawTree) (p : Path) : Assemble.Table :=
  match t.find? (fun f => f.1 == p) with
  | some (_, .tsv tb) => readTable tb
  | _ => ⟨[], []⟩

/-- `TabularInput(file=d, sidecar=merged or None)` computed by the raw pipeline: depends on the file only through its
own table, on the dataset only through the merged sidecar -/
def rawFrames (k : Raw.Consts) (tables : Path → Assemble.Table) : Frames := fun d sc =>
  (Raw.rawCfg k (toJs (sc.getD [])) (tables d.path), Raw.rawRows (toJs (sc.getD [])) (tables d.path))

/-- one file group, raw -/
def validateGroupClosedRaw (env : Validate.Env) (k : Raw.Consts) (tables : Path → Assemble.Table) (g : Group SJson) :
    Except DExn (List DIssue) :=
  validateGroupClosed env k.kBanned (rawFrames k tables) g

/-- `BidsDataset(root, tabular_types=types, exclude_dirs=excl).validate(check_for_warnings=cfw)` from the tree alone -/
def validateDatasetClosedRaw (env : Validate.Env) (k : Raw.Consts) (t : RawTree) (excl types : List Str) (cfw : Bool) :
    Except RunExn (List DIssue) :=
  validateDatasetClosed env k.kBanned (rawFrames k t.table) t.listing excl types cfw

end HedVerif.Bids
