/-
Model of schema compliance checking:
  `check_compliance`, `SchemaValidator.check_if_prerelease_version / check_prologue_epilogue /
   check_invalid_chars / check_attributes / _check_unknown_attributes / _get_validators /
   _get_range_validators / _run_validators / check_duplicate_names`   (hed/schema/schema_compliance.py)
  the attribute checkers of hed/schema/schema_attribute_validators.py and
  `HedIDValidator.verify_tag_id`                                      (schema_attribute_validator_hed_id.py)
  `validate_schema_tag_new / term_new / description_new`, `schema_version_for_library`,
  `get_allowed_characters_by_name`, `get_problem_indexes`             (schema_validation_util.py)
  `validate_schema_tag / validate_schema_description / verify_no_brackets` (schema_validation_util_deprecated.py)
  load-time bookkeeping: `_check_if_duplicate` of the four section classes, `duplicate_names`
  (hed_schema_section.py); `_set_attribute_value`, `finalize_entry` (unknown attributes, parent / children,
  inherited attributes, derivative units) (hed_schema_entry.py); `_get_attributes_for_section`,
  `schema_83_props` (hed_schema.py, hed_schema_base.py).

A schema is plain data: seven sections of entries in document order (tags carry their long name).
Tables (`tableOld`, `tableNew`, `tableRange`, `charTypes`, key names, issue kind → code / severity) are
generated from the source (Generated/C14Tables.lean).  Data the code obtains from outside the schema
(known released versions, `library_data.json` ranges, hedIds of the previous release, Unicode classes of
non-ASCII characters, plural of unit names) is an explicit `Env` / entry field.
Python-specific simplifications: `casefold`/`lower` = ASCII lower-casing; `float()`/`int()` = decimal
literals with optional sign / exponent, `inf`, `nan`, surrounding blanks (no `_` digit separators);
versions are `major.minor.patch` (no prerelease part); where the code would raise (a valueless attribute
passed to a checker that needs a string, a checker applied to the wrong entry class) the model emits the
marker kind `pyRaises`.
-/
import Std.Data.HashMap
import Std.Data.HashSet
import HedVerif.Generated.C14Tables

namespace HedVerif.Compliance

/-- value of an attribute in `entry.attributes`: `True` (no `<value>`) or the comma-joined text -/
inductive AttrVal
  | flag
  | text (s : Str)
deriving DecidableEq, Repr, Inhabited

structure Entry where
  name : Str                       -- tags: long name ("Event/Sensory-event", "Duration/#")
  attrs : List (Str × AttrVal)     -- `entry.attributes`, insertion order
  desc : Str := []                 -- `entry.description` ("" = None)
  owner : Str := []                -- units: name of the unit class definition that contains the unit
  plural : Str := []               -- units: plural of the lower-cased name (data: Python `inflect`)
deriving DecidableEq, Repr, Inhabited

structure Header where
  version : Str
  library : Str
  withStandard : Str
deriving Repr, Inhabited

structure Schema where
  header : Header
  prologue : Str
  epilogue : Str
  sec : Sec → List Entry
deriving Inhabited

/-- what the code reads from outside the schema object -/
structure Env where
  known : List (Str × List Str)            -- library ("" = standard) ↦ released versions, newest first
  idRange : List (Str × Nat × Nat)         -- `library_data.json`: library ↦ id_range
  prevIds : List (Str × Sec × Str × Str)   -- previous release per library: (library, section, name, hedId)
  uni : List (Char × Bool × Bool × Bool)   -- non-ASCII characters: isalnum, isupper, isdigit
deriving Inhabited

structure Issue where
  kind : IK
  sev : Nat
  sec : Str := []
  entry : Str := []
  attr : Str := []
deriving DecidableEq, Repr

def Issue.code (i : Issue) : Str := i.kind.code
def codes (l : List Issue) : List Str := l.map Issue.code

/-! ### strings -/

def fold (s : Str) : Str := s.map Char.toLower

/-- `str.split(c)` -/
def splitOn (c : Char) : Str → List Str
  | [] => [[]]
  | x :: r =>
    if x = c then [] :: splitOn c r
    else match splitOn c r with
      | [] => [[x]]
      | h :: t => (x :: h) :: t

def joinWith (sep : Str) : List Str → Str
  | [] => []
  | [x] => x
  | x :: r => x ++ sep ++ joinWith sep r

def endsWith (s suf : Str) : Bool := suf.isSuffixOf s
def startsWith (s pre : Str) : Bool := pre.isPrefixOf s

def isBlank (c : Char) : Bool := c = ' ' || c = '\t' || c = '\n' || c = '\r' || c = '\x0b' || c = '\x0c'
def strip (s : Str) : Str := ((s.dropWhile isBlank).reverse.dropWhile isBlank).reverse

/-! ### attributes of an entry -/

/-- `entry.attributes.get(a)` -/
def getAttr (a : Str) : List (Str × AttrVal) → Option AttrVal
  | [] => none
  | (b, w) :: r => if b = a then some w else getAttr a r

/-- `entry.attributes[a] = v` -/
def setAttr (a : Str) (v : AttrVal) : List (Str × AttrVal) → List (Str × AttrVal)
  | [] => [(a, v)]
  | (b, w) :: r => if b = a then (a, v) :: r else (b, w) :: setAttr a v r

def Entry.has (e : Entry) (a : Str) : Bool := (getAttr a e.attrs).isSome

/-- the value as the text Python would see (`True` prints as "True") -/
def AttrVal.str : AttrVal → Str
  | .flag => ['T', 'r', 'u', 'e']
  | .text t => t

/-! ### numbers and versions -/

structure PyFloat where
  nan : Bool := false
  positive : Bool        -- `> 0.0`
deriving Repr, DecidableEq

def allDigits (s : Str) : Bool := s.all Char.isDigit

/-- `float(text)`: `none` = ValueError -/
def pyFloat (text : Str) : Option PyFloat :=
  let s := strip text
  let (neg, body) := match s with
    | '-' :: r => (true, r)
    | '+' :: r => (false, r)
    | r => (false, r)
  let lb := fold body
  if lb = ['i','n','f'] || lb = ['i','n','f','i','n','i','t','y'] then some ⟨false, !neg⟩
  else if lb = ['n','a','n'] then some ⟨true, false⟩
  else
    let (mant, exp) := match splitOn 'e' lb with
      | [m] => (m, none)
      | [m, x] => (m, some x)
      | _ => ([], some [])
    let expOk := match exp with
      | none => true
      | some x =>
        let d := match x with
          | '-' :: r => r
          | '+' :: r => r
          | r => r
        d ≠ [] && allDigits d
    let (ip, fp, dots) := match splitOn '.' mant with
      | [i] => (i, [], 0)
      | [i, f] => (i, f, 1)
      | _ => ([], [], 2)
    if expOk && dots < 2 && allDigits ip && allDigits fp && (ip ≠ [] || fp ≠ []) then
      some ⟨false, !neg && (ip ++ fp).any (fun c => c ≠ '0')⟩
    else none

def digitsToNat (s : Str) : Nat := s.foldl (fun n c => 10 * n + (c.toNat - '0'.toNat)) 0

/-- `int(text)`: `none` = ValueError -/
def pyInt (text : Str) : Option Int :=
  let s := strip text
  let (neg, body) := match s with
    | '-' :: r => (true, r)
    | '+' :: r => (false, r)
    | r => (false, r)
  if body ≠ [] && allDigits body then
    some (if neg then - (Int.ofNat (digitsToNat body)) else Int.ofNat (digitsToNat body))
  else none

/-- `remove_prefix(text, prefix)` -/
def removePrefix (pre s : Str) : Str := if startsWith s pre then s.drop pre.length else s

/-- `semantic_version.Version(text)` for plain `major.minor.patch` -/
def parseVersion (s : Str) : Option (Nat × Nat × Nat) :=
  match splitOn '.' s with
  | [a, b, c] =>
    if a ≠ [] && b ≠ [] && c ≠ [] && allDigits a && allDigits b && allDigits c then
      some (digitsToNat a, digitsToNat b, digitsToNat c)
    else none
  | _ => none

def tripleLE : Nat × Nat × Nat → Nat × Nat × Nat → Bool
  | (a, b, c), (x, y, z) => a < x || (a = x && (b < y || (b = y && c ≤ z)))

/-- `Version(a) <= Version(b)`; `none` = one of them does not parse (Python raises) -/
def verLE (a b : Str) : Option Bool :=
  match parseVersion a, parseVersion b with
  | some x, some y => some (tripleLE x y)
  | _, _ => none

def verLT (a b : Str) : Option Bool := (verLE b a).map (!·)

/-! ### sections: which entries are kept in `all_names`, which are duplicates -/

/-- an entry with its position in the section list -/
abbrev IE := Nat × Entry

/-- dictionary keys carry a hash of their text (Python `dict`s are hash tables; `Std.HashMap` / `HashSet`
are used the same way).  `mkKey` is injective, so key equality is text equality. -/
structure HKey where
  h : UInt64
  s : Str
deriving DecidableEq, Repr

instance : Hashable HKey := ⟨fun k => k.h⟩

def hashStr (s : Str) : UInt64 := s.foldl (fun h c => h * 1000003 + c.toNat.toUInt64) 7
def mkKey (s : Str) : HKey := ⟨hashStr s, s⟩

abbrev KeySet := Std.HashSet HKey
abbrev KeyMap := Std.HashMap HKey Nat

/-- generic `_add_to_dict` bookkeeping: an entry is probed with `probe e`; if the key is registered it is a
duplicate, else it becomes visible and registers `reg e`.  `keys` are the registered keys so far, `i` the
position of the head of the list. -/
def visG (reg : Entry → List HKey) (probe : Entry → HKey) (keys : KeySet) (i : Nat) : List Entry → List IE
  | [] => []
  | e :: r => if keys.contains (probe e) then visG reg probe keys (i + 1) r
              else (i, e) :: visG reg probe (keys.insertMany (reg e)) (i + 1) r

def keysG (reg : Entry → List HKey) (probe : Entry → HKey) (keys : KeySet) : List Entry → KeySet
  | [] => keys
  | e :: r => if keys.contains (probe e) then keysG reg probe keys r
              else keysG reg probe (keys.insertMany (reg e)) r

/-- the entries that hit a registered key (with that key): what ends up in `_duplicate_names` -/
def dupG (reg : Entry → List HKey) (probe : Entry → HKey) (keys : KeySet) (i : Nat) : List Entry → List (HKey × IE)
  | [] => []
  | e :: r => if keys.contains (probe e) then (probe e, (i, e)) :: dupG reg probe keys (i + 1) r
              else dupG reg probe (keys.insertMany (reg e)) (i + 1) r

def sufs : List Str → List (List Str)
  | [] => []
  | x :: r => (x :: r) :: sufs r

def hash : Str := ['#']
def slash : Str := ['/']

/-- `HedSchemaTagSection._get_tag_forms` on the case-folded name: every `/`-suffix, without a bare `#` -/
def forms (name : Str) : List Str :=
  ((sufs (splitOn '/' (fold name))).map (joinWith slash)).filter (· ≠ hash)

/-- the `name_key` of `_get_tag_forms`: the last component (case-folded) -/
def shortKey (name : Str) : Str := (splitOn '/' (fold name)).getLast?.getD []

/-- key under which a unit is kept: symbols are case-sensitive (`HedSchemaUnitSection._check_if_duplicate`) -/
def unitKey (e : Entry) : Str := if e.has Key.UnitSymbol then e.name else fold e.name

def regOf : Sec → Entry → List HKey
  | .tags => fun e => (forms e.name).map mkKey
  | .units => fun e => [mkKey (unitKey e)]
  | _ => fun e => [mkKey e.name]

def probeOf : Sec → Entry → HKey
  | .tags => fun e => mkKey (shortKey e.name)
  | .units => fun e => mkKey (unitKey e)
  | _ => fun e => mkKey e.name

def isPlaceholder (name : Str) : Bool := endsWith name ['/', '#']

/-- `HedSchemaTagSection._check_if_duplicate` stores a non-duplicate under its folded long name
(`self.all_names[name] = new_entry`): a `#` child is never a duplicate (its name key `#` is never registered),
so a later `#` entry with the same long name *replaces* the earlier one in `all_names`.
`keys` = folded long names of all tag entries. -/
def shadowed (keys : List HKey) (i : Nat) (e : Entry) : Bool :=
  isPlaceholder e.name && (keys.drop (i + 1)).contains (mkKey (fold e.name))

def longKeys (l : List Entry) : List HKey := (l.map (·.name)).map fun n => mkKey (fold n)

/-- `section.values()` = `all_names.values()` (with positions) -/
def visible (s : Schema) (t : Sec) : List IE :=
  let v := visG (regOf t) (probeOf t) ∅ 0 (s.sec t)
  if t = .tags then
    let keys := longKeys (s.sec .tags)
    v.filter fun ie => !shadowed keys ie.1 ie.2
  else v

/-- `section.get(name)` for the sections looked up by exact name -/
def findByName (s : Schema) (t : Sec) (name : Str) : Option Entry := (s.sec t).find? (·.name = name)

/-! ### the tag table (`long_form_tags`), parents, children, inherited attributes -/

/-- `long_form_tags` built from the names alone: registered form ↦ position of the entry; a later
registration of the same key shadows -/
def tagTable (acc : KeyMap) (i : Nat) : List Str → KeyMap
  | [] => acc
  | n :: r =>
    if acc.contains (mkKey (shortKey n)) then tagTable acc (i + 1) r
    else tagTable (acc.insertMany ((forms n).map (fun f => (mkKey f, i)))) (i + 1) r

def lookupN (tbl : KeyMap) (k : HKey) : Option Nat := tbl[k]?

/-- `name.rpartition("/")[0]` -/
def parentName (name : Str) : Str := joinWith slash (splitOn '/' name).dropLast

/-- `short_tag_name`: last component once a trailing `/#` is removed -/
def shortTagName (name : Str) : Str :=
  let cs := splitOn '/' name
  let cs' := if cs.getLast? = some hash then cs.dropLast else cs
  cs'.getLast?.getD []

/-- what `finalize_entry` of the tag entries sets up.  `tbl`, `parent`, `hashChild` depend on the names only. -/
structure TagCtx where
  tags : Array Entry               -- every tag entry (duplicates too: all are finalized)
  tbl : KeyMap
  parent : Array (Option Nat)      -- `_parent_tag`
  hashChild : Array Bool           -- `takes_value_child_entry is not None`
  inheritable : List Str

def parentOfName (tbl : KeyMap) (n : Str) : Option Nat :=
  let p := parentName n
  if p = [] then none else lookupN tbl (mkKey (fold p))

def mkTagCtx (tags : List Entry) (inh : List Str) : TagCtx :=
  let names := tags.map (·.name)
  let tbl := tagTable ∅ 0 names
  { tags := tags.toArray, tbl := tbl,
    parent := (names.map (parentOfName tbl)).toArray,
    hashChild := (names.map fun n => (lookupN tbl (mkKey (fold (n ++ ['/', '#'])))).isSome).toArray,
    inheritable := inh }

/-- `schema.tags.get(name)` / `_get_tag_entry(name)` -/
def TagCtx.findTag (c : TagCtx) (name : Str) : Option IE :=
  match lookupN c.tbl (mkKey (fold name)) with
  | some j => c.tags[j]?.map (j, ·)
  | none => none

/-- `_check_inherited_attribute_internal`: own and ancestors' values, nearest first; an entry that has a
`#` child ends the walk (itself excluded) -/
def TagCtx.chainVals (c : TagCtx) (a : Str) : Nat → Nat → List AttrVal
  | 0, _ => []
  | fuel + 1, i =>
    if c.hashChild[i]?.getD false then []
    else
      let own := match c.tags[i]? with
        | some e => (getAttr a e.attrs).toList
        | none => []
      match (c.parent[i]?).join with
      | some p => own ++ c.chainVals a fuel p
      | none => own

def allText : List AttrVal → Option (List Str)
  | [] => some []
  | .text t :: r => (allText r).map (t :: ·)
  | .flag :: _ => none

/-- `inherited_attributes.get(a)` (`_finalize_inherited_attributes`) -/
def TagCtx.inhVal (c : TagCtx) (ie : IE) (a : Str) : Option AttrVal :=
  if a ∈ c.inheritable then
    match c.chainVals a c.tags.size ie.1 with
    | [] => getAttr a ie.2.attrs
    | v :: vs => match allText (v :: vs) with
      | some ts => some (.text (joinWith [','] ts))
      | none => some v
  else getAttr a ie.2.attrs

def gen83 (s : Schema) : Bool :=
  let cand : Option Str :=
    if s.header.withStandard ≠ [] then some s.header.withStandard
    else if s.header.library = [] then some s.header.version else none
  (match cand with
    | some v => (verLE ['8', '.', '3', '.', '0'] v).getD false
    | none => false)
  || (findByName s .properties Key.ElementDomain).isSome

/-- `HedSchemaTagSection._finalize_section`: names of the inheritable attributes -/
def inheritable (s : Schema) : List Str :=
  let attrs := (visible s .attributes).map (·.2)
  let l := if gen83 s then (attrs.filter (fun e => !e.has Key.AnnotationProperty)).map (·.name)
           else (attrs.filter (fun e => e.has Key.IsInheritedProperty)).map (·.name)
  if l = [] then [Key.ExtensionAllowed] else l

def tagCtx (s : Schema) : TagCtx := mkTagCtx (s.sec .tags) (inheritable s)

/-- `entry.has_attribute(a, return_value=True)`: inherited view for tags, own attributes elsewhere -/
def attrOf (c : TagCtx) (t : Sec) (ie : IE) (a : Str) : Option AttrVal :=
  match t with
  | .tags => c.inhVal ie a
  | _ => getAttr a ie.2.attrs

def hasOf (c : TagCtx) (t : Sec) (ie : IE) (a : Str) : Bool := (attrOf c t ie a).isSome

def dedupShort : List IE → List IE
  | [] => []
  | x :: r => if r.any (fun y => shortTagName y.2.name = shortTagName x.2.name) then dedupShort r
              else x :: dedupShort r

/-- `entry.children`: tag entries whose parent is entry `p`, one per `short_tag_name` (the last wins) -/
def TagCtx.children (c : TagCtx) (p : Nat) : List IE :=
  dedupShort ((List.range c.tags.size).filterMap fun x =>
    if (c.parent[x]?).join = some p then c.tags[x]?.map (x, ·) else none)

/-! ### valid attributes of a section, unknown attributes -/

def elementKey (s : Schema) : Str := if gen83 s then Key.ElementDomain else Key.ElementProperty

/-- `HedSchema._get_attributes_for_section` (names only) -/
def validAttrs (s : Schema) (t : Sec) : List Str :=
  let attrs := (visible s .attributes).map (·.2)
  let withProp (k : Str) := (attrs.filter (·.has k)).map (·.name)
  let ek := elementKey s
  match t with
  | .properties => withProp ek
  | .attributes => (visible s .properties).map (·.2.name) ++ withProp ek
  | .tags =>
    if gen83 s then (attrs.filter (fun e => e.has Key.TagDomain || e.has ek)).map (·.name)
    else (attrs.filter (fun e => !e.has Key.UnitClassProperty && !e.has Key.UnitProperty
            && !e.has Key.UnitModifierProperty && !e.has Key.ValueClassProperty)).map (·.name)
  | .unitClasses =>
    (attrs.filter (fun e => e.has (if gen83 s then Key.UnitClassDomain else Key.UnitClassProperty) || e.has ek)).map (·.name)
  | .units =>
    (attrs.filter (fun e => e.has (if gen83 s then Key.UnitDomain else Key.UnitProperty) || e.has ek)).map (·.name)
  | .unitModifiers =>
    (attrs.filter (fun e => e.has (if gen83 s then Key.UnitModifierDomain else Key.UnitModifierProperty) || e.has ek)).map (·.name)
  | .valueClasses =>
    (attrs.filter (fun e => e.has (if gen83 s then Key.ValueClassDomain else Key.ValueClassProperty) || e.has ek)).map (·.name)

/-- `entry._unknown_attributes` after loading, given the valid attributes of its section -/
def unknownAttrs (valid : List Str) (e : Entry) : List Str :=
  (e.attrs.map (·.1)).filter (fun a => a ∉ valid)

/-! ### units of a class -/

/-- `UnitEntry.finalize_entry`: the keys under which a unit is found -/
def derivKeys (mods : List Entry) (u : Entry) : List Str :=
  let sym := u.has Key.UnitSymbol
  let base := if sym then [u.name] else [fold u.name, u.plural]
  let ms := if !u.has Key.SIUnit then []
            else mods.filter (fun m => m.has (if sym then Key.SIUnitSymbolModifier else Key.SIUnitModifier))
  base.flatMap fun b => b :: ms.map (fun m => m.name ++ b)

/-- `UnitClassEntry.get_derivative_unit_entry` -/
def derivUnit (units mods : List Entry) (cname : Str) (u : Str) : Option Entry :=
  let mine := (units.filter (·.owner = cname)).reverse
  let get (k : Str) := mine.find? (fun x => k ∈ derivKeys mods x)
  match get u with
  | some x => if x.has Key.UnitSymbol then some x else
      (match get (fold u) with
       | some y => if y.has Key.UnitSymbol then none else some y
       | none => none)
  | none => match get (fold u) with
    | some y => if y.has Key.UnitSymbol then none else some y
    | none => none

def modifiersOf (s : Schema) : List Entry := (visible s .unitModifiers).map (·.2)

/-! ### the attribute checkers -/

def knownVersions (env : Env) (lib : Str) : List Str :=
  match env.known.find? (·.1 = lib) with
  | some (_, vs) => vs
  | none => []

/-- `schema_version_for_library` -/
def libVersion (s : Schema) (lib : Str) : Option Str :=
  let names := splitOn ',' s.header.library
  let versions := splitOn ',' s.header.version
  match (names.zip versions).find? (·.1 = lib) with
  | some (_, v) => some v
  | none => if lib = [] && s.header.withStandard ≠ [] then some s.header.withStandard else none

/-- `value.split(",")[0]` of a text value (fix aa5708e): an inheritable string attribute is the comma-join
over the tag and its ancestors ("score,score"); the nearest value is the library.  `True` is left as it is. -/
def firstItem (v : AttrVal) : Str :=
  match v with
  | .flag => v.str
  | .text t => (splitOn ',' t).head?.getD []

/-- the library name `tag_is_deprecated_check` works with -/
def libFor (s : Schema) (c : TagCtx) (t : Sec) (ie : IE) : Str :=
  match attrOf c t ie Key.InLibrary with
  | some v =>
    let l := firstItem v
    if l = [] && s.header.withStandard = [] then s.header.library else l
  | none => if s.header.withStandard = [] then s.header.library else []

/-- the library name `verify_tag_id` works with -/
def idLib (c : TagCtx) (t : Sec) (ie : IE) : Str :=
  match attrOf c t ie Key.InLibrary with
  | some v => firstItem v
  | none => []

/-- `libFor` before fix aa5708e: the whole inherited value -/
def libForOld (s : Schema) (c : TagCtx) (t : Sec) (ie : IE) : Str :=
  match attrOf c t ie Key.InLibrary with
  | some v => v.str
  | none => if s.header.withStandard = [] then s.header.library else []

/-- `idLib` before fix aa5708e: the whole inherited value ("score,score" below another library tag) -/
def idLibOld (c : TagCtx) (t : Sec) (ie : IE) : Str :=
  match attrOf c t ie Key.InLibrary with
  | some v => v.str
  | none => []

/-- lookup of a referenced item; outer `none`: `item_exists_check` raises for that section -/
def findIn (s : Schema) (c : TagCtx) (t : Sec) (item : Str) : Option (Option IE) :=
  match t with
  | .tags => some (c.findTag item)
  | .unitClasses => some ((findByName s .unitClasses item).map (0, ·))
  | .valueClasses => some ((findByName s .valueClasses item).map (0, ·))
  | _ => none

/-- `item_exists_check` -/
def vItemExists (s : Schema) (c : TagCtx) (t : Sec) (ie : IE) (a : Str) (target : Sec) : List IK :=
  match getAttr a ie.2.attrs with
  | none => []
  | some .flag => [.pyRaises]
  | some (.text v) =>
    (splitOn ',' v).flatMap fun item =>
      if item = [] then []
      else match findIn s c target item with
        | none => [.pyRaises]
        | some none => [.genericValueInvalid]
        | some (some x) =>
          if hasOf c target x Key.DeprecatedFrom && !hasOf c t ie Key.DeprecatedFrom then [.valueDeprecated] else []

/-- `unit_exists` -/
def vUnitExists (s : Schema) (t : Sec) (e : Entry) (a : Str) : List IK :=
  match t with
  | .unitClasses =>
    (match getAttr a e.attrs with
     | none => []
     | some .flag => [.pyRaises]
     | some (.text u) =>
       match derivUnit (s.sec .units) (modifiersOf s) e.name u with
       | none => if u ≠ [] then [.defaultUnitsInvalid] else []
       | some ue => if ue.has Key.DeprecatedFrom && !e.has Key.DeprecatedFrom then [.defaultUnitsDeprecated] else [])
  | _ => [.pyRaises]

/-- `tag_is_placeholder_check` -/
def vPlaceholder (c : TagCtx) (t : Sec) (ie : IE) : List IK :=
  match t with
  | .tags =>
    (if !isPlaceholder ie.2.name then [.nonPlaceholderHasClass] else []) ++
    (match (c.parent[ie.1]?).join with
     | some p => if (c.children p).any (fun x => x.1 ≠ ie.1) then [.invalidSibling] else []
     | none => []) ++
    (if (c.children ie.1).isEmpty then [] else [.invalidChild])
  | _ => [.pyRaises]

/-- the value test of `tag_is_deprecated_check`: the version must be a released one of the library and
older than the schema's own version of that library (`lv`) -/
def deprecatedVerdict (versions : List Str) (lv : Option Str) (v : Str) : List IK :=
  if v = [] then []
  else if v ∉ versions then [.deprecatedInvalid]
  else match lv with
    | none => []
    | some lv =>
      if lv = [] then []
      else match verLE lv v with
        | some true => [.deprecatedInvalid]
        | some false => []
        | none => [.pyRaises]

/-- "a deprecatedFrom version that is unknown or not older than the schema" -/
def unknownOrNotOlder (versions : List Str) (lv : Option Str) (v : Str) : Bool :=
  v ∉ versions ||
  (match lv with
   | some lv => lv ≠ [] && verLE lv v = some true
   | none => false)

/-- `tag_is_deprecated_check` -/
def vDeprecatedFrom (env : Env) (s : Schema) (c : TagCtx) (t : Sec) (ie : IE) (a : Str) : List IK :=
  let lib := libFor s c t ie
  (match getAttr a ie.2.attrs with
   | none => []
   | some .flag => [.deprecatedInvalid]
   | some (.text v) => deprecatedVerdict (knownVersions env lib) (libVersion s lib) v) ++
  (match t with
   | .tags => ((c.children ie.1).filter (fun x => !hasOf c .tags x a)).map (fun _ => IK.childOfDeprecated)
   | .unitClasses =>
     (((s.sec .units).filter (·.owner = ie.2.name)).filter (fun x => !x.has a)).map (fun _ => IK.childOfDeprecated)
   | _ => [])

def caretToE (s : Str) : Str := s.map (fun ch => if ch = '^' then 'e' else ch)

/-- `conversion_factor` -/
def vConversionFactor (e : Entry) (a : Str) : List IK :=
  match getAttr a e.attrs with
  | none => []
  | some .flag => [.conversionFactorNotPositive]
  | some (.text v) =>
    match pyFloat (caretToE v) with
    | some f => if f.positive || f.nan then [] else [.conversionFactorNotPositive]
    | none => [.conversionFactorNotPositive]

def charTypeNames : List Str := charTypes.map (·.1)

/-- `allowed_characters_check` -/
def vAllowedCharacter (e : Entry) (a : Str) : List IK :=
  match getAttr a e.attrs with
  | none => [.allowedCharactersInvalid]
  | some .flag => [.pyRaises]
  | some (.text v) =>
    (splitOn ',' v).flatMap fun ch => if ch ∉ charTypeNames && ch.length ≠ 1 then [.allowedCharactersInvalid] else []

/-- `in_library_check` -/
def vInLibrary (s : Schema) (e : Entry) (a : Str) : List IK :=
  match getAttr a e.attrs with
  | some (.text v) => if v ∈ splitOn ',' s.header.library then [] else [.inLibraryInvalid]
  | some .flag => [.inLibraryInvalid]
  | none => if ([] : Str) ∈ splitOn ',' s.header.library then [] else [.inLibraryInvalid]

/-- `is_numeric_value` -/
def vIsNumeric (e : Entry) (a : Str) : List IK :=
  match getAttr a e.attrs with
  | some (.text v) => if (pyFloat v).isSome then [] else [.numericInvalid]
  | some .flag => []
  | none => [.numericInvalid]

/-- `attribute_is_deprecated` -/
def vAttrDeprecated (s : Schema) (c : TagCtx) (t : Sec) (ie : IE) (a : Str) : List IK :=
  let where_ : Sec := if t = .attributes then .properties else .attributes
  match findByName s where_ a with
  | some ae => if ae.has Key.DeprecatedFrom && !hasOf c t ie Key.DeprecatedFrom then [.valueDeprecated] else []
  | none => []

/-- hedId of the same-named entry of the previous release (`previous_schema.get_tag_entry(name, section)`) -/
def prevId (env : Env) (lib : Str) (t : Sec) (name : Str) : Option Str :=
  (env.prevIds.find? fun (l, t', n, _) =>
    l = lib && t' = t && (if t = .tags then fold name ∈ forms n else n = name)).map (·.2.2.2)

def idRangeOf (env : Env) (lib : Str) : Option (Nat × Nat) := (env.idRange.find? (·.1 = lib)).map (·.2)

def hedPrefix : Str := ['H', 'E', 'D', '_']

/-- the old id differs (`old_id and old_id != new_id`) -/
def idChanged (env : Env) (lib : Str) (t : Sec) (name : Str) (n : Int) : Bool :=
  match prevId env lib t name with
  | some old =>
    old ≠ [] && (match pyInt (removePrefix hedPrefix old) with
      | some o => o ≠ 0 && o ≠ n
      | none => true)
  | none => false

/-- the id is outside the library's `id_range` -/
def idOutOfRange (env : Env) (lib : Str) (n : Int) : Bool :=
  match idRangeOf env lib with
  | some (lo, hi) => n < Int.ofNat lo || n > Int.ofNat hi
  | none => false

/-- `HedIDValidator.verify_tag_id`, given the library name it works with -/
def vHedIdLib (env : Env) (lib : Str) (t : Sec) (ie : IE) (a : Str) : List IK :=
  match getAttr a ie.2.attrs with
  | none => []
  | some .flag => [.pyRaises]
  | some (.text v) =>
    match pyInt (removePrefix hedPrefix v) with
    | none => [.hedIdInvalid]
    | some n =>
      (if idChanged env lib t ie.2.name n then [.hedIdInvalid] else []) ++
      (if idOutOfRange env lib n then [.hedIdInvalid] else [])

/-- `HedIDValidator.verify_tag_id` -/
def vHedId (env : Env) (c : TagCtx) (t : Sec) (ie : IE) (a : Str) : List IK :=
  vHedIdLib env (idLib c t ie) t ie a

/-- `verify_tag_id` before fix aa5708e -/
def vHedIdOld (env : Env) (c : TagCtx) (t : Sec) (ie : IE) (a : Str) : List IK :=
  vHedIdLib env (idLibOld c t ie) t ie a

def validate (env : Env) (s : Schema) (c : TagCtx) (t : Sec) (ie : IE) (a : Str) : V → List IK
  | .itemExists target => vItemExists s c t ie a target
  | .unitExists => vUnitExists s t ie.2 a
  | .placeholder => vPlaceholder c t ie
  | .deprecatedFrom => vDeprecatedFrom env s c t ie a
  | .conversionFactor => vConversionFactor ie.2 a
  | .allowedCharacter => vAllowedCharacter ie.2 a
  | .inLibrary => vInLibrary s ie.2 a
  | .isNumeric => vIsNumeric ie.2 a
  | .attrDeprecated => vAttrDeprecated s c t ie a
  | .hedId => vHedId env c t ie a

/-! ### selection of the checkers -/

def tableGet (tbl : List (Str × List V)) (a : Str) : List V :=
  match tbl.find? (·.1 = a) with
  | some (_, vs) => vs
  | none => []

/-- `_get_range_validators` -/
def rangeValidators (ae : Entry) : List V := ae.attrs.flatMap fun p => tableGet tableRange p.1

/-- `SchemaValidator._get_validators` -/
def validatorsFor (s : Schema) (a : Str) : List V :=
  if gen83 s then
    tableGet tableNew a ++ [V.attrDeprecated] ++ (if a = Key.HedID then [V.hedId] else []) ++
    (match findByName s .attributes a with
     | some ae => rangeValidators ae
     | none => [])
  else tableGet tableOld a ++ [V.attrDeprecated]

/-! ### issue lists with the code's severity handling -/

/-- `ErrorHandler.filter_issues_by_severity(…, ERROR)` when warnings are off -/
def filterW (w : Bool) (l : List Issue) : List Issue := if w then l else l.filter (·.sev ≤ sevError)

/-- `_run_validators`: every issue of an attribute checker is demoted to WARNING, then filtered -/
def runValidator (env : Env) (s : Schema) (c : TagCtx) (w : Bool) (t : Sec) (ie : IE) (a : Str) (v : V) : List Issue :=
  filterW w ((validate env s c t ie a v).map fun k => ⟨k, sevWarning, t.label, ie.2.name, a⟩)

/-- `_check_unknown_attributes`: `format_error_with_context`, severity of the kind kept -/
def unknownIssues (valid : List Str) (w : Bool) (t : Sec) (e : Entry) : List Issue :=
  filterW w ((unknownAttrs valid e).map fun _ => ⟨.unknownAttribute, IK.unknownAttribute.sev, t.label, e.name, []⟩)

/-- `_check_tag_entry_attributes` -/
def entryIssues (env : Env) (s : Schema) (c : TagCtx) (valid : List Str) (w : Bool) (t : Sec) (ie : IE) : List Issue :=
  unknownIssues valid w t ie.2 ++
  ie.2.attrs.flatMap fun p => (validatorsFor s p.1).flatMap fun v => runValidator env s c w t ie p.1 v

/-- `check_attributes` for the visible entries `vis` of section `t` -/
def attrIssues (env : Env) (s : Schema) (c : TagCtx) (w : Bool) (t : Sec) (vis : List IE) : List Issue :=
  let valid := validAttrs s t
  vis.flatMap fun ie => entryIssues env s c valid w t ie

/-! ### duplicate names -/

def dedupKeys : List HKey → List HKey
  | [] => []
  | x :: r => x :: (dedupKeys r).filter (· ≠ x)

/-- has the unit-class entry exactly the attribute `inLibrary` (`HedSchemaUnitClassSection._check_if_duplicate`) -/
def isClassExtension (e : Entry) : Bool := e.attrs.length = 1 && e.has Key.InLibrary

/-- `_duplicate_names` of a section as (key, duplicate entry) pairs -/
def dupPairs (s : Schema) (t : Sec) : List (HKey × IE) :=
  let d := dupG (regOf t) (probeOf t) ∅ 0 (s.sec t)
  match t with
  | .unitClasses => d.filter (fun p => !isClassExtension p.2.2)
  | _ => d

/-- the entry already registered under the key (first member of the duplicate list) -/
def dupOwner (s : Schema) (c : TagCtx) (t : Sec) (k : HKey) : Option IE :=
  match t with
  | .tags => (match lookupN c.tbl k with
    | some j => c.tags[j]?.map (j, ·)
    | none => none)
  | _ => (visible s t).find? (fun ie => probeOf t ie.2 = k)

/-- the code choice of `check_duplicate_names`: `values = set(entry.has_attribute(inLibrary) for …)`,
`SCHEMA_DUPLICATE_FROM_LIBRARY` iff `len(values) == 2`, i.e. iff both booleans occur -/
def dupCode (flags : List Bool) : IK :=
  if flags.any id && flags.any (!·) then IK.duplicateFromLibrary else IK.duplicateNode

/-- `duplicate_names[key]`: the entry registered under the key, then every later entry that hit it -/
def dupMembers (s : Schema) (c : TagCtx) (t : Sec) (k : HKey) : List IE :=
  (dupOwner s c t k).toList ++ ((dupPairs s t).filter (·.1 = k)).map (·.2)

/-- is the entry a library entry, as `check_duplicate_names` sees it: `entry.has_attribute(inLibrary)`
(a boolean; for tags the inherited view) -/
def inLib (c : TagCtx) (t : Sec) (ie : IE) : Bool := hasOf c t ie Key.InLibrary

/-- the issue kind reported for a duplicated key -/
def dupCodeOf (s : Schema) (c : TagCtx) (t : Sec) (k : HKey) : IK :=
  dupCode ((dupMembers s c t k).map (inLib c t))

/-- `check_duplicate_names` for one section: one issue per duplicated key -/
def dupKinds (s : Schema) (c : TagCtx) (t : Sec) : List IK :=
  (dedupKeys ((dupPairs s t).map (·.1))).map (dupCodeOf s c t)

def dupIssues (s : Schema) (c : TagCtx) (w : Bool) : List Issue :=
  secOrder.flatMap fun t => filterW w ((dupKinds s c t).map fun k => ⟨k, k.sev, [], [], []⟩)

/-! ### character classes -/

structure CharSet where
  ascii : Array Bool       -- membership of the characters below 128
  others : List Char
  nonascii : Bool          -- the marker "nonascii" is in the set

def CharSet.empty : CharSet := ⟨Array.replicate 128 false, [], false⟩

def CharSet.add (cs : CharSet) (ch : Char) : CharSet :=
  if ch.toNat < 128 then { cs with ascii := cs.ascii.setIfInBounds ch.toNat true }
  else { cs with others := ch :: cs.others }

def CharSet.mem (cs : CharSet) (ch : Char) : Bool :=
  if ch.toNat < 128 then cs.ascii[ch.toNat]?.getD false else ch ∈ cs.others

/-- `get_allowed_characters_by_name` -/
def charSetOf (names : List Str) : CharSet :=
  names.foldl (fun acc n =>
    match charTypes.find? (·.1 = n) with
    | some (_, cs, na) =>
      if n = ['n','o','n','a','s','c','i','i'] then { acc with nonascii := true }
      else { cs.foldl CharSet.add acc with nonascii := acc.nonascii || na }
    | none => match n with
      | [ch] => acc.add ch
      | _ => acc) CharSet.empty

/-- `get_problem_indexes`: the offending characters (one issue each) -/
def problemChars (text : Str) (cs : CharSet) : List Char :=
  text.filter fun ch => !cs.mem ch && !(cs.nonascii && ch.toNat > 127)

def uniClass (env : Env) (ch : Char) : Bool × Bool × Bool :=
  if ch.toNat < 128 then (ch.isAlphanum, ch.isUpper, ch.isDigit)
  else match env.uni.find? (·.1 = ch) with
    | some (_, r) => r
    | none => (false, false, false)

def isAlnum (env : Env) (ch : Char) : Bool := (uniClass env ch).1
def isUpper (env : Env) (ch : Char) : Bool := (uniClass env ch).2.1
def isDigit (env : Env) (ch : Char) : Bool := (uniClass env ch).2.2

/-- name check of one entry: `validate_schema_tag_new` / `validate_schema_term_new` (≥ 8.3),
`validate_schema_tag` / `verify_no_brackets` (< 8.3) -/
def nameKinds (env : Env) (g83 : Bool) (nameDefault : CharSet) (t : Sec) (e : Entry) : List IK :=
  let term := if t = .tags then shortTagName e.name else e.name
  if g83 then
    let cs := match getAttr Key.AllowedCharacter e.attrs with
      | some (.text v) => charSetOf (['n','a','m','e'] :: splitOn ',' v)
      | _ => nameDefault
    let bad := (problemChars term cs).map fun _ => IK.tagCharacter
    if t = .tags then
      (match term with
       | ch :: _ => if !(isDigit env ch || isUpper env ch) then [IK.capitalization] else []
       | [] => []) ++ bad
    else bad
  else if t = .tags then
    (match term with
     | [] => []
     | ch :: r =>
       (if !(isDigit env ch || isUpper env ch) then [IK.capitalization] else []) ++
       (r.filter fun x => !(x ∈ allowedTagCharsOld || isAlnum env x)).map fun _ => IK.tagCharacter)
  else (term.filter fun x => x = '{' || x = '}').map fun _ => IK.tagCharacter

/-- `validate_schema_description_new` / `validate_schema_description` -/
def descKinds (env : Env) (g83 : Bool) (descSet : CharSet) (e : Entry) : List IK :=
  if g83 then (problemChars e.desc descSet).map fun _ => IK.descCharacter
  else (e.desc.filter fun x => !(isAlnum env x || x ∈ allowedDescCharsOld)).map fun _ => IK.descCharacter

/-- `check_invalid_chars` for the visible entries `vis` of section `t` -/
def charIssues (env : Env) (s : Schema) (c : TagCtx) (w : Bool) (t : Sec) (vis : List IE) : List Issue :=
  let g := gen83 s
  let nameDefault := charSetOf [['n','a','m','e'], []]
  let descSet := charSetOf [['t','e','x','t'], ['c','o','m','m','a']]
  vis.flatMap fun ie =>
    if hasOf c t ie Key.DeprecatedFrom then []
    else filterW w ((nameKinds env g nameDefault t ie.2 ++ descKinds env g descSet ie.2).map
      fun k => ⟨k, k.sev, t.label, ie.2.name, []⟩)

/-- `check_prologue_epilogue` -/
def prologueIssues (s : Schema) (w : Bool) : List Issue :=
  if gen83 s then
    let cs := charSetOf [['t','e','x','t'], ['n','e','w','l','i','n','e']]
    filterW w ((problemChars s.prologue cs ++ problemChars s.epilogue cs).map fun _ =>
      ⟨.prologueCharacter, IK.prologueCharacter.sev, [], [], []⟩)
  else []

/-- `check_if_prerelease_version` -/
def prereleaseIssues (env : Env) (s : Schema) (w : Bool) : List Issue :=
  let one (lib ver : Str) : List IK :=
    match knownVersions env lib with
    | [] => [.prereleaseVersion]
    | newest :: _ => match verLT newest ver with
      | some true => [.prereleaseVersion]
      | some false => []
      | none => [.pyRaises]
  let libs := (splitOn ',' s.header.library).zip (splitOn ',' s.header.version)
  let ks := libs.flatMap (fun p => one p.1 p.2) ++
    (if s.header.withStandard ≠ [] then one [] s.header.withStandard else [])
  filterW w (ks.map fun k => ⟨k, k.sev, [], [], []⟩)

/-- character and attribute issues of one section (`section.values()` is walked once here, twice in the code) -/
def secIssues (env : Env) (s : Schema) (c : TagCtx) (w : Bool) (t : Sec) : List Issue :=
  let vis := visible s t
  charIssues env s c w t vis ++ attrIssues env s c w t vis

/-- `check_compliance(schema, check_for_warnings = w)` as a multiset (the code sorts the list; here the
issues are grouped by section) -/
def check (env : Env) (s : Schema) (w : Bool) : List Issue :=
  let c := tagCtx s
  prereleaseIssues env s w ++ prologueIssues s w ++ secOrder.flatMap (secIssues env s c w) ++ dupIssues s c w

/-! ### seeding faults -/

/-- apply `f` to the entry at position `i` -/
def modifyAt (l : List Entry) (i : Nat) (f : Entry → Entry) : List Entry :=
  match l.drop i with
  | [] => l
  | e :: r => l.take i ++ f e :: r

def Schema.modify (s : Schema) (t : Sec) (i : Nat) (f : Entry → Entry) : Schema :=
  { s with sec := fun t' => if t' = t then modifyAt (s.sec t) i f else s.sec t' }

def withAttr (a : Str) (v : AttrVal) (e : Entry) : Entry := { e with attrs := setAttr a v e.attrs }

/-- add one more `<value>` to attribute `a` (or create it) -/
def appendVal (a : Str) (x : Str) (e : Entry) : Entry :=
  match getAttr a e.attrs with
  | some (.text v) => withAttr a (.text (v ++ ',' :: x)) e
  | _ => withAttr a (.text x) e

inductive RefAttr | unitClass | valueClass | suggestedTag | relatedTag
deriving DecidableEq, Repr

def RefAttr.key : RefAttr → Str
  | .unitClass => Key.UnitClass
  | .valueClass => Key.ValueClass
  | .suggestedTag => Key.SuggestedTag
  | .relatedTag => Key.RelatedTag

def RefAttr.target : RefAttr → Sec
  | .unitClass => .unitClasses
  | .valueClass => .valueClasses
  | .suggestedTag => .tags
  | .relatedTag => .tags

inductive ClassAttr | unitClass | valueClass | takesValue
deriving DecidableEq, Repr

def ClassAttr.key : ClassAttr → Str
  | .unitClass => Key.UnitClass
  | .valueClass => Key.ValueClass
  | .takesValue => Key.TakesValue

/-- the ten fault kinds of the property statement -/
inductive Kind
  | dupNode | undeclared | missingRef | classAttr | deprecatedFrom | conversionFactor | defaultUnits
  | allowedCharacter | inLibrary | hedId
deriving DecidableEq, Repr

/-- a fault at a position -/
inductive Fault
  | dupNode (i : Nat)                                   -- a second node with the name of tag `i`
  | undeclared (t : Sec) (i : Nat) (a : Str)            -- attribute `a` (valueless) on entry `i` of section `t`
  | missingRef (r : RefAttr) (i : Nat) (x : Str)        -- one more value `x` of `unitClass` / … on tag `i`
  | classAttr (c : ClassAttr) (i : Nat) (v : AttrVal)   -- `unitClass` / `valueClass` / `takesValue` on tag `i`
  | deprecatedFrom (t : Sec) (i : Nat) (v : Str)
  | conversionFactor (t : Sec) (i : Nat) (v : Str)
  | defaultUnits (i : Nat) (u : Str)                    -- on unit class `i`
  | allowedCharacter (t : Sec) (i : Nat) (x : Str)      -- one more value
  | inLibrary (t : Sec) (i : Nat) (l : Str)
  | hedId (t : Sec) (i : Nat) (v : Str)
deriving Repr

def Fault.kind : Fault → Kind
  | .dupNode .. => .dupNode
  | .undeclared .. => .undeclared
  | .missingRef .. => .missingRef
  | .classAttr .. => .classAttr
  | .deprecatedFrom .. => .deprecatedFrom
  | .conversionFactor .. => .conversionFactor
  | .defaultUnits .. => .defaultUnits
  | .allowedCharacter .. => .allowedCharacter
  | .inLibrary .. => .inLibrary
  | .hedId .. => .hedId

/-- the seeded schema: `dupNode` adds a copy of tag `i` (same long name, attributes, description) after the
existing tags; every other fault edits the attributes of one entry -/
def seed (f : Fault) (s : Schema) : Schema :=
  match f with
  | .dupNode i =>
    { s with sec := fun t => if t = .tags then s.sec .tags ++ ((s.sec .tags)[i]?).toList else s.sec t }
  | .undeclared t i a => s.modify t i (withAttr a .flag)
  | .missingRef r i x => s.modify .tags i (appendVal r.key x)
  | .classAttr c i v => s.modify .tags i (withAttr c.key v)
  | .deprecatedFrom t i v => s.modify t i (withAttr Key.DeprecatedFrom (.text v))
  | .conversionFactor t i v => s.modify t i (withAttr Key.ConversionFactor (.text v))
  | .defaultUnits i u => s.modify .unitClasses i (withAttr Key.DefaultUnits (.text u))
  | .allowedCharacter t i x => s.modify t i (appendVal Key.AllowedCharacter x)
  | .inLibrary t i l => s.modify t i (withAttr Key.InLibrary (.text l))
  | .hedId t i v => s.modify t i (withAttr Key.HedID (.text v))

/-- one more entry at the end of section `t`: a new node / unit / class / … definition anywhere in the document
(for a tag the long name says below which node it is placed) -/
def Schema.append (s : Schema) (t : Sec) (e : Entry) : Schema :=
  { s with sec := fun t' => if t' = t then s.sec t ++ [e] else s.sec t' }

/-- long name of a new node called `x` placed below the node with long name `p` (`none`: at top level) -/
def childName (parent : Option Str) (x : Str) : Str :=
  match parent with
  | none => x
  | some p => p ++ '/' :: x

/-- the new entry repeats a name that is already registered in its section (and is not the
"extend an existing unit class" form): it is a duplicate name -/
def dupAdmissible (s : Schema) (t : Sec) (e : Entry) : Bool :=
  (keysG (regOf t) (probeOf t) ∅ (s.sec t)).contains (probeOf t e) &&
  !(t = .unitClasses && isClassExtension e)

/-- entry `i` of section `t` is kept in `all_names` (it is not a duplicate of an earlier entry) -/
def visibleAt (s : Schema) (t : Sec) (i : Nat) : Bool :=
  match (s.sec t)[i]? with
  | some e => !(keysG (regOf t) (probeOf t) ∅ ((s.sec t).take i)).contains (probeOf t e)
              && !(t = .tags && shadowed (longKeys (s.sec .tags)) i e)
  | none => false

/-- the range properties `_get_range_validators` must find in a ≥ 8.3 schema -/
def rangeDeclared (s : Schema) (a p : Str) : Bool :=
  match findByName s .attributes a with
  | some ae => ae.has p
  | none => false

def stdRanges (s : Schema) : Bool :=
  !gen83 s ||
  (rangeDeclared s Key.UnitClass Key.UnitClassRange && rangeDeclared s Key.ValueClass Key.ValueClassRange &&
   rangeDeclared s Key.SuggestedTag Key.TagRange && rangeDeclared s Key.RelatedTag Key.TagRange &&
   rangeDeclared s Key.DefaultUnits Key.UnitRange)

/-- no error-severity issue, and (≥ 8.3) the five reference attributes are declared with their range -/
def compliantB (env : Env) (s : Schema) : Bool :=
  (check env s true).all (fun i => i.sev ≠ sevError) && stdRanges s

/-- where each fault can be seeded so that it *is* that fault (decidable; evaluated by the driver for every
position the harness uses).  `visibleAt`: the entry is not itself a duplicate.  For `deprecatedFrom` and
`hedId` the library of the entry is the one the code attributes to it in the seeded schema (for tags the
inherited `inLibrary` view). -/
def admissible (env : Env) (f : Fault) (s : Schema) : Bool :=
  let s' := seed f s
  match f with
  | .dupNode i =>
    (match (s.sec .tags)[i]? with
     | some e =>
       shortKey e.name ≠ hash &&
       -- the node already registered under that name and the new one are both library nodes or both not
       -- (otherwise the fault is "duplicate from library", a different code)
       (match dupOwner s' (tagCtx s') .tags (mkKey (shortKey e.name)) with
        | some o => hasOf (tagCtx s') .tags o Key.InLibrary
                    = hasOf (tagCtx s') .tags ((s.sec .tags).length, e) Key.InLibrary
        | none => false)
     | none => false)
  | .undeclared t i a => visibleAt s t i && a ∉ validAttrs s' t && (t ≠ .units || a ≠ Key.UnitSymbol)
  | .missingRef r i x =>
    visibleAt s .tags i && x ≠ [] && ',' ∉ x &&
    (match r.target with
     | .tags => (lookupN (tagCtx s).tbl (mkKey (fold x))).isNone
     | t => (findByName s t x).isNone)
  | .classAttr _ i _ =>
    visibleAt s .tags i && (match (s.sec .tags)[i]? with
      | some e => !isPlaceholder e.name
      | none => false)
  | .deprecatedFrom t i v =>
    visibleAt s t i && v ≠ [] &&
    (match (s'.sec t)[i]? with
     | some e' =>
       let lib := libFor s' (tagCtx s') t (i, e')
       unknownOrNotOlder (knownVersions env lib) (libVersion s' lib) v
     | none => false)
  | .conversionFactor t i v =>
    visibleAt s t i && (match pyFloat (caretToE v) with
      | some x => !x.positive && !x.nan
      | none => true)
  | .defaultUnits i u =>
    visibleAt s .unitClasses i && u ≠ [] &&
    (match (s.sec .unitClasses)[i]? with
     | some e => (derivUnit (s.sec .units) (modifiersOf s) e.name u).isNone
     | none => false)
  | .allowedCharacter t i x => visibleAt s t i && x ∉ charTypeNames && x.length ≠ 1 && ',' ∉ x
  | .inLibrary t i l => visibleAt s t i && l ∉ splitOn ',' s.header.library
  | .hedId t i v =>
    visibleAt s t i && gen83 s &&
    (match (s'.sec t)[i]? with
     | some e' =>
       let lib := idLib (tagCtx s') t (i, e')
       (match pyInt (removePrefix hedPrefix v) with
        | none => true                                             -- malformed
        | some n => idOutOfRange env lib n || idChanged env lib t e'.name n)
     | none => false)

end HedVerif.Compliance
