/-
Model of schema compliance checking:
  `check_compliance`, `SchemaValidator.check_if_prerelease_version / check_prologue_epilogue /
   check_invalid_chars / check_attributes / _check_unknown_attributes / _get_validators /
   _get_range_validators / _run_validators / check_duplicate_names`   (hed/schema/schema_compliance.py)
  the attribute checkers of hed/schema/schema_attribute_validators.py and
  `HedIDValidator.verify_tag_id`                                      (schema_attribute_validator_hed_id.py)
  `validate_schema_tag_new / term_new / description_new`, `schema_version_for_library`,
  `get_allowed_characters_by_name`, `get_problem_indexes`             (schema_validation_util.py)
  `validate_schema_tag / validate_schema_description / verify_no_brackets` (schema_validation_util_deprecated.py)
  load-time bookkeeping: `_check_if_duplicate` of the four section classes, `duplicate_names`
  (hed_schema_section.py); `_set_attribute_value`, `finalize_entry` (unknown attributes, parent / children,
  inherited attributes, derivative units) (hed_schema_entry.py); `_get_attributes_for_section`,
  `schema_83_props` (hed_schema.py, hed_schema_base.py).

A schema is plain data: seven sections of entries in document order (tags carry their long name).
Tables (`tableOld`, `tableNew`, `tableRange`, `charTypes`, key names, issue kind → code / severity) are
generated from the source (Generated/C14Tables.lean).  Data the code obtains from outside the schema
(known released versions, `library_data.json` ranges, hedIds of the previous release, Unicode classes of
non-ASCII characters, plural of unit names) is an explicit `Env` / entry field.
Python-specific simplifications: `casefold`/`lower` = ASCII lower-casing; `float()`/`int()` = decimal
literals with optional sign / exponent, `inf`, `nan`, surrounding blanks (no `_` digit separators);
versions are `major.minor.patch` (no prerelease part); where the code would raise (a valueless attribute
passed to a checker that needs a string, a checker applied to the wrong entry class) the model emits the
marker kind `pyRaises`.
-/
import HedVerif.Generated.C14Tables

namespace HedVerif.Compliance

/-- value of an attribute in `entry.attributes`: `True` (no `<value>`) or the comma-joined text -/
inductive AttrVal
  | flag
  | text (s : Str)
deriving DecidableEq, Repr, Inhabited

structure Entry where
  name : Str                       -- tags: long name ("Event/Sensory-event", "Duration/#")
  attrs : List (Str × AttrVal)     -- `entry.attributes`, insertion order
  desc : Str := []                 -- `entry.description` ("" = None)
  owner : Str := []                -- units: name of the unit class definition that contains the unit
  plural : Str := []               -- units: plural of the lower-cased name (data: Python `inflect`)
deriving DecidableEq, Repr, Inhabited

structure Header where
  version : Str
  library : Str
  withStandard : Str
deriving Repr, Inhabited

structure Schema where
  header : Header
  prologue : Str
  epilogue : Str
  sec : Sec → List Entry
deriving Inhabited

/-- what the code reads from outside the schema object -/
structure Env where
  known : List (Str × List Str)            -- library ("" = standard) ↦ released versions, newest first
  idRange : List (Str × Nat × Nat)         -- `library_data.json`: library ↦ id_range
  prevIds : List (Str × Sec × Str × Str)   -- previous release per library: (library, section, name, hedId)
  uni : List (Char × Bool × Bool × Bool)   -- non-ASCII characters: isalnum, isupper, isdigit
deriving Inhabited

structure Issue where
  kind : IK
  sev : Nat
  sec : Str := []
  entry : Str := []
  attr : Str := []
deriving DecidableEq, Repr

def Issue.code (i : Issue) : Str := i.kind.code
def codes (l : List Issue) : List Str := l.map Issue.code

/-! ### strings -/

def fold (s : Str) : Str := s.map Char.toLower

/-- `str.split(c)` -/
def splitOn (c : Char) : Str → List Str
  | [] => [[]]
  | x :: r =>
    if x = c then [] :: splitOn c r
    else match splitOn c r with
      | [] => [[x]]
      | h :: t => (x :: h) :: t

def joinWith (sep : Str) : List Str → Str
  | [] => []
  | [x] => x
  | x :: r => x ++ sep ++ joinWith sep r

def endsWith (s suf : Str) : Bool := suf.isSuffixOf s
def startsWith (s pre : Str) : Bool := pre.isPrefixOf s

def isBlank (c : Char) : Bool := c = ' ' || c = '\t' || c = '\n' || c = '\r' || c = '\x0b' || c = '\x0c'
def strip (s : Str) : Str := ((s.dropWhile isBlank).reverse.dropWhile isBlank).reverse

/-! ### attributes of an entry -/

/-- `entry.attributes.get(a)` -/
def getAttr (a : Str) : List (Str × AttrVal) → Option AttrVal
  | [] => none
  | (b, w) :: r => if b = a then some w else getAttr a r

/-- `entry.attributes[a] = v` -/
def setAttr (a : Str) (v : AttrVal) : List (Str × AttrVal) → List (Str × AttrVal)
  | [] => [(a, v)]
  | (b, w) :: r => if b = a then (a, v) :: r else (b, w) :: setAttr a v r

def Entry.has (e : Entry) (a : Str) : Bool := (getAttr a e.attrs).isSome

/-- the value as the text Python would see (`True` prints as "True") -/
def AttrVal.str : AttrVal → Str
  | .flag => ['T', 'r', 'u', 'e']
  | .text t => t

/-! ### numbers and versions -/

structure PyFloat where
  nan : Bool := false
  positive : Bool        -- `> 0.0`
deriving Repr, DecidableEq

def allDigits (s : Str) : Bool := s.all Char.isDigit

/-- `float(text)`: `none` = ValueError -/
def pyFloat (text : Str) : Option PyFloat :=
  let s := strip text
  let (neg, body) := match s with
    | '-' :: r => (true, r)
    | '+' :: r => (false, r)
    | r => (false, r)
  let lb := fold body
  if lb = ['i','n','f'] || lb = ['i','n','f','i','n','i','t','y'] then some ⟨false, !neg⟩
  else if lb = ['n','a','n'] then some ⟨true, false⟩
  else
    let (mant, exp) := match splitOn 'e' lb with
      | [m] => (m, none)
      | [m, x] => (m, some x)
      | _ => ([], some [])
    let expOk := match exp with
      | none => true
      | some x =>
        let d := match x with
          | '-' :: r => r
          | '+' :: r => r
          | r => r
        d ≠ [] && allDigits d
    let (ip, fp, dots) := match splitOn '.' mant with
      | [i] => (i, [], 0)
      | [i, f] => (i, f, 1)
      | _ => ([], [], 2)
    if expOk && dots < 2 && allDigits ip && allDigits fp && (ip ≠ [] || fp ≠ []) then
      some ⟨false, !neg && (ip ++ fp).any (fun c => c ≠ '0')⟩
    else none

def digitsToNat (s : Str) : Nat := s.foldl (fun n c => 10 * n + (c.toNat - '0'.toNat)) 0

/-- `int(text)`: `none` = ValueError -/
def pyInt (text : Str) : Option Int :=
  let s := strip text
  let (neg, body) := match s with
    | '-' :: r => (true, r)
    | '+' :: r => (false, r)
    | r => (false, r)
  if body ≠ [] && allDigits body then
    some (if neg then - (Int.ofNat (digitsToNat body)) else Int.ofNat (digitsToNat body))
  else none

/-- `remove_prefix(text, prefix)` -/
def removePrefix (pre s : Str) : Str := if startsWith s pre then s.drop pre.length else s

/-- `semantic_version.Version(text)` for plain `major.minor.patch` -/
def parseVersion (s : Str) : Option (Nat × Nat × Nat) :=
  match splitOn '.' s with
  | [a, b, c] =>
    if a ≠ [] && b ≠ [] && c ≠ [] && allDigits a && allDigits b && allDigits c then
      some (digitsToNat a, digitsToNat b, digitsToNat c)
    else none
  | _ => none

def tripleLE : Nat × Nat × Nat → Nat × Nat × Nat → Bool
  | (a, b, c), (x, y, z) => a < x || (a = x && (b < y || (b = y && c ≤ z)))

/-- `Version(a) <= Version(b)`; `none` = one of them does not parse (Python raises) -/
def verLE (a b : Str) : Option Bool :=
  match parseVersion a, parseVersion b with
  | some x, some y => some (tripleLE x y)
  | _, _ => none

def verLT (a b : Str) : Option Bool := (verLE b a).map (!·)

/-! ### sections: which entries are kept in `all_names`, which are duplicates -/

/-- generic `_add_to_dict` bookkeeping: an entry is probed with `probe e`; if the key is registered it is a
duplicate, else it becomes visible and registers `reg e`.  `keys` are the registered keys so far. -/
def visG (reg : Entry → List Str) (probe : Entry → Str) (keys : List Str) : List Entry → List Entry
  | [] => []
  | e :: r => if probe e ∈ keys then visG reg probe keys r else e :: visG reg probe (reg e ++ keys) r

def keysG (reg : Entry → List Str) (probe : Entry → Str) (keys : List Str) : List Entry → List Str
  | [] => keys
  | e :: r => if probe e ∈ keys then keysG reg probe keys r else keysG reg probe (reg e ++ keys) r

/-- the entries that hit a registered key (with that key): what ends up in `_duplicate_names` -/
def dupG (reg : Entry → List Str) (probe : Entry → Str) (keys : List Str) : List Entry → List (Str × Entry)
  | [] => []
  | e :: r => if probe e ∈ keys then (probe e, e) :: dupG reg probe keys r
              else dupG reg probe (reg e ++ keys) r

def sufs : List Str → List (List Str)
  | [] => []
  | x :: r => (x :: r) :: sufs r

def hash : Str := ['#']
def slash : Str := ['/']

/-- `HedSchemaTagSection._get_tag_forms` on the case-folded name: every `/`-suffix, without a bare `#` -/
def forms (name : Str) : List Str :=
  ((sufs (splitOn '/' (fold name))).map (joinWith slash)).filter (· ≠ hash)

/-- the `name_key` of `_get_tag_forms`: the last component (case-folded) -/
def shortKey (name : Str) : Str := (splitOn '/' (fold name)).getLast?.getD []

/-- key under which a unit is kept: symbols are case-sensitive (`HedSchemaUnitSection._check_if_duplicate`) -/
def unitKey (e : Entry) : Str := if e.has Key.UnitSymbol then e.name else fold e.name

def regOf : Sec → Entry → List Str
  | .tags => fun e => forms e.name
  | .units => fun e => [unitKey e]
  | _ => fun e => [e.name]

def probeOf : Sec → Entry → Str
  | .tags => fun e => shortKey e.name
  | .units => unitKey
  | _ => fun e => e.name

/-- `section.values()` = `all_names.values()` -/
def visible (s : Schema) (t : Sec) : List Entry := visG (regOf t) (probeOf t) [] (s.sec t)

/-- `section.get(name)` for the sections looked up by exact name -/
def findByName (s : Schema) (t : Sec) (name : Str) : Option Entry := (s.sec t).find? (·.name = name)

/-! ### the tag table (`long_form_tags`), parents, children, inherited attributes -/

/-- `long_form_tags`: registered form ↦ entry; a later registration of the same key shadows -/
def tagTable (acc : List (Str × Entry)) : List Entry → List (Str × Entry)
  | [] => acc
  | e :: r =>
    if shortKey e.name ∈ acc.map (·.1) then tagTable acc r
    else tagTable ((forms e.name).map (·, e) ++ acc) r

def lookupT (tbl : List (Str × Entry)) (k : Str) : Option Entry :=
  match tbl with
  | [] => none
  | (k', e) :: r => if k' = k then some e else lookupT r k

/-- `schema.tags.get(name)` / `_get_tag_entry(name)` -/
def findTag (s : Schema) (name : Str) : Option Entry := lookupT (tagTable [] (s.sec .tags)) (fold name)

/-- `name.rpartition("/")[0]` -/
def parentName (name : Str) : Str := joinWith slash (splitOn '/' name).dropLast

/-- `short_tag_name`: last component once a trailing `/#` is removed -/
def shortTagName (name : Str) : Str :=
  let cs := splitOn '/' name
  let cs' := if cs.getLast? = some hash then cs.dropLast else cs
  cs'.getLast?.getD []

def isPlaceholder (name : Str) : Bool := endsWith name ['/', '#']

structure TagCtx where
  tbl : List (Str × Entry)
  inheritable : List Str
  all : List Entry          -- every tag entry (duplicates too: all are finalized)

def TagCtx.parent (c : TagCtx) (e : Entry) : Option Entry :=
  let p := parentName e.name
  if p = [] then none else lookupT c.tbl (fold p)

def TagCtx.hashChild (c : TagCtx) (e : Entry) : Bool := (lookupT c.tbl (fold (e.name ++ ['/', '#']))).isSome

/-- `_check_inherited_attribute_internal`: own and ancestors' values, nearest first; an entry that has a
`#` child ends the walk (itself excluded) -/
def TagCtx.chainVals (c : TagCtx) (a : Str) : Nat → Entry → List AttrVal
  | 0, _ => []
  | fuel + 1, e =>
    if c.hashChild e then []
    else
      let own := (getAttr a e.attrs).toList
      match c.parent e with
      | some p => own ++ c.chainVals a fuel p
      | none => own

def allText : List AttrVal → Option (List Str)
  | [] => some []
  | .text t :: r => (allText r).map (t :: ·)
  | .flag :: _ => none

/-- `inherited_attributes.get(a)` (`_finalize_inherited_attributes`) -/
def TagCtx.inhVal (c : TagCtx) (e : Entry) (a : Str) : Option AttrVal :=
  if a ∈ c.inheritable then
    match c.chainVals a (e.name.length + 1) e with
    | [] => getAttr a e.attrs
    | v :: vs => match allText (v :: vs) with
      | some ts => some (.text (joinWith [','] ts))
      | none => some v
  else getAttr a e.attrs

def gen83 (s : Schema) : Bool :=
  let cand : Option Str :=
    if s.header.withStandard ≠ [] then some s.header.withStandard
    else if s.header.library = [] then some s.header.version else none
  (match cand with
    | some v => (verLE ['8', '.', '3', '.', '0'] v).getD false
    | none => false)
  || (findByName s .properties Key.ElementDomain).isSome

/-- `HedSchemaTagSection._finalize_section`: names of the inheritable attributes -/
def inheritable (s : Schema) : List Str :=
  let l := if gen83 s then ((visible s .attributes).filter (fun e => !e.has Key.AnnotationProperty)).map (·.name)
           else ((visible s .attributes).filter (fun e => e.has Key.IsInheritedProperty)).map (·.name)
  if l = [] then [Key.ExtensionAllowed] else l

def tagCtx (s : Schema) : TagCtx := ⟨tagTable [] (s.sec .tags), inheritable s, s.sec .tags⟩

/-- `entry.has_attribute(a, return_value=True)`: inherited view for tags, own attributes elsewhere -/
def attrOf (c : TagCtx) (t : Sec) (e : Entry) (a : Str) : Option AttrVal :=
  match t with
  | .tags => c.inhVal e a
  | _ => getAttr a e.attrs

def hasOf (c : TagCtx) (t : Sec) (e : Entry) (a : Str) : Bool := (attrOf c t e a).isSome

/-- `parent.children`: tag entries whose parent lookup gives `p`, one per `short_tag_name` (the last wins) -/
def TagCtx.children (c : TagCtx) (p : Entry) : List Entry :=
  let ch := c.all.filter fun x => match c.parent x with
    | some q => q.name = p.name
    | none => false
  let rec dedup : List Entry → List Entry
    | [] => []
    | x :: r => if r.any (fun y => shortTagName y.name = shortTagName x.name) then dedup r else x :: dedup r
  dedup ch

/-! ### valid attributes of a section, unknown attributes -/

def elementKey (s : Schema) : Str := if gen83 s then Key.ElementDomain else Key.ElementProperty

/-- `HedSchema._get_attributes_for_section` (names only) -/
def validAttrs (s : Schema) (t : Sec) : List Str :=
  let attrs := visible s .attributes
  let withProp (k : Str) := (attrs.filter (·.has k)).map (·.name)
  let ek := elementKey s
  match t with
  | .properties => withProp ek
  | .attributes => (visible s .properties).map (·.name) ++ withProp ek
  | .tags =>
    if gen83 s then (attrs.filter (fun e => e.has Key.TagDomain || e.has ek)).map (·.name)
    else (attrs.filter (fun e => !e.has Key.UnitClassProperty && !e.has Key.UnitProperty
            && !e.has Key.UnitModifierProperty && !e.has Key.ValueClassProperty)).map (·.name)
  | .unitClasses =>
    (attrs.filter (fun e => e.has (if gen83 s then Key.UnitClassDomain else Key.UnitClassProperty) || e.has ek)).map (·.name)
  | .units =>
    (attrs.filter (fun e => e.has (if gen83 s then Key.UnitDomain else Key.UnitProperty) || e.has ek)).map (·.name)
  | .unitModifiers =>
    (attrs.filter (fun e => e.has (if gen83 s then Key.UnitModifierDomain else Key.UnitModifierProperty) || e.has ek)).map (·.name)
  | .valueClasses =>
    (attrs.filter (fun e => e.has (if gen83 s then Key.ValueClassDomain else Key.ValueClassProperty) || e.has ek)).map (·.name)

/-- `entry._unknown_attributes` after loading -/
def unknownAttrs (s : Schema) (t : Sec) (e : Entry) : List Str :=
  (e.attrs.map (·.1)).filter (fun a => a ∉ validAttrs s t)

/-! ### units of a class -/

/-- `UnitEntry.finalize_entry`: the keys under which a unit is found -/
def derivKeys (mods : List Entry) (u : Entry) : List Str :=
  let sym := u.has Key.UnitSymbol
  let base := if sym then [u.name] else [fold u.name, u.plural]
  let ms := if !u.has Key.SIUnit then []
            else mods.filter (fun m => m.has (if sym then Key.SIUnitSymbolModifier else Key.SIUnitModifier))
  base.flatMap fun b => b :: ms.map (fun m => m.name ++ b)

/-- `UnitClassEntry.get_derivative_unit_entry` -/
def derivUnit (units mods : List Entry) (cname : Str) (u : Str) : Option Entry :=
  let mine := (units.filter (·.owner = cname)).reverse
  let get (k : Str) := mine.find? (fun x => k ∈ derivKeys mods x)
  match get u with
  | some x => if x.has Key.UnitSymbol then some x else
      (match get (fold u) with
       | some y => if y.has Key.UnitSymbol then none else some y
       | none => none)
  | none => match get (fold u) with
    | some y => if y.has Key.UnitSymbol then none else some y
    | none => none

/-! ### the attribute checkers -/

def knownVersions (env : Env) (lib : Str) : List Str :=
  match env.known.find? (·.1 = lib) with
  | some (_, vs) => vs
  | none => []

/-- `schema_version_for_library` -/
def libVersion (s : Schema) (lib : Str) : Option Str :=
  let names := splitOn ',' s.header.library
  let versions := splitOn ',' s.header.version
  match (names.zip versions).find? (·.1 = lib) with
  | some (_, v) => some v
  | none => if lib = [] && s.header.withStandard ≠ [] then some s.header.withStandard else none

/-- the library name `tag_is_deprecated_check` works with -/
def libFor (s : Schema) (c : TagCtx) (t : Sec) (e : Entry) : Str :=
  match attrOf c t e Key.InLibrary with
  | some v => if v.str = [] && s.header.withStandard = [] then s.header.library else v.str
  | none => if s.header.withStandard = [] then s.header.library else []

/-- the library name `verify_tag_id` works with -/
def idLib (c : TagCtx) (t : Sec) (e : Entry) : Str :=
  match attrOf c t e Key.InLibrary with
  | some v => v.str
  | none => []

def findIn (s : Schema) (t : Sec) (item : Str) : Option (Option Entry) :=
  match t with
  | .tags => some (findTag s item)
  | .unitClasses => some (findByName s .unitClasses item)
  | .valueClasses => some (findByName s .valueClasses item)
  | _ => none

/-- `item_exists_check` -/
def vItemExists (s : Schema) (c : TagCtx) (t : Sec) (e : Entry) (a : Str) (target : Sec) : List IK :=
  match getAttr a e.attrs with
  | none => []
  | some .flag => [.pyRaises]
  | some (.text v) =>
    (splitOn ',' v).flatMap fun item =>
      if item = [] then []
      else match findIn s target item with
        | none => [.pyRaises]
        | some none => [.genericValueInvalid]
        | some (some ie) =>
          if hasOf c target ie Key.DeprecatedFrom && !hasOf c t e Key.DeprecatedFrom then [.valueDeprecated] else []

/-- `unit_exists` -/
def vUnitExists (s : Schema) (t : Sec) (e : Entry) (a : Str) : List IK :=
  match t with
  | .unitClasses =>
    (match getAttr a e.attrs with
     | none => []
     | some .flag => [.pyRaises]
     | some (.text u) =>
       match derivUnit (s.sec .units) (visible s .unitModifiers) e.name u with
       | none => if u ≠ [] then [.defaultUnitsInvalid] else []
       | some ue => if ue.has Key.DeprecatedFrom && !e.has Key.DeprecatedFrom then [.defaultUnitsDeprecated] else [])
  | _ => [.pyRaises]

/-- `tag_is_placeholder_check` -/
def vPlaceholder (c : TagCtx) (t : Sec) (e : Entry) : List IK :=
  match t with
  | .tags =>
    (if !isPlaceholder e.name then [.nonPlaceholderHasClass] else []) ++
    (match c.parent e with
     | some p => if (c.children p).any (fun x => x.name ≠ e.name)
                 then [.invalidSibling] else []
     | none => []) ++
    (if c.children e ≠ [] then [.invalidChild] else [])
  | _ => [.pyRaises]

/-- `tag_is_deprecated_check` -/
def vDeprecatedFrom (env : Env) (s : Schema) (c : TagCtx) (t : Sec) (e : Entry) (a : Str) : List IK :=
  let lib := libFor s c t e
  let versions := knownVersions env lib
  (match getAttr a e.attrs with
   | none => []
   | some .flag => [.deprecatedInvalid]
   | some (.text v) =>
     if v = [] then []
     else if v ∉ versions then [.deprecatedInvalid]
     else match libVersion s lib with
       | none => []
       | some lv =>
         if lv = [] then []
         else match verLE lv v with
           | some true => [.deprecatedInvalid]
           | some false => []
           | none => [.pyRaises]) ++
  (match t with
   | .tags => ((c.children e).filter (fun x => !hasOf c .tags x a)).map (fun _ => IK.childOfDeprecated)
   | .unitClasses => (((s.sec .units).filter (·.owner = e.name)).filter (fun x => !x.has a)).map (fun _ => IK.childOfDeprecated)
   | _ => [])

def caretToE (s : Str) : Str := s.map (fun ch => if ch = '^' then 'e' else ch)

/-- `conversion_factor` -/
def vConversionFactor (e : Entry) (a : Str) : List IK :=
  match getAttr a e.attrs with
  | none => []
  | some .flag => [.conversionFactorNotPositive]
  | some (.text v) =>
    match pyFloat (caretToE v) with
    | some f => if f.positive || f.nan then [] else [.conversionFactorNotPositive]
    | none => [.conversionFactorNotPositive]

def charTypeNames : List Str := charTypes.map (·.1)

/-- `allowed_characters_check` -/
def vAllowedCharacter (e : Entry) (a : Str) : List IK :=
  match getAttr a e.attrs with
  | none => [.allowedCharactersInvalid]
  | some .flag => [.pyRaises]
  | some (.text v) =>
    (splitOn ',' v).flatMap fun ch => if ch ∉ charTypeNames && ch.length ≠ 1 then [.allowedCharactersInvalid] else []

/-- `in_library_check` -/
def vInLibrary (s : Schema) (e : Entry) (a : Str) : List IK :=
  match getAttr a e.attrs with
  | some (.text v) => if v ∈ splitOn ',' s.header.library then [] else [.inLibraryInvalid]
  | some .flag => [.inLibraryInvalid]
  | none => if ([] : Str) ∈ splitOn ',' s.header.library then [] else [.inLibraryInvalid]

/-- `is_numeric_value` -/
def vIsNumeric (e : Entry) (a : Str) : List IK :=
  match getAttr a e.attrs with
  | some (.text v) => if (pyFloat v).isSome then [] else [.numericInvalid]
  | some .flag => []
  | none => [.numericInvalid]

/-- `attribute_is_deprecated` -/
def vAttrDeprecated (s : Schema) (c : TagCtx) (t : Sec) (e : Entry) (a : Str) : List IK :=
  let where_ : Sec := if t = .attributes then .properties else .attributes
  match findByName s where_ a with
  | some ae => if ae.has Key.DeprecatedFrom && !hasOf c t e Key.DeprecatedFrom then [.valueDeprecated] else []
  | none => []

/-- hedId of the same-named entry of the previous release (`previous_schema.get_tag_entry(name, section)`) -/
def prevId (env : Env) (lib : Str) (t : Sec) (name : Str) : Option Str :=
  (env.prevIds.find? fun (l, t', n, _) =>
    l = lib && t' = t && (if t = .tags then fold name ∈ forms n else n = name)).map (·.2.2.2)

def idRangeOf (env : Env) (lib : Str) : Option (Nat × Nat) := (env.idRange.find? (·.1 = lib)).map (·.2)

/-- `HedIDValidator.verify_tag_id` -/
def vHedId (env : Env) (c : TagCtx) (t : Sec) (e : Entry) (a : Str) : List IK :=
  match getAttr a e.attrs with
  | none => []
  | some .flag => [.pyRaises]
  | some (.text v) =>
    let lib := idLib c t e
    match pyInt (removePrefix ['H', 'E', 'D', '_'] v) with
    | none => [.hedIdInvalid]
    | some n =>
      (match prevId env lib t e.name with
       | some old =>
         if old = [] then []
         else (match pyInt (removePrefix ['H', 'E', 'D', '_'] old) with
           | some o => if o ≠ 0 && o ≠ n then [.hedIdInvalid] else []
           | none => [.hedIdInvalid])
       | none => []) ++
      (match idRangeOf env lib with
       | some (lo, hi) => if n < Int.ofNat lo || n > Int.ofNat hi then [.hedIdInvalid] else []
       | none => [])

def validate (env : Env) (s : Schema) (c : TagCtx) (t : Sec) (e : Entry) (a : Str) : V → List IK
  | .itemExists target => vItemExists s c t e a target
  | .unitExists => vUnitExists s t e a
  | .placeholder => vPlaceholder c t e
  | .deprecatedFrom => vDeprecatedFrom env s c t e a
  | .conversionFactor => vConversionFactor e a
  | .allowedCharacter => vAllowedCharacter e a
  | .inLibrary => vInLibrary s e a
  | .isNumeric => vIsNumeric e a
  | .attrDeprecated => vAttrDeprecated s c t e a
  | .hedId => vHedId env c t e a

/-! ### selection of the checkers -/

def tableGet (tbl : List (Str × List V)) (a : Str) : List V :=
  match tbl.find? (·.1 = a) with
  | some (_, vs) => vs
  | none => []

/-- `_get_range_validators` -/
def rangeValidators (ae : Entry) : List V := ae.attrs.flatMap fun (p, _) => tableGet tableRange p

/-- `SchemaValidator._get_validators` -/
def validatorsFor (s : Schema) (a : Str) : List V :=
  if gen83 s then
    tableGet tableNew a ++ [V.attrDeprecated] ++ (if a = Key.HedID then [V.hedId] else []) ++
    (match findByName s .attributes a with
     | some ae => rangeValidators ae
     | none => [])
  else tableGet tableOld a ++ [V.attrDeprecated]

/-! ### issue lists with the code's severity handling -/

/-- `ErrorHandler.filter_issues_by_severity(…, ERROR)` when warnings are off -/
def filterW (w : Bool) (l : List Issue) : List Issue := if w then l else l.filter (·.sev ≤ sevError)

/-- `_run_validators`: every issue of an attribute checker is demoted to WARNING, then filtered -/
def runValidator (env : Env) (s : Schema) (c : TagCtx) (w : Bool) (t : Sec) (e : Entry) (a : Str) (v : V) : List Issue :=
  filterW w ((validate env s c t e a v).map fun k => ⟨k, sevWarning, t.label, e.name, a⟩)

/-- `_check_unknown_attributes`: `format_error_with_context`, severity of the kind kept -/
def unknownIssues (s : Schema) (w : Bool) (t : Sec) (e : Entry) : List Issue :=
  filterW w ((unknownAttrs s t e).map fun _ => ⟨.unknownAttribute, IK.unknownAttribute.sev, t.label, e.name, []⟩)

/-- `_check_tag_entry_attributes` -/
def entryIssues (env : Env) (s : Schema) (c : TagCtx) (w : Bool) (t : Sec) (e : Entry) : List Issue :=
  unknownIssues s w t e ++
  e.attrs.flatMap fun (a, _) => (validatorsFor s a).flatMap fun v => runValidator env s c w t e a v

/-- `check_attributes` -/
def attrIssues (env : Env) (s : Schema) (w : Bool) : List Issue :=
  secOrder.flatMap fun t => (visible s t).flatMap fun e => entryIssues env s (tagCtx s) w t e

/-! ### duplicate names -/

def dedupStr : List Str → List Str
  | [] => []
  | x :: r => x :: (dedupStr r).filter (· ≠ x)

/-- has the unit-class entry exactly the attribute `inLibrary` (`HedSchemaUnitClassSection._check_if_duplicate`) -/
def isClassExtension (e : Entry) : Bool := e.attrs.length = 1 && e.has Key.InLibrary

/-- `_duplicate_names` of a section as (key, duplicate entry) pairs -/
def dupPairs (s : Schema) (t : Sec) : List (Str × Entry) :=
  let d := dupG (regOf t) (probeOf t) [] (s.sec t)
  match t with
  | .unitClasses => d.filter (fun p => !isClassExtension p.2)
  | _ => d

/-- the entry already registered under the key (first member of the duplicate list) -/
def dupOwner (s : Schema) (t : Sec) (k : Str) : Option Entry :=
  match t with
  | .tags => lookupT (tagTable [] (s.sec .tags)) k
  | _ => (visible s t).find? (fun e => probeOf t e = k)

/-- `check_duplicate_names` for one section: one issue per duplicated key -/
def dupKinds (s : Schema) (t : Sec) : List IK :=
  let d := dupPairs s t
  let c := tagCtx s
  (dedupStr (d.map (·.1))).map fun k =>
    let members := (dupOwner s t k).toList ++ (d.filter (·.1 = k)).map (·.2)
    let flags := members.map (fun e => hasOf c t e Key.InLibrary)
    if flags.any id && flags.any (!·) then IK.duplicateFromLibrary else IK.duplicateNode

def dupIssues (s : Schema) (w : Bool) : List Issue :=
  secOrder.flatMap fun t => filterW w ((dupKinds s t).map fun k => ⟨k, k.sev, [], [], []⟩)

/-! ### character classes -/

structure CharSet where
  chars : List Char
  nonascii : Bool

/-- `get_allowed_characters_by_name` -/
def charSetOf (names : List Str) : CharSet :=
  names.foldl (fun acc n =>
    match charTypes.find? (·.1 = n) with
    | some (_, cs, na) =>
      if n = ['n','o','n','a','s','c','i','i'] then { acc with nonascii := true }
      else { chars := cs ++ acc.chars, nonascii := acc.nonascii || na }
    | none => match n with
      | [ch] => { acc with chars := ch :: acc.chars }
      | _ => acc) ⟨[], false⟩

/-- `get_problem_indexes`: the offending characters (one issue each) -/
def problemChars (text : Str) (cs : CharSet) : List Char :=
  text.filter fun ch => ch ∉ cs.chars && !(cs.nonascii && ch.toNat > 127)

def uniClass (env : Env) (ch : Char) : Bool × Bool × Bool :=
  if ch.toNat < 128 then (ch.isAlphanum, ch.isUpper, ch.isDigit)
  else match env.uni.find? (·.1 = ch) with
    | some (_, r) => r
    | none => (false, false, false)

def isAlnum (env : Env) (ch : Char) : Bool := (uniClass env ch).1
def isUpper (env : Env) (ch : Char) : Bool := (uniClass env ch).2.1
def isDigit (env : Env) (ch : Char) : Bool := (uniClass env ch).2.2

/-- name check of one entry: `validate_schema_tag_new` / `validate_schema_term_new` (≥ 8.3),
`validate_schema_tag` / `verify_no_brackets` (< 8.3) -/
def nameKinds (env : Env) (g83 : Bool) (t : Sec) (e : Entry) : List IK :=
  let term := if t = .tags then shortTagName e.name else e.name
  if g83 then
    let allowed := match getAttr Key.AllowedCharacter e.attrs with
      | some (.text v) => splitOn ',' v
      | _ => [[]]
    let cs := charSetOf (['n','a','m','e'] :: allowed)
    let bad := (problemChars term cs).map fun _ => IK.tagCharacter
    if t = .tags then
      (match term with
       | ch :: _ => if !(isDigit env ch || isUpper env ch) then [IK.capitalization] else []
       | [] => []) ++ bad
    else bad
  else if t = .tags then
    (match term with
     | [] => []
     | ch :: r =>
       (if !(isDigit env ch || isUpper env ch) then [IK.capitalization] else []) ++
       (r.filter fun x => !(x ∈ allowedTagCharsOld || isAlnum env x)).map fun _ => IK.tagCharacter)
  else (term.filter fun x => x = '{' || x = '}').map fun _ => IK.tagCharacter

/-- `validate_schema_description_new` / `validate_schema_description` -/
def descKinds (env : Env) (g83 : Bool) (e : Entry) : List IK :=
  if g83 then (problemChars e.desc (charSetOf [['t','e','x','t'], ['c','o','m','m','a']])).map fun _ => IK.descCharacter
  else (e.desc.filter fun x => !(isAlnum env x || x ∈ allowedDescCharsOld)).map fun _ => IK.descCharacter

/-- `check_invalid_chars` -/
def charIssues (env : Env) (s : Schema) (w : Bool) : List Issue :=
  let c := tagCtx s
  let g := gen83 s
  secOrder.flatMap fun t => (visible s t).flatMap fun e =>
    if hasOf c t e Key.DeprecatedFrom then []
    else filterW w ((nameKinds env g t e ++ descKinds env g e).map fun k => ⟨k, k.sev, t.label, e.name, []⟩)

/-- `check_prologue_epilogue` -/
def prologueIssues (s : Schema) (w : Bool) : List Issue :=
  if gen83 s then
    let cs := charSetOf [['t','e','x','t'], ['n','e','w','l','i','n','e']]
    filterW w ((problemChars s.prologue cs ++ problemChars s.epilogue cs).map fun _ =>
      ⟨.prologueCharacter, IK.prologueCharacter.sev, [], [], []⟩)
  else []

/-- `check_if_prerelease_version` -/
def prereleaseIssues (env : Env) (s : Schema) (w : Bool) : List Issue :=
  let one (lib ver : Str) : List IK :=
    match knownVersions env lib with
    | [] => [.prereleaseVersion]
    | newest :: _ => match verLT newest ver with
      | some true => [.prereleaseVersion]
      | some false => []
      | none => [.pyRaises]
  let libs := (splitOn ',' s.header.library).zip (splitOn ',' s.header.version)
  let ks := libs.flatMap (fun p => one p.1 p.2) ++
    (if s.header.withStandard ≠ [] then one [] s.header.withStandard else [])
  filterW w (ks.map fun k => ⟨k, k.sev, [], [], []⟩)

/-- `check_compliance(schema, check_for_warnings = w)` as a multiset (the code sorts the list) -/
def check (env : Env) (s : Schema) (w : Bool) : List Issue :=
  prereleaseIssues env s w ++ prologueIssues s w ++ charIssues env s w ++ attrIssues env s w ++ dupIssues s w

/-! ### seeding faults -/

/-- apply `f` to the entry at position `i` -/
def modifyAt (l : List Entry) (i : Nat) (f : Entry → Entry) : List Entry :=
  match l.drop i with
  | [] => l
  | e :: r => l.take i ++ f e :: r

def Schema.modify (s : Schema) (t : Sec) (i : Nat) (f : Entry → Entry) : Schema :=
  { s with sec := fun t' => if t' = t then modifyAt (s.sec t) i f else s.sec t' }

def withAttr (a : Str) (v : AttrVal) (e : Entry) : Entry := { e with attrs := setAttr a v e.attrs }

/-- add one more `<value>` to attribute `a` (or create it) -/
def appendVal (a : Str) (x : Str) (e : Entry) : Entry :=
  match getAttr a e.attrs with
  | some (.text v) => withAttr a (.text (v ++ ',' :: x)) e
  | _ => withAttr a (.text x) e

inductive RefAttr | unitClass | valueClass | suggestedTag | relatedTag
deriving DecidableEq, Repr

def RefAttr.key : RefAttr → Str
  | .unitClass => Key.UnitClass
  | .valueClass => Key.ValueClass
  | .suggestedTag => Key.SuggestedTag
  | .relatedTag => Key.RelatedTag

def RefAttr.target : RefAttr → Sec
  | .unitClass => .unitClasses
  | .valueClass => .valueClasses
  | .suggestedTag => .tags
  | .relatedTag => .tags

inductive ClassAttr | unitClass | valueClass | takesValue
deriving DecidableEq, Repr

def ClassAttr.key : ClassAttr → Str
  | .unitClass => Key.UnitClass
  | .valueClass => Key.ValueClass
  | .takesValue => Key.TakesValue

/-- the ten fault kinds of the property statement -/
inductive Kind
  | dupNode | undeclared | missingRef | classAttr | deprecatedFrom | conversionFactor | defaultUnits
  | allowedCharacter | inLibrary | hedId
deriving DecidableEq, Repr

/-- a fault at a position -/
inductive Fault
  | dupNode (i : Nat)                                   -- a second node with the name of tag `i`
  | undeclared (t : Sec) (i : Nat) (a : Str)            -- attribute `a` (valueless) on entry `i` of section `t`
  | missingRef (r : RefAttr) (i : Nat) (x : Str)        -- one more value `x` of `unitClass` / … on tag `i`
  | classAttr (c : ClassAttr) (i : Nat) (v : AttrVal)   -- `unitClass` / `valueClass` / `takesValue` on tag `i`
  | deprecatedFrom (t : Sec) (i : Nat) (v : Str)
  | conversionFactor (t : Sec) (i : Nat) (v : Str)
  | defaultUnits (i : Nat) (u : Str)                    -- on unit class `i`
  | allowedCharacter (t : Sec) (i : Nat) (x : Str)      -- one more value
  | inLibrary (t : Sec) (i : Nat) (l : Str)
  | hedId (t : Sec) (i : Nat) (v : Str)
deriving Repr

def Fault.kind : Fault → Kind
  | .dupNode .. => .dupNode
  | .undeclared .. => .undeclared
  | .missingRef .. => .missingRef
  | .classAttr .. => .classAttr
  | .deprecatedFrom .. => .deprecatedFrom
  | .conversionFactor .. => .conversionFactor
  | .defaultUnits .. => .defaultUnits
  | .allowedCharacter .. => .allowedCharacter
  | .inLibrary .. => .inLibrary
  | .hedId .. => .hedId

/-- section and position of the entry a fault is seeded at -/
def Fault.pos : Fault → Sec × Nat
  | .dupNode i => (.tags, i)
  | .undeclared t i _ => (t, i)
  | .missingRef _ i _ => (.tags, i)
  | .classAttr _ i _ => (.tags, i)
  | .deprecatedFrom t i _ => (t, i)
  | .conversionFactor t i _ => (t, i)
  | .defaultUnits i _ => (.unitClasses, i)
  | .allowedCharacter t i _ => (t, i)
  | .inLibrary t i _ => (t, i)
  | .hedId t i _ => (t, i)

/-- the change a fault makes to the entry at its position (`dupNode` adds an entry instead) -/
def Fault.edit : Fault → Entry → Entry
  | .dupNode _ => id
  | .undeclared _ _ a => withAttr a .flag
  | .missingRef r _ x => appendVal r.key x
  | .classAttr c _ v => withAttr c.key v
  | .deprecatedFrom _ _ v => withAttr Key.DeprecatedFrom (.text v)
  | .conversionFactor _ _ v => withAttr Key.ConversionFactor (.text v)
  | .defaultUnits _ u => withAttr Key.DefaultUnits (.text u)
  | .allowedCharacter _ _ x => appendVal Key.AllowedCharacter x
  | .inLibrary _ _ l => withAttr Key.InLibrary (.text l)
  | .hedId _ _ v => withAttr Key.HedID (.text v)

/-- the seeded schema -/
def seed (f : Fault) (s : Schema) : Schema :=
  match f with
  | .dupNode i =>
    { s with sec := fun t => if t = .tags then s.sec .tags ++ ((s.sec .tags)[i]?).toList else s.sec t }
  | f => s.modify f.pos.1 f.pos.2 f.edit

/-- entry `i` of section `t` is kept in `all_names` (it is not a duplicate of an earlier entry) -/
def visibleAt (s : Schema) (t : Sec) (i : Nat) : Bool :=
  match (s.sec t)[i]? with
  | some e => probeOf t e ∉ keysG (regOf t) (probeOf t) [] ((s.sec t).take i)
  | none => false

/-- the entry a fault is seeded at, after seeding -/
def seededEntry (f : Fault) (s : Schema) : Option Entry :=
  ((s.sec f.pos.1)[f.pos.2]?).map f.edit

/-- the range properties `_get_range_validators` must find in a ≥ 8.3 schema -/
def rangeDeclared (s : Schema) (a p : Str) : Bool :=
  match findByName s .attributes a with
  | some ae => ae.has p
  | none => false

def stdRanges (s : Schema) : Bool :=
  !gen83 s ||
  (rangeDeclared s Key.UnitClass Key.UnitClassRange && rangeDeclared s Key.ValueClass Key.ValueClassRange &&
   rangeDeclared s Key.SuggestedTag Key.TagRange && rangeDeclared s Key.RelatedTag Key.TagRange &&
   rangeDeclared s Key.DefaultUnits Key.UnitRange)

/-- no error-severity issue, and (≥ 8.3) the five reference attributes are declared with their range -/
def compliantB (env : Env) (s : Schema) : Bool :=
  (check env s true).all (fun i => i.sev ≠ sevError) && stdRanges s

/-- where each fault kind can be seeded so that it *is* that fault -/
def admissible (env : Env) (f : Fault) (s : Schema) : Bool :=
  let s' := seed f s
  match f with
  | .dupNode i =>
    (match (s.sec .tags)[i]? with
     | some e =>
       shortKey e.name ≠ hash &&
       (match lookupT (tagTable [] (s.sec .tags)) (shortKey e.name) with
        | some o => hasOf (tagCtx s) .tags o Key.InLibrary = hasOf (tagCtx s) .tags e Key.InLibrary
        | none => false)
     | none => false)
  | .undeclared t i a => visibleAt s t i && a ∉ validAttrs s' t && (t ≠ .units || a ≠ Key.UnitSymbol)
  | .missingRef r i x =>
    visibleAt s .tags i && x ≠ [] && ',' ∉ x &&
    (match r.target with
     | .tags => (findTag s x).isNone
     | t => (findByName s t x).isNone)
  | .classAttr _ i _ =>
    visibleAt s .tags i && (match (s.sec .tags)[i]? with
      | some e => !isPlaceholder e.name
      | none => false)
  | .deprecatedFrom t i v =>
    visibleAt s t i && v ≠ [] &&
    (match seededEntry f s with
     | some e' =>
       let lib := libFor s' (tagCtx s') t e'
       v ∉ knownVersions env lib ||
       (match libVersion s lib with
        | some lv => lv ≠ [] && verLE lv v = some true
        | none => false)
     | none => false)
  | .conversionFactor t i v =>
    visibleAt s t i && (match pyFloat (caretToE v) with
      | some x => !x.positive && !x.nan
      | none => true)
  | .defaultUnits i u =>
    visibleAt s .unitClasses i && u ≠ [] &&
    (match (s.sec .unitClasses)[i]? with
     | some e => (derivUnit (s.sec .units) (visible s .unitModifiers) e.name u).isNone
     | none => false)
  | .allowedCharacter t i x => visibleAt s t i && x ∉ charTypeNames && x.length ≠ 1 && ',' ∉ x
  | .inLibrary t i l => visibleAt s t i && l ∉ splitOn ',' s.header.library
  | .hedId t i v =>
    visibleAt s t i && gen83 s &&
    (match seededEntry f s with
     | some e' =>
       let lib := idLib (tagCtx s') t e'
       (match pyInt (removePrefix ['H', 'E', 'D', '_'] v) with
        | none => true                                             -- malformed
        | some n =>
          (match idRangeOf env lib with                            -- out of the library's range
           | some (lo, hi) => n < Int.ofNat lo || n > Int.ofNat hi
           | none => false) ||
          (match prevId env lib t e'.name with                     -- changed since the previous release
           | some old => old ≠ [] && (match pyInt (removePrefix ['H', 'E', 'D', '_'] old) with
             | some o => o ≠ 0 && o ≠ n
             | none => true)
           | none => false))
     | none => false)

end HedVerif.Compliance
