/-
RAW closed mode of C07: event-file validation as a closed Lean function of the RAW inputs

    schema environment + definitions + sidecar (JSON) + events table (header, rows of strings)  →  issues

by composing three models: assembly (C06, `Assemble`: column kinds, value / category handlers, column order,
curly-brace splicing), the file layer (C07, `Tabular`) and the string validator (C01, `Validate`, through
`Tabular.validateClosed`).  Nothing of the real `TabularInput` object enters: `dataframe_a`, its column names, the
categorical columns and their keys, the unknown-column warnings of `ColumnMapper.check_for_mapping_issues`, the column
references and the onsets are all computed here from the sidecar and the table.

`TabularInput(file, sidecar)`: `has_column_names=True` (`rowAdj = 2`), `optional_tag_columns=["HED"]`, no tag / prefix
columns, `warn_on_missing_column=True`.
-/
import HedVerif.Model.Assemble
import HedVerif.Model.Closed
namespace HedVerif.Raw
open HedVerif HedVerif.Assemble

def onsetName : Str := ['o', 'n', 's', 'e', 't']
def durationName : Str := ['d', 'u', 'r', 'a', 't', 'i', 'o', 'n']

/-- constants of the file layer (issue kinds as the harness names them) and the two variant flags of `Tabular.Cfg` -/
structure Consts where
  maskByRow : Bool
  guardDelay : Bool
  kKey : Tabular.RIssue
  kRef : Tabular.RIssue
  kUnordered : Tabular.RIssue
  /-- `ValidationErrors.HED_UNKNOWN_COLUMN` -/
  kUnknownCol : Tabular.RIssue
  /-- `TemporalErrors.TEMPORAL_TAG_NO_TIME` -/
  kBanned : Tabular.RIssue
  kTemporal : Temporal.Err → Tabular.RIssue

/-! ### onsets: `pd.to_numeric(onsets, errors='coerce')` on the 1/8 s grid -/

inductive Onset where
  | num (k : Int)      -- eighths of a second
  | nan                -- `n/a` or empty
  | other              -- a spelling outside the model (exponent, sign, blanks, off-grid, …)
deriving Repr, DecidableEq, Inhabited

def digitsVal (s : Str) : Nat := s.foldl (fun a c => a * 10 + (c.toNat - '0'.toNat)) 0

/-- `ddd` or `ddd.ddd` with a value on the grid -/
def parseOnset (s : Str) : Onset :=
  if s == Assemble.NA || s.isEmpty then .nan
  else
    let ip := s.takeWhile Char.isDigit
    let rest := s.dropWhile Char.isDigit
    if ip.isEmpty then .other
    else match rest with
      | [] => .num (digitsVal ip * 8)
      | '.' :: f =>
        if f.isEmpty || !f.all Char.isDigit then .other
        else if (digitsVal f * 8) % (10 ^ f.length) != 0 then .other
        else .num (digitsVal ip * 8 + digitsVal f * 8 / 10 ^ f.length)
      | _ => .other

def Onset.toOpt : Onset → Option Int
  | .num k => some k
  | _ => none

/-! ### the assembled frame -/

/-- one row of `dataframe_a`: (column name, text), references spliced, referenced columns dropped -/
def aRow (sc : Sidecar) (header r : List Str) : List (Str × Str) :=
  assembled (refsOf sc) (transformed (activeCols sc header) header r)

/-- `dataframe_a.columns` (the names do not depend on the row) -/
def aColumns (sc : Sidecar) (header : List Str) : List Str := (aRow sc header []).map (·.1)

/-- categorical columns of `column_metadata()` (= `_final_column_map`): name and `hed_dict.keys()` -/
def catCols (sc : Sidecar) (header : List Str) : List (Str × List Str) :=
  (activeCols sc header).filterMap fun c =>
    match c.tr with
    | .cat es => some (c.name, es.map (·.1))
    | _ => none

/-- step 5 of `check_for_mapping_issues`: a file column that is neither a sidecar column, nor the (optional) tag column
`HED`, nor `onset` / `duration` -/
def unknownCols (sc : Sidecar) (header : List Str) : List Str :=
  header.filter fun n => !(sc.map (·.1) ++ [HEDNAME, onsetName, durationName]).contains n

def rawRow (sc : Sidecar) (header r : List Str) : Tabular.Row :=
  { onset := (parseOnset (cellOf header r onsetName)).toOpt,
    cells := (aRow sc header r).map (·.2),
    cats := (catCols sc header).map fun c => cellOf header r c.1 }

def rawRows (sc : Sidecar) (t : Table) : List Tabular.Row := t.rows.map (rawRow sc t.header)

/-- placeholder: `validateClosed` replaces the oracle by the closed one -/
def noOracle : Tabular.Oracle := ⟨fun _ => [], fun _ => [], fun _ => [], fun _ => [], fun _ => none, fun _ => [], id⟩

/-- the file-layer configuration of `TabularInput(table, sidecar)`; the oracle is replaced by `validateClosed` -/
def rawCfg (k : Consts) (sc : Sidecar) (t : Table) : Tabular.Cfg :=
  { rowAdj := 2, hasOnset := t.header.contains onsetName, columns := aColumns sc t.header,
    catCols := catCols sc t.header, mapIssues := (unknownCols sc t.header).map fun _ => k.kUnknownCol,
    refs := refsOf sc, allColumns := t.header, maskByRow := k.maskByRow, guardDelay := k.guardDelay,
    kKey := k.kKey, kRef := k.kRef, kUnordered := k.kUnordered, kTemporal := k.kTemporal,
    o := noOracle }

end HedVerif.Raw

namespace HedVerif.Tabular

/-- `TabularInput(table, sidecar).validate(schema, extra_def_dicts)` from the raw inputs: assemble (C06 model), then
validate the assembled frame with the modelled string validator. -/
def validateClosedRaw (env : Validate.Env) (k : Raw.Consts) (sc : Assemble.Sidecar) (t : Assemble.Table) :
    Except PyExc (List Issue) :=
  validateClosed env k.kBanned (Raw.rawCfg k sc t) (Raw.rawRows sc t)

end HedVerif.Tabular

namespace HedVerif.Raw
open HedVerif HedVerif.Assemble

/-! ### what is outside the raw closed fragment -/

/-! ### definitions declared by the sidecar

`TabularInput.validate` → `ColumnMapper.get_def_dict(schema, extra_def_dicts)` → `Sidecar.get_def_dict`: the rows are
validated against the sidecar's own definitions followed by the external ones (the extraction issues are reported by sidecar
validation only, not here). -/

/-- `get_hed_strings()` of a column with its keys (a value column's single string has no key) -/
def keyedStrings (e : J) : List (Str × Str) :=
  match kind e with
  | .categorical => hedObj e
  | .value => [([], hedStr e)]
  | _ => []

/-- `Sidecar.extract_definitions(schema)`: C09's `check_for_definitions` over every entry, column by column -/
def sidecarDict (env : Validate.Env) (sc : Sidecar) : Defs.DefDict :=
  (sc.foldl (fun acc p => SidecarV.extractColumn (Closed.sidecarOracleD env) acc (p.1, keyedStrings p.2)) ([], [])).1

/-- the environment whose dictionary is the sidecar's definitions, then the external ones -/
def envD (env : Validate.Env) (sc : Sidecar) : Validate.Env := Closed.envWith env (sidecarDict env sc)

/-- the set order of `get_column_refs()` is not modelled: outside the fragment when the assembled frame depends on it -/
def refOrderMatters (sc : Sidecar) (t : Table) : Bool :=
  let cols := activeCols sc t.header
  t.rows.any fun r =>
    assembled (refsOf sc) (transformed cols t.header r) != assembled (refsOf sc).reverse (transformed cols t.header r)

def foldStr (s : Str) : Str := s.map Char.toLower

/-- the sidecar declares definitions (they would join the definition dictionary) -/
def declaresDefinition (sc : Sidecar) : Bool :=
  sc.any fun p => (hedStrings p.2).any fun s =>
    (Validate.findSub (foldStr s) ['d', 'e', 'f', 'i', 'n', 'i', 't', 'i', 'o', 'n', '/']).isSome

def onsetUnmodelled (t : Table) : Bool :=
  t.header.contains onsetName && t.rows.any fun r => parseOnset (cellOf t.header r onsetName) == .other

/-- header names are pairwise distinct and non-blank (pandas renames duplicates; blank names are reported) -/
def headerOk (header : List Str) : Bool := header.Nodup && header.all fun n => !n.isEmpty

end HedVerif.Raw

namespace HedVerif.Tabular

/-- `TabularInput(table, sidecar).validate(schema, extra_def_dicts)` for sidecars that may declare definitions: the raw
pipeline with the dictionary `Raw.envD` (sidecar's definitions first, then `env.defs`) -/
def validateClosedRawD (env : Validate.Env) (k : Raw.Consts) (sc : Assemble.Sidecar) (t : Assemble.Table) :
    Except PyExc (List Issue) :=
  validateClosedRaw (Raw.envD env sc) k sc t

end HedVerif.Tabular
