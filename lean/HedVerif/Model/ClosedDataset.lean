/-
CLOSED mode at dataset level (property C16): `BidsDataset(root).validate(check_for_warnings)` as a closed Lean
function of the dataset tree (directory listing with the JSON contents of its sidecars), the schema environment of
the string-validator model (C01, `Validate.Env`) and, per events file, its assembled frame.

  participating files      `Bids.load` (discovery with pruning by directory name, file-name parsing)
  sidecar of each file     `Bids.mergeImpl` (inherited chain, `dict.update`)
  issues of each sidecar   `SidecarV.validateClosed` on the merged document (C08 model with the C01 model inside)
  issues of each file      `Tabular.validateClosed` (C07 model with the C01 model inside)
  order, labels            sidecars first, then files, each in discovery order; every issue carries its file

Nothing is an oracle of the string layer any more.  What is still an input rather than computed here: `Frames`, the
way `TabularInput(file, sidecar)` presents an events file with a given merged sidecar to the file layer (assembled
HED-bearing columns, categorical keys, mapping issues: C06's assembly).  In the driver the frame of each file is
built by the real `TabularInput` from the file and the sidecar *merged by this model*.
No Mathlib: linked into the native driver.
-/
import HedVerif.Model.Bids
import HedVerif.Model.BidsV
import HedVerif.Model.Closed
import HedVerif.Model.ClosedRaw

namespace HedVerif.Bids

/-- `TabularInput(file=d, sidecar=merged or None)` as the input of the file layer -/
abbrev Frames := PFile SJson → Option (Columns SJson) → Tabular.Cfg × List Tabular.Row

mutual
/-- the part of a JSON value the assembly looks at (`Assemble.J`): strings and objects, everything else `other` -/
def toJ : SJson → Assemble.J
  | .str s => .str s
  | .obj kvs => .obj (toJs kvs)
  | _ => .other
def toJs : List (Str × SJson) → List (Str × Assemble.J)
  | [] => []
  | (k, v) :: r => (k, toJ v) :: toJs r
end

/-- the environment an events file is validated in: the definitions its merged sidecar declares come first in the
dictionary, then the external ones (`TabularInput.validate` → `get_def_dict(schema, extra_def_dicts)`); no
sidecar: the external dictionary alone -/
def fileEnv (env : Validate.Env) (sc : Option (Columns SJson)) : Validate.Env := Raw.envD env (toJs (sc.getD []))

/-- the string layer for one merged sidecar document: the C01 model whose dictionary is the document's own extracted
definitions followed by the external ones, with the definition issues computed by the C09 model
(`SidecarV.validateD`: `Sidecar.validate(schema, extra_def_dicts)`) -/
def sidecarOracleFor (env : Validate.Env) (m : Columns SJson) : SidecarV.Oracle :=
  let O := Closed.sidecarOracleD (Closed.envWith env (Closed.sidecarDict env .fixed (.obj m)))
  match SidecarV.extractDefsDoc .fixed O (.obj m) with
  | .ok (dd, dis) => SidecarV.withDefs O (dis ++ SidecarV.mergeIssues dd (env.defs.map (·.key)))
  | .error _ => O

/-- the string layer and the table presentation of `BidsV.Oracles`, closed with the C01 model; each sidecar and each
file gets the environment of its own merged sidecar -/
def closedOracles (env : Validate.Env) (kB : Tabular.RIssue) (F : Frames) : Oracles where
  sidecar := sidecarOracleFor env
  table := fun d sc => (Closed.closeCfg (fileEnv env sc) kB (F d sc).1, (F d sc).2)

/-- `SidecarValidator.validate(sidecar.contents)` of one participating sidecar: the closed sidecar pipeline
(`SidecarV.validateClosedD`: its own declared definitions included) on the merge of its chain, plus one load issue per
chain member that is not a JSON object -/
def sidecarClosed (env : Validate.Env) (g : Group SJson) (s : PFile SJson) : Except SidecarV.Exn (List SidecarV.Issue) :=
  validateLoaded .fixed (sidecarOracleFor env (mergeImpl g s)) (List.replicate (loadIssueCount g s) wrongTop) (mergeImpl g s)

/-- the sidecar a data file is validated with -/
def sidecarOf (g : Group SJson) (d : PFile SJson) : Option (Columns SJson) :=
  if hasSidecar g d then some (mergeImpl g d) else none

/-- `TabularInput(file, sidecar=merged).validate(...)` of one participating events file -/
def tableClosed (env : Validate.Env) (kB : Tabular.RIssue) (F : Frames) (g : Group SJson) (d : PFile SJson) :
    Except Tabular.PyExc (List Tabular.Issue) :=
  Tabular.validateClosed (fileEnv env (sidecarOf g d)) kB (F d (sidecarOf g d)).1 (F d (sidecarOf g d)).2

/-- one file group: `validate_sidecars` then `validate_datafiles`, every issue labelled with its file -/
def validateGroupClosed (env : Validate.Env) (kB : Tabular.RIssue) (F : Frames) (g : Group SJson) :
    Except DExn (List DIssue) :=
  seqE ((g.sidecars.map fun s => tagE (DIssue.sidecar s.path) (DExn.sidecar s.path) (sidecarClosed env g s)) ++
        (g.datafiles.map fun d => tagE (DIssue.table d.path) (DExn.table d.path) (tableClosed env kB F g d)))

/-- `BidsDataset(root, tabular_types=types, exclude_dirs=excl).validate(check_for_warnings=cfw)` -/
def validateDatasetClosed (env : Validate.Env) (kB : Tabular.RIssue) (F : Frames) (t : Tree SJson)
    (excl types : List Str) (cfw : Bool) : Except RunExn (List DIssue) :=
  match loadAll t excl types with
  | .error e => .error (.fileError e)
  | .ok gs => match seqE (gs.map (validateGroupClosed env kB F)) with
    | .error e => .error (.validation e)
    | .ok l => .ok (filterSev cfw l)

end HedVerif.Bids
