/-
Model of the text grammars shared by the MediaWiki and TSV schema formats, and of the format-independent
save decisions (layer `SchemaIO`, property C05).

  writer side   `Schema2Base.process_schema/_should_skip/_attribute_disallowed/_output_tags/_output_units/
                 _output_section/_format_tag_attributes`                  (hed/schema/schema_io/schema2base.py)
                `Schema2Wiki._write_tag_entry/_write_entry/_flush_current_tag/_format_props_and_desc`
                                                                           (hed/schema/schema_io/schema2wiki.py)
                `HedSchema.can_save`                                       (hed/schema/hed_schema.py)
  reader side   `text_util.parse_attribute_string/_validate_attribute_string`
                `SchemaLoaderWiki._split_lines_into_sections` (per-line part), `_remove_nowiki_tag_from_line`,
                `_get_tag_name`, `_get_tag_level`, `_get_line_section`, `_get_tag_attributes`, `_create_entry`,
                `_create_tag_entry`, `_read_schema`                        (hed/schema/schema_io/wiki2schema.py)
                `Schema2DF._create_and_add_object_row` / `SchemaLoaderDF._get_prologue_epilogue` (newline escape)

Strings are `List Char`.  A Python attribute dictionary `{name: True | "v1,v2"}` is an association list
`name ↦ list of values` in insertion order: `[]` is the flag `True`, a string value is its split at `,`.
A description is `Option Str` (`none` = Python `None`).
Abstract documents: MediaWiki = list of lines; TSV tag sheet = list of rows (`TsvRow`, one field per cell);
XML tag section = forest of `XNode` elements.  Text <-> element tree (ElementTree, escaping) and cell quoting
(pandas/csv) stay outside: the harness reads the saved files with ElementTree / csv and compares at this level.
  TSV           `Schema2DF._write_tag_entry/_attribute_disallowed/_get_subclass_of`,
                `SchemaLoaderDF._read_schema/_create_tag_entry/_create_entry/_get_tag_name`
  XML           `Schema2XML._write_tag_entry/_add_tag_node_attributes`,
                `SchemaLoaderXML._add_tags_recursive/_parse_node` (description stripped since fix a64eb53)
  other wiki    `Schema2Wiki._write_entry`, `SchemaLoaderWiki._read_section/_read_unit_classes`
Not modelled: rooted-tag resolution against the partner schema while *reading* (needs the partner vocabulary),
the TSV reader's retry rounds for rows whose parent comes later, the TSV sheets and XML sections other than
tags, duplicate-name bookkeeping, header line, the derived omn:EquivalentTo column.
No Mathlib imports here: this file is linked into the native driver.
-/
import HedVerif.Model.Tok

namespace HedVerif.SchemaIO

/-! ## Python string primitives -/

/-- `str.isspace()` of one code point: what `str.strip()` removes and what `\s` matches in `re` -/
def isPySpace (c : Char) : Bool :=
  let n := c.toNat
  (9 ≤ n && n ≤ 13) || (28 ≤ n && n ≤ 32) || n == 0x85 || n == 0xa0 || n == 0x1680 ||
  (0x2000 ≤ n && n ≤ 0x200a) || n == 0x2028 || n == 0x2029 || n == 0x202f || n == 0x205f || n == 0x3000

/-- `[A-Za-z]` -/
def isLetter (c : Char) : Bool :=
  let n := c.toNat
  (65 ≤ n && n ≤ 90) || (97 ≤ n && n ≤ 122)

def lstrip (s : Str) : Str := s.dropWhile isPySpace

def rstrip : Str → Str
  | [] => []
  | c :: cs => let r := rstrip cs; if r.isEmpty && isPySpace c then [] else c :: r

/-- `str.strip()` -/
def strip (s : Str) : Str := rstrip (lstrip s)

def consHead (c : Char) : List Str → List Str
  | [] => [[c]]
  | p :: ps => (c :: p) :: ps

/-- `s.split(d)` for a one-character separator (always at least one part) -/
def splitOn (d : Char) : Str → List Str
  | [] => [[]]
  | c :: cs => if c == d then [] :: splitOn d cs else consHead c (splitOn d cs)

/-- `sep.join(parts)` -/
def joinWith (sep : Str) : List Str → Str
  | [] => []
  | [x] => x
  | x :: y :: r => x ++ sep ++ joinWith sep (y :: r)

/-- `p in s` -/
def hasSub (p : Str) : Str → Bool
  | [] => p.isEmpty
  | c :: cs => p.isPrefixOf (c :: cs) || hasSub p cs

/-- `s.find(p)` (`none` = -1) -/
def findSub (p : Str) : Str → Option Nat
  | [] => if p.isEmpty then some 0 else none
  | c :: cs => if p.isPrefixOf (c :: cs) then some 0 else (findSub p cs).map (· + 1)

/-- `s.find(c)` for one character -/
def findChar (c : Char) : Str → Option Nat
  | [] => none
  | x :: xs => if x == c then some 0 else (findChar c xs).map (· + 1)

/-- `s.replace(p, "")` / `re.sub(p, "", s)` for a literal non-empty `p`, scanning left to right;
`skip` = characters of the current occurrence still to drop -/
def removeSub (p : Str) : Nat → Str → Str
  | _, [] => []
  | k + 1, _ :: cs => removeSub p k cs
  | 0, c :: cs => if p.isPrefixOf (c :: cs) then removeSub p (p.length - 1) cs else c :: removeSub p 0 cs

/-! ## Attribute strings `a, b=c, b=d` -/

abbrev Attrs := List (Str × List Str)

/-- the `final_props` list of `_format_tag_attributes` -/
def formatItems : Attrs → List Str
  | [] => []
  | (k, []) :: r => k :: formatItems r
  | (k, v :: vs) :: r => (v :: vs).map (fun x => k ++ '=' :: x) ++ formatItems r

/-- `Schema2Base._format_tag_attributes` (after the disallowed attributes were dropped, see `writeAttrs`) -/
def formatAttr (as : Attrs) : Str := joinWith [',', ' '] (formatItems as)

inductive AErr where
  | malformed       -- ValueError of `_validate_attribute_string` (callers turn it into a fatal load error)
  | flagPlusValue   -- TypeError: `True += ",v"` when a bare attribute is followed by `attribute=v`
deriving DecidableEq, Repr, Inhabited

/-- `re.fullmatch(r'^[A-Za-z]+(=.+)?$', s)` -/
def validItem (s : Str) : Bool :=
  !(s.takeWhile isLetter).isEmpty &&
    (match s.dropWhile isLetter with
     | [] => true
     | c :: v => c == '=' && !v.isEmpty && v.all (· != '\n'))

def hasKey (as : Attrs) (k : Str) : Bool := as.any (·.1 == k)

/-- the dictionary update of one parsed item -/
def setAttr (acc : Attrs) (k : Str) : Option Str → Except AErr Attrs
  | none =>
    .ok (if hasKey acc k then acc.map (fun kv => if kv.1 == k then (k, []) else kv) else acc ++ [(k, [])])
  | some v =>
    match acc.find? (·.1 == k) with
    | none => .ok (acc ++ [(k, [v])])
    | some (_, []) => .error .flagPlusValue
    | some (_, _ :: _) => .ok (acc.map fun kv => if kv.1 == k then (k, kv.2 ++ [v]) else kv)

/-- the loop of `parse_attribute_string` over the stripped comma-separated items -/
def parseItems : List Str → Attrs → Except AErr Attrs
  | [], acc => .ok acc
  | it :: rest, acc =>
    if !validItem it then .error .malformed else
    match splitOn '=' it with
    | [] => .error .malformed     -- unreachable
    | [k] => (setAttr acc k none).bind (parseItems rest)
    | k :: v :: _ => (setAttr acc k (some v)).bind (parseItems rest)   -- `split("=")[1]`: later parts dropped

/-- `text_util.parse_attribute_string` on a string (the `None` input is handled by the caller) -/
def parseAttr (s : Str) : Except AErr Attrs :=
  if s.isEmpty then .ok [] else parseItems ((splitOn ',' s).map strip) []

/-! ## One MediaWiki entry line -/

def tagOpen : Str := ['<', 'n', 'o', 'w', 'i', 'k', 'i', '>']
def tagClose : Str := ['<', '/', 'n', 'o', 'w', 'i', 'k', 'i', '>']
def quote3 : Str := ['\'', '\'', '\'']
def extendHere : Str := ['e', 'x', 't', 'e', 'n', 'd', ' ', 'h', 'e', 'r', 'e']
def zwEntity : Str := ['&', '#', '8', '2', '0', '3', ';']
def inLibrary : Str := ['i', 'n', 'L', 'i', 'b', 'r', 'a', 'r', 'y']

def stars (n : Nat) : Str := List.replicate n '*'

/-- `Schema2Wiki._format_props_and_desc` given the formatted attribute string -/
def extras (attrString : Str) (desc : Option Str) : Str :=
  let a := if attrString.isEmpty then [] else '{' :: attrString ++ ['}']
  match desc with
  | none => a
  | some d => if d.isEmpty then a else a ++ (if attrString.isEmpty then [] else [' ']) ++ '[' :: d ++ [']']

/-- `_flush_current_tag`: `string <nowiki>extra</nowiki>` -/
def flush (cur extra : Str) : Str :=
  if extra.isEmpty then cur else cur ++ ' ' :: tagOpen ++ extra ++ tagClose

/-- `Schema2Wiki._write_tag_entry` for one tag: level 0 gives `'''Name'''`, deeper levels `*** Name`;
a name ending in `#` goes inside the nowiki part -/
def tagLine (level : Nat) (short : Str) (ex : Str) : Str :=
  if level == 0 then flush (quote3 ++ short ++ quote3) ex
  else if short.getLast? == some '#' then flush (stars level ++ [' ']) (short ++ ' ' :: ex)
  else flush (stars level ++ ' ' :: short) ex

/-- `Schema2Wiki._write_entry` for the other sections (`depth` 1, units 2) -/
def entryLine (depth : Nat) (name : Str) (ex : Str) : Str := flush (stars depth ++ ' ' :: name) ex

inductive WErr where
  | nowiki        -- "Invalid or non matching <nowiki> tags" / "</nowiki> appears before <nowiki>"
  | noName        -- `_get_tag_name` gave None, or an empty tag name ("Schema term is empty or the line is malformed")
  | attrDelims    -- "Attributes has mismatched delimiters"
  | attrBad       -- malformed attribute (ValueError caught)
  | descDelims    -- "Description has mismatched delimiters"
  | skipLevel     -- "Line has too many *'s at front"
  | crash         -- an uncaught Python exception (IndexError on a line of only `*`, TypeError in the attribute parser)
deriving DecidableEq, Repr, Inhabited

/-- `_remove_nowiki_tag_from_line`: does it record a fatal error?  (`index1 == -1 ^ index2 == -1` parses as the
chained comparison `index1 == (-1 ^ index2) == -1`, true exactly when index2 = 0 and index1 = -1.) -/
def nowikiErr (row : Str) : Bool :=
  match findSub tagOpen row, findSub tagClose row with
  | none, some 0 => true
  | none, _ => false
  | some _, none => true
  | some i, some j => j ≤ i

/-- both nowiki tags removed (`re.sub('</?nowiki>', '', row)`) -/
def removeTags : Nat → Str → Str
  | _, [] => []
  | k + 1, _ :: cs => removeTags k cs
  | 0, c :: cs =>
    if tagOpen.isPrefixOf (c :: cs) then removeTags 7 cs
    else if tagClose.isPrefixOf (c :: cs) then removeTags 8 cs
    else c :: removeTags 0 cs

/-- per-line treatment of `_split_lines_into_sections` outside prologue/epilogue: `none` = the line is dropped -/
def cleanLine (raw : Str) : Except WErr (Option Str) :=
  let row := strip raw
  if nowikiErr row then .error .nowiki
  else
    let row := removeTags 0 row
    if row.isEmpty then .ok none else .ok (some row)

def isOpen (c : Char) : Bool := c == '[' || c == '{'

/-- the tail `(\'{3})?\s*([\[\{]|$)+` of `tag_name_expression` anchored at the head of `r`:
`none` = no match, `some k` = offset of the last iteration of the final group (`match.regs[4][0]`) -/
def tailMatch (r : Str) : Option Nat :=
  let q := if quote3.isPrefixOf r then 3 else 0
  let r1 := r.drop q
  let ws := (r1.takeWhile isPySpace).length
  let r2 := r1.dropWhile isPySpace
  match r2 with
  | [] => some (q + ws)
  | c :: _ =>
    if isOpen c then
      let run := (r2.takeWhile isOpen).length
      if (r2.dropWhile isOpen).isEmpty then some (q + ws + run) else some (q + ws + run - 1)
    else none

/-- the lazy group `(.*?)`: shortest prefix after which `tailMatch` succeeds -/
def scanName : Str → Str × Nat
  | [] => ([], 0)
  | c :: cs =>
    match tailMatch (c :: cs) with
    | some k => ([], k)
    | none => let r := scanName cs; (c :: r.1, r.2 + 1)

/-- `tag_name_re.search(row)`: leftmost `*`-run or `'''`; returns group 2 and the absolute `regs[4][0]` -/
def searchName : Str → Nat → Option (Str × Nat)
  | [], _ => none
  | c :: cs, i =>
    if c == '*' then
      let n := (cs.takeWhile (· == '*')).length
      let r := scanName (cs.dropWhile (· == '*'))
      some (r.1, i + 1 + n + r.2)
    else if quote3.isPrefixOf (c :: cs) then
      let r := scanName (cs.drop 2)
      some (r.1, i + 3 + r.2)
    else searchName cs (i + 1)

/-- `SchemaLoaderWiki._get_tag_name`: `none` = `(None, 0)`; a row containing `extend here` gives `('', 0)` -/
def getTagName (row : Str) : Option (Str × Nat) :=
  if hasSub extendHere row then some ([], 0)
  else
    match searchName (removeSub zwEntity 0 row) 0 with
    | none => none
    | some (g, idx) => let name := strip g; if name.isEmpty then none else some (name, idx)

/-- `SchemaLoaderWiki._get_line_section`: `none` = `(None, 0)` -/
def lineSection (row : Str) (idx : Nat) (o c : Char) : Option (Str × Nat) :=
  let c1 := row.count o
  let c2 := row.count c
  if c1 != c2 || c1 > 1 then none
  else
    let r := row.drop idx
    match findChar o r, findChar c r with
    | some a, some b =>
      if b < a then none else if c1 == 0 then some ([], idx) else some ((r.drop (a + 1)).take (b - (a + 1)), b + idx)
    | some _, none => none
    | none, some b => if c1 == 0 then some ([], idx) else some (r.take b, b + idx)
    | none, none => if c1 == 0 then some ([], idx) else some (r.dropLast, idx - 1)

/-- the description both text readers keep (since fix 391436a):
`if d and d.strip(): tag_entry.description = d.strip()` — a blank text is *no description* -/
def readDesc (d : Str) : Option Str := if (strip d).isEmpty then none else some (strip d)

/-- the readers before fix 391436a: `if d: tag_entry.description = d.strip()` — a blank, non-empty text became
the empty string `''`, which no writer emits (`blank_description_counterexample`) -/
def readDescLegacy (d : Str) : Option Str := if d.isEmpty then none else some (strip d)

/-- a description as every reader hands it back: blank = absent, otherwise stripped.  The identity exactly on
the descriptions a loaded schema can hold (`descNormal`). -/
def normDesc (desc : Option Str) : Option Str := desc.bind readDesc

/-- `SchemaLoaderWiki._create_entry` on a cleaned row, parametrised by the description rule:
(name, attributes, description).
The name may be empty (`extend here` rows); the tag section rejects that, the other sections do not. -/
def readEntryWith (descOf : Str → Option Str) (row : Str) : Except WErr (Str × Attrs × Option Str) :=
  match getTagName row with
  | none => .error .noName
  | some (name, idx) =>
    match lineSection row idx '{' '}' with
    | none => .error .attrDelims
    | some (astr, idx2) =>
      match parseAttr astr with
      | .error .malformed => .error .attrBad
      | .error .flagPlusValue => .error .crash
      | .ok attrs =>
        match lineSection row idx2 '[' ']' with
        | none => .error .descDelims
        | some (d, _) => .ok (name, attrs, descOf d)

/-- `SchemaLoaderWiki._create_entry` as it is now (`if node_desc and node_desc.strip():`) -/
def readEntry (row : Str) : Except WErr (Str × Attrs × Option Str) := readEntryWith readDesc row

/-- `_create_entry` before fix 391436a (`if node_desc:`) -/
def readEntryLegacy (row : Str) : Except WErr (Str × Attrs × Option Str) := readEntryWith readDescLegacy row

/-- `_get_tag_level`: number of leading `*` (0 counts as 1); `none` = IndexError on a row of only `*` -/
def tagLevel (row : Str) : Option Nat :=
  let n := (row.takeWhile (· == '*')).length
  if n == row.length then none else some (if n == 0 then 1 else n)

/-! ## The tag section -/

structure Entry where
  name : Str              -- long name `A/B/C` for tags
  attrs : Attrs
  desc : Option Str
deriving DecidableEq, Repr, Inhabited

/-- `tag.count("/")` -/
def level (name : Str) : Nat := name.count '/'
/-- `tag.split("/")[-1]` -/
def shortName (name : Str) : Str := (splitOn '/' name).getLast?.getD []

def entryExtras (e : Entry) : Str := extras (formatAttr e.attrs) e.desc

/-- the lines `_output_tags` produces for entries written at the given levels (a blank line before each root) -/
def toWikiLeveled : List (Nat × Entry) → List Str
  | [] => []
  | (l, e) :: r =>
    (if l == 0 then [[]] else []) ++ tagLine l (shortName e.name) (entryExtras e) :: toWikiLeveled r

/-- tag section of a schema saved without rooted re-levelling (merged save, or a stand-alone schema) -/
def toWiki (ts : List Entry) : List Str := toWikiLeveled (ts.map fun e => (level e.name, e))

/-- `SchemaLoaderWiki._read_schema` over the raw lines of the tag section; `parents` = `parent_tags`.
A fatal error anywhere makes the load fail, so the first one is returned. -/
def ofWikiFrom : List Str → List Str → Except WErr (List Entry)
  | [], _ => .ok []
  | raw :: rest, parents =>
    match cleanLine raw with
    | .error e => .error e
    | .ok none => ofWikiFrom rest parents
    | .ok (some row) =>
      let ps : Except WErr (List Str) :=
        if quote3.isPrefixOf row then .ok []
        else match tagLevel row with
          | none => .error .crash
          | some l => if l < parents.length then .ok (parents.take l)
                      else if l > parents.length then .error .skipLevel else .ok parents
      match ps with
      | .error e => .error e
      | .ok ps =>
        match readEntry row with
        | .error e => .error e
        | .ok (name, attrs, desc) =>
          if name.isEmpty then .error .noName
          else
            let long := if ps.isEmpty then name else joinWith ['/'] ps ++ '/' :: name
            match ofWikiFrom rest (splitOn '/' long) with
            | .error e => .error e
            | .ok es => .ok (⟨long, attrs, desc⟩ :: es)

def ofWiki (lines : List Str) : Except WErr (List Entry) := ofWikiFrom lines []

/-- the entry with its description as every reader hands it back (`normDesc`: blank = absent, else stripped) -/
def normEntry (e : Entry) : Entry := { e with desc := normDesc e.desc }

/-- every tag's parent path is a prefix of the previous tag's path (preorder listing, `all_entries` order) -/
def Preorder : List Str → List Entry → Bool
  | _, [] => true
  | prev, e :: r =>
    let cs := splitOn '/' e.name
    (cs.length - 1 ≤ prev.length) && (cs.dropLast == prev.take (cs.length - 1)) && Preorder cs r

/-! ## Well-formedness predicates (hypotheses of the C05 theorems; evaluated by the driver on real entries) -/

/-- no leading / trailing blank: `strip` leaves the text unchanged -/
def trimmed (s : Str) : Bool := s.head?.all (!isPySpace ·) && s.getLast?.all (!isPySpace ·)

/-- attribute names: `[A-Za-z]+` -/
def keyWF (k : Str) : Bool := !k.isEmpty && k.all isLetter

/-- attribute values in the attribute-string grammar: non-empty, trimmed, free of `,` `=` and newline -/
def valWF (v : Str) : Bool := !v.isEmpty && trimmed v && v.all fun c => c != ',' && c != '=' && c != '\n'

def nodupKeys : Attrs → Bool
  | [] => true
  | kv :: r => !hasKey r kv.1 && nodupKeys r

/-- attribute dictionaries for which `parseAttr ∘ formatAttr` is the identity -/
def attrsWF (as : Attrs) : Bool := nodupKeys as && as.all fun kv => keyWF kv.1 && kv.2.all valWF

/-- characters with a meaning of their own on a wiki entry line -/
def lineDelim (c : Char) : Bool := c == '{' || c == '}' || c == '[' || c == ']' || c == '<'

/-- one name segment on a wiki line: non-empty, trimmed, free of the line delimiters and of `'` -/
def nameWF (n : Str) : Bool := !n.isEmpty && trimmed n && n.all fun c => !lineDelim c && c != '\''

def noTag (s : Str) : Bool := !hasSub tagOpen s && !hasSub tagClose s

/-- descriptions on a wiki line: non-empty, no brackets or braces, no literal nowiki tag.
(Leading / trailing blanks are *allowed* here, see `line_counterexample`; so is an all-blank description such as
`[ ]`, which the readers return as *no description* since fix 391436a.  The empty description `''` stays excluded:
every writer treats it as absent and no reader produces it, `loaded_descriptions_normal`.) -/
def descWF : Option Str → Bool
  | none => true
  | some d => !d.isEmpty && noTag d && d.all fun c => c != '{' && c != '}' && c != '[' && c != ']'

def descTrimmed : Option Str → Bool
  | none => true
  | some d => trimmed d

/-- the descriptions a loaded schema can hold since fix 391436a: absent, or non-empty and trimmed
(exactly the fixed points of `normDesc`) -/
def descNormal : Option Str → Bool
  | none => true
  | some d => !d.isEmpty && trimmed d

/-- the row as the reader sees it after `cleanLine` (used to state the reserved-text conditions) -/
def rowBody (level : Nat) (short ex : Str) : Str :=
  if level == 0 then quote3 ++ short ++ quote3 ++ (if ex.isEmpty then [] else ' ' :: ex)
  else if short.getLast? == some '#' then stars level ++ ' ' :: ' ' :: short ++ ' ' :: ex
  else stars level ++ ' ' :: short ++ (if ex.isEmpty then [] else ' ' :: ex)

/-- explicit well-formedness of one entry line: what `line_roundtrip` assumes -/
def lineWF (level : Nat) (short : Str) (as : Attrs) (desc : Option Str) : Bool :=
  nameWF short && attrsWF as && (as.all fun kv => kv.2.all fun v => v.all (!lineDelim ·)) && descWF desc &&
  !hasSub extendHere (rowBody level short (extras (formatAttr as) desc)) &&
  !hasSub zwEntity (rowBody level short (extras (formatAttr as) desc))

/-- `IOWF` of a tag entry with a long name: every path segment is a well-formed name and the line is well-formed -/
def entryWF (e : Entry) : Bool :=
  (splitOn '/' e.name).all nameWF && lineWF (level e.name) (shortName e.name) e.attrs e.desc

/-! ## Save decisions of `Schema2Base.process_schema` -/

structure Flags where
  saveLib : Bool
  saveBase : Bool
  saveMerged : Bool
  stripInLib : Bool
deriving DecidableEq, Repr, Inhabited

inductive Refuse where
  | multiLibrary     -- "Cannot save a schema merged from multiple library schemas"
deriving DecidableEq, Repr, Inhabited

/-- `HedSchema.can_save`: `not library or "," not in library` -/
def canSave (library : Str) : Bool := library.isEmpty || !library.contains ','

/-- flag selection of `process_schema` from the header's `library` / `withStandard` and the caller's `save_merged` -/
def processFlags (library withStandard : Str) (saveMerged : Bool) : Except Refuse Flags :=
  if !canSave library then .error .multiLibrary
  else if !withStandard.isEmpty then
    .ok { saveLib := true, saveBase := saveMerged, saveMerged := saveMerged, stripInLib := !saveMerged }
  else .ok { saveLib := true, saveBase := true, saveMerged := true, stripInLib := true }

def hasLib (e : Entry) : Bool := hasKey e.attrs inLibrary

/-- `_should_skip` -/
def shouldSkip (f : Flags) (e : Entry) : Bool := (!f.saveBase && !hasLib e) || (!f.saveLib && hasLib e)

/-- `_attribute_disallowed` applied to an attribute dictionary -/
def writeAttrs (f : Flags) (as : Attrs) : Attrs := as.filter fun kv => !(f.stripInLib && kv.1 == inLibrary)

def written (f : Flags) (e : Entry) : Entry := { e with attrs := writeAttrs f e.attrs }

/-- name of the parent tag: everything before the last `/` -/
def parentName (name : Str) : Option Str :=
  match splitOn '/' name with
  | [] | [_] => none
  | cs => some (joinWith ['/'] cs.dropLast)

/-- the loop of `_output_tags`: (level written, entry as written); `adj` = `level_adj`, `done` = keys of `all_nodes`.
`all` is the whole tag section (to find `tag_entry.parent`). -/
def outputTagsFrom (f : Flags) (all : List Entry) : List Entry → Nat → List Str → List (Nat × Entry)
  | [], _, _ => []
  | e :: r, adj, done =>
    if shouldSkip f e then outputTagsFrom f all r adj done
    else
      let lv := level e.name
      let adj := if (parentName e.name).isNone then 0 else adj
      if lv == 0 then (0, written f e) :: outputTagsFrom f all r adj (e.name :: done)
      else
        let adj :=
          match parentName e.name with
          | none => adj
          | some p =>
            match all.find? (·.name == p) with
            | none => adj
            | some pe => if hasLib e && !hasLib pe && !f.saveMerged && !done.contains p then lv else adj
        (lv - adj, written f e) :: outputTagsFrom f all r adj (e.name :: done)

def outputTags (f : Flags) (all : List Entry) : List (Nat × Entry) := outputTagsFrom f all all 0 []

/-- `_output_section` -/
def outputSection (f : Flags) (es : List Entry) : List Entry :=
  (es.filter fun e => !shouldSkip f e).map (written f)

/-- `_output_units`: (unit class as written, include_props, units written) -/
def outputUnits (f : Flags) : List (Entry × List Entry) → List (Entry × Bool × List Entry)
  | [] => []
  | (uc, us) :: r =>
    let hasLibUnit := shouldSkip f uc && us.any hasLib
    if shouldSkip f uc && (!f.saveLib || !hasLibUnit) then outputUnits f r
    else (written f uc, !hasLibUnit, outputSection f us) :: outputUnits f r

/-- the tag section as every writer lays it out: refusal, else levels and attributes -/
def saveTags (library withStandard : Str) (saveMerged : Bool) (all : List Entry) :
    Except Refuse (List (Nat × Entry)) :=
  (processFlags library withStandard saveMerged).map fun f => outputTags f all

/-! ## MediaWiki: the flat sections and the unit-class section -/

/-- lines of `_output_section` for one flat section (unit modifiers, value classes, attributes, properties) -/
def sectionLines (es : List Entry) : List Str := es.map fun e => entryLine 1 e.name (entryExtras e)

/-- `SchemaLoaderWiki._read_section` over the raw lines of one flat section -/
def ofWikiSection : List Str → Except WErr (List Entry)
  | [] => .ok []
  | raw :: rest =>
    match cleanLine raw with
    | .error e => .error e
    | .ok none => ofWikiSection rest
    | .ok (some row) =>
      match readEntry row with
      | .error e => .error e
      | .ok (name, attrs, desc) =>
        match ofWikiSection rest with
        | .error e => .error e
        | .ok es => .ok (⟨name, attrs, desc⟩ :: es)

/-- lines of `_output_units` when every class is written with its properties: `* class` then `** unit` lines -/
def unitLines : List (Entry × List Entry) → List Str
  | [] => []
  | (uc, us) :: r =>
    entryLine 1 uc.name (entryExtras uc) :: (us.map fun u => entryLine 2 u.name (entryExtras u)) ++ unitLines r

/-- `SchemaLoaderWiki._read_unit_classes`, read from the end: (units not yet claimed by a class, classes).
A level-1 line is a unit class and takes the unit lines that follow it. -/
def ofWikiUnitsAux : List Str → Except WErr (List Entry × List (Entry × List Entry))
  | [] => .ok ([], [])
  | raw :: rest =>
    match cleanLine raw with
    | .error e => .error e
    | .ok none => ofWikiUnitsAux rest
    | .ok (some row) =>
      match tagLevel row, readEntry row with
      | none, _ => .error .noName
      | _, .error e => .error e
      | some l, .ok (name, attrs, desc) =>
        match ofWikiUnitsAux rest with
        | .error e => .error e
        | .ok (pend, cls) =>
          if l == 1 then .ok ([], (⟨name, attrs, desc⟩, pend) :: cls) else .ok (⟨name, attrs, desc⟩ :: pend, cls)

/-- a unit line before any class line makes the Python loader fail (`None.add_unit`) -/
def ofWikiUnits (lines : List Str) : Except WErr (List (Entry × List Entry)) :=
  match ofWikiUnitsAux lines with
  | .error e => .error e
  | .ok ([], cls) => .ok cls
  | .ok (_ :: _, _) => .error .crash

/-- well-formedness of an entry line of the other sections (`depth` 1, units 2): as `lineWF`, description trimmed,
and the name does not end in `#` (such a name would be moved into the nowiki part only for tags) -/
def secWF (depth : Nat) (e : Entry) : Bool :=
  lineWF depth e.name e.attrs e.desc && descTrimmed e.desc && !(e.name.getLast? == some '#')

/-! ## TSV: the rows of the tag sheet (cell quoting is pandas' job and stays outside) -/

def hedIdKey : Str := ['h', 'e', 'd', 'I', 'd']
def annotationKey : Str := ['a', 'n', 'n', 'o', 't', 'a', 't', 'i', 'o', 'n', 'P', 'r', 'o', 'p', 'e', 'r', 't', 'y']
def rootedKey : Str := ['r', 'o', 'o', 't', 'e', 'd']
def hedTag : Str := ['H', 'e', 'd', 'T', 'a', 'g']
def dashHash : Str := ['-', '#']

/-- one row of the `Tag` sheet: hedId, Level, rdfs:label, omn:SubClassOf, Attributes, dc:description
(the derived omn:EquivalentTo column is ignored by the reader and not modelled) -/
structure TsvRow where
  hedId : Str
  level : Nat
  name : Str
  parent : Str
  attrs : Str
  desc : Str
deriving DecidableEq, Repr, Inhabited

/-- `HedTagEntry.short_tag_name`: last path segment, for a value-taking child `A/B/#` the segment before it -/
def shortTag (name : Str) : Str :=
  match (splitOn '/' name).reverse with
  | last :: prev :: _ => if last == ['#'] then prev else last
  | [last] => if last == ['#'] then [] else last
  | [] => []

/-- `Schema2DF._attribute_disallowed` on top of the base rule (applied before): hedId has its own column -/
def dfAttrs (as : Attrs) : Attrs := as.filter fun kv => !(kv.1 == hedIdKey) && !(kv.1 == annotationKey)

def lookupAttr (as : Attrs) (k : Str) : Option (List Str) := (as.find? (·.1 == k)).map (·.2)

/-- `Schema2DF._write_tag_entry` for one written entry (`e` already without the attributes the base writer drops) -/
def tsvRow (lv : Nat) (e : Entry) : TsvRow :=
  { hedId := match lookupAttr e.attrs hedIdKey with
      | none => []
      | some [] => ['T', 'r', 'u', 'e']            -- f"{True}"
      | some vs => joinWith [','] vs
    level := lv
    name := if e.name.getLast? == some '#' then shortTag e.name ++ dashHash else shortTag e.name
    parent := match parentName e.name with
      | none => hedTag
      | some p => shortTag p
    attrs := formatAttr (dfAttrs e.attrs)
    desc := e.desc.getD [] }

def toTsvRows (leveled : List (Nat × Entry)) : List TsvRow := leveled.map fun p => tsvRow p.1 p.2

inductive TErr where
  | noName            -- "No tag name found in row."
  | crash             -- an uncaught Python exception: TypeError in the attribute parser; a malformed attribute
                      -- string (`_get_tag_attributes` records the error and returns None, which `_create_entry`
                      -- then indexes / iterates); IndexError for a tag named `#`
  | unresolvedParent  -- parent not (yet) known: the multi-round retry of `_read_schema` is not modelled
  | needsPartner      -- rooted tag of an unmerged file: needs the partner schema, not modelled
deriving DecidableEq, Repr, Inhabited

/-- dictionary assignment `d[k] = v` -/
def dictPut {α} (d : List (Str × α)) (k : Str) (v : α) : List (Str × α) :=
  if d.any (·.1 == k) then d.map fun kv => if kv.1 == k then (k, v) else kv else d ++ [(k, v)]

def dictGet {α} (d : List (Str × α)) (k : Str) : Option α := (d.find? (·.1 == k)).map (·.2)

/-- `x.endswith("-#")` -/
def endsDashHash (s : Str) : Bool := dashHash.reverse.isPrefixOf s.reverse

/-- `"/".join(parent_tags) + "/" + tag_name if parent_tags else tag_name` -/
def tsvLong (parents : Option (List Str)) (tagName : Str) : Str :=
  match parents with
  | some (p :: ps) => joinWith ['/'] (p :: ps) ++ '/' :: tagName
  | _ => tagName

/-- `SchemaLoaderDF._read_schema` (first round) with `_create_tag_entry/_create_entry`;
`known` = `known_parent_tags` (short name ↦ path).  The first problem is returned; the loader itself records an
empty name and goes on, so a later row may still raise: both outcomes are failed loads. -/
def ofTsvFrom : List TsvRow → List (Str × List Str) → Except TErr (List Entry)
  | [], _ => .ok []
  | r :: rest, known =>
    let tagName := if endsDashHash r.name then ['#'] else r.name
    if tagName.isEmpty then .error .noName
    else
      let parents := dictGet known r.parent
      let long := tsvLong parents tagName
      match parseAttr r.attrs with
      | .error _ => .error .crash
      | .ok attrs =>
        let attrs := if r.hedId.isEmpty then attrs else dictPut attrs hedIdKey (splitOn ',' r.hedId)
        let desc := readDesc r.desc      -- `if description and description.strip():` (fix 391436a)
        if long == ['#'] then .error .crash      -- `_get_tag_forms("#")` is empty: IndexError in `_create_tag_entry`
        else if parents.isNone then
          (if hasKey attrs rootedKey then .error .needsPartner else .error .unresolvedParent)
        else
          match ofTsvFrom rest (dictPut known (shortTag long) (splitOn '/' long)) with
          | .error e => .error e
          | .ok es => .ok (⟨long, attrs, desc⟩ :: es)

def ofTsvRows (rows : List TsvRow) : Except TErr (List Entry) := ofTsvFrom rows [(hedTag, [])]

/-- the entry as the TSV reader hands it back: hedId re-attached behind the other attributes -/
def hedLast (e : Entry) : Entry :=
  match lookupAttr e.attrs hedIdKey with
  | none => e
  | some vs => { e with attrs := (e.attrs.filter fun kv => !(kv.1 == hedIdKey)) ++ [(hedIdKey, vs)] }

/-- the `omn:SubClassOf` cell of each row resolves, in `known_parent_tags`, to the path of the tag's parent
(what distinct short names give: C03's `ShortDistinct`) -/
def TsvResolvable : List (Str × List Str) → List Entry → Bool
  | _, [] => true
  | known, e :: r =>
    let cs := splitOn '/' e.name
    let cell := match parentName e.name with
      | none => hedTag
      | some p => shortTag p
    (dictGet known cell == some cs.dropLast) && TsvResolvable (dictPut known (shortTag e.name) cs) r

/-- what the TSV row layout needs on top of the attribute grammar -/
def tsvWF (e : Entry) : Bool :=
  let cs := splitOn '/' e.name
  attrsWF e.attrs && !hasKey e.attrs annotationKey &&
  (match lookupAttr e.attrs hedIdKey with | some [] => false | _ => true) &&
  (match e.desc with | none => true | some d => !d.isEmpty && trimmed d) &&
  cs.all (fun c => !c.isEmpty) &&
  (match cs.reverse with
   | last :: _ :: _ => last == ['#'] || !(last.getLast? == some '#')
   | [last] => !(last.getLast? == some '#')
   | [] => false)

/-! ## XML: the abstract element tree of the tag section (text ↔ tree is ElementTree's job) -/

/-- `<node><name>n</name>[<description>d</description>](<attribute><name>k</name><value>v</value>*</attribute>)*
child nodes</node>` -/
inductive XNode where
  | node (name : Str) (desc : Option Str) (attrs : Attrs) (children : List XNode)
deriving Repr, Inhabited

/-- `if tag_description:` — a `<description>` element only for a non-empty description -/
def xmlDesc : Option Str → Option Str
  | some d => if d.isEmpty then none else some d
  | none => none

/-- `Schema2XML._write_tag_entry`: the element of one written entry, still without children.
A string value `"a,b"` becomes one `<value>` per part: exactly the value list of the model. -/
def xmlElem (e : Entry) : XNode := .node (shortName e.name) (xmlDesc e.desc) e.attrs []

/-- append `x` as last child of the node `depth` levels down the rightmost spine (`SubElement(parent_node, …)`;
the code finds `parent_node` by the parent's name in `all_nodes`, which for a preorder listing is that node) -/
def insertDepth : List XNode → Nat → XNode → Option (List XNode)
  | F, 0, x => some (F ++ [x])
  | [], _ + 1, _ => none
  | [.node n d as ch], k + 1, x => (insertDepth ch k x).map fun ch' => [.node n d as ch']
  | n :: m :: rest, k + 1, x => (insertDepth (m :: rest) (k + 1) x).map (n :: ·)

/-- the tag section element built by `_output_tags` from the entries written at the given levels -/
def toXmlFrom : List (Nat × Entry) → List XNode → Option (List XNode)
  | [], F => some F
  | (l, e) :: r, F =>
    match insertDepth F l (xmlElem e) with
    | none => none
    | some F' => toXmlFrom r F'

def toXmlTree (leveled : List (Nat × Entry)) : Option (List XNode) := toXmlFrom leveled []

/-- `SchemaLoaderXML._parse_node`: attribute elements → dictionary (`",".join(values)`, empty = `True`) -/
def readXmlAttrs : Attrs → Attrs → Attrs
  | [], acc => acc
  | (k, vs) :: r, acc =>
    let joined := joinWith [','] vs
    readXmlAttrs r (dictPut acc k (if joined.isEmpty then [] else splitOn ',' joined))

/-- description of `_parse_node` (after fix a64eb53: kept only if non-blank, stripped) -/
def readXmlDesc : Option Str → Option Str
  | none => none
  | some d => if (strip d).isEmpty then none else some (strip d)

mutual
/-- `SchemaLoaderXML._add_tags_recursive` on one node -/
def readNode (parents : List Str) : XNode → List Entry
  | .node n d as ch =>
    ⟨joinWith ['/'] (parents ++ [n]), readXmlAttrs as [], readXmlDesc d⟩ :: readForest (parents ++ [n]) ch
def readForest (parents : List Str) : List XNode → List Entry
  | [] => []
  | x :: xs => readNode parents x ++ readForest parents xs
end

def ofXmlTree (F : List XNode) : List Entry := readForest [] F

/-- what the XML element layout needs: values that survive `",".join` / `split(",")` -/
def xmlWF (e : Entry) : Bool :=
  nodupKeys e.attrs && (e.attrs.all fun kv => kv.2.all fun v => !v.isEmpty && v.all (· != ',')) &&
  (match e.desc with | none => true | some d => !d.isEmpty && trimmed d)

/-! ## Tree order of a top-level group (`HedSchemaTagSection._finalize_section`, fix ba6aaf2)

The code keys a dictionary `first` by tag names and looks up `name.rsplit("/", k)[0]`; the model uses the split
names (paths) instead, which is the same thing because `split("/")` is injective. -/

def pathOf (e : Entry) : List Str := splitOn '/' e.name

/-- position of the first occurrence of a path (`first.setdefault(entry.name, index)`) -/
def idxOpt : List (List Str) → List Str → Option Nat
  | [], _ => none
  | x :: xs, p => if x == p then some 0 else (idxOpt xs p).map (· + 1)

/-- `first.get(name, 0)` -/
def firstIndex (paths : List (List Str)) (p : List Str) : Nat := (idxOpt paths p).getD 0

/-- `[x.name.rsplit("/", k)[0] for k in range(x.name.count("/"), -1, -1)]`: the ancestors' paths, then the path
itself (`acc` = segments already consumed) -/
def prefixPaths (acc : List Str) : List Str → List (List Str)
  | [] => []
  | c :: cs => (acc ++ [c]) :: prefixPaths (acc ++ [c]) cs

/-- the sort key of one tag: first positions of its ancestors and of itself -/
def sortKey (paths : List (List Str)) (p : List Str) : List Nat := (prefixPaths [] p).map (firstIndex paths)

/-- Python's `<=` on lists of integers -/
def lexLe : List Nat → List Nat → Bool
  | [], _ => true
  | _ :: _, [] => false
  | a :: as, b :: bs => a < b || (a == b && lexLe as bs)

/-- the stable sort of a group that is not re-sorted alphabetically: the given sibling order is kept, every tag
comes after its parent -/
def treeOrder (es : List Entry) : List Entry :=
  es.mergeSort fun a b => lexLe (sortKey (es.map pathOf) (pathOf a)) (sortKey (es.map pathOf) (pathOf b))

/-- hypothesis of `treeOrder_is_preorder`: every tag's parent is in the group -/
def groupClosed (es : List Entry) : Bool :=
  es.all fun e => (pathOf e).dropLast.isEmpty || (es.map pathOf).contains (pathOf e).dropLast

/-! ## The files of a TSV save (`df_util.save_dataframes` / `load_dataframes`)

`Schema2DF._initialize_output` starts from `create_empty_dataframes()`: a dictionary with the ten sheet names as keys,
whatever the schema holds.  A file system location is an association list file name ↦ content. -/

/-- keys of `create_empty_dataframes()` (= `DF_SUFFIXES`) -/
def sheetNames : List Str :=
  [['S', 't', 'r', 'u', 'c', 't', 'u', 'r', 'e'],
   ['T', 'a', 'g'],
   ['U', 'n', 'i', 't'],
   ['U', 'n', 'i', 't', 'C', 'l', 'a', 's', 's'],
   ['U', 'n', 'i', 't', 'M', 'o', 'd', 'i', 'f', 'i', 'e', 'r'],
   ['V', 'a', 'l', 'u', 'e', 'C', 'l', 'a', 's', 's'],
   ['A', 'n', 'n', 'o', 't', 'a', 't', 'i', 'o', 'n', 'P', 'r', 'o', 'p', 'e', 'r', 't', 'y'],
   ['D', 'a', 't', 'a', 'P', 'r', 'o', 'p', 'e', 'r', 't', 'y'],
   ['O', 'b', 'j', 'e', 'c', 't', 'P', 'r', 'o', 'p', 'e', 'r', 't', 'y'],
   ['A', 't', 't', 'r', 'i', 'b', 'u', 't', 'e', 'P', 'r', 'o', 'p', 'e', 'r', 't', 'y']]

/-- `f"{base}_{suffix}.tsv"` -/
def tsvFileName (base suffix : Str) : Str := base ++ '_' :: suffix ++ ['.', 't', 's', 'v']

/-- `save_dataframes`: every sheet of the dictionary is written with `open(filename, mode='w')` — empty or not —
on top of whatever files are already at the location -/
def saveFrames {α} (base : Str) : List (Str × α) → List (Str × α) → List (Str × α)
  | files, [] => files
  | files, (suf, sheet) :: r => saveFrames base (dictPut files (tsvFileName base suf) sheet) r

/-- `load_dataframes`: one file per sheet name; a missing file (`OSError`) leaves the blank frame (`none`) -/
def loadFrames {α} (base : Str) (files : List (Str × α)) : List (Str × Option α) :=
  sheetNames.map fun suf => (suf, dictGet files (tsvFileName base suf))

/-! ## Struct-sheet description escape of the TSV format -/

/-- `description.replace("\n", "\\n")` (writer, prologue/epilogue rows) -/
def escapeNl : Str → Str
  | [] => []
  | c :: cs => if c == '\n' then '\\' :: 'n' :: escapeNl cs else c :: escapeNl cs

/-- `description.replace("\\n", "\n")` (reader) -/
def unescapeNl : Str → Str
  | [] => []
  | [c] => [c]
  | c :: d :: cs => if c == '\\' && d == 'n' then '\n' :: unescapeNl cs else c :: unescapeNl (d :: cs)

end HedVerif.SchemaIO
