/-
Model of `HedString.split_hed_string` and `HedString.split_into_groups`
(hed/models/hed_string.py) and of `HedGroup.get_as_form` (hed/models/hed_group.py).

Strings are `List Char`; Python indices are code-point indices = list indices.
No Mathlib imports here: this file is linked into the native driver.
-/
namespace HedVerif

abbrev Str := List Char

structure Token where
  isTag : Bool
  start : Nat
  stop  : Nat
deriving Repr, DecidableEq, Inhabited

namespace Tok

def isDelim (c : Char) : Bool := c == ',' || c == '(' || c == ')'

/-- The mutable locals of `split_hed_string`.  `out` is kept reversed.
`bad` records that a branch was taken which in Python would have used `None` as a number
(`None != i` / `(None, i)`): unreachable, proved so in `Props/C02`. -/
structure St where
  spacing  : Nat := 0
  found    : Bool := true
  out      : List Token := []
  tagStart : Option Nat := none
  lastEnd  : Option Nat := some 0
  bad      : Bool := false
deriving Repr, Inhabited

/-- One iteration of the `for i, char in enumerate(hed_string)` loop. -/
def step (st : St) (i : Nat) (c : Char) : St :=
  if c == ' ' then { st with spacing := st.spacing + 1 }
  else if isDelim c then
    if st.found then
      match st.lastEnd with
      | some le =>
        if le != i then { st with out := ⟨false, le, i⟩ :: st.out, lastEnd := some i }
        else { st with lastEnd := some i }
      | none => { st with bad := true, lastEnd := some i }
    else
      match st.tagStart with
      | some ts =>
        { st with found := true, lastEnd := some (i - st.spacing),
                  out := ⟨true, ts, i - st.spacing⟩ :: st.out, spacing := 0, tagStart := none }
      | none => { st with bad := true, found := true, lastEnd := some (i - st.spacing),
                          spacing := 0 }
  else
    let st1 : St :=
      if st.found then
        match st.lastEnd with
        | some le =>
          if le != i then { st with out := ⟨false, le, i⟩ :: st.out, lastEnd := none }
          else { st with lastEnd := none }
        | none => st
      else st
    { st1 with found := false, spacing := 0,
               tagStart := match st1.tagStart with | none => some i | some t => some t }

/-- Run the loop from index `i` on the remaining characters. -/
def run : St → Nat → Str → St
  | st, _, [] => st
  | st, i, c :: cs => run (step st i c) (i + 1) cs

/-- The code after the loop. `n = len(hed_string)`. -/
def finish (st : St) (n : Nat) : List Token :=
  let out1 : List Token := match st.lastEnd with
    | some le => if n != le then Token.mk false le n :: st.out else st.out
    | none => st.out
  let out2 : List Token := match st.tagStart with
    | some ts =>
      let o : List Token := Token.mk true ts (n - st.spacing) :: out1
      if st.spacing != 0 then Token.mk false (n - st.spacing) n :: o else o
    | none => out1
  out2.reverse

def finalSt (s : Str) : St := run {} 0 s

/-- `HedString.split_hed_string`. -/
def split (s : Str) : List Token := finish (finalSt s) s.length

end Tok

/-- Parse tree: spans are into the source text. -/
inductive Node where
  | tag (start stop : Nat)
  | group (start stop : Nat) (kids : List Node)
deriving Repr, Inhabited

namespace Tree

/-- Python `str.isspace` restricted to what can occur inside a non-tag token
(only U+0020 and the three delimiters occur there; the table lists the usual ASCII blanks). -/
def pyIsSpace (c : Char) : Bool :=
  c == ' ' || c == '\t' || c == '\n' || c == '\r' || c == '\x0b' || c == '\x0c'

inductive BuildErr where
  | closing      -- ValueError("Closing parentheses ...")
  | unmatched    -- ValueError("Unmatched opening parentheses ...")
  | index        -- IndexError: string_portion[delimiter_index] on an empty portion (unreachable)
deriving Repr, DecidableEq, Inhabited

/-- `delimiter_index`: index of the first non-blank character of the portion, 0 when there is none
(the Python loop leaves its initial 0 in place). -/
def delimIndex (portion : Str) : Nat :=
  (portion.findIdx? (fun c => !pyIsSpace c)).getD 0

/-- A frame of `current_tag_group`: start position of the open group and its children (reversed). -/
structure Frame where
  start : Nat
  kids  : List Node
deriving Inhabited

/-- The body of the loop of `split_into_groups` for one token.
`stack` is `current_tag_group` with the innermost frame first; the bottom frame (top level)
is carried separately as `top` (children reversed). -/
def stepTok (s : Str) (top : List Node) (stack : List Frame) (t : Token) :
    Except BuildErr (List Node × List Frame) :=
  if t.isTag then
    match stack with
    | [] => .ok (Node.tag t.start t.stop :: top, [])
    | f :: fs => .ok (top, { f with kids := Node.tag t.start t.stop :: f.kids } :: fs)
  else
    let portion := (s.drop t.start).take (t.stop - t.start)
    let di := delimIndex portion
    match portion[di]? with
    | none => .error .index
    | some ch =>
      if ch == '(' then .ok (top, ⟨t.start + di, []⟩ :: stack)
      else if ch == ')' then
        match stack with
        | [] => .error .closing
        | f :: fs =>
          let g := Node.group f.start (t.start + di + 1) f.kids.reverse
          match fs with
          | [] => .ok (g :: top, [])
          | f2 :: fs2 => .ok (top, { f2 with kids := g :: f2.kids } :: fs2)
      else .ok (top, stack)

def buildToks (s : Str) : List Node → List Frame → List Token → Except BuildErr (List Node)
  | top, [], [] => .ok top.reverse
  | _, _ :: _, [] => .error .unmatched
  | top, stack, t :: ts =>
    match stepTok s top stack t with
    | .error e => .error e
    | .ok (top', stack') => buildToks s top' stack' ts

/-- `HedString.split_into_groups`: the list of top-level children, or the `ValueError`. -/
def build (s : Str) : Except BuildErr (List Node) := buildToks s [] [] (Tok.split s)

/-- `HedString.__init__`: a `ValueError` becomes an empty child list. -/
def construct (s : Str) : List Node :=
  match build s with
  | .ok ns => ns
  | .error _ => []

def slice (s : Str) (a b : Nat) : Str := (s.drop a).take (b - a)

mutual
/-- `HedGroup.get_as_form` with `form` giving the text of a tag from its span. -/
def printNode (form : Nat → Nat → Str) : Node → Str
  | .tag a b => form a b
  | .group _ _ kids => '(' :: (printList form kids ++ [')'])
def printList (form : Nat → Nat → Str) : List Node → Str
  | [] => []
  | [n] => printNode form n
  | n :: ns => printNode form n ++ (',' :: printList form ns)
end

/-- `str(HedString)` in original form (`org_tag` = source slice). -/
def printOrg (s : Str) (ns : List Node) : Str := printList (slice s) ns

end Tree

/- `StringValidator.check_count_tag_group_parentheses` (after the `fix:` commit 75b0c29). -/
namespace Paren

/-- `_closing_precedes_opening`: the running depth goes negative. -/
def closingFirst : Nat → Str → Bool
  | _, [] => false
  | d, c :: cs =>
    if c == '(' then closingFirst (d + 1) cs
    else if c == ')' then
      match d with
      | 0 => true
      | d' + 1 => closingFirst d' cs
    else closingFirst d cs

/-- `PARENTHESES_MISMATCH` is reported. -/
def mismatch (s : Str) : Bool :=
  s.count '(' != s.count ')' || closingFirst 0 s

end Paren
end HedVerif
