/-
Model of issue construction, decoration, filtering, sorting and export:
  `hed_tag_error` wrappers, `ErrorHandler._create_error_object/_add_context_to_errors/
  _update_error_with_char_pos/add_context_and_filter/filter_issues_by_severity`,
  `sort_issues`, `replace_tag_references`, and the decorate/short-circuit skeleton of
  `HedValidator.validate`                                    (hed/errors/error_reporter.py, hed_validator.py)
-/
import HedVerif.Model.Tok

namespace HedVerif.Issue

/-- field values of an issue dictionary -/
inductive Val where
  | num (n : Int)
  | str (s : Str)
  | ref (text : Str)          -- a HedTag / HedGroup / HedString object (its `str()` is `text`)
  | list (xs : List Val)
deriving Repr, Inhabited

structure Issue where
  code : Str
  severity : Nat                       -- ERROR = 1, WARNING = 10
  span : Option (Nat × Nat)            -- span of `source_tag` in the HED_STRING context text, if resolvable
  modified : Bool := false             -- `source_tag._tag` set (tag text replaced): no sub-indexing
  idx : Option Nat := none             -- index_in_tag
  idxEnd : Option Nat := none          -- index_in_tag_end
  charIdx : Option (Nat × Nat) := none -- char_index, char_index_end
  suffixes : Nat := 0                  -- how many times the location text was appended to the message
  ctx : List (Str × Val) := []         -- context fields (ec_row, ec_column, …) and other keyword fields
deriving Repr, Inhabited

/-- `_add_context_to_errors`: `error_object[k] = v` for every context entry (later wins). -/
def addContext (i : Issue) (ctx : List (Str × Val)) : Issue :=
  { i with ctx := ctx.foldl (fun acc (k, v) => (k, v) :: acc.filter (·.1 != k)) i.ctx }

/-- `_update_error_with_char_pos` (after fix 10acb36: suffix added only when `char_index` is new).
`hasString` = the issue carries a HED_STRING context. -/
def updateCharPos (hasString : Bool) (i : Issue) : Issue :=
  if !hasString then i else
  match i.span with
  | none => i
  | some (s, e) =>
    let (a, b) :=
      if i.modified then (s, e)
      else (s + i.idx.getD 0, match i.idxEnd with | some k => s + k | none => e)
    { i with charIdx := some (a, b), suffixes := if i.charIdx.isNone then i.suffixes + 1 else i.suffixes }

/-- the code before the fix: appended on every pass -/
def updateCharPosOld (hasString : Bool) (i : Issue) : Issue :=
  if !hasString then i else
  match i.span with
  | none => i
  | some (s, e) =>
    let (a, b) :=
      if i.modified then (s, e)
      else (s + i.idx.getD 0, match i.idxEnd with | some k => s + k | none => e)
    { i with charIdx := some (a, b), suffixes := i.suffixes + 1 }

def isError (i : Issue) : Bool := i.severity ≤ 1

/-- `filter_issues_by_severity(issues, ERROR)` -/
def filterErrors (l : List Issue) : List Issue := l.filter isError

/-- `add_context_and_filter` -/
def decorate (warnings : Bool) (hasString : Bool) (ctx : List (Str × Val)) (l : List Issue) : List Issue :=
  let l' := if warnings then l else filterErrors l
  l'.map fun i => updateCharPos hasString (addContext i ctx)

/-- `check_for_any_errors` -/
def anyErrors (l : List Issue) : Bool := l.any isError

/-- skeleton of `HedValidator.validate`: basic checks, decorate, stop on error, full checks (which
are only *computed* when no basic error exists), decorate the whole list again -/
def pipeline (warnings hasString : Bool) (ctx : List (Str × Val)) (basic : List Issue)
    (full : List Issue) : List Issue :=
  let b := decorate warnings hasString ctx basic
  if anyErrors b then b else decorate warnings hasString ctx (b ++ full)

/-! ### sorting -/

/-- sort key: one entry per name of `default_sort_list` — numbers for int-sorted contexts (default −1),
text otherwise (default "") -/
inductive KeyPart where
  | n (v : Int)
  | s (v : Str)
deriving Repr, DecidableEq, Inhabited

def strLt : Str → Str → Bool
  | [], [] => false
  | [], _ :: _ => true
  | _ :: _, [] => false
  | a :: as, b :: bs => a.toNat < b.toNat || (a == b && strLt as bs)

def KeyPart.lt : KeyPart → KeyPart → Bool
  | .n a, .n b => a < b
  | .s a, .s b => strLt a b
  | .n _, .s _ => true     -- never compared in practice (same position has the same kind)
  | .s _, .n _ => false

def keyLt : List KeyPart → List KeyPart → Bool
  | [], [] => false
  | [], _ :: _ => true
  | _ :: _, [] => false
  | a :: as, b :: bs => a.lt b || (a == b && keyLt as bs)

/-- `_get_keys`: `sortList` is `default_sort_list` with a flag for the int-sorted names -/
def keyOf (sortList : List (Str × Bool)) (i : Issue) : List KeyPart :=
  sortList.map fun (name, isInt) =>
    match i.ctx.find? (·.1 == name) with
    | some (_, .num v) => if isInt then .n v else .s (toString v).toList   -- `str(d.get(key, ""))` (fix d7db8b2)
    | some (_, .str v) => if isInt then .n (-1) else .s v
    | some (_, .ref v) => if isInt then .n (-1) else .s v
    | some (_, .list _) => if isInt then .n (-1) else .s []
    | none => if isInt then .n (-1) else .s []

/-- stable insertion: before the first element whose key is strictly greater -/
def insertBy (key : Issue → List KeyPart) (x : Issue) : List Issue → List Issue
  | [] => [x]
  | y :: ys => if keyLt (key x) (key y) then x :: y :: ys else y :: insertBy key x ys

/-- `sorted(issues, key=_get_keys)` (Python's sort is stable): insertion sort from the right -/
def sortBy (key : Issue → List KeyPart) : List Issue → List Issue
  | [] => []
  | x :: xs =>
    -- x precedes xs, so it must land before equal keys: insert into the sorted tail from the front
    let rec ins (x : Issue) : List Issue → List Issue
      | [] => [x]
      | y :: ys => if keyLt (key y) (key x) then y :: ins x ys else x :: y :: ys
    ins x (sortBy key xs)

/-! ### export -/

/-- `replace_tag_references` on one value: objects become their text -/
def Val.export : Val → Val
  | .num n => .num n
  | .str s => .str s
  | .ref t => .str t
  | .list xs => .list (exportList xs)
where exportList : List Val → List Val
  | [] => []
  | x :: xs => x.export :: exportList xs

def Val.isJson : Val → Bool
  | .num _ => true
  | .str _ => true
  | .ref _ => false
  | .list xs => allJson xs
where allJson : List Val → Bool
  | [] => true
  | x :: xs => x.isJson && allJson xs

def exportIssue (i : Issue) : Issue := { i with ctx := i.ctx.map fun (k, v) => (k, v.export) }

end HedVerif.Issue
