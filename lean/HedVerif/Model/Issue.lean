/-
Model of issue construction, decoration, filtering, sorting and export:
  `hed_tag_error` wrappers, `ErrorHandler._create_error_object/_add_context_to_errors/
  _update_error_with_char_pos/add_context_and_filter/filter_issues_by_severity`,
  `sort_issues`, `replace_tag_references`, and the decorate/short-circuit skeleton of
  `HedValidator.validate`                                    (hed/errors/error_reporter.py, hed_validator.py)
-/
import HedVerif.Model.Tok

namespace HedVerif.Issue

/-- field values of an issue dictionary -/
inductive Val where
  | num (n : Int)
  | str (s : Str)
  | ref (text : Str)          -- a HedTag / HedGroup / HedString object (its `str()` is `text`)
  | list (xs : List Val)
deriving Repr, Inhabited

structure Issue where
  code : Str
  severity : Nat                       -- ERROR = 1, WARNING = 10
  span : Option (Nat × Nat)            -- span of `source_tag` in the HED_STRING context text, if resolvable
  modified : Bool := false             -- `source_tag._tag` set (tag text replaced): no sub-indexing
  idx : Option Nat := none             -- index_in_tag
  idxEnd : Option Nat := none          -- index_in_tag_end
  charIdx : Option (Nat × Nat) := none -- char_index, char_index_end
  suffixes : Nat := 0                  -- how many times the location text was appended to the message
  ctx : List (Str × Val) := []         -- context fields (ec_row, ec_column, …) and other keyword fields
deriving Repr, Inhabited

/-- `d[k] = v` on an insertion-ordered dict: an existing key keeps its place, a new key goes to the end -/
def setKey (d : List (Str × Val)) (k : Str) (v : Val) : List (Str × Val) :=
  if d.any (·.1 == k) then d.map (fun kv => if kv.1 == k then (k, v) else kv) else d ++ [(k, v)]

/-- `d.get(k)` -/
def getKey (d : List (Str × Val)) (k : Str) : Option Val := (d.find? (·.1 == k)).map (·.2)

/-- `_add_context_to_errors`: `error_object[k] = v` for every context entry, outermost first (so for a context
type that is on the stack twice the innermost value is the one that stays). -/
def addContext (i : Issue) (ctx : List (Str × Val)) : Issue :=
  { i with ctx := ctx.foldl (fun acc kv => setKey acc kv.1 kv.2) i.ctx }

/-- `_update_error_with_char_pos` (after fix 10acb36: suffix added only when `char_index` is new).
`hasString` = the issue carries a HED_STRING context. -/
def updateCharPos (hasString : Bool) (i : Issue) : Issue :=
  if !hasString then i else
  match i.span with
  | none => i
  | some (s, e) =>
    let (a, b) :=
      if i.modified then (s, e)
      else (s + i.idx.getD 0, match i.idxEnd with | some k => s + k | none => e)
    { i with charIdx := some (a, b), suffixes := if i.charIdx.isNone then i.suffixes + 1 else i.suffixes }

/-- the code before the fix: appended on every pass -/
def updateCharPosOld (hasString : Bool) (i : Issue) : Issue :=
  if !hasString then i else
  match i.span with
  | none => i
  | some (s, e) =>
    let (a, b) :=
      if i.modified then (s, e)
      else (s + i.idx.getD 0, match i.idxEnd with | some k => s + k | none => e)
    { i with charIdx := some (a, b), suffixes := i.suffixes + 1 }

def isError (i : Issue) : Bool := i.severity ≤ 1

/-- `filter_issues_by_severity(issues, ERROR)` -/
def filterErrors (l : List Issue) : List Issue := l.filter isError

/-- `add_context_and_filter` -/
def decorate (warnings : Bool) (hasString : Bool) (ctx : List (Str × Val)) (l : List Issue) : List Issue :=
  let l' := if warnings then l else filterErrors l
  l'.map fun i => updateCharPos hasString (addContext i ctx)

/-- `check_for_any_errors` -/
def anyErrors (l : List Issue) : Bool := l.any isError

/-- skeleton of `HedValidator.validate`: basic checks, decorate, stop on error, full checks (which
are only *computed* when no basic error exists), decorate the whole list again -/
def pipeline (warnings hasString : Bool) (ctx : List (Str × Val)) (basic : List Issue)
    (full : List Issue) : List Issue :=
  let b := decorate warnings hasString ctx basic
  if anyErrors b then b else decorate warnings hasString ctx (b ++ full)

/-! ### sorting -/

/-- sort key: one entry per name of `default_sort_list` — numbers for int-sorted contexts (default −1),
text otherwise (default "") -/
inductive KeyPart where
  | n (v : Int)
  | s (v : Str)
deriving Repr, DecidableEq, Inhabited

def strLt : Str → Str → Bool
  | [], [] => false
  | [], _ :: _ => true
  | _ :: _, [] => false
  | a :: as, b :: bs => a.toNat < b.toNat || (a == b && strLt as bs)

def KeyPart.lt : KeyPart → KeyPart → Bool
  | .n a, .n b => a < b
  | .s a, .s b => strLt a b
  | .n _, .s _ => true     -- never compared in practice (same position has the same kind)
  | .s _, .n _ => false

def keyLt : List KeyPart → List KeyPart → Bool
  | [], [] => false
  | [], _ :: _ => true
  | _ :: _, [] => false
  | a :: as, b :: bs => a.lt b || (a == b && keyLt as bs)

/-- `_get_keys`: `sortList` is `default_sort_list` with a flag for the int-sorted names -/
def keyOf (sortList : List (Str × Bool)) (i : Issue) : List KeyPart :=
  sortList.map fun (name, isInt) =>
    match i.ctx.find? (·.1 == name) with
    | some (_, .num v) => if isInt then .n v else .s (toString v).toList   -- `str(d.get(key, ""))` (fix d7db8b2)
    | some (_, .str v) => if isInt then .n (-1) else .s v
    | some (_, .ref v) => if isInt then .n (-1) else .s v
    | some (_, .list _) => if isInt then .n (-1) else .s []
    | none => if isInt then .n (-1) else .s []

/-- stable insertion: before the first element whose key is strictly greater -/
def insertBy (key : Issue → List KeyPart) (x : Issue) : List Issue → List Issue
  | [] => [x]
  | y :: ys => if keyLt (key x) (key y) then x :: y :: ys else y :: insertBy key x ys

/-- `sorted(issues, key=_get_keys)` (Python's sort is stable): insertion sort from the right -/
def sortBy (key : Issue → List KeyPart) : List Issue → List Issue
  | [] => []
  | x :: xs =>
    -- x precedes xs, so it must land before equal keys: insert into the sorted tail from the front
    let rec ins (x : Issue) : List Issue → List Issue
      | [] => [x]
      | y :: ys => if keyLt (key y) (key x) then y :: ins x ys else x :: y :: ys
    ins x (sortBy key xs)

/-! ### export -/

/-- `replace_tag_references` on one value: objects become their text -/
def Val.export : Val → Val
  | .num n => .num n
  | .str s => .str s
  | .ref t => .str t
  | .list xs => .list (exportList xs)
where exportList : List Val → List Val
  | [] => []
  | x :: xs => x.export :: exportList xs

def Val.isJson : Val → Bool
  | .num _ => true
  | .str _ => true
  | .ref _ => false
  | .list xs => allJson xs
where allJson : List Val → Bool
  | [] => true
  | x :: xs => x.isJson && allJson xs

def exportIssue (i : Issue) : Issue := { i with ctx := i.ctx.map fun (k, v) => (k, v.export) }

/-! ### the context stack of `ErrorHandler`  (`push_error_context/pop_error_context/reset_error_context/
format_error_with_context`) -/

/-- `self.error_context`: `(context_type, context)` pairs, outermost first (`list.append`) -/
abbrev Stack := List (Str × Val)

/-- `ErrorContext.HED_STRING`, `ErrorContext.FILE_NAME` -/
def hedStringKey : Str := ['e','c','_','H','e','d','S','t','r','i','n','g']
def fileKey : Str := ['e','c','_','f','i','l','e','n','a','m','e']

/-- what `push_error_context` stores for `context is None`: `0` for the int-sorted context types, `""` otherwise -/
def defaultFor (intKeys : List Str) (k : Str) : Val := if intKeys.contains k then .num 0 else .str []

/-- `push_error_context(context_type, context)`; `none` is Python's `None`.  Every other value — the integer `0`
and the empty string included — is stored as it is (the test is `context is None`, not `not context`). -/
def push (intKeys : List Str) (st : Stack) (k : Str) (v : Option Val) : Stack :=
  st ++ [(k, match v with | some x => x | none => defaultFor intKeys k)]

/-- `pop_error_context`: `list.pop(-1)`; `none` = IndexError on an empty stack -/
def pop (st : Stack) : Option Stack := if st.isEmpty then none else some st.dropLast

/-- does the issue dictionary hold a HED_STRING entry (`_get_tag_span_to_error_object`) -/
def hasStringCtx (i : Issue) : Bool := i.ctx.any (·.1 == hedStringKey)

/-- `format_error_with_context` on the freshly built error object `i`: dropped when warnings are off and
`severity >= WARNING`; else the whole stack is written into it and the character position added -/
def formatCtx (w : Bool) (st : Stack) (i : Issue) : List Issue :=
  if !w && decide (10 ≤ i.severity) then [] else
  let j := addContext i st
  [updateCharPos (hasStringCtx j) j]

/-- one call on an `ErrorHandler` -/
inductive Op where
  | push (k : Str) (v : Option Val)
  | pop
  | reset
  | format (i : Issue)
deriving Inhabited

/-- the handler's stack and every issue it has formatted so far -/
structure HState where
  stack : Stack := []
  out : List Issue := []
deriving Inhabited

def step (intKeys : List Str) (w : Bool) (s : HState) : Op → Option HState
  | .push k v => some { s with stack := push intKeys s.stack k v }
  | .pop => (pop s.stack).map fun st => { s with stack := st }
  | .reset => some { s with stack := [] }
  | .format i => some { s with out := s.out ++ formatCtx w s.stack i }

/-- a history of calls; `none` = an exception (pop on an empty stack) -/
def run (intKeys : List Str) (w : Bool) : HState → List Op → Option HState
  | s, [] => some s
  | s, o :: os =>
    match step intKeys w s o with
    | none => none
    | some s' => run intKeys w s' os

/-! ### printable output  (`get_printable_issue_string/_build_error_context_dict/_add_single_error_to_dict/
_get_context_from_issue/_error_dict_to_string`) -/

/-- `str(value)` of a context value (`get_original_hed_string()` for the HED_STRING object) -/
def Val.text : Val → Str
  | .num n => (toString n).toList
  | .str s => s
  | .ref t => t
  | .list _ => []          -- no context value is a list

abbrev CKey := Str × Str

/-- `key.startswith("ec_")` -/
def isEcKey (k : Str) : Bool := k.take 3 == ['e','c','_']

/-- `_get_context_from_issue`: the `ec_` entries of the issue in dictionary order, values as text -/
def contextPath (skipFile : Bool) (i : Issue) : List CKey :=
  i.ctx.filterMap fun kv =>
    if skipFile && kv.1 == fileKey then none
    else if isEcKey kv.1 then some (kv.1, kv.2.text) else none

/-- the nested dictionary of `_add_single_error_to_dict`: `"children"` (the issues of this level) and one entry per
context tuple, in insertion order -/
inductive PTree where
  | node (children : List Issue) (subs : List (CKey × PTree))
deriving Inhabited

/-- a fresh chain of levels ending in the issue -/
def chain : List CKey → Issue → PTree
  | [], i => .node [i] []
  | k :: ks, i => .node [] [(k, chain ks i)]

mutual
/-- `_add_single_error_to_dict(items, root, issue)` -/
def PTree.insert (i : Issue) : List CKey → PTree → PTree
  | [], .node ch subs => .node (ch ++ [i]) subs
  | k :: ks, .node ch subs => .node ch (insertSubs i k ks subs)
/-- `current_dict.get(item, {"children": []})` then descend -/
def insertSubs (i : Issue) (k : CKey) (ks : List CKey) : List (CKey × PTree) → List (CKey × PTree)
  | [] => [(k, chain ks i)]
  | (k', t) :: rest => if k' == k then (k', t.insert i ks) :: rest else (k', t) :: insertSubs i k ks rest
end

/-- `_build_error_context_dict` (`None` for no issues prints like the empty root) -/
def buildTree (skipFile : Bool) (l : List Issue) : PTree :=
  l.foldl (fun t i => t.insert i (contextPath skipFile i)) (.node [] [])

/-- a printed line: a context header or an issue, with its indentation level -/
inductive Line where
  | ctx (level : Nat) (k : CKey)
  | issue (level : Nat) (i : Issue)
deriving Inhabited

mutual
/-- `_error_dict_to_string`: the issues of the level first, then every context entry in insertion order -/
def PTree.lines (level : Nat) : PTree → List Line
  | .node ch subs => ch.map (Line.issue level) ++ linesSubs level subs
def linesSubs (level : Nat) : List (CKey × PTree) → List Line
  | [] => []
  | (k, t) :: rest => Line.ctx level k :: (t.lines (level + 1) ++ linesSubs level rest)
end

mutual
/-- the issues in printed order -/
def PTree.flat : PTree → List Issue
  | .node ch subs => ch ++ flatSubs subs
def flatSubs : List (CKey × PTree) → List Issue
  | [] => []
  | (_, t) :: rest => t.flat ++ flatSubs rest
end

def Line.issue? : Line → Option Issue
  | .ctx _ _ => none
  | .issue _ i => some i

/-- `get_printable_issue_string(issues, severity=…)`: the printed lines -/
def printLines (skipFile : Bool) (severity : Option Nat) (l : List Issue) : List Line :=
  let l' := match severity with
    | some s => l.filter fun i => decide (i.severity ≤ s)      -- `filter_issues_by_severity`
    | none => l
  (buildTree skipFile l').lines 0

end HedVerif.Issue
