/-
Model of the duplicate check of the validator and of the blank-insensitive delimiter scan (C04).

  `HedGroup._sorted` / `HedGroup._sort_key`                         (hed/models/hed_group.py)
  `HedTag.__eq__`, `HedTag.__str__`, `HedTag.short_tag`             (hed/models/hed_tag.py)
  `GroupValidator._check_for_duplicate_groups(_recursive)`          (hed/validator/util/group_util.py)
  `StringValidator.check_delimiter_issues_in_hed_string`            (hed/validator/util/string_util.py)

Two versions are kept side by side:
* the **fixed** code (fixes/C04_duplicates_canonical_sort.diff): sort key = case-folded printout of the
  *recursively sorted* content, `__eq__` on the case-folded short form, no indexing into empty lists;
* the **old** code (`…Old`): tags sorted by `str(tag)` (case-sensitive), groups by the printout of the
  *unsorted* group, `__eq__` on the exact short form, `found_group[0]` on whatever list is there.

A tag enters only through three strings, computed by the harness from the real `HedTag`:
`text = str(tag)` (= `short_tag`: namespace + short name + extension; the raw text if unresolved),
`key = str(tag).casefold()`, `org = tag.org_tag.casefold()`.
-/
namespace HedVerif.Dup

abbrev Str := List Char

/-- Python `a < b` on `str`: lexicographic on code points -/
def strLt : Str → Str → Bool
  | _, [] => false
  | [], _ :: _ => true
  | a :: as, b :: bs => decide (a.toNat < b.toNat) || (a == b && strLt as bs)

structure Tag where
  text : Str
  key : Str
  org : Str
deriving Repr, DecidableEq, Inhabited

/-- A HED string / group as a tree; also the shape of the "sorted view" (`_sorted()` returns nested
Python lists: a `HedTag` is a leaf, a list is a `grp`). -/
inductive Tree where
  | tag (t : Tag)
  | grp (cs : List Tree)
deriving Repr, Inhabited

def isTag : Tree → Bool
  | .tag _ => true
  | .grp _ => false

def isGrp : Tree → Bool
  | .tag _ => false
  | .grp _ => true

/-! ### `list.sort(key=…)`: stable, uses only `<` on the keys -/

/-- insert `x` (which preceded all of the list in the input) before the first element that is not
smaller; `lt y x` = `key(y) < key(x)` -/
def insBy {α : Type} (lt : α → α → Bool) (x : α) : List α → List α
  | [] => [x]
  | y :: ys => if lt y x then y :: insBy lt x ys else x :: y :: ys

def sortBy {α : Type} (lt : α → α → Bool) : List α → List α
  | [] => []
  | x :: xs => insBy lt x (sortBy lt xs)

/-! ### printouts -/

mutual
/-- `"(" + ",".join(…) + ")"` over a tree, `f` giving the text of a tag.  With `f = Tag.text` on an
original group this is `str(group)`; with `f = Tag.key` on a sorted view it is `_sort_key`. -/
def render (f : Tag → Str) : Tree → Str
  | .tag t => f t
  | .grp cs => '(' :: (renderL f cs ++ [')'])
def renderL (f : Tag → Str) : List Tree → Str
  | [] => []
  | c :: cs => render f c ++ (match cs with
      | [] => []
      | _ :: _ => ',' :: renderL f cs)
end

/-- the canonical sort key `HedGroup._sort_key` (fixed code) of an element of a sorted view -/
abbrev skey : Tree → Str := render Tag.key

/-! ### `_sorted`

The entries that are sorted are the pairs `(x[0], x[1])` = (original child, its sorted view); of the
original child only its printout `str(x[0])` is used. -/

abbrev Entry := Str × Tree

/-- fixed code: `key = (_sort_key(x[1]), str(x[0]))`, Python tuple comparison -/
def ltNew (p q : Entry) : Bool :=
  strLt (skey p.2) (skey q.2) || (skey p.2 == skey q.2 && strLt p.1 q.1)

/-- old code: `key = str(x[0])` -/
def ltOld (p q : Entry) : Bool := strLt p.1 q.1

/-- `tag_list.sort(key) ; group_list.sort(key) ; [x[1] for x in tag_list + group_list]` -/
def arrange (lt : Entry → Entry → Bool) (ps : List Entry) : List Tree :=
  (sortBy lt (ps.filter (fun p => isTag p.2)) ++ sortBy lt (ps.filter (fun p => isGrp p.2))).map Prod.snd

mutual
/-- `x[1]` of `_sorted` for one child: the tag itself, or the child's sorted view -/
def sortT (lt : Entry → Entry → Bool) : Tree → Tree
  | .tag t => .tag t
  | .grp cs => .grp (arrange lt (sortKids lt cs))
def sortKids (lt : Entry → Entry → Bool) : List Tree → List Entry
  | [] => []
  | c :: cs => (render Tag.text c, sortT lt c) :: sortKids lt cs
end

/-- `hed_string._sorted()`: the sorted view of the top level (fixed code) -/
def sortedView (top : List Tree) : List Tree := arrange ltNew (sortKids ltNew top)

/-- the same on the old code -/
def sortedViewOld (top : List Tree) : List Tree := arrange ltOld (sortKids ltOld top)

/-! ### equality -/

/-- fixed `HedTag.__eq__`: case-folded short forms equal, or case-folded original texts equal -/
def teq (a b : Tag) : Bool := a.key == b.key || a.org == b.org

/-- old `HedTag.__eq__`: exact short forms equal, or case-folded original texts equal -/
def teqOld (a b : Tag) : Bool := a.text == b.text || a.org == b.org

mutual
/-- `child == prev_child` on elements of a sorted view: tag with tag by `__eq__`, list with list
elementwise, anything else (tag/list, `None`) is `False` -/
def eqv (e : Tag → Tag → Bool) : Tree → Tree → Bool
  | .tag a, .tag b => e a b
  | .grp as, .grp bs => eqvL e as bs
  | .tag _, .grp _ => false
  | .grp _, .tag _ => false
def eqvL (e : Tag → Tag → Bool) : List Tree → List Tree → Bool
  | [], [] => true
  | a :: as, b :: bs => eqv e a b && eqvL e as bs
  | [], _ :: _ => false
  | _ :: _, [] => false
end

def eqPrev (e : Tag → Tag → Bool) (prev : Option Tree) (c : Tree) : Bool :=
  match prev with
  | some p => eqv e c p
  | none => false

/-! ### `_check_for_duplicate_groups_recursive` -/

inductive Kind where
  | tag   -- HED_TAG_REPEATED
  | grp   -- HED_TAG_REPEATED_GROUP      (both are reported with code TAG_EXPRESSION_REPEATED)
deriving Repr, DecidableEq, Inhabited

/-- one duplicate issue: which kind, and the canonical key of the repeated child -/
structure Issue where
  kind : Kind
  key : Str
deriving Repr, DecidableEq, Inhabited

def issueOf (c : Tree) : Issue := ⟨if isTag c then .tag else .grp, skey c⟩

mutual
/-- the recursive call on a child (`if not isinstance(child, HedTag): recurse`) -/
def dupT (e : Tag → Tag → Bool) : Tree → List Issue
  | .tag _ => []
  | .grp cs => dupL e none cs
/-- the loop over one sorted list; `prev` is `prev_child` -/
def dupL (e : Tag → Tag → Bool) : Option Tree → List Tree → List Issue
  | _, [] => []
  | prev, c :: cs => (if eqPrev e prev c then [issueOf c] else []) ++ dupT e c ++ dupL e (some c) cs
end

/-- old code: `while isinstance(found_group, list): found_group = found_group[0]` succeeds iff the
chain of first elements ends in a tag -/
def digOk : Tree → Bool
  | .tag _ => true
  | .grp [] => false
  | .grp (c :: _) => digOk c

mutual
/-- does the loop hit `found_group[0]` on an empty list (IndexError)?  `guard` = the fixed loop
condition `isinstance(found_group, list) and found_group`, under which no index is taken. -/
def crashT (guard : Bool) (e : Tag → Tag → Bool) : Tree → Bool
  | .tag _ => false
  | .grp cs => crashL guard e none cs
def crashL (guard : Bool) (e : Tag → Tag → Bool) : Option Tree → List Tree → Bool
  | _, [] => false
  | prev, c :: cs =>
    (eqPrev e prev c && isGrp c && !guard && !digOk c) || crashT guard e c || crashL guard e (some c) cs
end

/-- `_check_for_duplicate_groups` as a whole: an exception aborts the validation, otherwise the issues.
(Raising does not depend on the issues collected so far, so the two are computed separately.) -/
def check (guard : Bool) (e : Tag → Tag → Bool) (sv : List Tree) : Except Unit (List Issue) :=
  if crashL guard e none sv then .error () else .ok (dupL e none sv)

/-- fixed code -/
def dupIssues (top : List Tree) : Except Unit (List Issue) := check true teq (sortedView top)

/-- old code -/
def dupIssuesOld (top : List Tree) : Except Unit (List Issue) := check false teqOld (sortedViewOld top)

/-- the issues of the fixed code as a plain list -/
def issues (top : List Tree) : List Issue := dupL teq none (sortedView top)

/-! ### `check_delimiter_issues_in_hed_string` -/
namespace Scan

inductive Code where
  | tagEmpty | commaMissing
deriving Repr, DecidableEq, Inhabited

structure St where
  last : Option Char := none   -- last_non_empty_valid_character ('' = none)
  cur : Str := []              -- current_tag
  out : List Code := []        -- issues, newest first
  stop : Bool := false         -- `break` taken
deriving Repr

/-- `str.strip()`; `ws` = the characters Python regards as whitespace -/
def strip (ws : Char → Bool) (s : Str) : Str := ((s.dropWhile ws).reverse.dropWhile ws).reverse

/-- one iteration of the loop -/
def step (ws : Char → Bool) (st : St) (c : Char) : St :=
  if st.stop then st else
  let cur := st.cur ++ [c]
  if ws c then { st with cur := cur }
  else if c == ',' then
    if strip ws cur == [c] then { st with cur := [], out := .tagEmpty :: st.out }   -- `continue`: `last` not updated
    else { st with cur := [], last := some c }
  else if c == '(' then
    if strip ws cur == [c] then { st with cur := [], last := some c }
    else { st with cur := cur, out := .commaMissing :: st.out, last := some c }
  else if st.last == some ',' && c == ')' then
    { st with cur := cur, out := .tagEmpty :: st.out, last := some c }
  else if st.last == some ')' && !(c == ',' || c == ')') then
    { st with cur := cur, out := .commaMissing :: st.out, stop := true }
  else { st with cur := cur, last := some c }

def finish (st : St) : List Code :=
  (if st.last == some ',' then Code.tagEmpty :: st.out else st.out).reverse

/-- the codes of the issues, in order -/
def scan (ws : Char → Bool) (s : Str) : List Code := finish (s.foldl (step ws) {})

end Scan

end HedVerif.Dup
