/-
CLOSED mode of the file layer (C07, `Tabular`) and of the sidecar layer (C08, `SidecarV`): the string-level
oracles of those two models are instantiated by the model of the string validator (C01, `Validate`), so that the
whole pipeline  file / sidecar  →  issues  is a closed Lean function of the data (schema vocabulary, definition
dictionary, table / JSON document).

What each oracle field becomes (Python expression it stands for → closed definition):

* `Tabular.Oracle.cell`   `run_basic_checks(HedString(cell, schema), allow_placeholders=False)` → `Validate.basic env false`
* `Tabular.Oracle.full`   `run_full_string_checks(HedString.from_hed_strings(cells))` → `Validate.fullIssues` on the parse of
  the `","`-joined text (the cells went through the basic checks: tree after the second canonicalisation pass)
* `Tabular.Oracle.pfull`  `run_full_string_checks(HedString(text, schema, def_validator))` → `Validate.fullPhase` on the
  tree as constructed (no second pass)
* `Tabular.Oracle.banned` `OnsetValidator.check_for_banned_tags` → one issue per tag whose short base tag is a time key
* `Tabular.Oracle.markers` `find_top_level_tags(TEMPORAL_KEYS)` + first of `find_def_tags(include_groups=0)` → from the tree
* `Tabular.Oracle.items`  `"delay/" in text.casefold()`, top-level children and `value_as_default_unit()` of their Delay tag →
  `Validate.delayItems` (`itemsOf`); outside the fragment only: a Delay value Python's `float()` may read more liberally
  than the model, or a value off the 1/8 s grid of the file model's exact times (`delayOutside`).  A row
  that gets the row-level checks although one of its cells is malformed (`rowSplit`) is answered from the concatenation of
  the cells' trees (`cellsOracle`, `Tabular.validateClosedCells`), as `from_hed_strings` does
* `SidecarV.Oracle.basic` `run_basic_checks(HedString(s, schema, def_dict).remove_refs(), allow_placeholders=True)` →
  `Validate.basicP env true` on the parse with the `{ref}` tags removed (`dropList`, `HedGroup.remove`)
* `SidecarV.Oracle.full`  `run_full_string_checks(HedString(s, schema, def_dict))` → `Validate.fullPhase` on the tree as constructed
* `SidecarV.Oracle.defCount` `find_tags({"Definition"}, recursive=True)` → tags of the tree whose short base tag folds to it
* `SidecarV.Oracle.isDefExpand` the tag's short base tag is `Def-expand` → `isDefExpandText` (the `#` of an entry are counted by
  `SidecarV.treeHash` on the tree after `remove_refs` / `shrink_defs`, as `_validate_pound_sign_count` does)
* `SidecarV.Oracle.defIssues` / `defTree`: sidecars that declare definitions go through `SidecarV.validateClosedD`
  (`sidecarOracleD`: the C09 definition model reads the entries' trees, `toDefs`; its dictionary joins `env.defs`, `envWith`); the `n/a` splice is `Assemble.replaceRef` inside `SidecarV`
-/
import HedVerif.Model.Validate
import HedVerif.Model.Tabular
import HedVerif.Model.SidecarV
namespace HedVerif.Closed
open HedVerif HedVerif.Validate
open HedVerif.Generated.CodeMap

/-! ### string issues as the file layer names them -/

/-- `code:error_type`, severity -/
def rissue (i : Validate.Issue) : Tabular.RIssue := ⟨i.code ++ [':'] ++ i.kind.name, i.sev⟩

/-- `run_basic_checks(HedString(cell), allow_placeholders=False)` -/
def cellIssues (env : Env) (cell : Str) : List Tabular.RIssue := (Validate.basic env false cell).map rissue

/-- `run_full_string_checks` of the joined row (children = the checked cells' children) -/
def fullIssues (env : Env) (text : Str) : List Tabular.RIssue :=
  (Validate.fullIssues env text.length (parse env text)).map rissue

/-- `run_full_string_checks(HedString(text, schema, def_validator))`: the tree as constructed -/
def rawFull (env : Env) (text : Str) : List Validate.Issue := fullPhase env text.length (parse env text).root0

def pointIssues (env : Env) (text : Str) : List Tabular.RIssue := (rawFull env text).map rissue

/-- `OnsetValidator.check_for_banned_tags`: `tag.short_base_tag in ALL_TIME_KEYS` for every tag; `k` = the issue -/
def bannedIssues (env : Env) (k : Tabular.RIssue) (text : Str) : List Tabular.RIssue :=
  ((tagsList ((parse env text).final env)).filter fun t => allTimeKeys.contains (shortBase env t)).map fun _ => k

def markerKind (s : Str) : Temporal.MKind :=
  if s == onsetKey then .onset else if s == offsetKey then .offset else .inset

/-- the loop header of `validate_temporal_relations`: top-level temporal groups that hold a Def / Def-expand -/
def markers (env : Env) (text : Str) : List Temporal.Marker :=
  (topLevelAnchored env temporalKeys (parse env text).root0).filterMap fun x =>
    match defItemsOf env x.2.2 with
    | [] => none
    | (dt, _) :: _ => some ⟨markerKind (shortBase env x.1), extension dt⟩

/-- `"delay/" in text.casefold()` -/
def hasDelay (text : Str) : Bool := (findSub (fold text) (fold delayKey ++ ['/'])).isSome

/-- a delay in exact seconds on the 1/8 s grid of the file model's times (`none` = off the grid) -/
def eighths (d : Units.Dec) : Option Int :=
  if 0 ≤ d.e then some (8 * d.m * 10 ^ d.e.toNat)
  else if (8 * d.m) % (10 ^ (-d.e).toNat) == 0 then some (8 * d.m / 10 ^ (-d.e).toNat) else none

/-- `value_as_default_unit()` of a Delay tag as the file model names it; `none` = outside the closed fragment: Python's
`float()` may be more liberal than the model (`unsure`), or the value is off the 1/8 s grid (the file model's times are
exact integers, the code adds floats) -/
def gridVal : DelayVal → Option Tabular.DVal
  | .value d => (eighths d).map .num
  | .absent => some .none
  | .raises => some .bad
  | .unsure => none

/-- `split_delay_tags`' view of a text: `none` iff `"delay/" not in text.casefold()`, else the top-level children of
`HedString(text)` with the Delay value of the groups holding a Delay tag (`Validate.delayItems`) -/
def itemsOf (env : Env) (text : Str) : Option (List Tabular.Item) :=
  if hasDelay text then
    some ((delayItems env text).map fun x => ⟨x.1, x.2.map fun v => (gridVal v).getD .bad⟩)
  else none

/-- some Delay value of the text is not decided by the model / not on the grid -/
def delayOutside (env : Env) (text : Str) : Bool :=
  hasDelay text && (delayItems env text).any fun x => match x.2 with
    | some v => (gridVal v).isNone
    | none => false

def tabOracle (env : Env) (kBanned : Tabular.RIssue) : Tabular.Oracle where
  cell := cellIssues env
  full := fullIssues env
  pfull := pointIssues env
  banned := bannedIssues env kBanned
  items := itemsOf env
  markers := markers env
  fold := fold

/-- the configuration with its oracle replaced by the closed one -/
def closeCfg (env : Env) (kBanned : Tabular.RIssue) (cfg : Tabular.Cfg) : Tabular.Cfg :=
  { cfg with o := tabOracle env kBanned }

/-- a text the closed file model does not speak about: a Delay value outside the model (`delayOutside`), a construct
outside `Validate`, or a string on which the real validator raises -/
def textUnmodelled (env : Env) (text : Str) : Bool :=
  delayOutside env text ||
    (let p := parse env text
     unmodelledP env p || raisesP env false text p || dupRaises env p.root0)

/-- every text the file model consults an oracle on (cells, joined rows, series texts, time points) -/
def consulted (cfg : Tabular.Cfg) (T : List Tabular.Row) : List Str :=
  let R := (Tabular.frame cfg T).map (·.2)
  R.flatMap (fun r => (Tabular.live cfg r).map (·.2.2)) ++
  R.filterMap (fun r => if (Tabular.live cfg r).isEmpty then none else some (Tabular.rowText cfg r)) ++
  (if cfg.hasOnset then R.map (Tabular.seriesText cfg) ++ (Tabular.timeFrame cfg R).map (·.2.1) else [])

/-- phase 1 (characters, parentheses, delimiters) finds an error in the cell -/
def cellMalformed (env : Env) (c : Str) : Bool := hasError (stringIssues env false c (parse env c))

/-- a row that reaches the row-level checks (its LAST looked-at cell is error-free) although another of its cells is
malformed: `from_hed_strings` concatenates the cells' trees, which for such cells is not the tree of the joined text -/
def rowSplit (env : Env) (kBanned : Tabular.RIssue) (cfg : Tabular.Cfg) (r : Tabular.Row) : Bool :=
  Tabular.reaches (closeCfg env kBanned cfg) r && (Tabular.live cfg r).any fun c => cellMalformed env c.2.2

def tabUnmodelled (env : Env) (kBanned : Tabular.RIssue) (cfg : Tabular.Cfg) (T : List Tabular.Row) : Bool :=
  (consulted cfg T).any (textUnmodelled env) || T.any (rowSplit env kBanned cfg)

/-! ### rows with a malformed cell: the row-level checks on the concatenation of the cells' trees

`HedString.from_hed_strings(row_strings)` takes the children of the checked cell strings; for cells whose parentheses or
delimiters are broken this is not the tree of the `","`-joined text.  `validateClosedCells` uses, for exactly the rows
flagged by `rowSplit`, the concatenated trees (spans are not shifted: the full-string checks compare spans only between
the children of one group, which come from one cell; the file layer keeps kind and severity only). -/

/-- the tree of a cell after `run_basic_checks`: the second canonicalisation pass is reached only if phase 1 passes -/
def cellTree (env : Env) (c : Str) : List RNode :=
  let p := parse env c
  if hasError (stringIssues env false c p) then p.root0 else p.final env

def cellsRoot (env : Env) (cells : List Str) : List RNode := cells.flatMap (cellTree env)

def cellsFull (env : Env) (cells : List Str) : List Tabular.RIssue :=
  (fullPhase env (Tabular.joinWith [','] cells).length (cellsRoot env cells)).map rissue

def cellsBanned (env : Env) (k : Tabular.RIssue) (cells : List Str) : List Tabular.RIssue :=
  ((tagsList (cellsRoot env cells)).filter fun t => allTimeKeys.contains (shortBase env t)).map fun _ => k

def liveTexts (cfg : Tabular.Cfg) (r : Tabular.Row) : List Str := (Tabular.live cfg r).map (·.2.2)

/-- the rows of the table whose joined text is answered from the cells' trees -/
def splitRows (env : Env) (kBanned : Tabular.RIssue) (cfg : Tabular.Cfg) (T : List Tabular.Row) : List Tabular.Row :=
  T.filter (rowSplit env kBanned cfg)

def cellsOracle (env : Env) (kBanned : Tabular.RIssue) (cfg : Tabular.Cfg) (T : List Tabular.Row) : Tabular.Oracle :=
  let base := tabOracle env kBanned
  let rows := splitRows env kBanned cfg T
  { base with
    full := fun t => match rows.find? (fun r => Tabular.rowText cfg r == t) with
      | some r => cellsFull env (liveTexts cfg r)
      | none => base.full t
    banned := fun t => match rows.find? (fun r => Tabular.rowText cfg r == t) with
      | some r => cellsBanned env kBanned (liveTexts cfg r)
      | none => base.banned t }

/-- two rows with the same joined text but different cells, one of them split: the text does not determine the tree -/
def splitAmbiguous (env : Env) (kBanned : Tabular.RIssue) (cfg : Tabular.Cfg) (T : List Tabular.Row) : Bool :=
  (splitRows env kBanned cfg T).any fun r => T.any fun r' =>
    Tabular.rowText cfg r' == Tabular.rowText cfg r && liveTexts cfg r' != liveTexts cfg r

/-- the real validator raises on the concatenated tree (duplicate walk) -/
def splitRaises (env : Env) (kBanned : Tabular.RIssue) (cfg : Tabular.Cfg) (T : List Tabular.Row) : Bool :=
  (splitRows env kBanned cfg T).any fun r => dupRaises env (cellsRoot env (liveTexts cfg r))

/-- pandas' default sort is not stable: which of several rows with the same (effective) time heads the merged time point
is unspecified.  The verdicts depend on the head when a row of the group is invalid (the time point is skipped iff its
head is) or when the group holds two or more temporal markers (their order is the order of the rows).  Such tables are
outside the fragment (the open check of C07 does not generate them either: `tie_sensitive`). -/
def tieSensitive (env : Env) (kBanned : Tabular.RIssue) (cfg : Tabular.Cfg) (T : List Tabular.Row) : Bool :=
  let ccfg := closeCfg env kBanned cfg
  let R := (Tabular.frame ccfg T).map (·.2)
  let sf := Tabular.splitFrame ccfg R
  ccfg.hasOnset && sf.any fun x =>
    let grp := sf.filter fun y => y.1 == x.1
    grp.any (fun y => y.2.2 != x.2.2) &&
      (grp.any (fun y => match R[y.2.2]? with
          | some r => Tabular.anyError (Tabular.lastCellIssues ccfg r)
          | none => false)
       || (grp.map fun y => (markers env y.2.1).length).sum ≥ 2)

/-- rows in one equal-time group (for comparing column-less labels modulo the group): (time, position in the frame) of
every contribution to a time point -/
def timeParts (env : Env) (kBanned : Tabular.RIssue) (cfg : Tabular.Cfg) (T : List Tabular.Row) : List (Int × Nat) :=
  let ccfg := closeCfg env kBanned cfg
  if ccfg.hasOnset then
    (Tabular.splitFrame ccfg ((Tabular.frame ccfg T).map (·.2))).map fun x => (x.1, x.2.2)
  else []

/-- why a table is outside the closed fragment (`none` = inside); for drivers.  The consulted texts are those of the
CLOSED configuration (the time points depend on `items`). -/
def skipReason (env : Env) (kBanned : Tabular.RIssue) (cfg : Tabular.Cfg) (T : List Tabular.Row) : Option (String × Str) :=
  let ccfg := closeCfg env kBanned cfg
  match (consulted ccfg T).find? (textUnmodelled env) with
  | some t => some (if delayOutside env t then "Delay value (float() more liberal, or off the grid)"
                    else "string outside Validate", t)
  | none =>
    if tieSensitive env kBanned cfg T then some ("equal-time rows whose head decides (unstable sort)", [])
    else if T.any (rowSplit env kBanned cfg) && splitAmbiguous env kBanned cfg T then
      some ("joined text of a split row is ambiguous", [])
    else if T.any (rowSplit env kBanned cfg) && splitRaises env kBanned cfg T then some ("string outside Validate", [])
    else none

/-! ### evaluation with a table of the oracle's values (the driver's way to compute `validateClosed`; equal to it:
`Props/Closed.lean`, `memoTab_eq`) -/

def memo {β} (f : Str → β) (tab : List (Str × Thunk β)) (t : Str) : β :=
  match tab.find? (·.1 == t) with
  | some e => e.2.get
  | none => f t

/-- values computed on demand, at most once -/
def tabulate {β} (f : Str → β) (texts : List Str) : List (Str × Thunk β) := texts.map fun t => (t, Thunk.mk fun _ => f t)

def memoTab (o : Tabular.Oracle) (texts : List Str) : Tabular.Oracle :=
  let c := tabulate o.cell texts
  let f := tabulate o.full texts
  let p := tabulate o.pfull texts
  let b := tabulate o.banned texts
  let m := tabulate o.markers texts
  let i := tabulate o.items texts
  { o with cell := memo o.cell c, full := memo o.full f, pfull := memo o.pfull p, banned := memo o.banned b,
           markers := memo o.markers m, items := memo o.items i }

end HedVerif.Closed

namespace HedVerif.Tabular

/-- `SpreadsheetValidator.validate` with `HedValidator` = the model `Validate` -/
def validateClosed (env : Validate.Env) (kBanned : RIssue) (cfg : Cfg) (T : List Row) : Except PyExc (List Issue) :=
  validate (Closed.closeCfg env kBanned cfg) T

/-- the same with the row-level checks of rows holding a malformed cell computed on the concatenated cell trees
(`Closed.cellsOracle`); equal to `validateClosed` when no row is split (`Props/Closed.lean`, `cells_eq_closed`) -/
def validateClosedCells (env : Validate.Env) (kBanned : RIssue) (cfg : Cfg) (T : List Row) : Except PyExc (List Issue) :=
  validate { cfg with o := Closed.cellsOracle env kBanned cfg T } T

end HedVerif.Tabular

namespace HedVerif.Closed
open HedVerif HedVerif.Validate
open HedVerif.Generated.CodeMap

/-! ### sidecar layer -/

/-- `HedTag.is_column_ref` -/
def isRef (t : RTag) : Bool := t.org.head? == some '{' && t.org.getLast? == some '}'

/- `HedString.remove_refs` = `HedGroup.remove(ref tags)`: groups that become empty are pruned too -/
mutual
def dropNode : RNode → Option RNode
  | .tag t => if isRef t then none else some (.tag t)
  | .group s kids =>
    let k := dropList kids
    if k.isEmpty && !kids.isEmpty then none else some (.group s k)
def dropList : List RNode → List RNode
  | [] => []
  | n :: ns =>
    match dropNode n with
    | none => dropList ns
    | some m => m :: dropList ns
end

/-- `HedString(s, schema, def_dict)` then `remove_refs()`; the second pass of `run_basic_checks` sees the pruned tree -/
def parseNoRefs (env : Env) (text : Str) : Parsed :=
  let r0 := dropList (resolveList env text (Tree.construct text))
  let r := recanonList env r0
  ⟨r0, r.1, r.2⟩

/-- `run_basic_checks(hed_string_obj, allow_placeholders=True)` after `remove_refs()` -/
def entryBasic (env : Env) (s : Str) : List Validate.Issue := basicP env true s (parseNoRefs env s)

/-- `find_tags({"Definition"}, recursive=True, include_groups=0)` -/
def defCount (env : Env) (s : Str) : Nat :=
  ((tagsList (parseNoRefs env s).root0).filter fun t => fold (shortBase env t) == fold definitionKey).length

def pair (i : Validate.Issue) : Str × Nat := (i.code, i.sev)

/-- `tag.short_base_tag.casefold() == "def-expand"` for the tag with this source text (resolution depends on the tag's own
text only): what `shrink_defs` looks for when `SidecarV.treeHash` counts the `#` on the tree -/
def isDefExpandText (env : Env) (tt : Str) : Bool :=
  match resolveList env tt (Tree.construct tt) with
  | [.tag t] => fold (shortBase env t) == fold defExpandKey
  | _ => false

def sidecarOracle (env : Env) : SidecarV.Oracle where
  basic := fun s => (entryBasic env s).map pair
  full := fun s => (rawFull env s).map pair
  defCount := defCount env
  defIssues := []
  isDefExpand := isDefExpandText env

/-! ### sidecars that declare definitions

`Sidecar.get_def_dict(schema, extra_def_dicts)` = `DefinitionDict([extract_definitions(schema)] + extra)`: the sidecar's own
definitions first (first wins), then the external ones.  `SidecarValidator.validate` builds `HedValidator(schema,
def_dicts=that, definitions_allowed=True)`; the file validator (`TabularInput.validate` → `ColumnMapper.get_def_dict`) sees
the same dictionary (with `definitions_allowed=False`). -/

/-- the tag as the definition model (C09, `Model/Defs`) reads it: the data of `c09.Env.tree_json` -/
def toDefsTag (env : Env) (t : RTag) : Defs.Tag :=
  let sb := shortBase env t
  { base := if t.entry.isNone then .other else if sb == defKey then .def_ else if sb == defExpandKey then .defExpand
            else if sb == definitionKey then .definition else .other
    name := if t.entry.isSome then sb else strOf env t
    ext := if t.entry.isSome then t.extVal else []
    org := fold t.org
    takesValue := (entryAttr env t).takesValue
    uniqReq := (entryAttr env t).unique || (entryAttr env t).required }

mutual
def toDefsNode (env : Env) : RNode → Defs.Node
  | .tag t => .tag (toDefsTag env t)
  | .group _ kids => .grp (toDefsList env kids)
def toDefsList (env : Env) : List RNode → List Defs.Node
  | [] => []
  | n :: ns => toDefsNode env n :: toDefsList env ns
end

/-- `HedString(s, schema)` for `check_for_definitions` -/
def toDefs (env : Env) (s : Str) : List Defs.Node := toDefsList env (parse env s).root0

/-- the string layer of `HedValidator(schema, def_dicts, definitions_allowed=True)`: a `Definition` tag is not reported
as misplaced (`_validate_individual_tags_in_hed_string`: `if not self._definitions_allowed and …`); the definition model's
view of an entry; `casefold` -/
def sidecarOracleD (env : Env) : SidecarV.Oracle :=
  { sidecarOracle env with
    basic := fun s => ((entryBasic env s).filter fun i => i.kind != .badDefinitionLocation).map pair
    defTree := toDefs env
    fold := fold }

/-- a `DefinitionEntry` of the C09 model as the string validator's dictionary holds it: the stored content group is
printed (`str(contents)`) and read against the schema again -/
def convEntry (env : Env) (e : Defs.Entry) : DefEntry :=
  let text := Defs.strL e.content
  { key := e.key, takes := e.takes, content := resolveList env text (Tree.construct text) }

/-- the dictionary the validators see: the sidecar's definitions, then the external ones (first wins) -/
def envWith (env : Env) (dd : Defs.DefDict) : Env := { env with defs := dd.map (convEntry env) ++ env.defs }

/-- `Sidecar(doc).extract_definitions(schema)` (empty when loading raises: validation raises too) -/
def sidecarDict (env : Env) (g : SidecarV.Guards) (doc : SidecarV.Json) : Defs.DefDict :=
  match SidecarV.extractDefsDoc g (sidecarOracleD env) doc with
  | .ok (dd, _) => dd
  | .error _ => []

def memoSidecar (o : SidecarV.Oracle) (texts : List Str) : SidecarV.Oracle :=
  let b := tabulate o.basic texts
  let f := tabulate o.full texts
  let d := tabulate o.defCount texts
  let t := tabulate o.defTree texts
  { o with basic := memo o.basic b, full := memo o.full f, defCount := memo o.defCount d, defTree := memo o.defTree t }

end HedVerif.Closed

namespace HedVerif.SidecarV

/-- `Sidecar(..).validate(schema, extra_def_dicts)` with `HedValidator` = the model `Validate` -/
def validateClosed (env : Validate.Env) (g : Guards) (doc : Json) : Except Exn (List Issue) :=
  validate g (Closed.sidecarOracle env) doc

/-- the same for sidecars that declare definitions: two stages — extract the sidecar's dictionary (depends on the schema
only), then validate every entry against that dictionary followed by the external one, with the extraction issues and the
clashes with external names (`SidecarV.validateD`) -/
def validateClosedD (env : Validate.Env) (g : Guards) (doc : Json) : Except Exn (List Issue) :=
  validateD g (Closed.sidecarOracleD (Closed.envWith env (Closed.sidecarDict env g doc))) (env.defs.map (·.key)) doc

end HedVerif.SidecarV
