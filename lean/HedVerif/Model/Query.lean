/-
Model of the HED search-query machinery (property C15):

* `QueryHandler._tokenize`, `_parse`, `_handle_or_op`, `_handle_and_op`, `_handle_negation`,
  `_handle_grouping_op`, `_get_next_token`, `_next_token_is`      (hed/models/query_handler.py)
* `Token.__init__`, `SearchResult.merge_and_result`, `SearchResult.has_same_tags` (query_util.py)
* `Expression*.__init__`, `Expression*.handle_expr`, `ExpressionAnd.merge_and_groups`,
  `Expression._get_parent_groups`, `ExpressionExactMatch._filter_exact_matches` (query_expressions.py)
* `HedGroup.get_all_tags`, `get_all_groups`, `find_tags_with_term`, `find_exact_tags`,
  `find_wildcard_tags`, `__eq__`, `__bool__`, `__str__`; `HedTag.__eq__`        (hed_group.py, hed_tag.py)

Strings are `List Char`.  Python object identity is a `Nat` id carried by every node (the harness numbers
the objects of the real `HedString`); everything the evaluator asks a `HedTag` (its `str`, the casefolded
`str`, the casefolded `org_tag`, `tag_terms`) is carried by the node, computed by the real `HedTag`, so the
model needs no schema.

The flag `legacy` selects the code *before* the repair `fixes/C15_reject_stray_closers.diff`
(`legacy = true`: the tokenizer still emits the `[[` / `]]` tokens and the term branch wraps any token);
`parse`/`eval` without the flag are the repaired code.  Likewise `se = true` selects `has_same_tags` before
the repair `fixes/C15_same_tags_group_identity.diff` (result groups compared by equality instead of
identity).  No Mathlib imports: linked into the native driver.
-/
import HedVerif.Model.Tok

namespace HedVerif.Query

/-! ## Annotation tree -/

/-- What the evaluator reads from a `HedTag`. -/
structure TagInfo where
  id      : Nat
  /-- `str(tag)` (= `tag.short_tag`: both are the short form when the tag is in the schema, else the text) -/
  str     : Str
  /-- `str(tag).casefold()` -/
  fold    : Str
  /-- `tag.org_tag.casefold()` -/
  orgFold : Str
  /-- `tag.tag_terms` -/
  terms   : List Str
deriving Repr, Inhabited

/-- A child of a group: a tag or a group.  `isGroup` is `HedGroup.is_group` (false for the `HedString`). -/
inductive Node where
  | tag (i : TagInfo)
  | group (id : Nat) (isGroup : Bool) (kids : List Node)
deriving Repr, Inhabited

/-- A `HedString`: the root, which is always a (non-parenthesised) group. -/
structure Tree where
  id   : Nat
  kids : List Node
deriving Repr, Inhabited

def Tree.root (t : Tree) : Node := .group t.id false t.kids

namespace Node

def id : Node → Nat
  | .tag i => i.id
  | .group i _ _ => i

def kids : Node → List Node
  | .tag _ => []
  | .group _ _ ks => ks

/-- `group.is_group` -/
def isGroupFlag : Node → Bool
  | .tag _ => false
  | .group _ g _ => g

/-- `HedGroup.__bool__`: `bool(self.children)` -/
def truthy : Node → Bool
  | .tag _ => true
  | .group _ _ ks => !ks.isEmpty

mutual
/-- `str(x)`: `HedTag.__str__` / `HedGroup.__str__` -/
def str : Node → Str
  | .tag i => i.str
  | .group _ g ks => if g then '(' :: (strL ks ++ [')']) else strL ks
/-- `",".join(str(child) for child in children)` -/
def strL : List Node → Str
  | [] => []
  | k :: ks => match ks with
    | [] => str k
    | _ :: _ => str k ++ (',' :: strL ks)
end

mutual
/-- `a == b` for children of groups: `HedTag.__eq__` (identical, or equal short form, or equal casefolded
original text), `HedGroup.__eq__` (identical, or equal child lists and equal `is_group`); a tag never
equals a group. -/
def eqv : Node → Node → Bool
  | .tag a, n => match n with
    | .tag b => a.id == b.id || a.str == b.str || a.orgFold == b.orgFold
    | .group _ _ _ => false
  | .group i g ks, n => match n with
    | .tag _ => false
    | .group j h ls => i == j || (eqvL ks ls && g == h)
/-- Python list `==`: same length and elementwise `x is y or x == y` (`eqv` already starts with `is`). -/
def eqvL : List Node → List Node → Bool
  | [], ls => ls.isEmpty
  | k :: ks, ls => match ls with
    | [] => false
    | l :: ls' => eqv k l && eqvL ks ls'
end

end Node

/-- A tag with its parent group and the ancestors of that parent (nearest first). -/
structure TagHit where
  info   : TagInfo
  parent : Node
  anc    : List Node
deriving Inhabited

/-- A group with its ancestors (nearest first; `_parent` is the head). -/
structure GroupHit where
  group : Node
  anc   : List Node
deriving Inhabited

mutual
/-- tags below child `n` of group `p` (whose ancestors are `anc`), in `get_all_tags` order -/
def tagsIn (p : Node) (anc : List Node) : Node → List TagHit
  | .tag i => [⟨i, p, anc⟩]
  | .group id g ks => tagsInL (.group id g ks) (p :: anc) ks
def tagsInL (p : Node) (anc : List Node) : List Node → List TagHit
  | [] => []
  | k :: ks => tagsIn p anc k ++ tagsInL p anc ks
end

mutual
/-- groups at or below node `n` whose ancestors are `anc`, in `get_all_groups` order (pre-order) -/
def groupsIn (anc : List Node) : Node → List GroupHit
  | .tag _ => []
  | .group id g ks => ⟨.group id g ks, anc⟩ :: groupsInL (.group id g ks :: anc) ks
def groupsInL (anc : List Node) : List Node → List GroupHit
  | [] => []
  | k :: ks => groupsIn anc k ++ groupsInL anc ks
end

/-- `hed_string.get_all_tags()` with parents -/
def allTags (t : Tree) : List TagHit := tagsInL t.root [] t.kids
/-- `hed_string.get_all_groups()` (the string itself first) with parents -/
def allGroups (t : Tree) : List GroupHit := ⟨t.root, []⟩ :: groupsInL [t.root] t.kids

/-! ## Tokens -/

/-- `Token.kind` (query_util.py) -/
inductive Kind where
  | and | tag | descOpen | descClose | or | parenOpen | parenClose | neg | wildcard
  | exactOpen | exactClose | exactOpt | notInLine
deriving Repr, DecidableEq, Inhabited

structure Token where
  kind : Kind
  text : Str
deriving Repr, DecidableEq, Inhabited

/-- the `tokens` dict of `Token.__init__`, default `Token.Tag` -/
def kindOf (text : Str) : Kind :=
  if text = [','] then .and
  else if text = ['&', '&'] then .and
  else if text = ['|', '|'] then .or
  else if text = ['['] then .descOpen
  else if text = [']'] then .descClose
  else if text = ['('] then .parenOpen
  else if text = [')'] then .parenClose
  else if text = ['~'] then .neg
  else if text = ['?'] then .wildcard
  else if text = ['?', '?'] then .wildcard
  else if text = ['?', '?', '?'] then .wildcard
  else if text = ['{'] then .exactOpen
  else if text = ['}'] then .exactClose
  else if text = [':'] then .exactOpt
  else if text = ['@'] then .notInLine
  else .tag

def mkTok (text : Str) : Token := ⟨kindOf text, text⟩

/-- `[\"_\-a-zA-Z0-9/.^#\*@]` -/
def isWordChar (c : Char) : Bool :=
  let n := c.toNat
  c == '"' || c == '_' || c == '-' || (97 ≤ n && n ≤ 122) || (65 ≤ n && n ≤ 90) || (48 ≤ n && n ≤ 57)
    || c == '/' || c == '.' || c == '^' || c == '#' || c == '*' || c == '@'

/-- emit the pending run (`buf` is reversed) -/
def flush (buf : Str) : List Token :=
  match buf with
  | [] => []
  | _ :: _ => [mkTok buf.reverse]

/-- `re.findall` of the token regular expression: at each position the first alternative that matches,
characters that start no alternative are skipped.  `buf` holds the current run of word characters or of
`?` (the two classes are disjoint, a run ends where the class changes).  `skip` = the head character was
already consumed as the second character of `&&`, `||` (or of the legacy `[[`, `]]`, whose alternatives
come before `\[` and `\]` when `legacy`). -/
def tokGo (legacy : Bool) : Bool → List Char → Str → List Token
  | _, [], buf => flush buf
  | true, _ :: rest, buf => tokGo legacy false rest buf
  | false, c :: rest, buf =>
    if isWordChar c then
      match buf with
      | '?' :: _ => flush buf ++ tokGo legacy false rest [c]
      | _ => tokGo legacy false rest (c :: buf)
    else if c == '?' then
      match buf with
      | [] => tokGo legacy false rest ['?']
      | '?' :: _ => tokGo legacy false rest ('?' :: buf)
      | _ :: _ => flush buf ++ tokGo legacy false rest ['?']
    else
      flush buf ++
      (if c == '&' || c == '|' then
        if rest.head? == some c then mkTok [c, c] :: tokGo legacy true rest []
        else tokGo legacy false rest []
      else if c == '[' || c == ']' then
        if legacy && rest.head? == some c then mkTok [c, c] :: tokGo legacy true rest []
        else mkTok [c] :: tokGo legacy false rest []
      else if c == '{' || c == '}' || c == ':' || c == '(' || c == ')' || c == '~' || c == ',' then
        mkTok [c] :: tokGo legacy false rest []
      else tokGo legacy false rest [])

/-- `str.casefold` on ASCII (only `A`–`Z` change).  Non-ASCII characters are folded by the harness with the
real `str.casefold` before the text reaches the model (casefolding is a per-character map). -/
def asciiFold (s : Str) : Str :=
  s.map (fun c => if 65 ≤ c.toNat && c.toNat ≤ 90 then Char.ofNat (c.toNat + 32) else c)

def tokenizeWith (legacy : Bool) (s : Str) : List Token := tokGo legacy false s []

/-- `QueryHandler._tokenize` (repaired code) -/
def tokenize (s : Str) : List Token := tokenizeWith false s

/-! ## Expressions -/

/-- `Expression._match_mode`: falsy / truthy (`True` or `1`) / `2` -/
inductive Mode where
  | terms | exact | pref
deriving Repr, DecidableEq, Inhabited

/-- `?` any child, `??` any tag, `???` any group -/
inductive Wild where
  | any | tags | groups
deriving Repr, DecidableEq, Inhabited

/-- The expression tree built by the parser.  `exactAny r` is `{r}`, `exactNone r` is `{r:}`,
`exactOpt r l` is `{r: l}` (`optional == "none"` with `left = l`). -/
inductive Expr where
  | term (text : Str) (mode : Mode) (notInLine : Bool)
  | wild (w : Wild)
  | and (l r : Expr)
  | or (l r : Expr)
  | neg (r : Expr)
  | desc (r : Expr)
  | exactAny (r : Expr)
  | exactNone (r : Expr)
  | exactOpt (r l : Expr)
deriving Repr, DecidableEq, Inhabited

/-- `Expression.__init__` applied to a token in term position: strips a leading `@`, surrounding quotes
and `*`, and sets the match mode. -/
def mkTerm (t0 : Str) : Expr :=
  let slash := t0.contains '/'
  let nil := t0.head? == some '@'
  let t1 := if nil then t0.drop 1 else t0
  let quoted := t1.head? == some '"' && t1.getLast? == some '"' && decide (2 < t1.length)
  let t2 := if quoted then (t1.drop 1).dropLast else t1
  let star := t2.contains '*'
  let t3 := if star then t2.filter (fun c => c != '*') else t2
  .term t3 (if star then .pref else if quoted || slash then .exact else .terms) nil

namespace Expr

/-- `"?" in str(expr)`: only token texts can contribute a `?` -/
def hasQ : Expr → Bool
  | .term text _ _ => text.contains '?'
  | .wild _ => true
  | .and l r | .or l r | .exactOpt r l => hasQ l || hasQ r
  | .neg r | .desc r | .exactAny r | .exactNone r => hasQ r

/-- `"~" in str(expr)` -/
def hasTilde : Expr → Bool
  | .term text _ _ => text.contains '~'
  | .wild _ => false
  | .neg _ => true
  | .and l r | .or l r | .exactOpt r l => hasTilde l || hasTilde r
  | .desc r | .exactAny r | .exactNone r => hasTilde r

end Expr

/-! ## Parser -/

/-- Every `raise ValueError(...)` site of the parser; `fuel` is the model's own recursion bound and is
proved unreachable (`C15.parse_total`). -/
inductive ParseErr where
  | nextToken      -- "Parse error in get next token"
  | trailing       -- "Parse error in search string"
  | missingParen | missingBracket | missingCurly
  | negWildcard    -- "Cannot negate wildcards ..."
  | negInExact     -- "Cannot use negation in exact matching groups ..."
  | unexpected     -- (repair) a grouping / operator token where a term is expected
  | fuel
deriving Repr, DecidableEq, Inhabited

abbrev PRes := Except ParseErr (Expr × List Token)

/-- the term branch of `_handle_grouping_op` for the token `t` just taken by `_get_next_token` -/
def termOf (legacy : Bool) (t : Token) : Except ParseErr Expr :=
  if t.kind = .wildcard then
    .ok (.wild (if t.text = ['?'] then .any else if t.text = ['?', '?'] then .tags else .groups))
  else if t.kind = .tag || legacy then .ok (mkTerm t.text)
  else .error .unexpected

/-- `_next_token_is([Token.ExactMatchEnd])`: the rest after a `}` if one is next -/
def takeClose (ts : List Token) : Option (List Token) :=
  match ts with
  | [] => none
  | d :: r => if d.kind = .exactClose then some r else none

/-- the end of the `:` branch: the `~` check, then the missing-`}` check -/
def closeOf (ex : Expr) (r : Option (List Token)) : PRes :=
  if ex.hasTilde then .error .negInExact
  else match r with
    | none => .error .missingCurly
    | some r' => .ok (ex, r')

/-- the code of the `{` branch after the interior `e` has been parsed and a `:` was taken:
`rest` are the tokens after the `:`; `sub` parses an or-expression. -/
def afterColon (sub : List Token → PRes) (e : Expr) (rest : List Token) : PRes :=
  match takeClose rest with
  | some r3 => closeOf (.exactNone e) (some r3)
  | none =>
    match sub rest with
    | .error x => .error x
    | .ok (l, r3) => closeOf (.exactOpt e l) (takeClose r3)

mutual
/-- `_handle_or_op` -/
def pOr (legacy : Bool) : Nat → List Token → PRes
  | 0, _ => .error .fuel
  | f + 1, ts =>
    match pAnd legacy f ts with
    | .error x => .error x
    | .ok (e, r) => pOrLoop legacy f e r
/-- the `while next_token:` loop of `_handle_or_op` -/
def pOrLoop (legacy : Bool) : Nat → Expr → List Token → PRes
  | 0, _, _ => .error .fuel
  | f + 1, e, ts =>
    match ts with
    | [] => .ok (e, ts)
    | t :: r =>
      if t.kind = .or then
        match pAnd legacy f r with
        | .error x => .error x
        | .ok (e2, r2) => pOrLoop legacy f (.or e e2) r2
      else .ok (e, ts)
/-- `_handle_and_op` -/
def pAnd (legacy : Bool) : Nat → List Token → PRes
  | 0, _ => .error .fuel
  | f + 1, ts =>
    match pNeg legacy f ts with
    | .error x => .error x
    | .ok (e, r) => pAndLoop legacy f e r
def pAndLoop (legacy : Bool) : Nat → Expr → List Token → PRes
  | 0, _, _ => .error .fuel
  | f + 1, e, ts =>
    match ts with
    | [] => .ok (e, ts)
    | t :: r =>
      if t.kind = .and then
        match pNeg legacy f r with
        | .error x => .error x
        | .ok (e2, r2) => pAndLoop legacy f (.and e e2) r2
      else .ok (e, ts)
/-- `_handle_negation` -/
def pNeg (legacy : Bool) : Nat → List Token → PRes
  | 0, _ => .error .fuel
  | f + 1, ts =>
    match ts with
    | [] => pGroup legacy f ts
    | t :: r =>
      if t.kind = .neg then
        match pGroup legacy f r with
        | .error x => .error x
        | .ok (e, r2) => if e.hasQ then .error .negWildcard else .ok (.neg e, r2)
      else pGroup legacy f ts
/-- `_handle_grouping_op` -/
def pGroup (legacy : Bool) : Nat → List Token → PRes
  | 0, _ => .error .fuel
  | f + 1, ts =>
    match ts with
    | [] => .error .nextToken
    | t :: r =>
      if t.kind = .parenOpen then
        match pOr legacy f r with
        | .error x => .error x
        | .ok (e, r1) =>
          match r1 with
          | [] => .error .missingParen
          | c :: r2 => if c.kind = .parenClose then .ok (e, r2) else .error .missingParen
      else if t.kind = .descOpen then
        match pOr legacy f r with
        | .error x => .error x
        | .ok (e, r1) =>
          match r1 with
          | [] => .error .missingBracket
          | c :: r2 => if c.kind = .descClose then .ok (.desc e, r2) else .error .missingBracket
      else if t.kind = .exactOpen then
        match pOr legacy f r with
        | .error x => .error x
        | .ok (e, r1) =>
          match r1 with
          | [] => .error .missingCurly
          | c :: r2 =>
            if c.kind = .exactClose then .ok (.exactAny e, r2)
            else if c.kind = .exactOpt then afterColon (pOr legacy f) e r2
            else .error .missingCurly
      else
        match termOf legacy t with
        | .error x => .error x
        | .ok e => .ok (e, r)
end

/-- enough for every token list (`C15.fuel_enough`) -/
def fuelFor (ts : List Token) : Nat := 6 * ts.length + 6

/-- `_parse` on the token list -/
def parseToks (legacy : Bool) (ts : List Token) : Except ParseErr Expr :=
  match pOr legacy (fuelFor ts) ts with
  | .error x => .error x
  | .ok (e, r) => if r.isEmpty then .ok e else .error .trailing

def parseWith (legacy : Bool) (s : Str) : Except ParseErr Expr :=
  parseToks legacy (tokenizeWith legacy (asciiFold s))

/-- `QueryHandler(s)` (repaired code): the expression tree or the `ValueError` -/
def parse (s : Str) : Except ParseErr Expr := parseWith false s

/-! ## Evaluation -/

/-- `SearchResult`: `group`, `tags` (children of `group`: tags or groups); `anc` = ancestors of `group`
so that `group._parent` is `anc.head?`. -/
structure Result where
  group : Node
  anc   : List Node
  tags  : List Node
deriving Inhabited

/-- Python `<` on `str` (code points, lexicographic) -/
def strLt : Str → Str → Bool
  | [], [] => false
  | [], _ :: _ => true
  | _ :: _, [] => false
  | a :: as, b :: bs => if a.toNat < b.toNat then true else if b.toNat < a.toNat then false else strLt as bs

/-- insert before the first element that is not smaller (keeps earlier elements first among equals) -/
def insertByStr (x : Node) : List Node → List Node
  | [] => [x]
  | y :: ys => if strLt y.str x.str then y :: insertByStr x ys else x :: y :: ys

/-- `list.sort(key=str)`: stable, ascending -/
def sortByStr : List Node → List Node
  | [] => []
  | x :: xs => insertByStr x (sortByStr xs)

def hasId (l : List Node) (i : Nat) : Bool := l.any (fun n => n.id == i)

/-- `SearchResult.has_same_tags`: same group, same tags by identity.  With `se` (the code before the repair
`fixes/C15_same_tags_group_identity.diff`) the groups are compared with `!=`, i.e. by *equality*
(`HedGroup.__eq__`); the repaired code (`se = false`) compares them by identity like the tags. -/
def sameTags (se : Bool) (a b : Result) : Bool :=
  (if se then Node.eqv a.group b.group else a.group.id == b.group.id)
    && a.tags.length == b.tags.length
    && (a.tags.map Node.id == b.tags.map Node.id)

/-- `SearchResult.merge_and_result` -/
def mergeRes (a b : Result) : Result :=
  ⟨a.group, a.anc, sortByStr (a.tags ++ b.tags.filter (fun t => !hasId a.tags t.id))⟩

/-- body of the inner loop of `merge_and_groups` -/
def mergeStep (se : Bool) (a : Result) (acc : List Result) (b : Result) : List Result :=
  if a.group.id == b.group.id then
    if a.tags.any (fun t => hasId b.tags t.id) then acc
    else
      let m := mergeRes a b
      if acc.any (fun f => sameTags se m f) then acc else acc ++ [m]
  else acc

/-- `ExpressionAnd.merge_and_groups` -/
def mergeAnd (se : Bool) (g1 g2 : List Result) : List Result :=
  g1.foldl (fun acc a => g2.foldl (mergeStep se a) acc) []

/-- `ExpressionOr.handle_expr` after both sides are evaluated -/
def mergeOr (se : Bool) (g1 g2 : List Result) : List Result :=
  g1.filter (fun a => !g2.any (fun b => sameTags se a b)) ++ g2

/-- The `while group:` loop of `Expression.handle_expr`: the containing group and every ancestor,
each with the node below it as its tag. -/
def chain (child : Node) : List Node → List Result
  | [] => []
  | g :: anc => if g.truthy then ⟨g, anc, [child]⟩ :: chain g anc else []

/-- the same loop started from `([], group)` (the `@term` case) -/
def chain0 (g : Node) (anc : List Node) : List Result :=
  if g.truthy then ⟨g, anc, []⟩ :: chain g anc else []

/-- the three `find_*` predicates -/
def tagMatches (text : Str) : Mode → TagInfo → Bool
  | .terms, i => i.terms.contains text
  | .exact, i => i.fold == text
  | .pref, i => text.isPrefixOf i.fold

/-- `Expression.handle_expr` -/
def termResults (t : Tree) (text : Str) (mode : Mode) (nil exact : Bool) : List Result :=
  let found := (allTags t).filter (fun h => tagMatches text mode h.info)
  if nil then
    if !found.isEmpty then []
    else if exact then (allGroups t).map (fun g => ⟨g.group, g.anc, []⟩)
    else (allGroups t).flatMap (fun g => chain0 g.group g.anc)
  else if exact then found.map (fun h => ⟨h.parent, h.anc, [.tag h.info]⟩)
  else found.flatMap (fun h => chain (.tag h.info) (h.parent :: h.anc))

/-- `ExpressionWildcardNew.handle_expr` -/
def wildResults (t : Tree) (w : Wild) : List Result :=
  (allGroups t).flatMap (fun g =>
    (g.group.kids.filter (fun k => match w, k with
        | .any, _ => true
        | .tags, .tag _ => true
        | .tags, .group _ _ _ => false
        | .groups, .tag _ => false
        | .groups, .group _ _ _ => true)).map (fun k => ⟨g.group, g.anc, [k]⟩))

/-- `ExpressionNegation.handle_expr` -/
def negResults (t : Tree) (found : List Result) : List Result :=
  ((allGroups t).filter (fun g => !found.any (fun r => r.group.id == g.group.id))).map
    (fun g => ⟨g.group, g.anc, []⟩)

/-- `Expression._get_parent_groups` -/
def parents (rs : List Result) : List Result :=
  rs.filterMap (fun r =>
    if !r.group.isGroupFlag then none
    else match r.anc with
      | [] => none
      | p :: rest => if p.truthy then some ⟨p, rest, [r.group]⟩ else none)

/-- `ExpressionExactMatch._filter_exact_matches` -/
def filterExact (rs : List Result) : List Result :=
  rs.filter (fun r => r.group.kids.length == r.tags.length)

/-- `expr.handle_expr(hed_string, exact)` -/
def evalE (se : Bool) (t : Tree) : Expr → Bool → List Result
  | .term text mode nil, exact => termResults t text mode nil exact
  | .wild w, _ => wildResults t w
  | .and l r, exact =>
    let g1 := evalE se t l exact
    if g1.isEmpty then [] else mergeAnd se g1 (evalE se t r exact)
  | .or l r, exact => mergeOr se (evalE se t l exact) (evalE se t r exact)
  | .neg r, exact => negResults t (evalE se t r exact)
  | .desc r, _ => parents (evalE se t r false)
  | .exactAny r, _ => parents (evalE se t r true)
  | .exactNone r, _ =>
    let filt := filterExact (evalE se t r true)
    if !filt.isEmpty then parents filt else []
  | .exactOpt r l, _ =>
    let found := evalE se t r true
    let filt := filterExact found
    if !filt.isEmpty then parents filt
    else
      let filt2 := filterExact (mergeAnd se found (evalE se t l true))
      if !filt2.isEmpty then parents filt2 else []

/-- `QueryHandler.search(hed_string)`; `se` = the code before the repair of `has_same_tags` -/
def evalWith (se : Bool) (q : Expr) (t : Tree) : List Result := evalE se t q false

/-- `bool(QueryHandler.search(hed_string))` -/
def isMatchWith (se : Bool) (q : Expr) (t : Tree) : Bool := !(evalWith se q t).isEmpty

/-- the repaired code -/
def eval (q : Expr) (t : Tree) : List Result := evalWith false q t

def isMatch (q : Expr) (t : Tree) : Bool := isMatchWith false q t

/-! ## Batch interface (hed/models/query_service.py) -/

/-- `HedString.__bool__` of a search object -/
def Tree.truthy (t : Tree) : Bool := !t.kids.isEmpty

/-- `get_query_handlers(queries, query_names)`: `none` for an empty query list (the function returns
`None, None, [issue]`), else the handlers (`none` where `QueryHandler(query)` raised), the names and the
number of issues.  `names = none` is `query_names=None`/empty. -/
def getHandlers (queries : List Str) (names : Option (List Str)) :
    Option (List (Option Expr) × List Str × Nat) :=
  if queries.isEmpty then none
  else
    let nm : List Str := match names with
      | some ns => if ns.isEmpty then (List.range queries.length).map (fun i => "query_".toList ++ (toString i).toList) else ns
      | none => (List.range queries.length).map (fun i => "query_".toList ++ (toString i).toList)
    let nameIssue : Nat :=
      if queries.length != nm.length then 1
      else if nm.eraseDups.length != nm.length then 1 else 0
    let hs := queries.map (fun q => match parse q with | .ok e => some e | .error _ => none)
    some (hs, nm, nameIssue + (hs.filter (fun h => h.isNone)).length)

/-- one cell of the factor table of `search_hed_objs`: starts at 0, set to 1 when the object is truthy and
the query matches it -/
def cellOf (se : Bool) (q : Expr) (o : Tree) : Nat :=
  if o.truthy then (if isMatchWith se q o then 1 else 0) else 0

/-- the cells that the double loop `for parser in queries: for obj in hed_objs: if obj: if parser.search(obj):
df.at[index, name] = 1` of `search_hed_objs` sets, as (row, column), in loop order -/
def setOps (se : Bool) (objs : List Tree) (queries : List Expr) : List (Nat × Nat) :=
  (List.range queries.length).flatMap (fun j =>
    (List.range objs.length).filterMap (fun i =>
      match objs[i]?, queries[j]? with
      | some o, some q => if o.truthy && isMatchWith se q o then some (i, j) else none
      | _, _ => none))

/-- `search_hed_objs(hed_objs, queries, query_names)` (distinct names): the `DataFrame` of zeros with the
cells of `setOps` set to 1, as rows (one per object) of cells (one per query). -/
def searchObjs (se : Bool) (objs : List Tree) (queries : List Expr) : List (List Nat) :=
  (List.range objs.length).map (fun i =>
    (List.range queries.length).map (fun j => if (setOps se objs queries).contains (i, j) then 1 else 0))

end HedVerif.Query
