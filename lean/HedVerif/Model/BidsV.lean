/-
Dataset-level validation and the command-line validator (layer `Bids`, property C16), on top of
`Model/Bids.lean` (discovery, inheritance merge), `Model/SidecarV.lean` (C08: sidecar validation) and
`Model/Tabular.lean` (C07: file layer of table validation):

* `BidsFileGroup.validate_sidecars / validate_datafiles`, `BidsDataset.__init__ / validate`
* `hed/scripts/hed_validator.py: main / validate_dataset`

What the HED string layer says enters through the oracles of the two imported models; how
`TabularInput(file, sidecar)` assembles a table from a file and a merged sidecar enters as `Oracles.table`
(layer `Assemble`, C06).  `check_for_warnings=False` is modelled as dropping the warnings from the issue
list (`filterSev`; the harness checks this against the real `ErrorHandler(check_for_warnings)`).
The text of the report is not modelled, only where it goes and which issues it is given.  In the tree as
found the two json formats pass the issue dicts (which hold `HedTag` objects for tag-level issues) to
`json.dumps` and end in a `TypeError` (process status 1, no report): outside this model, recorded by the
harness, repaired by `fixes/C16_cli_json_default_str.diff`.
No Mathlib: linked into the native driver.
-/
import HedVerif.Model.Bids
import HedVerif.Model.SidecarV
import HedVerif.Model.Tabular
import HedVerif.Generated.C16Defaults

namespace HedVerif.Bids
open HedVerif.Generated

abbrev SJson := SidecarV.Json

/-- `SidecarV.validate` after `load`: `li` = the load issues of the `Sidecar` object (one
`WRONG_HED_DATA_TYPE` per chain member that is not a JSON object), `src` = `loaded_dict` -/
def validateLoaded (g : SidecarV.Guards) (O : SidecarV.Oracle) (li : List SidecarV.Issue)
    (src : List (Str × SJson)) : Except SidecarV.Exn (List SidecarV.Issue) :=
  match SidecarV.structureIssues li src with
  | .error x => .error x
  | .ok sIss =>
  match SidecarV.columnData src with
  | .error x => .error x
  | .ok cols =>
  match SidecarV.refIssues g cols with
  | .error x => .error x
  | .ok rIss =>
  if SidecarV.anyError (sIss ++ rIss) then .ok (sIss ++ rIss)
  else
  match SidecarV.columnRefs g cols with
  | .error x => .error x
  | .ok allRefCols =>
  match SidecarV.refsStringsOf g cols with
  | .error x => .error x
  | .ok refsStrings =>
  match SidecarV.mapE (SidecarV.columnIssues g O refsStrings allRefCols) cols with
  | .error x => .error x
  | .ok ls => .ok (sIss ++ rIss ++ O.defIssues ++ ls.flatten)

inductive DIssue where
  | sidecar (file : Path) (i : SidecarV.Issue)
  | table (file : Path) (i : Tabular.Issue)
deriving DecidableEq

/-- the file an issue is labelled with (`ErrorContext.FILE_NAME` = its base name) -/
def DIssue.file : DIssue → Path
  | .sidecar f _ => f
  | .table f _ => f

def DIssue.isError : DIssue → Bool
  | .sidecar _ i => i.isError
  | .table _ i => decide (i.sev < C08.sevWarning)

inductive DExn where
  | sidecar (file : Path) (e : SidecarV.Exn)
  | table (file : Path) (e : Tabular.PyExc)

def tagE (f : β → γ) (h : ε → ε') : Except ε (List β) → Except ε' (List γ)
  | .ok l => .ok (l.map f)
  | .error e => .error (h e)

/-- `issues += f(x)` over a list of calls: the first one that raises ends the run -/
def seqE : List (Except ε (List β)) → Except ε (List β)
  | [] => .ok []
  | .error e :: _ => .error e
  | .ok l :: r => match seqE r with
    | .error e => .error e
    | .ok l' => .ok (l ++ l')

/-- the string layer and the table assembly, as functions of the merged sidecar -/
structure Oracles where
  /-- `SidecarV.Oracle` for the merged document (its strings, definitions) -/
  sidecar : Columns SJson → SidecarV.Oracle
  /-- `TabularInput(file, sidecar=merged or None)` as the input of `Tabular.validate` -/
  table : PFile SJson → Option (Columns SJson) → Tabular.Cfg × List Tabular.Row

def wrongTop : SidecarV.Issue := SidecarV.mk .wrongType none none

/-- `SidecarValidator.validate(sidecar.contents, name=basename)` for one sidecar object -/
def sidecarIssues (W : Oracles) (g : Group SJson) (s : PFile SJson) : Except SidecarV.Exn (List SidecarV.Issue) :=
  validateLoaded .fixed (W.sidecar (mergeImpl g s)) (List.replicate (loadIssueCount g s) wrongTop) (mergeImpl g s)

/-- `data_obj.contents.validate(...)` with `contents = TabularInput(file, sidecar=merged)` -/
def tableIssues (W : Oracles) (g : Group SJson) (d : PFile SJson) : Except Tabular.PyExc (List Tabular.Issue) :=
  let a := W.table d (if hasSidecar g d then some (mergeImpl g d) else none)
  Tabular.validate a.1 a.2

/-- one file group of `BidsDataset.validate`: `validate_sidecars` then `validate_datafiles` -/
def groupValidate (W : Oracles) (g : Group SJson) : Except DExn (List DIssue) :=
  seqE ((g.sidecars.map fun s => tagE (DIssue.sidecar s.path) (DExn.sidecar s.path) (sidecarIssues W g s)) ++
        (g.datafiles.map fun d => tagE (DIssue.table d.path) (DExn.table d.path) (tableIssues W g d)))

/-- `ErrorHandler(check_for_warnings)` -/
def filterSev (cfw : Bool) (l : List DIssue) : List DIssue := if cfw then l else l.filter DIssue.isError

inductive RunExn where
  | fileError (e : PErr)
  | validation (e : DExn)

/-- `BidsDataset(root, tabular_types=types, exclude_dirs=excl)`: one group per type, all built first -/
def loadAll (t : Tree SJson) (excl : List Str) : List Str → Except PErr (List (Group SJson))
  | [] => .ok []
  | sfx :: r => match load t excl sfx with
    | .error e => .error e
    | .ok g => match loadAll t excl r with
      | .error e => .error e
      | .ok gs => .ok (g :: gs)

/-- `BidsDataset(...).validate(check_for_warnings=cfw)` -/
def datasetValidate (W : Oracles) (t : Tree SJson) (excl types : List Str) (cfw : Bool) :
    Except RunExn (List DIssue) :=
  match loadAll t excl types with
  | .error e => .error (.fileError e)
  | .ok gs => match seqE (gs.map (groupValidate W)) with
    | .error e => .error (.validation e)
    | .ok l => .ok (filterSev cfw l)

/-! ### command line -/

inductive Fmt where
  | text | json | jsonPp
deriving DecidableEq, Repr

/-- the parsed arguments of `hed_validator` (`dataset_path` is the tree itself) -/
structure CliArgs where
  format : Fmt := .text
  outputFile : Option Str := none
  checkForWarnings : Bool := false

inductive Dest where
  | stdout
  | file (name : Str)
deriving DecidableEq, Repr

structure CliResult where
  /-- `return int(bool(issue_list))` -/
  exit : Nat
  /-- where the report goes: `-o` file, else the screen -/
  dest : Dest
  /-- the list handed to the formatter (`"issues"` of the json formats) -/
  issues : List DIssue

/-- `hed_validator.main()`: `BidsDataset(path)` with all defaults (the CLI has no option for excluded
directories or suffixes: `C16.cliDatasetKeywords = []`), `validate(check_for_warnings=flag)` -/
def cliMain (W : Oracles) (t : Tree SJson) (a : CliArgs) : Except RunExn CliResult :=
  match datasetValidate W t C16.datasetExcludeDirs C16.datasetTabularTypes a.checkForWarnings with
  | .error e => .error e
  | .ok l => .ok ⟨exitCode l, (match a.outputFile with | some f => if f.isEmpty then .stdout else .file f | none => .stdout), l⟩

end HedVerif.Bids
