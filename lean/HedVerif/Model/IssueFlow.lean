/-
C12, composition layer: WHERE `check_for_warnings` acts in the three validation entry points, on top of the models of
the string validator (`Validate`, C01), the file layer (`Tabular`, C07) and the sidecar layer (`SidecarV`, C08), which
themselves describe the run with warnings kept.

`ErrorHandler(check_for_warnings=False)` acts at exactly two kinds of places:
  * `add_context_and_filter(issues)`     : `issues[:] = filter_issues_by_severity(issues, ERROR)` (in place)
  * `format_error_with_context(...)`     : returns `[]` for an issue of severity >= WARNING
Control-flow decisions that look at an issue list (all are `check_for_any_errors`, i.e. "some severity < WARNING"):
  G1  `HedValidator.run_basic_checks`   after `_run_hed_string_validators`        — list NOT yet filtered
  G2  `HedValidator.run_basic_checks`   after `_calculate_to_canonical_forms`     — list NOT yet filtered
  G3  `HedValidator.validate`           after the first `add_context_and_filter`  — filtered list
  G4  `SpreadsheetValidator._run_checks` `check_for_any_errors(new_column_issues)` — the LAST looked-at cell's
      list, after `add_context_and_filter` filtered it in place (row skipped, row marked invalid)
  G5  `SidecarValidator.validate`       after structure + reference checks         — filtered lists
G1/G2 are inside `Validate.basicP`; G3, G4, G5 are restated here with the filter in front of them.
The only issues that reach the output WITHOUT passing a filter: `sidecar._extract_definition_issues` and
`sidecar_def_dict.issues` in `SidecarValidator.validate` (`Oracle.defIssues`).

No Mathlib (linked into the driver).
-/
import HedVerif.Model.Closed
import HedVerif.Model.Issue

namespace HedVerif.Flow
open HedVerif

/-! ### string level: `HedValidator.validate(hed_string, allow_placeholders, error_handler)` -/

/-- the filtering half of `add_context_and_filter` -/
def keepV (w : Bool) (l : List Validate.Issue) : List Validate.Issue := if w then l else Validate.errors l

/-- `HedValidator.validate` with an `ErrorHandler(check_for_warnings=w)`; the second `add_context_and_filter`
runs over the whole (already filtered) list again -/
def validateWP (w : Bool) (env : Validate.Env) (ph : Bool) (text : Str) (p : Validate.Parsed) : List Validate.Issue :=
  let b := keepV w (Validate.basicP env ph text p)
  if Validate.hasError b then b else keepV w (b ++ Validate.fullIssues env text.length p)

def validateW (w : Bool) (env : Validate.Env) (ph : Bool) (text : Str) : List Validate.Issue :=
  validateWP w env ph text (Validate.parse env text)

/-- the issue dictionary as layer `Issue` sees it: `source_tag`'s span, `index_in_tag`, `index_in_tag_end` -/
def toIssue (i : Validate.Issue) : Issue.Issue :=
  { code := i.code, severity := i.sev, span := i.span, idx := i.sub.map (·.1), idxEnd := i.sub.map (·.2) }

/-- the issues of `validate` under a handler holding the HED_STRING context: `char_index`, `char_index_end` set by
`_update_error_with_char_pos` -/
def located (w : Bool) (env : Validate.Env) (ph : Bool) (text : Str) : List Issue.Issue :=
  (validateW w env ph text).map fun i => Issue.updateCharPos true (toIssue i)

/-! ### file level: `SpreadsheetValidator.validate(data, error_handler=ErrorHandler(check_for_warnings=w))` -/
namespace Tab
open HedVerif.Tabular

def isErr (i : Tabular.Issue) : Bool := decide (i.sev < 10)
def keepR (w : Bool) (l : List RIssue) : List RIssue := if w then l else l.filter RIssue.isError
def keepI (w : Bool) (l : List Tabular.Issue) : List Tabular.Issue := if w then l else l.filter isErr

/-- `_run_checks`, one row.  `gate` is the test applied to `new_column_issues` (the code: `check_for_any_errors`,
i.e. `Tabular.anyError`); the list it sees was filtered in place by `add_context_and_filter`.  The cells' lists are
filtered one by one in the code, which is the filter of their concatenation. -/
def checkRowW (gate : List RIssue → Bool) (w : Bool) (cfg : Cfg) (onsetLike : Bool) (p : Nat) (r : Row) : RowRes :=
  if gate (keepR w (lastCellIssues cfg r)) then ⟨keepI w (cellIssues cfg p r), true⟩
  else if (live cfg r).isEmpty || onsetLike then ⟨keepI w (cellIssues cfg p r), false⟩
  else
    let s := rowText cfg r
    ⟨keepI w (cellIssues cfg p r) ++
      keepI w ((cfg.o.full s ++ cfg.o.banned s).map (fun e => mk e (some p) none s (.row p))), false⟩

def reachesW (gate : List RIssue → Bool) (w : Bool) (cfg : Cfg) (r : Row) : Bool :=
  !gate (keepR w (lastCellIssues cfg r)) && !(live cfg r).isEmpty

def rowPhaseW (gate : List RIssue → Bool) (w : Bool) (cfg : Cfg) (onsetLike : Nat × Row → Bool) (R : List Row) :
    List RowRes :=
  (enumF 0 R).map fun pr => checkRowW gate w cfg (onsetLike pr) pr.1 pr.2

def coreW (gate : List RIssue → Bool) (w : Bool) (cfg : Cfg) (onsetLike : Nat × Row → Bool) (R : List Row) :
    List Tabular.Issue :=
  let rr := rowPhaseW gate w cfg onsetLike R
  rr.flatMap (·.issues) ++
    (if cfg.hasOnset then keepI w (pointPass cfg (invalidRows rr) (timeFrame cfg R)) else [])

def assembleW (gate : List RIssue → Bool) (w : Bool) (cfg : Cfg) (T : List Row) (onsetLike : Nat × Row → Bool) :
    List Tabular.Issue :=
  let F := frame cfg T
  sortIssues (keepI w (structIssues cfg T) ++ keepI w (unorderedIssues cfg T) ++
    (coreW gate w cfg onsetLike (F.map (·.2))).map (relabel (F.map (·.1)) cfg.rowAdj))

def validateW (gate : List RIssue → Bool) (w : Bool) (cfg : Cfg) (T : List Row) : Except PyExc (List Tabular.Issue) :=
  let F := frame cfg T
  let labs := F.map (·.1)
  let R := F.map (·.2)
  if cfg.hasOnset then
    match delayExc cfg R with
    | some e => .error e
    | none =>
      let tf := timeFrame cfg R
      let maskLen := tf.length + (R.filter (·.onset.isNone)).length
      let lab := fun (p : Nat) => labs[p]?.getD 0
      if !cfg.maskByRow && (enumF 0 R).any (fun pr => reachesW gate w cfg pr.2 && decide (maskLen ≤ lab pr.1)) then
        .error .indexError
      else
        .ok (assembleW gate w cfg T fun pr =>
          if cfg.maskByRow then pr.2.onset.isSome else decide (lab pr.1 < tf.length))
  else
    .ok (assembleW gate w cfg T fun _ => false)

/-- the file validator with `HedValidator` = the model `Validate` and a handler with `check_for_warnings = w` -/
def validateClosedW (w : Bool) (env : Validate.Env) (kBanned : RIssue) (cfg : Cfg) (T : List Row) :
    Except PyExc (List Tabular.Issue) :=
  validateW anyError w (Closed.closeCfg env kBanned cfg) T

/-- the seeded change `if new_column_issues:` as a gate -/
def gateNonEmpty (l : List RIssue) : Bool := !l.isEmpty

end Tab

/-! ### sidecar level: `SidecarValidator.validate(sidecar, error_handler=ErrorHandler(check_for_warnings=w))` -/
namespace Sc
open HedVerif.SidecarV

def keepS (w : Bool) (l : List SidecarV.Issue) : List SidecarV.Issue := if w then l else l.filter SidecarV.Issue.isError

/-- every list goes through `add_context_and_filter` or is built by `format_error_with_context` (filters of the
parts = filter of the concatenation), except `defIssues`; the early exit (G5) sees the filtered lists -/
def validateW (w : Bool) (g : Guards) (O : Oracle) (doc : Json) : Except Exn (List SidecarV.Issue) :=
  match load g doc with
  | .error x => .error x
  | .ok (li, src) =>
  match structureIssues li src with
  | .error x => .error x
  | .ok sIss =>
  match columnData src with
  | .error x => .error x
  | .ok cols =>
  match refIssues g cols with
  | .error x => .error x
  | .ok rIss =>
  if anyError (keepS w (sIss ++ rIss)) then .ok (keepS w (sIss ++ rIss))
  else
  match columnRefs g cols with
  | .error x => .error x
  | .ok allRefCols =>
  match refsStringsOf g cols with
  | .error x => .error x
  | .ok refsStrings =>
  match mapE (columnIssues g O refsStrings allRefCols) cols with
  | .error x => .error x
  | .ok ls => .ok (keepS w (sIss ++ rIss) ++ O.defIssues ++ keepS w ls.flatten)

def validateClosedW (w : Bool) (env : Validate.Env) (g : Guards) (doc : Json) : Except Exn (List SidecarV.Issue) :=
  validateW w g (Closed.sidecarOracle env) doc

end Sc

end HedVerif.Flow
