/-
Model of the BIDS inheritance machinery of hed-python (layer `Bids`, property C16):

* `hed/tools/util/io_util.py`   : `check_filename`, `get_file_list`, `get_dir_dictionary` (discovery with
  pruning of excluded directory *names*), `parse_bids_filename`, `_split_entity`, `get_path_components`
* `hed/tools/bids/bids_file.py` : `BidsFile.__init__` (suffix, entity dictionary)
* `hed/tools/bids/bids_sidecar_file.py` : `BidsSidecarFile.is_sidecar_for`
* `hed/tools/bids/bids_file_group.py`   : `BidsFileGroup.__init__`, `get_sidecars_from_path`,
  `_get_sidecar_for_obj`, `validate_sidecars`, `validate_datafiles`
* `hed/models/sidecar.py`       : `Sidecar.load_sidecar_files` (`dict.update` in list order)
* `hed/tools/bids/bids_dataset.py` : `BidsDataset.validate`;  `hed/scripts/hed_validator.py` : `main`

A dataset is a directory tree `Dir` (files and sub-directories in `os.scandir` order); its flat listing
`Dir.listing : List (Path × Option (Columns α))` is in `os.walk` order; a path is the list of components
below the dataset root, the last one being the file name.  The second component is the parsed top-level
JSON object of a `.json` file (`none` if it is not an object; ignored for other files).  Names are `List Char` (ASCII lower-casing and
ASCII `strip`; the harness generates ASCII names only).  No Mathlib: linked into the native driver.
-/
import HedVerif.Model.Tok

namespace HedVerif.Bids

abbrev Path := List Str

/-! ### column dictionaries (`dict.update`) -/

/-- a JSON object / Python dict as the sequence of its items; later items win (`dict(pairs)`) -/
abbrev Columns (α : Type) := List (Str × α)

/-- `d.get(k)` : the last item with key `k` -/
def getCol (k : Str) : Columns α → Option α
  | [] => none
  | (k', v) :: r => match getCol k r with
    | some x => some x
    | none => if k' = k then some v else none

def hasKey (k : Str) : Columns α → Bool
  | [] => false
  | (k', _) :: r => k' == k || hasKey k r

def setAll (k : Str) (v : α) : Columns α → Columns α
  | [] => []
  | (k', v') :: r => (if k' = k then (k, v) else (k', v')) :: setAll k v r

/-- `d[k] = v` : replace in place if present (position kept), else append -/
def upd1 (m : Columns α) (kv : Str × α) : Columns α :=
  if hasKey kv.1 m then setAll kv.1 kv.2 m else m ++ [kv]

/-- `m.update(n)` -/
def update (m n : Columns α) : Columns α := n.foldl upd1 m

/-- `Sidecar.load_sidecar_files(files)`: `merged = {}; for f in files: merged.update(load(f))` -/
def mergeCols (l : List (Columns α)) : Columns α := l.foldl update []

/-! ### file names -/

def lower (s : Str) : Str := s.map Char.toLower

/-- ASCII part of Python's `str.isspace` -/
def isWs (c : Char) : Bool :=
  c == ' ' || c == '\t' || c == '\n' || c == '\r' || c.toNat == 11 || c.toNat == 12 ||
  (28 ≤ c.toNat && c.toNat ≤ 31)

def strip (s : Str) : Str := ((s.dropWhile isWs).reverse.dropWhile isWs).reverse

/-- `s.split(c)` (never empty) -/
def splitOn (c : Char) : Str → List Str
  | [] => [[]]
  | x :: xs =>
    if x = c then [] :: splitOn c xs
    else match splitOn c xs with
      | [] => [[x]]
      | h :: t => (x :: h) :: t

def endsWith (s suf : Str) : Bool := suf.reverse.isPrefixOf s.reverse

/-- `os.path.splitext(name)`: split at the last dot unless only dots precede it -/
def splitExt (name : Str) : Str × Str :=
  let r := name.reverse
  let extR := r.takeWhile (· != '.')
  if extR.length = r.length then (name, [])          -- no dot
  else
    let stem := (r.drop (extR.length + 1)).reverse
    if stem.all (· == '.') then (name, [])            -- leading dots only
    else (stem, '.' :: extR.reverse)

/-- the filter arguments of `check_filename` / `get_file_list` / `get_dir_dictionary`
(`name_prefix`, `name_suffix`, `extensions` as lists); `[]` stands for `None`/empty = accept all -/
structure NameFilter where
  prefixes : List Str := []
  suffixes : List Str := []
  exts : List Str := []

/-- `get_allowed(value, allowed, starts_with)` for a non-empty `allowed`: the first allowed value
(lower-cased, in list order) that the lower-cased value starts / ends with.  The callers test the
*truthiness* of the result, so a matching empty string counts as no match (`accepted`). -/
def getAllowed (value : Str) (allowed : List Str) (starts : Bool) : Option Str :=
  (allowed.map lower).find? fun a => if starts then a.isPrefixOf (lower value) else endsWith (lower value) a

def accepted : Option Str → Bool
  | some a => !a.isEmpty
  | none => false

/-- `check_filename(name, name_prefix, name_suffix, extensions)`: everything lower-cased; the prefix is
tested on the whole name, the *first* matching extension is cut off (`os.path.splitext` if no
extensions are given), the suffix is an *ends-with* test on the rest (`x_myevents.json` is picked up
for `events`). -/
def checkFilename (f : NameFilter) (name : Str) : Bool :=
  let b := lower name
  if !(f.prefixes.isEmpty || accepted (getAllowed b f.prefixes true)) then false
  else
    let stem : Option Str :=
      if f.exts.isEmpty then some (splitExt b).1
      else match getAllowed b f.exts false with
        | some e => if e.isEmpty then none else some (b.take (b.length - e.length))
        | none => none
    match stem with
    | none => false
    | some st => f.suffixes.isEmpty || accepted (getAllowed st f.suffixes false)

/-- the filter `BidsFileGroup` uses: `name_suffix=suffix, extensions=[ext]` -/
def checkName (name suffix ext : Str) : Bool := checkFilename ⟨[], [suffix], [ext]⟩ name

inductive Piece where
  | bad
  | suffix (s : Str)
  | kv (k v : Str)
deriving Repr, DecidableEq

/-- `_split_entity` -/
def splitEntity (piece : Str) : Piece :=
  let p := strip piece
  if p = [] then .bad
  else match splitOn '-' p with
    | [_] => .suffix p
    | [k, v] => .kv (strip k) (strip v)
    | _ => .bad

/-- the `HedFileError` codes raised by `parse_bids_filename` -/
inductive PErr where
  | blankFileName
  | badSuffixPiece
  | badKeyValue
deriving Repr, DecidableEq

/-- the leading pieces must all be `key-value`; the first offender (from the right, as the code iterates
in reverse) raises `BadKeyValue` — every offender raises the same code -/
def leadEntities : List Str → Except PErr (List (Str × Str))
  | [] => .ok []
  | p :: r => match splitEntity p, leadEntities r with
    | _, .error e => .error e
    | .kv k v, .ok es => .ok ((k, v) :: es)
    | _, .ok _ => .error .badKeyValue

/-- `parse_bids_filename(name)` → (suffix or None, entity dictionary).  The dictionary is kept as the
items in file-name order and read with `List.lookup` (first match): the code inserts the pieces in
reverse order, so the leftmost piece of a repeated key is the one that survives. -/
def parseName (name : Str) : Except PErr (Option Str × List (Str × Str)) :=
  let base := strip (splitExt name).1
  if base = [] then .error .blankFileName
  else
    let pieces := splitOn '_' base
    match splitEntity (pieces.getLastD []) with
    | .bad => .error .badSuffixPiece
    | .suffix s => (leadEntities pieces.dropLast).map fun es => (some s, es)
    | .kv k v => (leadEntities pieces.dropLast).map fun es => (none, es ++ [(k, v)])

/-! ### parsed files, applicability -/

/-- a `BidsFile` (`cols` = the JSON object of a sidecar file, `[]` for data files; `obj = false` for a
`.json` file whose top level is not an object: `load_sidecar_files` skips it and records a load issue) -/
structure PFile (α : Type) where
  path : Path
  suffix : Option Str
  ents : List (Str × Str)
  cols : Columns α
  obj : Bool
deriving DecidableEq

def PFile.dir (f : PFile α) : Path := f.path.dropLast

/-- component-wise `os.path.commonpath([a, b])` -/
def commonPrefix : Path → Path → Path
  | a :: as, b :: bs => if a = b then a :: commonPrefix as bs else []
  | _, _ => []

/-- every entity of `s` occurs in `o` with the same value (`for key, item in s.entity_dict.items()`) -/
def entSubset (s o : List (Str × Str)) : Bool :=
  s.all fun kv => o.lookup kv.1 == s.lookup kv.1

/-- `BidsSidecarFile.is_sidecar_for(obj)` -/
def applies (s o : PFile α) : Bool :=
  if o.path = s.path then true
  else if o.suffix != s.suffix then false
  else if s.dir != commonPrefix o.path s.path then false
  else entSubset s.ents o.ents

/-- the property's notion: same suffix, the sidecar's directory lies on the path from the root to the
file's directory, and the sidecar's entities all occur with the same value -/
def specApplies (s o : PFile α) : Bool :=
  o.suffix == s.suffix && s.dir.isPrefixOf o.dir && entSubset s.ents o.ents

/-- directories from the root down to `d` (core has no `List.inits`) -/
def inits : List β → List (List β)
  | [] => [[]]
  | x :: xs => [] :: (inits xs).map (x :: ·)

/-- a `BidsFileGroup`: `sidecar_dict` / `datafile_dict` in walk order -/
structure Group (α : Type) where
  sidecars : List (PFile α)
  datafiles : List (PFile α)

/-- `sidecar_dir_dict[d]` -/
def dirSidecars (g : Group α) (d : Path) : List (PFile α) := g.sidecars.filter (fun s => s.dir == d)

/-- `get_sidecars_from_path(obj)`: per directory from the root to the object's directory, the *first*
listed sidecar with `is_sidecar_for(obj)` (`_get_sidecar_for_obj`).  If a directory holds two applicable
sidecars the second one is silently ignored. -/
def chainAt (g : Group α) (o : PFile α) (d : Path) : Option (PFile α) :=
  (dirSidecars g d).find? (fun s => applies s o)

def chain (g : Group α) (o : PFile α) : List (PFile α) := (inits o.dir).filterMap (chainAt g o)

/-- the chain the code chooses, stated with the property's applicability test: per directory on the
path the *first listed* applicable sidecar (listing order = `os.walk` = `os.scandir` order, which is
not sorted) -/
def chosenChain (g : Group α) (o : PFile α) : List (PFile α) :=
  (inits o.dir).filterMap fun d => (dirSidecars g d).find? (fun s => specApplies s o)

/-- number of `WRONG_HED_DATA_TYPE` load issues of the merged `Sidecar`: chain members that are not
JSON objects -/
def loadIssueCount (g : Group α) (o : PFile α) : Nat := ((chain g o).filter (fun s => !s.obj)).length

/-- the property's chain: *every* applicable sidecar on the path, shallower directories first -/
def specChain (g : Group α) (o : PFile α) : List (PFile α) :=
  (inits o.dir).flatMap fun d => g.sidecars.filter (fun s => s.dir == d && specApplies s o)

/-- the property: top-down merge, deeper files overriding per column key -/
def mergeSpec (g : Group α) (o : PFile α) : Columns α := mergeCols ((specChain g o).map (·.cols))

/-- the code (with `fixes/C16_merge_own_chain.diff`): the object's own chain is merged.  For a sidecar
object this is `set_contents(content_info=get_sidecars_from_path(S))` of the unchanged code. -/
def mergeImpl (g : Group α) (o : PFile α) : Columns α := mergeCols ((chain g o).map (·.cols))

/-- the unchanged code for data files: the contents *computed for the last sidecar* of the file's chain,
i.e. the merge of that sidecar's chain -/
def mergeImplOld (g : Group α) (o : PFile α) : Columns α :=
  match (chain g o).getLast? with
  | none => []
  | some s => mergeImpl g s

/-- `bids_obj.sidecar` is left `None` when the chain is empty -/
def hasSidecar (g : Group α) (o : PFile α) : Bool := !(chain g o).isEmpty

/-! ### discovery -/

/-- second component: the top-level JSON object of a `.json` file, `none` if the top level is not an
object (irrelevant for other files) -/
abbrev Tree (α : Type) := List (Path × Option (Columns α))

/-- `os.walk` with `dirs[:] = [d for d in dirs if d not in exclude_dirs]`: a file is reached iff no
directory component below the root is an excluded *name* (the file name itself is not tested) -/
def visible (excl : List Str) (p : Path) : Bool := p.dropLast.all fun c => !excl.contains c

/-- `get_file_list(root, name_suffix=suffix, extensions=[ext], exclude_dirs=excl)` -/
def discover (t : Tree α) (excl : List Str) (suffix ext : Str) : Tree α :=
  t.filter fun f => visible excl f.1 && checkName (f.1.getLastD []) suffix ext

/-! ### the directory tree and its traversal (`os.walk`, `get_file_list`, `get_dir_dictionary`) -/

mutual
/-- a directory: its files (name, content) and its sub-directories, each in `os.scandir` order -/
inductive Dir (α : Type) where
  | mk (files : List (Str × Option (Columns α))) (subs : DirList α)
inductive DirList (α : Type) where
  | nil
  | cons (name : Str) (d : Dir α) (rest : DirList α)
end

/-- the pruning test of `get_file_list`: `dirs[:] = [d for d in dirs if d not in exclude_dirs]` — by the
bare directory *name* `n`, whatever the directory `here` it is found in -/
def fileListPrunes (excl : List Str) (_here : Path) (n : Str) : Bool := excl.contains n

/-- the pruning test of `get_dir_dictionary` (a separate copy of the same line in the source) -/
def dirDictPrunes (excl : List Str) (_here : Path) (n : Str) : Bool := excl.contains n

/-- the property: a file takes part iff no directory component of its path below the root is an
excluded name (same as `visible`) -/
def participates (excl : List Str) (p : Path) : Prop := ∀ c ∈ p.dropLast, c ∉ excl

mutual
/-- `for root, dirs, files in os.walk(top, topdown=True): dirs[:] = [d for d in dirs if d not in excl]`
collecting the files whose *name* passes `keep`, with their path below the top (`here` = path of this
directory): the files of a directory first, then its kept sub-directories in order, depth first -/
def Dir.files (excl : List Str) (keep : Str → Bool) (here : Path) : Dir α → Tree α
  | .mk fs subs =>
    ((fs.filter fun f => keep f.1).map fun f => (here ++ [f.1], f.2)) ++ DirList.files excl keep here subs
def DirList.files (excl : List Str) (keep : Str → Bool) (here : Path) : DirList α → Tree α
  | .nil => []
  | .cons n d rest =>
    (if fileListPrunes excl here n then [] else Dir.files excl keep (here ++ [n]) d) ++
      DirList.files excl keep here rest
end

/-- every file, nothing pruned, in walk order: the listing the flat model (`discover`, `load`) works on -/
def Dir.listing (D : Dir α) : Tree α := D.files [] (fun _ => true) []

/-- `get_file_list(root, name_prefix, name_suffix, extensions, exclude_dirs)` -/
def getFileList (D : Dir α) (f : NameFilter) (excl : List Str) : Tree α := D.files excl (checkFilename f) []

mutual
/-- `get_dir_dictionary(...)`: directory → its accepted files, in walk order; directories without
accepted files are left out when `skip_empty` -/
def Dir.dict (excl : List Str) (keep : Str → Bool) (skipEmpty : Bool) (here : Path) : Dir α → List (Path × List Path)
  | .mk fs subs =>
    let l := (fs.filter fun f => keep f.1).map fun f => here ++ [f.1]
    (if skipEmpty && l.isEmpty then [] else [(here, l)]) ++ DirList.dict excl keep skipEmpty here subs
def DirList.dict (excl : List Str) (keep : Str → Bool) (skipEmpty : Bool) (here : Path) :
    DirList α → List (Path × List Path)
  | .nil => []
  | .cons n d rest =>
    (if dirDictPrunes excl here n then [] else Dir.dict excl keep skipEmpty (here ++ [n]) d) ++
      DirList.dict excl keep skipEmpty here rest
end

def getDirDictionary (D : Dir α) (f : NameFilter) (excl : List Str) (skipEmpty : Bool := true) :
    List (Path × List Path) := D.dict excl (checkFilename f) skipEmpty []

/-- executable check that a listing is a file-system listing (`Props/C16.IsListing`): every entry has a
name and is the only entry whose path extends its path (paths distinct, no file is a directory) -/
def isListingB (t : Tree α) : Bool :=
  t.all fun f => !f.1.isEmpty && (t.filter fun f' => f.1.isPrefixOf f'.1).length == 1

/-- `BidsFile(path)` for each discovered file; the first malformed name raises -/
def parseAll : Tree α → Except PErr (List (PFile α))
  | [] => .ok []
  | (p, c) :: r => match parseName (p.getLastD []), parseAll r with
    | .error e, _ => .error e
    | .ok _, .error e => .error e
    | .ok (sfx, es), .ok fs => .ok (⟨p, sfx, es, c.getD [], c.isSome⟩ :: fs)

def jsonExt : Str := ['.', 'j', 's', 'o', 'n']
def tsvExt : Str := ['.', 't', 's', 'v']

/-- `BidsFileGroup(root, suffix, exclude_dirs=excl)`: sidecar objects first, then data file objects -/
def load (t : Tree α) (excl : List Str) (suffix : Str) : Except PErr (Group α) :=
  match parseAll (discover t excl suffix jsonExt) with
  | .error e => .error e
  | .ok ss => match parseAll ((discover t excl suffix tsvExt).map fun f => (f.1, some [])) with
    | .error e => .error e
    | .ok ds => .ok ⟨ss, ds⟩

/-! ### validation composition, exit status -/

/-- `BidsDataset.validate` for one group: `validate_sidecars` (every sidecar object with the merge of
its own chain) followed by `validate_datafiles` (every data file with its merged sidecar or none).
`vS`, `vT` stand for `SidecarValidator.validate` and `TabularInput.validate`. -/
def issues (vS : PFile α → Columns α → List ι) (vT : PFile α → Option (Columns α) → List ι)
    (g : Group α) : List ι :=
  g.sidecars.flatMap (fun s => vS s (mergeImpl g s)) ++
  g.datafiles.flatMap (fun d => vT d (if hasSidecar g d then some (mergeImpl g d) else none))

/-- the same with the property's merge -/
def issuesSpec (vS : PFile α → Columns α → List ι) (vT : PFile α → Option (Columns α) → List ι)
    (g : Group α) : List ι :=
  g.sidecars.flatMap (fun s => vS s (mergeSpec g s)) ++
  g.datafiles.flatMap (fun d => vT d (if (specChain g d).isEmpty then none else some (mergeSpec g d)))

/-- `hed_validator.main`: `return int(bool(issue_list))` -/
def exitCode (l : List ι) : Nat := if l.isEmpty then 0 else 1

end HedVerif.Bids
