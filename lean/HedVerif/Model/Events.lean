/-
Model of `EventManager.__init__/_create_event_list/_extract_temporal_events/_extract_duration_events/
_extract_context` (hed/tools/analysis/event_manager.py), `TemporalEvent.set_end`
(hed/tools/analysis/temporal_event.py) and of the frame construction `df_util.split_delay_tags` /
`sort_dataframe_by_onsets` / `filter_series_by_onset` it runs on.

Times are integers (the harness draws times on a 1/8 s grid and scales by 8).  The text of a process
(`str(event.contents)`) and of a plain remainder tag is an opaque id (`Nat`); rendering is checked in the
harness.  Names are compared after case folding; `fold` is a parameter (Python: `str.casefold`).

The abstract specification (`specProcs`, `specContext`) at the end of the file speaks about *times* only.
-/
namespace HedVerif.Events

abbrev Str := List Char

/-- One top-level item of a row's annotation: a temporal group or a plain (remainder) tag/group. -/
inductive Item where
  | onset (name : Str) (c : Nat)      -- `(Def/name, Onset, …)`, process text id `c`
  | offset (name : Str)               -- `(Def/name, Offset)`
  | duration (len : Int) (c : Nat)    -- `(Duration/len, (…))`, length in default units (×8), text id `c`
  | plain (c : Nat)                   -- anything else, text id `c`
deriving Repr, DecidableEq, Inhabited

/-- A row of the events file: onset, its undelayed items, its top-level Delay groups (delay, item). -/
structure Row where
  time : Int
  items : List Item
  delayed : List (Int × Item)
deriving Repr, Inhabited

/-- A row of the frame built by `split_delay_tags`. -/
structure FRow where
  time : Int
  items : List Item
deriving Repr, Inhabited, DecidableEq

inductive Reject where
  | unordered         -- HedFileError("OnsetsNotOrdered")
  | unmatchedOffset   -- `onset_dict.pop(anchor)` raises KeyError
deriving Repr, DecidableEq, Inhabited

/-- `not onsets.is_monotonic_increasing` (pandas: non-decreasing, adjacent comparison) -/
def nonDecreasing : List Int → Bool
  | [] => true
  | a :: rest => (match rest with | [] => true | b :: _ => decide (a ≤ b)) && nonDecreasing rest

/-! ### `split_delay_tags` -/

/-- the original rows with their Delay groups removed -/
def ownRows (rows : List Row) : List FRow := rows.map fun r => ⟨r.time, r.items⟩

/-- one appended row per Delay group, in row order, at the shifted time -/
def delayRows : List Row → List FRow
  | [] => []
  | r :: rs => r.delayed.map (fun di => ⟨r.time + di.1, [di.2]⟩) ++ delayRows rs

def splitRows (rows : List Row) : List FRow := ownRows rows ++ delayRows rows

/-- stable insertion by time -/
def insertRow (x : FRow) : List FRow → List FRow
  | [] => [x]
  | y :: ys => if x.time ≤ y.time then x :: y :: ys else y :: insertRow x ys

/-- `sort_dataframe_by_onsets` (ties in frame order; pandas leaves tie order unspecified, the harness
never lets an observable depend on it) -/
def sortRows : List FRow → List FRow
  | [] => []
  | x :: xs => insertRow x (sortRows xs)

/-- items of the leading rows whose time is `t` -/
def groupItems (t : Int) : List FRow → List Item
  | [] => []
  | r :: rs => if r.time = t then r.items ++ groupItems t rs else []

/-- `filter_series_by_onset`: the frame keeps its length; the first row of a run of equal onsets gets
the joined annotation of the run, the others become empty. `prev` is the previous row's time. -/
def merge : Option Int → List FRow → List FRow
  | _, [] => []
  | prev, r :: rs =>
    ⟨r.time, if prev = some r.time then [] else r.items ++ groupItems r.time rs⟩ :: merge (some r.time) rs

/-! ### the scan of `_create_event_list` -/

def isMarker : Item → Bool
  | .onset _ _ => true
  | .offset _ => true
  | _ => false

def isDuration : Item → Bool
  | .duration _ _ => true
  | _ => false

def plainOf : List Item → List Nat
  | [] => []
  | .plain c :: rest => c :: plainOf rest
  | _ :: rest => plainOf rest

/-- One temporal group met by the scan, with the row index at which it is processed. -/
structure Act where
  idx : Nat
  time : Int
  item : Item
deriving Repr, DecidableEq, Inhabited

/-- loop body order: `_extract_temporal_events` (all Onset/Offset groups of the row) and then
`_extract_duration_events` (all Duration groups) -/
def rowActs (i : Nat) (r : FRow) : List Act :=
  (r.items.filter isMarker ++ r.items.filter isDuration).map fun it => ⟨i, r.time, it⟩

def actsFrom (i : Nat) : List FRow → List Act
  | [] => []
  | r :: rs => rowActs i r ++ actsFrom (i + 1) rs

/-- A `TemporalEvent`: `ord` is the object's identity (creation counter), `stop = none` is
`end_index is None`. `key` is the folded Def text of an Onset process (`[]` for Duration processes). -/
structure Proc where
  ord : Nat
  start : Nat
  stop : Option Nat
  key : Str
  content : Nat
deriving Repr, DecidableEq, Inhabited

/-- `onset_dict`: folded name ↦ the open process (by identity) -/
abbrev Open := List (Str × Nat)

structure State where
  procs : List Proc
  opn : Open
deriving Repr, Inhabited

def getOpen (k : Str) (o : Open) : Option Nat := (o.find? (fun e => e.1 == k)).map (·.2)
def delOpen (k : Str) (o : Open) : Open := o.filter (fun e => e.1 != k)

/-- `event.set_end(e, …)` on the object with identity `j` -/
def setStop (j e : Nat) (ps : List Proc) : List Proc :=
  ps.map fun p => if p.ord = j then { p with stop := some e } else p

/-- `bisect.bisect_left(onsets, x)` on the sorted onsets: number of leading elements `< x` -/
def bisectLeft (ts : List Int) (x : Int) : Nat := (ts.takeWhile (· < x)).length

/-- `if anchor in onset_dict: pop it and set its end` -/
def closeIfOpen (k : Str) (i : Nat) (st : State) : State :=
  match getOpen k st.opn with
  | some j => ⟨setStop j i st.procs, delOpen k st.opn⟩
  | none => st

def step (fold : Str → Str) (ts : List Int) (st : State) (a : Act) : Except Reject State :=
  match a.item with
  | .onset name c =>
    let k := fold name
    let st1 := closeIfOpen k a.idx st
    .ok ⟨st1.procs ++ [⟨st1.procs.length, a.idx, none, k, c⟩], (k, st1.procs.length) :: st1.opn⟩
  | .offset name =>
    let k := fold name
    match getOpen k st.opn with
    | some j => .ok ⟨setStop j a.idx st.procs, delOpen k st.opn⟩
    | none => .error .unmatchedOffset
  | .duration len c =>
    .ok ⟨st.procs ++ [⟨st.procs.length, a.idx, some (bisectLeft ts (a.time + len)), [], c⟩], st.opn⟩
  | .plain _ => .ok st

def run (fold : Str → Str) (ts : List Int) : State → List Act → Except Reject State
  | st, [] => .ok st
  | st, a :: rest =>
    match step fold ts st a with
    | .ok st1 => run fold ts st1 rest
    | .error e => .error e

/-- `for item in onset_dict.values(): item.set_end(len(self.onsets), None)` -/
def finish (n : Nat) (st : State) : List Proc := st.opn.foldl (fun ps e => setStop e.2 n ps) st.procs

structure Built where
  ts : List Int               -- `self.onsets`
  procs : List Proc           -- `self.event_list`, flattened in order
  rem : List (List Nat)       -- `self.hed_strings` (what is left of every row)
deriving Repr, Inhabited

/-- the frame the manager works on -/
def frame (rows : List Row) : List FRow := sortRows (splitRows rows)

/-- the temporal groups in processing order -/
def history (rows : List Row) : List Act := actsFrom 0 (merge none (frame rows))

def build (fold : Str → Str) (rows : List Row) : Except Reject Built :=
  if nonDecreasing (rows.map (·.time)) then
    let ts := (frame rows).map (·.time)
    match run fold ts ⟨[], []⟩ (history rows) with
    | .ok st => .ok ⟨ts, finish ts.length st, (merge none (frame rows)).map fun r => plainOf r.items⟩
    | .error e => .error e
  else .error .unordered

/-! ### `_extract_context` -/

/-- `for i in range(event.start_index + 1, event.end_index)` -/
def inContext (i : Nat) (p : Proc) : Bool :=
  match p.stop with
  | some e => decide (p.start < i) && decide (i < e)
  | none => false

def contextAt (procs : List Proc) (i : Nat) : List Nat := (procs.filter (inContext i)).map (·.content)
def baseAt (procs : List Proc) (i : Nat) : List Nat := (procs.filter (fun p => p.start == i)).map (·.content)

def contexts (b : Built) : List (List Nat) := (List.range b.ts.length).map (contextAt b.procs)
def base (b : Built) : List (List Nat) := (List.range b.ts.length).map (baseAt b.procs)

/-! ### Specification over times (the property statement) -/

/-- An event process as the property describes it: start time, end time (`none` = never), text. -/
structure SProc where
  start : Int
  stop : Option Int
  content : Nat
deriving Repr, DecidableEq, Inhabited

def markerKey (fold : Str → Str) : Item → Option Str
  | .onset name _ => some (fold name)
  | .offset name => some (fold name)
  | _ => none

/-- time of the next Onset or Offset of the (folded) name `k` -/
def nextTime (fold : Str → Str) (k : Str) : List (Int × Item) → Option Int
  | [] => none
  | (t, it) :: rest => if markerKey fold it = some k then some t else nextTime fold k rest

/-- the first time point at or after `x` -/
def firstAtOrAfter (ts : List Int) (x : Int) : Option Int := ts.find? (fun t => decide (x ≤ t))

/-- processes of a time-ordered history `(time, temporal group)`; `ts` are the time points -/
def specProcs (fold : Str → Str) (ts : List Int) : List (Int × Item) → List SProc
  | [] => []
  | (t, .onset name c) :: rest => ⟨t, nextTime fold (fold name) rest, c⟩ :: specProcs fold ts rest
  | (t, .duration len c) :: rest => ⟨t, firstAtOrAfter ts (t + len), c⟩ :: specProcs fold ts rest
  | _ :: rest => specProcs fold ts rest

/-- `τ < e` with `none` = +∞ -/
def ltInf (τ : Int) : Option Int → Bool
  | none => true
  | some e => decide (τ < e)

/-- the property: processes that started strictly earlier and have not ended -/
def specContext (ps : List SProc) (τ : Int) : List Nat :=
  (ps.filter fun p => decide (p.start < τ) && ltInf τ p.stop).map (·.content)

/-- the other reading for later rows of a merged time point: started earlier *or at* this time point -/
def specContextIncl (ps : List SProc) (τ : Int) : List Nat :=
  (ps.filter fun p => decide (p.start ≤ τ) && ltInf τ p.stop).map (·.content)

def specStarts (ps : List SProc) (τ : Int) : List Nat :=
  (ps.filter fun p => p.start == τ).map (·.content)

/-- the history as the specification sees it -/
def timed (acts : List Act) : List (Int × Item) := acts.map fun a => (a.time, a.item)

end HedVerif.Events
