/-
Model of `EventManager.__init__/_create_event_list/_extract_temporal_events/_extract_duration_events/
_extract_context` (hed/tools/analysis/event_manager.py), `TemporalEvent.set_end`
(hed/tools/analysis/temporal_event.py) and of the frame construction `df_util.split_delay_tags` /
`sort_dataframe_by_onsets` / `filter_series_by_onset` it runs on.

Times are integers (the harness draws times on a 1/8 s grid and scales by 8).  The text of a process
(`str(event.contents)`) and of a plain remainder tag is an opaque id (`Nat`); rendering is checked in the
harness.  Names are compared after case folding; `fold` is a parameter (Python: `str.casefold`).

The abstract specification (`specProcs`, `specContext`) at the end of the file speaks about *times* only.
-/
import HedVerif.Model.Tok
namespace HedVerif.Events

abbrev Str := List Char

/-- One top-level item of a row's annotation: a temporal group or a plain (remainder) tag/group. -/
inductive Item where
  | onset (name : Str) (c : Nat)      -- `(Def/name, Onset, …)`, process text id `c`
  | offset (name : Str)               -- `(Def/name, Offset)`
  | duration (len : Int) (c : Nat)    -- `(Duration/len, (…))`, length in default units (×8), text id `c`
  | plain (c : Nat)                   -- anything else, text id `c`
  | inset (name : Str) (c : Nat)      -- `(Def/name, Inset, …)`: not looked for by the manager, stays in the row
deriving Repr, DecidableEq, Inhabited

/-- A row of the events file: onset, its undelayed items, its top-level Delay groups (delay, item). -/
structure Row where
  time : Int
  items : List Item
  delayed : List (Int × Item)
deriving Repr, Inhabited

/-- A row of the frame built by `split_delay_tags`. -/
structure FRow where
  time : Int
  items : List Item
deriving Repr, Inhabited, DecidableEq

inductive Reject where
  | unordered         -- HedFileError("OnsetsNotOrdered")
  | unmatchedOffset   -- `onset_dict.pop(anchor)` raises KeyError
  | noDef             -- `group.find_def_tags(...)[0]` raises IndexError (Onset/Offset group without Def)
  | badValue          -- `start_time + item.value_as_default_unit()` with no usable Duration value: TypeError
deriving Repr, DecidableEq, Inhabited

/-- `not onsets.is_monotonic_increasing` (pandas: non-decreasing, adjacent comparison) -/
def nonDecreasing : List Int → Bool
  | [] => true
  | a :: rest => (match rest with | [] => true | b :: _ => decide (a ≤ b)) && nonDecreasing rest

/-! ### `split_delay_tags` -/

/-- the original rows with their Delay groups removed -/
def ownRows (rows : List Row) : List FRow := rows.map fun r => ⟨r.time, r.items⟩

/-- one appended row per Delay group, in row order, at the shifted time -/
def delayRows : List Row → List FRow
  | [] => []
  | r :: rs => r.delayed.map (fun di => ⟨r.time + di.1, [di.2]⟩) ++ delayRows rs

def splitRows (rows : List Row) : List FRow := ownRows rows ++ delayRows rows

/-- stable insertion by time -/
def insertRow (x : FRow) : List FRow → List FRow
  | [] => [x]
  | y :: ys => if x.time ≤ y.time then x :: y :: ys else y :: insertRow x ys

/-- `sort_dataframe_by_onsets` (ties in frame order; pandas leaves tie order unspecified, the harness
never lets an observable depend on it) -/
def sortRows : List FRow → List FRow
  | [] => []
  | x :: xs => insertRow x (sortRows xs)

/-- items of the leading rows whose time is `t` -/
def groupItems (t : Int) : List FRow → List Item
  | [] => []
  | r :: rs => if r.time = t then r.items ++ groupItems t rs else []

/-- `filter_series_by_onset`: the frame keeps its length; the first row of a run of equal onsets gets
the joined annotation of the run, the others become empty. `prev` is the previous row's time. -/
def merge : Option Int → List FRow → List FRow
  | _, [] => []
  | prev, r :: rs =>
    ⟨r.time, if prev = some r.time then [] else r.items ++ groupItems r.time rs⟩ :: merge (some r.time) rs

/-! ### the scan of `_create_event_list` -/

def isMarker : Item → Bool
  | .onset _ _ => true
  | .offset _ => true
  | _ => false

def isDuration : Item → Bool
  | .duration _ _ => true
  | _ => false

def plainOf : List Item → List Nat
  | [] => []
  | .plain c :: rest => c :: plainOf rest
  | .inset _ c :: rest => c :: plainOf rest
  | _ :: rest => plainOf rest

/-- One temporal group met by the scan, with the row index at which it is processed. -/
structure Act where
  idx : Nat
  time : Int
  item : Item
deriving Repr, DecidableEq, Inhabited

/-- loop body order: `_extract_temporal_events` (all Onset/Offset groups of the row) and then
`_extract_duration_events` (all Duration groups) -/
def rowActs (i : Nat) (r : FRow) : List Act :=
  (r.items.filter isMarker ++ r.items.filter isDuration).map fun it => ⟨i, r.time, it⟩

def actsFrom (i : Nat) : List FRow → List Act
  | [] => []
  | r :: rs => rowActs i r ++ actsFrom (i + 1) rs

/-- A `TemporalEvent`: `ord` is the object's identity (creation counter), `stop = none` is
`end_index is None`. `key` is the folded Def text of an Onset process (`[]` for Duration processes). -/
structure Proc where
  ord : Nat
  start : Nat
  stop : Option Nat
  key : Str
  content : Nat
deriving Repr, DecidableEq, Inhabited

/-- `onset_dict`: folded name ↦ the open process (by identity) -/
abbrev Open := List (Str × Nat)

structure State where
  procs : List Proc
  opn : Open
deriving Repr, Inhabited

def getOpen (k : Str) (o : Open) : Option Nat := (o.find? (fun e => e.1 == k)).map (·.2)
def delOpen (k : Str) (o : Open) : Open := o.filter (fun e => e.1 != k)

/-- `event.set_end(e, …)` on the object with identity `j` -/
def setStop (j e : Nat) (ps : List Proc) : List Proc :=
  ps.map fun p => if p.ord = j then { p with stop := some e } else p

/-- `bisect.bisect_left(onsets, x)` on the sorted onsets: number of leading elements `< x` -/
def bisectLeft (ts : List Int) (x : Int) : Nat := (ts.takeWhile (· < x)).length

/-- `if anchor in onset_dict: pop it and set its end` -/
def closeIfOpen (k : Str) (i : Nat) (st : State) : State :=
  match getOpen k st.opn with
  | some j => ⟨setStop j i st.procs, delOpen k st.opn⟩
  | none => st

def step (fold : Str → Str) (ts : List Int) (st : State) (a : Act) : Except Reject State :=
  match a.item with
  | .onset name c =>
    let k := fold name
    let st1 := closeIfOpen k a.idx st
    .ok ⟨st1.procs ++ [⟨st1.procs.length, a.idx, none, k, c⟩], (k, st1.procs.length) :: st1.opn⟩
  | .offset name =>
    let k := fold name
    match getOpen k st.opn with
    | some j => .ok ⟨setStop j a.idx st.procs, delOpen k st.opn⟩
    | none => .error .unmatchedOffset
  | .duration len c =>
    .ok ⟨st.procs ++ [⟨st.procs.length, a.idx, some (bisectLeft ts (a.time + len)), [], c⟩], st.opn⟩
  | .plain _ => .ok st
  | .inset _ _ => .ok st

def run (fold : Str → Str) (ts : List Int) : State → List Act → Except Reject State
  | st, [] => .ok st
  | st, a :: rest =>
    match step fold ts st a with
    | .ok st1 => run fold ts st1 rest
    | .error e => .error e

/-- `for item in onset_dict.values(): item.set_end(len(self.onsets), None)` -/
def finish (n : Nat) (st : State) : List Proc := st.opn.foldl (fun ps e => setStop e.2 n ps) st.procs

structure Built where
  ts : List Int               -- `self.onsets`
  procs : List Proc           -- `self.event_list`, flattened in order
  rem : List (List Nat)       -- `self.hed_strings` (what is left of every row)
deriving Repr, Inhabited

/-- the frame the manager works on -/
def frame (rows : List Row) : List FRow := sortRows (splitRows rows)

/-- the temporal groups in processing order -/
def history (rows : List Row) : List Act := actsFrom 0 (merge none (frame rows))

def build (fold : Str → Str) (rows : List Row) : Except Reject Built :=
  if nonDecreasing (rows.map (·.time)) then
    let ts := (frame rows).map (·.time)
    match run fold ts ⟨[], []⟩ (history rows) with
    | .ok st => .ok ⟨ts, finish ts.length st, (merge none (frame rows)).map fun r => plainOf r.items⟩
    | .error e => .error e
  else .error .unordered

/-! ### `_extract_context` -/

/-- `for i in range(event.start_index + 1, event.end_index)` -/
def inContext (i : Nat) (p : Proc) : Bool :=
  match p.stop with
  | some e => decide (p.start < i) && decide (i < e)
  | none => false

def contextAt (procs : List Proc) (i : Nat) : List Nat := (procs.filter (inContext i)).map (·.content)
def baseAt (procs : List Proc) (i : Nat) : List Nat := (procs.filter (fun p => p.start == i)).map (·.content)

def contexts (b : Built) : List (List Nat) := (List.range b.ts.length).map (contextAt b.procs)
def base (b : Built) : List (List Nat) := (List.range b.ts.length).map (baseAt b.procs)

/-! ### Specification over times (the property statement) -/

/-- An event process as the property describes it: start time, end time (`none` = never), text. -/
structure SProc where
  start : Int
  stop : Option Int
  content : Nat
  key : Option Str     -- folded name of an Onset process, `none` for a Duration process
deriving Repr, DecidableEq, Inhabited

def markerKey (fold : Str → Str) : Item → Option Str
  | .onset name _ => some (fold name)
  | .offset name => some (fold name)
  | _ => none

/-- time of the next Onset or Offset of the (folded) name `k` -/
def nextTime (fold : Str → Str) (k : Str) : List (Int × Item) → Option Int
  | [] => none
  | (t, it) :: rest => if markerKey fold it = some k then some t else nextTime fold k rest

/-- the first time point at or after `x` -/
def firstAtOrAfter (ts : List Int) (x : Int) : Option Int := ts.find? (fun t => decide (x ≤ t))

/-- processes of a time-ordered history `(time, temporal group)`; `ts` are the time points -/
def specProcs (fold : Str → Str) (ts : List Int) : List (Int × Item) → List SProc
  | [] => []
  | (t, .onset name c) :: rest => ⟨t, nextTime fold (fold name) rest, c, some (fold name)⟩ :: specProcs fold ts rest
  | (t, .duration len c) :: rest => ⟨t, firstAtOrAfter ts (t + len), c, none⟩ :: specProcs fold ts rest
  | _ :: rest => specProcs fold ts rest

/-- `τ < e` with `none` = +∞ -/
def ltInf (τ : Int) : Option Int → Bool
  | none => true
  | some e => decide (τ < e)

/-- the property: processes that started strictly earlier and have not ended -/
def specContext (ps : List SProc) (τ : Int) : List Nat :=
  (ps.filter fun p => decide (p.start < τ) && ltInf τ p.stop).map (·.content)

/-- the other reading for later rows of a merged time point: started earlier *or at* this time point -/
def specContextIncl (ps : List SProc) (τ : Int) : List Nat :=
  (ps.filter fun p => decide (p.start ≤ τ) && ltInf τ p.stop).map (·.content)

/-- folded names of the Onset processes ongoing *after* time `τ`: started at or before `τ`, not ended by then -/
def ongoingKeys (ps : List SProc) (τ : Int) : List Str :=
  (ps.filter fun p => decide (p.start ≤ τ) && ltInf τ p.stop).filterMap (·.key)

def specStarts (ps : List SProc) (τ : Int) : List Nat :=
  (ps.filter fun p => p.start == τ).map (·.content)

/-- the history as the specification sees it -/
def timed (acts : List Act) : List (Int × Item) := acts.map fun a => (a.time, a.item)

/-! ## Text layer: annotation trees, classification of top-level groups, process text, unfolding

The rows of the file are HED strings.  They are parsed with the C02 model (`Tree.construct`), every
top-level child of every row gets an id (its position in `table`), and `classify` turns it into the
`Item` the scan works on; the opaque ids of the first part of this file are these positions, so
`contentOf tbl id` is the text of a process and `plainNode tbl id` the text of a remainder item.
Tags are short-form text; only the reserved names below are recognised and printed in canonical case
(`str(tag)` is the short tag).  Values of Duration/Delay tags come from `vals` (default units × 8; C11). -/

inductive TNode where
  | tag (text : Str)
  | group (kids : List TNode)
deriving Repr, Inhabited

mutual
def ofNode (s : Str) : HedVerif.Node → TNode
  | .tag a b => .tag (Tree.slice s a b)
  | .group _ _ kids => .group (ofNodes s kids)
def ofNodes (s : Str) : List HedVerif.Node → List TNode
  | [] => []
  | n :: ns => ofNode s n :: ofNodes s ns
end

/-- `HedString(text, schema)` -/
def parse (s : Str) : List TNode := ofNodes s (Tree.construct s)

def lower (s : Str) : Str := s.map Char.toLower
def baseOf (t : Str) : Str := t.takeWhile (· != '/')
def slashRest (t : Str) : Str := t.dropWhile (· != '/')
def extOf (t : Str) : Str := (slashRest t).drop 1

def kDef : Str := ['d','e','f']
def kDefExpand : Str := ['d','e','f','-','e','x','p','a','n','d']
def kOnset : Str := ['o','n','s','e','t']
def kOffset : Str := ['o','f','f','s','e','t']
def kInset : Str := ['i','n','s','e','t']
def kDuration : Str := ['d','u','r','a','t','i','o','n']
def kDelay : Str := ['d','e','l','a','y']
def kEventContext : Str := ['E','v','e','n','t','-','c','o','n','t','e','x','t']
def kNone : Str := ['N','o','n','e']

/-- canonical spelling of the reserved short base tags -/
def reserved : List Str :=
  [['D','e','f'], ['D','e','f','-','e','x','p','a','n','d'], ['O','n','s','e','t'], ['O','f','f','s','e','t'],
   ['I','n','s','e','t'], ['D','u','r','a','t','i','o','n'], ['D','e','l','a','y'], kEventContext]

/-- `tag.short_base_tag.casefold() == name` (`name` in lower case) -/
def isB (name : Str) (t : Str) : Bool := lower (baseOf t) == name

/-- `str(tag)`: the short tag; the base of a reserved tag comes out in the schema's case -/
def canonTag (t : Str) : Str :=
  ((reserved.find? fun r => lower r == lower (baseOf t)).getD (baseOf t)) ++ slashRest t

def directTags : List TNode → List Str
  | [] => []
  | .tag t :: r => t :: directTags r
  | .group _ :: r => directTags r

def isGroup : TNode → Bool
  | .group _ => true
  | .tag _ => false

/-- `find_def_tags(recursive=False, include_groups=0)`: Def children, and Def-expand tags of child groups -/
def defExts : List TNode → List Str
  | [] => []
  | .tag t :: r => if isB kDef t then extOf t :: defExts r else defExts r
  | .group ks :: r => ((directTags ks).filter (isB kDefExpand)).map extOf ++ defExts r

/-- What the manager makes of one top-level child (`find_top_level_tags` with Onset/Offset anchors first,
then Duration anchors on what is left; Inset groups are not looked for). A group with Onset *and* Duration is
taken by the first search: it is an Onset process and its Duration plays no role for its end. -/
def classify (vals : Str → Option Int) (id : Nat) : TNode → Except Reject Item
  | .tag _ => .ok (.plain id)
  | .group ks =>
    match (directTags ks).find? (fun t => isB kOnset t || isB kOffset t) with
    | some t =>
      match (defExts ks).head? with
      | none => .error .noDef
      | some ext => if isB kOnset t then .ok (.onset ext id) else .ok (.offset ext)
    | none =>
      match ((directTags ks).filter (isB kDuration)).getLast? with
      | some t =>
        match vals t with
        | some len => .ok (.duration len id)
        | none => .error .badValue
      | none =>
        if (directTags ks).any (isB kInset) then .ok (.inset ((defExts ks).head?.getD []) id)
        else .ok (.plain id)

/-- `split_delay_tags`: a top-level group with a Delay tag that has a usable value moves to its own row -/
def delayOf (vals : Str → Option Int) : TNode → Option Int
  | .group ks =>
    match (directTags ks).find? (isB kDelay) with
    | some t => vals t
    | none => none
  | .tag _ => none

structure TextRow where
  time : Int
  nodes : List TNode
deriving Repr, Inhabited

def rowItems (vals : Str → Option Int) : Nat → List TNode → Except Reject (List Item × List (Int × Item))
  | _, [] => .ok ([], [])
  | id, n :: ns =>
    match classify vals id n, rowItems vals (id + 1) ns with
    | .ok it, .ok (a, b) =>
      match delayOf vals n with
      | some d => .ok (a, (d, it) :: b)
      | none => .ok (it :: a, b)
    | .error e, _ => .error e
    | _, .error e => .error e

def toRows (vals : Str → Option Int) : Nat → List TextRow → Except Reject (List Row)
  | _, [] => .ok []
  | id, r :: rs =>
    match rowItems vals id r.nodes, toRows vals (id + r.nodes.length) rs with
    | .ok (a, b), .ok rest => .ok (⟨r.time, a, b⟩ :: rest)
    | .error e, _ => .error e
    | _, .error e => .error e

/-- the top-level children of all rows; ids are positions in this list -/
def table (rows : List TextRow) : List TNode := rows.flatMap (·.nodes)

/-- the constructor on text rows: order check first, then everything else -/
def buildText (fold : Str → Str) (vals : Str → Option Int) (rows : List TextRow) : Except Reject Built :=
  if nonDecreasing (rows.map (·.time)) then
    match toRows vals 0 rows with
    | .ok rs => build fold rs
    | .error e => .error e
  else .error .unordered

/-! ### `TemporalEvent._split_group` and printing -/

def notAnchor : TNode → Bool
  | .tag t => !(isB kOnset t || isB kDuration t)
  | .group _ => true

def lastDef (ks : List TNode) : Option Str := ((directTags ks).filter (isB kDef)).getLast?

/-- `event.contents`: the group without its Onset and Duration tags if it has an inner group, else the
short tag of its (last) Def child, else `None` (printed "None") -/
def splitGroup (ks : List TNode) : TNode :=
  if ks.any isGroup then .group (ks.filter notAnchor)
  else match lastDef ks with
    | some t => .tag (canonTag t)
    | none => .tag kNone

def contentOf (tbl : List TNode) (id : Nat) : TNode :=
  match tbl[id]? with
  | some (.group ks) => splitGroup ks
  | some n => n
  | none => .tag kNone

def plainNode (tbl : List TNode) (id : Nat) : TNode := (tbl[id]?).getD (.tag [])

mutual
/-- `str(group)` / `str(tag)` -/
def render : TNode → Str
  | .tag t => canonTag t
  | .group ks => '(' :: (renderList ks ++ [')'])
def renderList : List TNode → Str
  | [] => []
  | [n] => render n
  | n :: m :: ns => render n ++ (',' :: renderList (m :: ns))
end

/-- the nodes of `contexts[i]`, `base[i]`, `hed_strings[i]` -/
def ctxNodes (tbl : List TNode) (b : Built) (i : Nat) : List TNode := (contextAt b.procs i).map (contentOf tbl)
def baseNodes (tbl : List TNode) (b : Built) (i : Nat) : List TNode := (baseAt b.procs i).map (contentOf tbl)
def remNodes (tbl : List TNode) (b : Built) (i : Nat) : List TNode := ((b.rem[i]?).getD []).map (plainNode tbl)

/-! ### `unfold_context` / `_filter_hed` / `HedTagManager.get_hed_objs` -/

/-- `split_base_tags(…, remove_group=False)`: matching tags go, groups emptied by that are pruned -/
def filtTags (p : Str → Bool) : List TNode → List TNode
  | [] => []
  | .tag t :: r => if p t then filtTags p r else .tag t :: filtTags p r
  | .group ks :: r =>
    match filtTags p ks with
    | [] => filtTags p r
    | k :: ks' => .group (k :: ks') :: filtTags p r

/-- below the top level with `remove_group=True`: the group that directly holds a matching tag goes -/
def filtGroups (p : Str → Bool) : List TNode → List TNode
  | [] => []
  | .tag t :: r => .tag t :: filtGroups p r
  | .group ks :: r =>
    if (directTags ks).any p then filtGroups p r
    else match filtGroups p ks with
      | [] => filtGroups p r
      | k :: ks' => .group (k :: ks') :: filtGroups p r

def keepTopTag (p : Str → Bool) : TNode → Bool
  | .tag t => !p t
  | .group _ => true

/-- `remove_group=True` on a whole string: a matching top-level tag goes by itself -/
def filtTop (p : Str → Bool) (nodes : List TNode) : List TNode := filtGroups p (nodes.filter (keepTopTag p))

def typeP (types : List Str) (t : Str) : Bool := types.any fun ty => lower (baseOf t) == lower ty

/-- `find_wildcard_tags(["def/<name>"])`: the short tag, case-folded, *starts with* `def/<name>` -/
def defP (names : List Str) (t : Str) : Bool :=
  isB kDef t && names.any fun n => (lower n).isPrefixOf (lower (extOf t))

def filterHed (types names : List Str) (removeGroup : Bool) (nodes : List TNode) : List TNode :=
  if removeGroup then filtTop (defP names) (filtTop (typeP types) nodes)
  else filtTags (defP names) (filtTags (typeP types) nodes)

def allTags : List TNode → List Str
  | [] => []
  | .tag t :: r => t :: allTags r
  | .group ks :: r => allTags ks ++ allTags r

/-- `get_type_defs`: names (lower case) of the definitions whose contents hold a tag of one of the types -/
def typeDefNames (defs : List (Str × List TNode)) (types : List Str) : List Str :=
  types.flatMap fun ty =>
    (defs.filter fun d => (allTags d.2).any fun t => lower (baseOf t) == lower ty).map fun d => lower d.1

def substHash (v : Str) : Str → Str
  | [] => []
  | c :: cs => if c == '#' then v ++ substHash v cs else c :: substHash v cs

def substNodes (v : Str) : List TNode → List TNode
  | [] => []
  | .tag t :: r => .tag (substHash v t) :: substNodes v r
  | .group ks :: r => .group (substNodes v ks) :: substNodes v r

/-- `def_tag.expandable.get_first_group()` -/
def expandDef (defs : List (Str × List TNode)) (ext : Str) : Option TNode :=
  (defs.find? fun d => lower d.1 == lower (baseOf ext)).map fun d => .group (substNodes (extOf ext) d.2)

/-- `replace_defs=True` (an unknown definition would raise in Python; the tag is kept here) -/
def replaceDefs (defs : List (Str × List TNode)) : List TNode → List TNode
  | [] => []
  | .tag t :: r =>
    (if isB kDef t then (expandDef defs (extOf t)).getD (.tag t) else .tag t) :: replaceDefs defs r
  | .group ks :: r => .group (replaceDefs defs ks) :: replaceDefs defs r

/-- one entry of `HedTagManager(em, remove_types).get_hed_objs(include_context, replace_defs)`; `[]` is `None` -/
def objNodes (defs : List (Str × List TNode)) (types : List Str) (includeCtx replace : Bool)
    (tbl : List TNode) (b : Built) (i : Nat) : List TNode :=
  let names := typeDefNames defs types
  let h := filterHed types names false (remNodes tbl b i)
  let bs := filterHed types names true (baseNodes tbl b i)
  let c := filterHed types names true (ctxNodes tbl b i)
  let all := h ++ bs ++ (if includeCtx && !c.isEmpty then [.group [.tag kEventContext, .group c]] else [])
  if replace then replaceDefs defs all else all

end HedVerif.Events
