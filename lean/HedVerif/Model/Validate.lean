/-
Model of string validation (property C01):
  `HedValidator.validate/run_basic_checks/run_full_string_checks/_run_hed_string_validators/
   check_tag_formatting/validate_units/_validate_individual_tags_in_hed_string`  (hed/validator/hed_validator.py)
  `CharValidator.*`            (hed/validator/util/char_util.py)
  `StringValidator.*`          (hed/validator/util/string_util.py)
  `TagValidator.*`             (hed/validator/util/tag_util.py)
  `GroupValidator.*`           (hed/validator/util/group_util.py)
  `UnitValueValidator.check_tag_unit_class_units_are_valid/_check_value_class/report_value_errors/_check_units`
                               (hed/validator/util/class_util.py + class_regex.json)
  `DefValidator.validate_def_tags/validate_def_value_units/validate_onset_offset` for the EMPTY definition
                               dictionary (`HedString(text, schema)` without `def_dict`)
  `HedTag.__eq__/short_tag/org_base_tag/extension/_calculate_to_canonical_forms`, `HedGroup._sorted/__eq__`.

One schema (no `HedSchemaGroup`).  Tag attributes (after `_finalize_inherited_attributes`) are data per
vocabulary entry.  `str.isprintable/isspace/isalnum/isalpha` are fixed on ASCII and data (`CharData`) for the
non-ASCII characters of the alphabet in use; `casefold` is ASCII lower-casing (the harness uses only
characters on which the two agree).  No Mathlib: linked into the native driver.
-/
import HedVerif.Model.Tok
import HedVerif.Model.Schema
import HedVerif.Model.Units
import HedVerif.Generated.CodeMap

namespace HedVerif.Validate
open HedVerif HedVerif.Schema
open HedVerif.Generated.CodeMap

/-! ### issues -/

/-- internal error kinds (`ValidationErrors.X`, `DefinitionErrors.X`, `TemporalErrors.X`) -/
inductive Kind where
  | characterInvalid | tildes | parentheses | tagEmpty | commaMissing | nodeNameEmpty
  | nsPrefixInvalid | invalidTagCharacter | libraryUnmatched | noValidTag | invalidParent
  | extensionInvalid | tagExtended | requiresChild | deprecated | style | badDefinitionLocation
  | valueClassValue | valueClassChar | curlyBrace | unitsInvalid | unitsMissing
  | defUnmatched | defExpandUnmatched | requiredMissing | notUnique | groupEmpty
  | tagGroupTag | topLevelTag | multipleTopTags | tagRepeated | groupRepeated
  | durationOtherTags | durationWrongGroups | onsetNoDef
  | defValueMissing | defValueExtra | defExpandInvalid | defExpandValueMissing | defExpandValueExtra
  | onsetTooManyDefs | onsetWrongNumberGroups | onsetTagOutsideGroup | onsetDefUnmatched | onsetPlaceholderWrong
deriving DecidableEq, Repr, Inhabited

/-- value of the constant (what the harness records as `_kind`) -/
def Kind.name : Kind → Str
  | .characterInvalid => kind_CHARACTER_INVALID | .tildes => kind_TILDES_UNSUPPORTED
  | .parentheses => kind_PARENTHESES_MISMATCH | .tagEmpty => kind_TAG_EMPTY
  | .commaMissing => kind_COMMA_MISSING | .nodeNameEmpty => kind_NODE_NAME_EMPTY
  | .nsPrefixInvalid => kind_TAG_NAMESPACE_PREFIX_INVALID | .invalidTagCharacter => kind_INVALID_TAG_CHARACTER
  | .libraryUnmatched => kind_HED_LIBRARY_UNMATCHED | .noValidTag => kind_NO_VALID_TAG_FOUND
  | .invalidParent => kind_INVALID_PARENT_NODE | .extensionInvalid => kind_TAG_EXTENSION_INVALID
  | .tagExtended => kind_TAG_EXTENDED | .requiresChild => kind_TAG_REQUIRES_CHILD
  | .deprecated => kind_ELEMENT_DEPRECATED | .style => kind_STYLE_WARNING
  | .badDefinitionLocation => kind_BAD_DEFINITION_LOCATION | .valueClassValue => kind_INVALID_VALUE_CLASS_VALUE
  | .valueClassChar => kind_INVALID_VALUE_CLASS_CHARACTER | .curlyBrace => kind_CURLY_BRACE_UNSUPPORTED_HERE
  | .unitsInvalid => kind_UNITS_INVALID | .unitsMissing => kind_UNITS_MISSING
  | .defUnmatched => kind_HED_DEF_UNMATCHED | .defExpandUnmatched => kind_HED_DEF_EXPAND_UNMATCHED
  | .requiredMissing => kind_REQUIRED_TAG_MISSING | .notUnique => kind_TAG_NOT_UNIQUE
  | .groupEmpty => kind_HED_GROUP_EMPTY | .tagGroupTag => kind_HED_TAG_GROUP_TAG
  | .topLevelTag => kind_HED_TOP_LEVEL_TAG | .multipleTopTags => kind_HED_MULTIPLE_TOP_TAGS
  | .tagRepeated => kind_HED_TAG_REPEATED | .groupRepeated => kind_HED_TAG_REPEATED_GROUP
  | .durationOtherTags => kind_DURATION_HAS_OTHER_TAGS | .durationWrongGroups => kind_DURATION_WRONG_NUMBER_GROUPS
  | .onsetNoDef => kind_ONSET_NO_DEF_TAG_FOUND
  | .defValueMissing => kind_HED_DEF_VALUE_MISSING
  | .defValueExtra => kind_HED_DEF_VALUE_EXTRA
  | .defExpandInvalid => kind_HED_DEF_EXPAND_INVALID
  | .defExpandValueMissing => kind_HED_DEF_EXPAND_VALUE_MISSING
  | .defExpandValueExtra => kind_HED_DEF_EXPAND_VALUE_EXTRA
  | .onsetTooManyDefs => kind_ONSET_TOO_MANY_DEFS
  | .onsetWrongNumberGroups => kind_ONSET_WRONG_NUMBER_GROUPS
  | .onsetTagOutsideGroup => kind_ONSET_TAG_OUTSIDE_OF_GROUP
  | .onsetDefUnmatched => kind_ONSET_DEF_UNMATCHED
  | .onsetPlaceholderWrong => kind_ONSET_PLACEHOLDER_WRONG

/-- published code (`actual_code=` of the decorator) -/
def Kind.code : Kind → Str
  | .characterInvalid => code_CHARACTER_INVALID | .tildes => code_TILDES_UNSUPPORTED
  | .parentheses => code_PARENTHESES_MISMATCH | .tagEmpty => code_TAG_EMPTY
  | .commaMissing => code_COMMA_MISSING | .nodeNameEmpty => code_NODE_NAME_EMPTY
  | .nsPrefixInvalid => code_TAG_NAMESPACE_PREFIX_INVALID | .invalidTagCharacter => code_INVALID_TAG_CHARACTER
  | .libraryUnmatched => code_HED_LIBRARY_UNMATCHED | .noValidTag => code_NO_VALID_TAG_FOUND
  | .invalidParent => code_INVALID_PARENT_NODE | .extensionInvalid => code_TAG_EXTENSION_INVALID
  | .tagExtended => code_TAG_EXTENDED | .requiresChild => code_TAG_REQUIRES_CHILD
  | .deprecated => code_ELEMENT_DEPRECATED | .style => code_STYLE_WARNING
  | .badDefinitionLocation => code_BAD_DEFINITION_LOCATION | .valueClassValue => code_INVALID_VALUE_CLASS_VALUE
  | .valueClassChar => code_INVALID_VALUE_CLASS_CHARACTER | .curlyBrace => code_CURLY_BRACE_UNSUPPORTED_HERE
  | .unitsInvalid => code_UNITS_INVALID | .unitsMissing => code_UNITS_MISSING
  | .defUnmatched => code_HED_DEF_UNMATCHED | .defExpandUnmatched => code_HED_DEF_EXPAND_UNMATCHED
  | .requiredMissing => code_REQUIRED_TAG_MISSING | .notUnique => code_TAG_NOT_UNIQUE
  | .groupEmpty => code_HED_GROUP_EMPTY | .tagGroupTag => code_HED_TAG_GROUP_TAG
  | .topLevelTag => code_HED_TOP_LEVEL_TAG | .multipleTopTags => code_HED_MULTIPLE_TOP_TAGS
  | .tagRepeated => code_HED_TAG_REPEATED | .groupRepeated => code_HED_TAG_REPEATED_GROUP
  | .durationOtherTags => code_DURATION_HAS_OTHER_TAGS | .durationWrongGroups => code_DURATION_WRONG_NUMBER_GROUPS
  | .onsetNoDef => code_ONSET_NO_DEF_TAG_FOUND
  | .defValueMissing => code_HED_DEF_VALUE_MISSING
  | .defValueExtra => code_HED_DEF_VALUE_EXTRA
  | .defExpandInvalid => code_HED_DEF_EXPAND_INVALID
  | .defExpandValueMissing => code_HED_DEF_EXPAND_VALUE_MISSING
  | .defExpandValueExtra => code_HED_DEF_EXPAND_VALUE_EXTRA
  | .onsetTooManyDefs => code_ONSET_TOO_MANY_DEFS
  | .onsetWrongNumberGroups => code_ONSET_WRONG_NUMBER_GROUPS
  | .onsetTagOutsideGroup => code_ONSET_TAG_OUTSIDE_OF_GROUP
  | .onsetDefUnmatched => code_ONSET_DEF_UNMATCHED
  | .onsetPlaceholderWrong => code_ONSET_PLACEHOLDER_WRONG

/-- default severity of the decorator -/
def Kind.sev : Kind → Nat
  | .characterInvalid => sev_CHARACTER_INVALID | .tildes => sev_TILDES_UNSUPPORTED
  | .parentheses => sev_PARENTHESES_MISMATCH | .tagEmpty => sev_TAG_EMPTY
  | .commaMissing => sev_COMMA_MISSING | .nodeNameEmpty => sev_NODE_NAME_EMPTY
  | .nsPrefixInvalid => sev_TAG_NAMESPACE_PREFIX_INVALID | .invalidTagCharacter => sev_INVALID_TAG_CHARACTER
  | .libraryUnmatched => sev_HED_LIBRARY_UNMATCHED | .noValidTag => sev_NO_VALID_TAG_FOUND
  | .invalidParent => sev_INVALID_PARENT_NODE | .extensionInvalid => sev_TAG_EXTENSION_INVALID
  | .tagExtended => sev_TAG_EXTENDED | .requiresChild => sev_TAG_REQUIRES_CHILD
  | .deprecated => sev_ELEMENT_DEPRECATED | .style => sev_STYLE_WARNING
  | .badDefinitionLocation => sev_BAD_DEFINITION_LOCATION | .valueClassValue => sev_INVALID_VALUE_CLASS_VALUE
  | .valueClassChar => sev_INVALID_VALUE_CLASS_CHARACTER | .curlyBrace => sev_CURLY_BRACE_UNSUPPORTED_HERE
  | .unitsInvalid => sev_UNITS_INVALID | .unitsMissing => sev_UNITS_MISSING
  | .defUnmatched => sev_HED_DEF_UNMATCHED | .defExpandUnmatched => sev_HED_DEF_EXPAND_UNMATCHED
  | .requiredMissing => sev_REQUIRED_TAG_MISSING | .notUnique => sev_TAG_NOT_UNIQUE
  | .groupEmpty => sev_HED_GROUP_EMPTY | .tagGroupTag => sev_HED_TAG_GROUP_TAG
  | .topLevelTag => sev_HED_TOP_LEVEL_TAG | .multipleTopTags => sev_HED_MULTIPLE_TOP_TAGS
  | .tagRepeated => sev_HED_TAG_REPEATED | .groupRepeated => sev_HED_TAG_REPEATED_GROUP
  | .durationOtherTags => sev_DURATION_HAS_OTHER_TAGS | .durationWrongGroups => sev_DURATION_WRONG_NUMBER_GROUPS
  | .onsetNoDef => sev_ONSET_NO_DEF_TAG_FOUND
  | .defValueMissing => sev_HED_DEF_VALUE_MISSING
  | .defValueExtra => sev_HED_DEF_VALUE_EXTRA
  | .defExpandInvalid => sev_HED_DEF_EXPAND_INVALID
  | .defExpandValueMissing => sev_HED_DEF_EXPAND_VALUE_MISSING
  | .defExpandValueExtra => sev_HED_DEF_EXPAND_VALUE_EXTRA
  | .onsetTooManyDefs => sev_ONSET_TOO_MANY_DEFS
  | .onsetWrongNumberGroups => sev_ONSET_WRONG_NUMBER_GROUPS
  | .onsetTagOutsideGroup => sev_ONSET_TAG_OUTSIDE_OF_GROUP
  | .onsetDefUnmatched => sev_ONSET_DEF_UNMATCHED
  | .onsetPlaceholderWrong => sev_ONSET_PLACEHOLDER_WRONG

/-- `has_sub_tag=` of the decorator (the issue carries `index_in_tag`, `index_in_tag_end`) -/
def Kind.hasSub : Kind → Bool
  | .characterInvalid => sub_CHARACTER_INVALID | .tildes => sub_TILDES_UNSUPPORTED
  | .parentheses => sub_PARENTHESES_MISMATCH | .tagEmpty => sub_TAG_EMPTY
  | .commaMissing => sub_COMMA_MISSING | .nodeNameEmpty => sub_NODE_NAME_EMPTY
  | .nsPrefixInvalid => sub_TAG_NAMESPACE_PREFIX_INVALID | .invalidTagCharacter => sub_INVALID_TAG_CHARACTER
  | .libraryUnmatched => sub_HED_LIBRARY_UNMATCHED | .noValidTag => sub_NO_VALID_TAG_FOUND
  | .invalidParent => sub_INVALID_PARENT_NODE | .extensionInvalid => sub_TAG_EXTENSION_INVALID
  | .tagExtended => sub_TAG_EXTENDED | .requiresChild => sub_TAG_REQUIRES_CHILD
  | .deprecated => sub_ELEMENT_DEPRECATED | .style => sub_STYLE_WARNING
  | .badDefinitionLocation => sub_BAD_DEFINITION_LOCATION | .valueClassValue => sub_INVALID_VALUE_CLASS_VALUE
  | .valueClassChar => sub_INVALID_VALUE_CLASS_CHARACTER | .curlyBrace => sub_CURLY_BRACE_UNSUPPORTED_HERE
  | .unitsInvalid => sub_UNITS_INVALID | .unitsMissing => sub_UNITS_MISSING
  | .defUnmatched => sub_HED_DEF_UNMATCHED | .defExpandUnmatched => sub_HED_DEF_EXPAND_UNMATCHED
  | .requiredMissing => sub_REQUIRED_TAG_MISSING | .notUnique => sub_TAG_NOT_UNIQUE
  | .groupEmpty => sub_HED_GROUP_EMPTY | .tagGroupTag => sub_HED_TAG_GROUP_TAG
  | .topLevelTag => sub_HED_TOP_LEVEL_TAG | .multipleTopTags => sub_HED_MULTIPLE_TOP_TAGS
  | .tagRepeated => sub_HED_TAG_REPEATED | .groupRepeated => sub_HED_TAG_REPEATED_GROUP
  | .durationOtherTags => sub_DURATION_HAS_OTHER_TAGS | .durationWrongGroups => sub_DURATION_WRONG_NUMBER_GROUPS
  | .onsetNoDef => sub_ONSET_NO_DEF_TAG_FOUND
  | .defValueMissing => sub_HED_DEF_VALUE_MISSING
  | .defValueExtra => sub_HED_DEF_VALUE_EXTRA
  | .defExpandInvalid => sub_HED_DEF_EXPAND_INVALID
  | .defExpandValueMissing => sub_HED_DEF_EXPAND_VALUE_MISSING
  | .defExpandValueExtra => sub_HED_DEF_EXPAND_VALUE_EXTRA
  | .onsetTooManyDefs => sub_ONSET_TOO_MANY_DEFS
  | .onsetWrongNumberGroups => sub_ONSET_WRONG_NUMBER_GROUPS
  | .onsetTagOutsideGroup => sub_ONSET_TAG_OUTSIDE_OF_GROUP
  | .onsetDefUnmatched => sub_ONSET_DEF_UNMATCHED
  | .onsetPlaceholderWrong => sub_ONSET_PLACEHOLDER_WRONG

/-- One issue: internal kind, published code (after an `actual_error=` override), severity, and the
location observables: span of `source_tag` in the text, (`index_in_tag`, `index_in_tag_end`) (for
PARENTHESES_MISMATCH: the two counts), `char_index`, and the text argument (`tag=` of COMMA_MISSING,
`tag_namespace=` of the required/unique rules, `value_class=` of the value-class rules). -/
structure Issue where
  kind : Kind
  code : Str
  sev : Nat
  span : Option (Nat × Nat) := none
  sub : Option (Nat × Nat) := none
  chr : Option Nat := none
  txt : Option Str := none
deriving DecidableEq, Repr, Inhabited

def Issue.plain (k : Kind) : Issue := { kind := k, code := k.code, sev := k.sev }

/-- `check_for_any_errors`: severity below WARNING -/
def Issue.isError (i : Issue) : Bool := i.sev < sevWarning
def hasError (l : List Issue) : Bool := l.any Issue.isError
def errors (l : List Issue) : List Issue := l.filter Issue.isError
def codes (l : List Issue) : List Str := l.map (·.code)

/-! ### characters -/

/-- Python's `str` predicates on the non-ASCII characters of the alphabet in use (data). -/
structure CharData where
  nonPrintable : List Char := []
  space : List Char := []
  alnum : List Char := []
  alpha : List Char := []
deriving Repr, Inhabited

def isAscii (c : Char) : Bool := c.toNat < 128
def isAsciiUpper (c : Char) : Bool := 'A' ≤ c && c ≤ 'Z'
def isAsciiLower (c : Char) : Bool := 'a' ≤ c && c ≤ 'z'
def isAsciiDigit (c : Char) : Bool := '0' ≤ c && c ≤ '9'

/-- `str.isprintable` -/
def isPrintable (cd : CharData) (c : Char) : Bool :=
  if isAscii c then 0x20 ≤ c.toNat && c.toNat ≤ 0x7E else !cd.nonPrintable.contains c
/-- `str.isspace` (= what `str.strip()` removes) -/
def isSpace (cd : CharData) (c : Char) : Bool :=
  if isAscii c then (9 ≤ c.toNat && c.toNat ≤ 13) || (28 ≤ c.toNat && c.toNat ≤ 32) else cd.space.contains c
/-- `str.isalpha` on one character -/
def isAlpha (cd : CharData) (c : Char) : Bool :=
  if isAscii c then isAsciiUpper c || isAsciiLower c else cd.alpha.contains c
/-- `str.isalnum` on one character -/
def isAlnum (cd : CharData) (c : Char) : Bool :=
  if isAscii c then isAsciiUpper c || isAsciiLower c || isAsciiDigit c else cd.alnum.contains c

/-- `str.strip()` -/
def strip (cd : CharData) (s : Str) : Str :=
  ((s.dropWhile (isSpace cd)).reverse.dropWhile (isSpace cd)).reverse

/-- `casefold` / `lower` on the alphabet in use -/
def fold (s : Str) : Str := s.map Char.toLower

/-- `str.find(sub)`: first index, `none` = -1 -/
def findSubFrom (sub : Str) : Nat → Str → Option Nat
  | i, [] => if sub.isEmpty then some i else none
  | i, c :: cs => if sub.isPrefixOf (c :: cs) then some i else findSubFrom sub (i + 1) cs
def findSub (s sub : Str) : Option Nat := findSubFrom sub 0 s

/-! ### environment: schema vocabulary, attributes, unit classes -/

/-- attributes of one tag entry after `_finalize_inherited_attributes`; `parent` = `_parent_tag` -/
structure TagAttr where
  extensionAllowed : Bool := false
  takesValue : Bool := false
  requireChild : Bool := false
  tagGroup : Bool := false
  topLevelTagGroup : Bool := false
  unique : Bool := false
  required : Bool := false
  deprecated : Bool := false
  unitClasses : List Nat := []      -- indices into `Env.unitClasses`, in dictionary order
  valueClasses : List Str := []     -- names, in dictionary order
  parent : Option Nat := none
deriving Repr, Inhabited

/-- Which spelling of the duplicate rule the tree under test has (read from its source by the harness):
`sortCanonical` = `HedGroup._sorted` orders by the case-folded printout of the sorted content first,
`eqFold` = `HedTag.__eq__` compares `short_tag` case-folded, `emptyDupSafe` = the descent of
`_check_for_duplicate_groups_recursive` stops at an empty list instead of raising. -/
structure Variant where
  sortCanonical : Bool := false
  eqFold : Bool := false
  emptyDupSafe : Bool := false
  /-- `_check_value_class` locates the problem characters of a Def value in the Def tag itself
  (`_relocate_errors`, fixes/C01_def_value_char_index.diff) instead of shifting indices of the placeholder tag -/
  defCharRelocate : Bool := false
deriving Repr, Inhabited

/-! resolved tags (`HedTag`) and resolved tree: plain data -/

structure RTag where
  span : Nat × Nat
  org : Str                 -- `org_tag`
  ns : Str                  -- `_namespace`
  entry : Option Nat        -- `_schema_entry`
  extVal : Str              -- `_extension_value` (with its leading slash)
deriving Repr, DecidableEq, Inhabited

inductive RNode where
  | tag (t : RTag)
  | group (span : Nat × Nat) (kids : List RNode)
deriving Inhabited

/-- one `DefinitionEntry`: case-folded name, takes-value flag, children of the content group (resolved
against the schema; `[]` = no content) -/
structure DefEntry where
  key : Str
  takes : Bool
  content : List RNode
deriving Inhabited

structure Env where
  var : Variant := {}
  vocab : Vocab
  ns : Str                          -- the schema's namespace, "" or "xx:"
  attrs : Array TagAttr
  mods : List Units.Modifier
  unitClasses : Array Units.UnitClass
  modern : Bool                     -- `schema_83_props`
  cd : CharData
  defs : List DefEntry := []        -- the definition dictionary (`def_dict`), as data

def Env.attr (env : Env) (i : Nat) : TagAttr := env.attrs[i]?.getD {}

/-! ### resolved tags (`HedTag`) -/

/-- `str(tag)` = `short_tag` -/
def strOf (env : Env) (t : RTag) : Str :=
  match t.entry with
  | some e => t.ns ++ env.vocab.shortName e ++ t.extVal
  | none => t.org

def shortBase (env : Env) (t : RTag) : Str :=
  match t.entry with
  | some e => env.vocab.shortName e
  | none => t.org

def longTag (env : Env) (t : RTag) : Str :=
  match t.entry with
  | some e => t.ns ++ env.vocab.longName e ++ t.extVal
  | none => t.org

/-- `org_base_tag` -/
def orgBase (t : RTag) : Str :=
  match t.entry with
  | some _ =>
    if t.extVal.isEmpty then t.org
    else if t.org.length == t.extVal.length then []
    else t.org.take (t.org.length - t.extVal.length)
  | none => t.org

/-- `extension` -/
def extension (t : RTag) : Str := t.extVal.drop 1

def entryAttr (env : Env) (t : RTag) : TagAttr :=
  match t.entry with
  | some e => env.attr e
  | none => {}

/-- `base_tag_has_attribute` -/
def baseAttr (env : Env) (t : RTag) : TagAttr :=
  match t.entry with
  | some e =>
    let a := env.attr e
    if a.takesValue then (match a.parent with | some p => env.attr p | none => {}) else a
  | none => {}

def tagIssue (k : Kind) (t : RTag) : Issue := { Issue.plain k with span := some t.span }
def subIssue (k : Kind) (t : RTag) (a b : Nat) : Issue := { Issue.plain k with span := some t.span, sub := some (a, b) }

/-- `HedTag._calculate_to_canonical_forms` (= `HedSchema.find_tag_entry` on `str(tag)`) -/
def canon (env : Env) (t : RTag) : RTag × List Issue :=
  if t.ns != env.ns then ({ t with entry := none }, [tagIssue .libraryUnmatched t])
  else
    let clean := (strOf env t).drop t.ns.length
    match find env.vocab fold clean with
    | .found i rem => ({ t with entry := some i, extVal := if rem.isEmpty then t.extVal else rem }, [])
    | .noValidTag stop =>
      ({ t with entry := none }, [subIssue .noValidTag t t.ns.length (t.ns.length + stop)])
    | .invalidParent a b _ =>
      ({ t with entry := none }, [subIssue .invalidParent t (t.ns.length + a) (t.ns.length + b)])

/-- `HedTag.__init__` -/
def mkTag (env : Env) (text : Str) (a b : Nat) : RTag :=
  let org := Tree.slice text a b
  (canon env ⟨(a, b), org, namespaceOf org, none, []⟩).1

/-- `HedTag.__eq__` between two tags -/
def tagEq (env : Env) (a b : RTag) : Bool :=
  (if env.var.eqFold then fold (strOf env a) == fold (strOf env b) else strOf env a == strOf env b)
    || fold a.org == fold b.org

/-! ### resolved tree -/

mutual
def resolveNode (env : Env) (text : Str) : Node → RNode
  | .tag a b => .tag (mkTag env text a b)
  | .group a b kids => .group (a, b) (resolveList env text kids)
def resolveList (env : Env) (text : Str) : List Node → List RNode
  | [] => []
  | n :: ns => resolveNode env text n :: resolveList env text ns
end

/- second `_calculate_to_canonical_forms` pass of `run_basic_checks`, tag by tag in source order -/
mutual
def recanonNode (env : Env) : RNode → RNode × List Issue
  | .tag t => let r := canon env t; (.tag r.1, r.2)
  | .group s kids => let r := recanonList env kids; (.group s r.1, r.2)
def recanonList (env : Env) : List RNode → List RNode × List Issue
  | [] => ([], [])
  | n :: ns =>
    let r := recanonNode env n
    let rs := recanonList env ns
    (r.1 :: rs.1, r.2 ++ rs.2)
end

/- `get_all_tags` -/
mutual
def tagsNode : RNode → List RTag
  | .tag t => [t]
  | .group _ kids => tagsList kids
def tagsList : List RNode → List RTag
  | [] => []
  | n :: ns => tagsNode n ++ tagsList ns
end

/-- `HedGroup.tags()` -/
def directTags : List RNode → List RTag
  | [] => []
  | .tag t :: ns => t :: directTags ns
  | .group _ _ :: ns => directTags ns

/-- `HedGroup.groups()` as (span, children) -/
def directGroups : List RNode → List ((Nat × Nat) × List RNode)
  | [] => []
  | .tag _ :: ns => directGroups ns
  | .group s k :: ns => (s, k) :: directGroups ns

/-- one entry of `get_all_groups(also_return_depth=True)` -/
structure GV where
  span : Nat × Nat
  kids : List RNode
  isGroup : Bool
  isTop : Bool
deriving Inhabited

mutual
def groupsNode (top : Bool) : RNode → List GV
  | .tag _ => []
  | .group s kids => ⟨s, kids, true, top⟩ :: groupsList false kids
def groupsList (top : Bool) : List RNode → List GV
  | [] => []
  | n :: ns => groupsNode top n ++ groupsList top ns
end

/-- `hed_string.get_all_groups(also_return_depth=True)`: the string itself first -/
def allGroups (len : Nat) (root : List RNode) : List GV :=
  ⟨(0, len), root, false, false⟩ :: groupsList true root

/- `==` between children (`HedTag.__eq__`, `HedGroup.__eq__`, Python list equality) -/
mutual
def nodeEq (env : Env) : RNode → RNode → Bool
  | .tag a, .tag b => tagEq env a b
  | .group _ ka, .group _ kb => listEq env ka kb
  | _, _ => false
def listEq (env : Env) : List RNode → List RNode → Bool
  | [], [] => true
  | a :: as, b :: bs => nodeEq env a b && listEq env as bs
  | _, _ => false
end

/- `str(child)` -/
mutual
def strNode (env : Env) : RNode → Str
  | .tag t => strOf env t
  | .group _ kids => '(' :: (strList env kids ++ [')'])
def strList (env : Env) : List RNode → Str
  | [] => []
  | [n] => strNode env n
  | n :: ns => strNode env n ++ (',' :: strList env ns)
end

/-! ### phase 1: the raw string -/

/-- the test of `check_invalid_character_issues` on one character -/
def badChar (env : Env) (ph : Bool) (c : Char) : Bool :=
  (if ph then invalidStringCharsPlaceholders else invalidStringChars).contains c
    || (if env.modern then !isPrintable env.cd c else c.toNat > 127)

/-- `_report_invalid_character_error` -/
def charIssue (i : Nat) (c : Char) : Issue :=
  { Issue.plain (if c == '~' then .tildes else .characterInvalid) with chr := some i }

/-- `check_invalid_character_issues` from index `i` -/
def charIssuesFrom (env : Env) (ph : Bool) : Nat → Str → List Issue
  | _, [] => []
  | i, c :: cs => (if badChar env ph c then [charIssue i c] else []) ++ charIssuesFrom env ph (i + 1) cs

def charIssues (env : Env) (ph : Bool) (text : Str) : List Issue := charIssuesFrom env ph 0 text

/-- `check_count_tag_group_parentheses` -/
def parenIssues (text : Str) : List Issue :=
  if Paren.mismatch text then
    [{ Issue.plain .parentheses with sub := some (text.count '(', text.count ')') }]
  else []

/-- locals of `check_delimiter_issues_in_hed_string` -/
structure DSt where
  last : Option Char := none
  lastIdx : Nat := 0
  cur : Str := []
  issues : List Issue := []
  stop : Bool := false
deriving Inhabited

def emptyAt (i : Nat) : Issue := { Issue.plain .tagEmpty with chr := some i }
def commaMissing (t : Str) : Issue := { Issue.plain .commaMissing with txt := some t }

def dstep (cd : CharData) (st : DSt) (i : Nat) (c : Char) : DSt :=
  if st.stop then st else
  let cur := st.cur ++ [c]
  if isSpace cd c then { st with cur := cur }
  else if c == ',' then
    if strip cd cur == [c] then { st with cur := [], issues := st.issues ++ [emptyAt i] }
    else { st with cur := [], last := some c, lastIdx := i }
  else if c == '(' then
    if strip cd cur == ['('] then { st with cur := [], last := some c, lastIdx := i }
    else { st with cur := cur, issues := st.issues ++ [commaMissing cur], last := some c, lastIdx := i }
  else if st.last == some ',' && c == ')' then
    { st with cur := cur, issues := st.issues ++ [emptyAt i], last := some c, lastIdx := i }
  else if st.last == some ')' && !(c == ',' || c == ')') then
    { st with cur := cur, issues := st.issues ++ [commaMissing cur.dropLast], stop := true }
  else { st with cur := cur, last := some c, lastIdx := i }

def drun (cd : CharData) : DSt → Nat → Str → DSt
  | st, _, [] => st
  | st, i, c :: cs => drun cd (dstep cd st i c) (i + 1) cs

/-- `check_delimiter_issues_in_hed_string` -/
def delimIssues (cd : CharData) (text : Str) : List Issue :=
  let st := drun cd {} 0 text
  st.issues ++ (if st.last == some ',' then [emptyAt st.lastIdx] else [])

def isSlashRun (c : Char) : Bool := c == ' ' || c == '\t' || c == '/'

/-- `pattern_doubleslash.finditer`: non-overlapping matches of `([ \t/]{2,}|^/|/$)`;
`skip` = characters still inside the previous match. -/
def slashMatches : Nat → Nat → Str → List (Nat × Nat)
  | _, _, [] => []
  | i, skip + 1, _ :: cs => slashMatches (i + 1) skip cs
  | i, 0, c :: cs =>
    let run := (c :: cs).takeWhile isSlashRun
    if run.length ≥ 2 then (i, i + run.length) :: slashMatches (i + 1) (run.length - 1) cs
    else if c == '/' && (i == 0 || cs.isEmpty || cs == ['\n']) then (i, i + 1) :: slashMatches (i + 1) 0 cs
    else slashMatches (i + 1) 0 cs

/-- `check_tag_formatting` -/
def slashIssues (t : RTag) : List Issue :=
  (slashMatches 0 0 t.org).map fun m => subIssue .nodeNameEmpty t m.1 m.2

/-- `_run_hed_string_validators` -/
def stringPhase (env : Env) (ph : Bool) (text : Str) (tags : List RTag) : List Issue :=
  charIssues env ph text ++ parenIssues text ++ delimIssues env.cd text ++ tags.flatMap slashIssues

/-! ### phase 2: tag characters and lookup -/

/-- `_check_invalid_chars` -/
def invalidCharsFrom (cd : CharData) (allowed : List Char) (t : RTag) (override : Option Str) :
    Nat → Str → List Issue
  | _, [] => []
  | i, c :: cs =>
    (if isAlnum cd c || allowed.contains c || c == ':' then []
     else [{ subIssue .invalidTagCharacter t i (i + 1) with code := override.getD Kind.invalidTagCharacter.code }])
      ++ invalidCharsFrom cd allowed t override (i + 1) cs

/-- `check_tag_invalid_chars` -/
def tagCharIssues (env : Env) (ph : Bool) (t : RTag) : List Issue :=
  (if !t.ns.isEmpty && !(!t.ns.dropLast.isEmpty && t.ns.dropLast.all (isAlpha env.cd))
   then [tagIssue .nsPrefixInvalid t] else [])
  ++ invalidCharsFrom env.cd (if ph then tagAllowedChars ++ ['#'] else tagAllowedChars) t none 0 (orgBase t)

/-! ### phase 3: individual tags -/

/-- `check_tag_exists_in_schema` -/
def existsIssues (env : Env) (t : RTag) : List Issue :=
  let a := entryAttr env t
  if (t.entry.isSome && (extension t).isEmpty) || a.takesValue then []
  else if !a.extensionAllowed then
    [{ tagIssue .extensionInvalid t with
        code := if (extension t).contains '#' then val_PLACEHOLDER_INVALID else Kind.extensionInvalid.code }]
  else [subIssue .tagExtended t (orgBase t).length t.org.length]

def placeholderFrom (t : RTag) (start : Nat) : Nat → Str → List Issue
  | _, [] => []
  | i, c :: cs =>
    (if c == '#' then [{ subIssue .invalidTagCharacter t (start + i) (start + i + 1) with code := val_PLACEHOLDER_INVALID }]
     else []) ++ placeholderFrom t start (i + 1) cs

/-- `check_for_placeholder` -/
def placeholderIssues (t : RTag) (isDef : Bool) : List Issue :=
  if isDef then [] else placeholderFrom t ((orgBase t).length + 1) 0 (extension t)

def capitalizeAscii : Str → Str
  | [] => []
  | c :: cs => c.toUpper :: cs.map Char.toLower

/-- `check_capitalization` (`CAMEL_CASE_EXPRESSION` finds a match iff the name has a letter A-Z); the names are
those of `org_base_tag[len(schema_namespace):]` — the library namespace is not part of the tag name (fix de26284) -/
def styleIssues (t : RTag) : List Issue :=
  if (splitSlash ((orgBase t).drop t.ns.length)).any (fun n => n != capitalizeAscii n && !n.any isAsciiUpper)
  then [tagIssue .style t] else []

/-- `run_individual_tag_validators` -/
def individualIssues (env : Env) (ph isDef : Bool) (t : RTag) : List Issue :=
  existsIssues env t
  ++ (if !ph then placeholderIssues t isDef else [])
  ++ (if (entryAttr env t).requireChild then [tagIssue .requiresChild t] else [])
  ++ (if (entryAttr env t).deprecated then [tagIssue .deprecated t] else [])
  ++ styleIssues t

/-! #### value classes and units -/

def inRanges (n : Nat) (rs : List (Nat × Nat)) : Bool := rs.any fun r => r.1 ≤ n && n ≤ r.2

def charClassOk (c : Char) : CharClass → Bool
  | .set neg rs => if neg then !inRanges c.toNat rs else inRanges c.toNat rs
  | .unsupported => false

/-- `get_problem_chars`: (index, char) not matched by any of the class's character classes -/
def problemCharsFrom (ccs : List CharClass) : Nat → Str → List (Nat × Char)
  | _, [] => []
  | i, c :: cs => (if ccs.any (charClassOk c) then [] else [(i, c)]) ++ problemCharsFrom ccs (i + 1) cs

def problemChars (cls : Str) (s : Str) : List (Nat × Char) :=
  match classChars.find? (·.1 == cls) with
  | some (_, ccs) => if ccs.isEmpty then [] else problemCharsFrom ccs 0 s
  | none => []

def takeN (n : Nat) (s : Str) : Option Str :=
  let d := s.take n
  if d.length == n && d.all isAsciiDigit then some (s.drop n) else none

def expect (c : Char) : Str → Option Str
  | d :: r => if d == c then some r else none
  | [] => none

/-- `\d{4}-\d{2}-\d{2}T\d{2}:\d{2}:\d{2}(?:\.\d+)?(?:Z|[+-]\d{2}:\d{2})?` anchored at both ends -/
def isDateTime (s : Str) : Bool :=
  let r := (do
    let s ← takeN 4 s; let s ← expect '-' s; let s ← takeN 2 s; let s ← expect '-' s; let s ← takeN 2 s
    let s ← expect 'T' s; let s ← takeN 2 s; let s ← expect ':' s; let s ← takeN 2 s; let s ← expect ':' s
    takeN 2 s : Option Str)
  match r with
  | none => false
  | some rest =>
    let rest := match rest with
      | '.' :: q => if (q.takeWhile isAsciiDigit).isEmpty then rest else q.dropWhile isAsciiDigit
      | _ => rest
    match rest with
    | [] => true
    | ['Z'] => true
    | sgn :: q =>
      (sgn == '+' || sgn == '-') &&
        ((do let q ← takeN 2 q; let q ← expect ':' q; takeN 2 q : Option Str) == some [])

/-- `re.match("^…$", s)`: `$` also matches before one trailing newline -/
def matchDollar (p : Str → Bool) (s : Str) : Bool :=
  p s || (s.getLast? == some '\n' && p s.dropLast)

/-- `is_valid_value` -/
def wordValid (cls : Str) (s : Str) : Bool :=
  match classWords.find? (·.1 == cls) with
  | some (_, .numeric) => matchDollar Units.isNumeric s
  | some (_, .dateTime) => matchDollar isDateTime s
  | none => true

/-- `_check_value_class` + `report_value_errors` -/
def valueClassIssues (env : Env) (t : RTag) (sv : Str) : List Issue :=
  let a := entryAttr env t
  if !a.takesValue then [] else
  if a.valueClasses.isEmpty then [] else
  let ob := (orgBase t).length
  let start := match findSub (extension t) sv with
    | some k => k + ob + 1
    | none => ob
  if a.valueClasses.any (fun c => wordValid c sv && (problemChars c sv).isEmpty) then [] else
  a.valueClasses.flatMap fun c =>
    if !wordValid c sv then
      [{ subIssue .valueClassValue t 0 t.org.length with txt := some c }]
    else (problemChars c sv).map fun (k, ch) =>
      if ch == '{' || ch == '}' then subIssue .curlyBrace t (k + start) (k + start + 1)
      else { subIssue .valueClassChar t (k + start) (k + start + 1) with txt := some c }

def findCharAt (ch : Char) : Nat → Str → Option Nat
  | _, [] => none
  | i, c :: cs => if c == ch then some i else findCharAt ch (i + 1) cs

/-- `str.find(ch, start)` -/
def findCharFrom (text : Str) (ch : Char) (start : Nat) : Option Nat := findCharAt ch start (text.drop start)

/-- `_relocate_errors`: successive occurrences in the reported tag, the whole tag for a character not in it -/
def relocate (text : Str) : Nat → List (Nat × Char) → List (Char × Nat × Nat)
  | _, [] => []
  | start, (_, ch) :: es =>
    match findCharFrom text ch start with
    | some j => (ch, j, j + 1) :: relocate text (j + 1) es
    | none => (ch, 0, text.length) :: relocate text start es

/-- `_check_value_class` + `report_value_errors` with `report_as` another tag: classes of `orig`, issues on
`rep`; index = k + start_index + index_adj = k + find + 1 + len(rep.org_base_tag), or (variant) relocated -/
def valueClassIssuesAs (env : Env) (orig rep : RTag) (sv : Str) : List Issue :=
  let a := entryAttr env orig
  if !a.takesValue then [] else
  if a.valueClasses.isEmpty then [] else
  let base := (orgBase rep).length + (match findSub (extension orig) sv with
    | some k => k + 1
    | none => 0)
  if a.valueClasses.any (fun c => wordValid c sv && (problemChars c sv).isEmpty) then [] else
  a.valueClasses.flatMap fun c =>
    if !wordValid c sv then
      [{ subIssue .valueClassValue rep 0 rep.org.length with txt := some c }]
    else
      let errs : List (Char × Nat × Nat) :=
        if env.var.defCharRelocate then relocate rep.org (orgBase rep).length (problemChars c sv)
        else (problemChars c sv).map fun (k, ch) => (ch, k + base, k + base + 1)
      errs.map fun (ch, i, j) =>
        if ch == '{' || ch == '}' then subIssue .curlyBrace rep i j
        else { subIssue .valueClassChar rep i j with txt := some c }

def tagUnitClasses (env : Env) (t : RTag) : List Units.UnitClass :=
  (entryAttr env t).unitClasses.filterMap fun i => env.unitClasses[i]?

/-- `get_stripped_unit_value`: the value text (the whole extension when no unit is recognised) -/
def strippedText (env : Env) (t : RTag) (text : Str) : Str :=
  let r := Units.stripped env.mods (tagUnitClasses env t) fold text
  if r.2.isSome then r.1 else extension t

/-- a unit of one of the tag's classes was recognised -/
def unitFound (env : Env) (t : RTag) (text : Str) : Bool :=
  (Units.stripped env.mods (tagUnitClasses env t) fold text).2.isSome

/-- the text handed to the value-class check: up to the first blank when a blank is left -/
def valueText (env : Env) (t : RTag) (text : Str) : Str :=
  let sv := strippedText env t text
  if sv.contains ' ' then sv.takeWhile (· != ' ') else sv

/-- `check_tag_unit_class_units_are_valid` (no `error_code`) -/
def unitIssues (env : Env) (t : RTag) (text : Str) : List Issue :=
  valueClassIssues env t (valueText env t text)
  ++ (if unitFound env t text then []
      else [tagIssue (if (strippedText env t text).contains ' ' then .unitsInvalid else .unitsMissing) t])

/-- `check_for_invalid_extension_chars` (`invalidCharsFrom` numbers characters from its start argument) -/
def extensionCharIssues (env : Env) (t : RTag) (text : Str) : List Issue :=
  invalidCharsFrom env.cd (tagAllowedChars ++ defaultAllowedPlaceholderChars ++ [' ']) t none
    ((orgBase t).length + 1) text

/-- `HedValidator.validate_units` -/
def validateUnits (env : Env) (t : RTag) (text : Str) : List Issue :=
  if text == ['#'] then []
  else if !(tagUnitClasses env t).isEmpty then unitIssues env t text
  else if !(entryAttr env t).valueClasses.isEmpty then valueClassIssues env t text
  else if !(extension t).isEmpty then extensionCharIssues env t text
  else []

/-! #### declared definitions -/

/-- `self.defs.get(label.casefold())` -/
def defLookup (env : Env) (label : Str) : Option DefEntry := env.defs.find? (·.key == fold label)

/-- `tag_label, _, placeholder = def_tag.extension.partition('/')` -/
def defLabel (t : RTag) : Str := (extension t).takeWhile (· != '/')
def defValue (t : RTag) : Str := ((extension t).dropWhile (· != '/')).drop 1

def replaceHash (v : Str) (s : Str) : Str := s.flatMap fun c => if c == '#' then v else [c]

/-- `HedTag.is_placeholder` -/
def isPlaceholderTag (t : RTag) : Bool := t.org.contains '#' || t.extVal.contains '#'

/-- `replace_placeholder` -/
def plugTag (v : Str) (t : RTag) : RTag :=
  match t.entry with
  | some _ => { t with extVal := replaceHash v t.extVal }
  | none => { t with org := replaceHash v t.org }

/- `find_placeholder_tag().replace_placeholder(v)` on a copy of the content: the first placeholder tag -/
mutual
def plugNode (v : Str) : RNode → RNode × Bool
  | .tag t => if isPlaceholderTag t then (.tag (plugTag v t), true) else (.tag t, false)
  | .group s ks => let r := plugList v ks; (.group s r.1, r.2)
def plugList (v : Str) : List RNode → List RNode × Bool
  | [] => ([], false)
  | k :: ks =>
    let r := plugNode v k
    if r.2 then (r.1 :: ks, true) else let rs := plugList v ks; (k :: rs.1, rs.2)
end

/-- result of `DefinitionEntry.get_definition` -/
inductive DefExp where
  | noEntry
  | mismatch (takes : Bool)        -- returns None: value given xor expected
  | ok (rest : List RNode)         -- children after the copy of the tag: nothing, or the content group
deriving Inhabited

def defExpansion (env : Env) (t : RTag) : DefExp :=
  match defLookup env (defLabel t) with
  | none => .noEntry
  | some e =>
    if e.takes == (defValue t).isEmpty then .mismatch e.takes
    else if e.content.isEmpty then .ok []
    else if (defValue t).isEmpty then .ok [.group (0, 0) e.content]
    else .ok [.group (0, 0) (plugList (defValue t) e.content).1]

/-- the duplication of `check_tag_unit_class_units_are_valid` when an `error_code` is passed -/
def withErrorCode (code : Str) (l : List Issue) : List Issue :=
  match l with
  | [] => []
  | i :: _ => if l.any (·.code == code) then l else l ++ [{ i with code := code }]

/-- `validate_units(placeholder_tag, text, report_as=def_tag, error_code=code)` -/
def defUnits (env : Env) (p rep : RTag) (text code : Str) : List Issue :=
  if text == ['#'] then []
  else if !(tagUnitClasses env p).isEmpty then
    withErrorCode code (valueClassIssuesAs env p rep (valueText env p text)
      ++ (if unitFound env p text then []
          else [tagIssue (if (strippedText env p text).contains ' ' then .unitsInvalid else .unitsMissing) rep]))
  else if !(entryAttr env p).valueClasses.isEmpty then valueClassIssuesAs env p rep text
  else []

/-- the placeholder tag of the expansion, value already substituted -/
def defPlaceholder (env : Env) (t : RTag) : Option RTag :=
  match defLookup env (defLabel t) with
  | none => none
  | some e =>
    if e.takes == (defValue t).isEmpty || !e.takes then none
    else (tagsList (plugList (defValue t) e.content).1).find? isPlaceholderTag

/-- `validate_def_value_units` -/
def defValueIssues (env : Env) (t : RTag) : List Issue :=
  match defLookup env (defLabel t) with
  | none => []
  | some _ =>
    valueClassIssues env t (defLabel t)
    ++ (match defPlaceholder env t with
        | none => []
        | some p =>
          let text := extension p
          defUnits env p t (if ['#', ' '].isPrefixOf text then text.drop 2 else text)
            (if shortBase env t == defExpandKey then val_DEF_EXPAND_INVALID else val_DEF_INVALID))

/-- the text `validate_def_value_units` hands to `validate_units` for the placeholder tag `p` of the expansion -/
def defValueText (p : RTag) : Str :=
  if ['#', ' '].isPrefixOf (extension p) then (extension p).drop 2 else extension p

/-- The last branch of `validate_units` for a Def value: the placeholder tag of the definition has neither unit
nor value classes, so the substituted text goes to `check_for_invalid_extension_chars`, whose issues name the
placeholder tag *of the definition string* (index = len(org_base_tag) + 1 + len(label) + 1 + i).  This is the
condition under which that check is reached (`defUnits` answers `[]` there). -/
def defExtReached (env : Env) (p : RTag) : Bool :=
  defValueText p != ['#'] && (tagUnitClasses env p).isEmpty && (entryAttr env p).valueClasses.isEmpty
    && !(extension p).isEmpty

/-- the characters that check would report (`_check_invalid_chars`: alphanumerics, `-_/`, `.+-^ _#`, blank, `:` pass) -/
def defExtBadChars (env : Env) (p : RTag) : List Char :=
  (defValueText p).filter fun c =>
    !(isAlnum env.cd c || (tagAllowedChars ++ defaultAllowedPlaceholderChars ++ [' ']).contains c || c == ':')

/-- Outside the model: a Def / Def-expand tag of a definition whose placeholder tag has no unit or value class AND
whose value holds a character the extension rule rejects — only then would the real code add issues (on a tag
of the definition string) that `validate` does not list.  Every other use of such a definition is modelled
exactly (the rule is reached and reports nothing). -/
def defUnmodelled (env : Env) (t : RTag) : Bool :=
  (shortBase env t == defKey || shortBase env t == defExpandKey) &&
  match defPlaceholder env t with
  | none => false
  | some p => defExtReached env p && !(defExtBadChars env p).isEmpty

/-- the wider condition used before: the rule is reached at all -/
def defUnmodelledOld (env : Env) (t : RTag) : Bool :=
  (shortBase env t == defKey || shortBase env t == defExpandKey) &&
  match defPlaceholder env t with
  | none => false
  | some p => (tagUnitClasses env p).isEmpty && (entryAttr env p).valueClasses.isEmpty && !(extension p).isEmpty

/-- body of the loop of `_validate_individual_tags_in_hed_string` for one tag (definitions not allowed) -/
def tagSemIssues (env : Env) (ph isDef : Bool) (t : RTag) : List Issue :=
  let sb := shortBase env t
  let ext := extension t
  (if sb == definitionKey then [tagIssue .badDefinitionLocation t] else [])
  ++ individualIssues env ph isDef t
  ++ (if sb == defKey || sb == defExpandKey then defValueIssues env t
      else if sb == definitionKey && ['/', '#'].isSuffixOf ext then validateUnits env t (ext.take (ext.length - 2))
      else if !(ph && ext.contains '#') then validateUnits env t ext
      else [])

/-- a top-level group `_validate_individual_tags_in_hed_string` treats as a definition: one of its tags is
`Definition` (`find_top_level_tags(anchor_tags={DEFINITION_KEY})`, anchors compared case-folded) -/
def holdsDefinition (env : Env) (kids : List RNode) : Bool :=
  (directTags kids).any fun t => fold (shortBase env t) == fold definitionKey

/-- `all_definition_groups`, by position: the spans of every top-level group that holds a `Definition` tag and of
all groups nested inside it.  A group of the parsed tree is identified by its span (two different groups never
start at the same `(`), which is what the code's identity test `group is def_group` amounts to (fix 5440313). -/
def definitionSpans (env : Env) (root : List RNode) : List (Nat × Nat) :=
  (directGroups root).flatMap fun g =>
    if holdsDefinition env g.2 then g.1 :: (groupsList false g.2).map (·.span) else []

/-- `is_definition = any(group is def_group for def_group in all_definition_groups)` -/
def isDefGroup (env : Env) (root : List RNode) (g : GV) : Bool :=
  g.isGroup && (definitionSpans env root).contains g.span

/-- `_validate_individual_tags_in_hed_string` -/
def individualPhase (env : Env) (ph : Bool) (len : Nat) (root : List RNode) : List Issue :=
  (allGroups len root).flatMap fun g =>
    (directTags g.kids).flatMap (tagSemIssues env ph (isDefGroup env root g))

/-! #### before fix 5440313: membership by structural equality -/

/-- descendants-and-self of a group, as child lists -/
def selfAndSubgroups (kids : List RNode) : List (List RNode) := kids :: (groupsList false kids).map (·.kids)

/-- `all_definition_groups` as child lists -/
def definitionGroupsOld (env : Env) (root : List RNode) : List (List RNode) :=
  (directGroups root).flatMap fun g => if holdsDefinition env g.2 then selfAndSubgroups g.2 else []

/-- legacy `is_definition = group in all_definition_groups`: `in` is `==` (`HedGroup.__eq__`, children compared in
order), so a group elsewhere that spells the same members in the same order was excused too -/
def isDefGroupOld (env : Env) (root : List RNode) (g : GV) : Bool :=
  g.isGroup && (definitionGroupsOld env root).any (fun d => listEq env g.kids d)

/-! ### full-string checks -/

/-- names of `get_tags_with_attribute`: entries of `all_names` (duplicates excluded) -/
def namesWith (env : Env) (p : TagAttr → Bool) : List Str :=
  (List.range env.vocab.tags.size).filterMap fun i =>
    if p (env.attr i) && !env.vocab.dups.contains i then some (env.ns ++ joinSlash (env.vocab.name i)) else none

def countPrefix (env : Env) (tags : List RTag) (p : Str) : Nat :=
  (tags.filter fun t => (fold p).isPrefixOf (fold (longTag env t))).length

/-- `check_for_required_tags` -/
def requiredIssues (env : Env) (tags : List RTag) : List Issue :=
  (namesWith env (·.required)).flatMap fun p =>
    if countPrefix env tags p == 0 then [{ Issue.plain .requiredMissing with txt := some p }] else []

/-- `check_multiple_unique_tags_exist` -/
def uniqueIssues (env : Env) (tags : List RTag) : List Issue :=
  (namesWith env (·.unique)).flatMap fun p =>
    if countPrefix env tags p > 1 then [{ Issue.plain .notUnique with txt := some p }] else []

/-- the "several top-level tags" test of `check_tag_level_issue` -/
def multipleTopBad (sts : List Str) : Bool :=
  let d := sts.eraseDups
  if d.length != sts.length then true
  else if !d.contains delayKey || d.length != 2 then true
  else !(d.filter (· != delayKey)).all (allTimeKeys.contains ·)

/-- `check_tag_level_issue` -/
def levelIssues (env : Env) (g : GV) : List Issue :=
  let tags := directTags g.kids
  let tl := tags.filter fun t => (baseAttr env t).topLevelTagGroup
  let tg := tags.filter fun t => (baseAttr env t).tagGroup
  (tg.flatMap fun t => if !g.isGroup then [tagIssue .tagGroupTag t] else [])
  ++ (tl.flatMap fun t =>
        if !g.isTop then
          (if shortBase env t == definitionKey then [{ tagIssue .topLevelTag t with code := val_DEFINITION_INVALID }]
           else if allTimeKeys.contains (shortBase env t) then [{ tagIssue .topLevelTag t with code := val_TEMPORAL_TAG_ERROR }]
           else [])
          ++ [tagIssue .topLevelTag t]
        else [])
  ++ (if g.isTop && tl.length > 1 && multipleTopBad (tl.map (shortBase env)) then
        (match tl with | t :: _ => [tagIssue .multipleTopTags t] | [] => [])
      else [])

/-- loop of `run_tag_level_validators` -/
def groupIssues (env : Env) (g : GV) : List Issue :=
  (if g.kids.isEmpty && g.isGroup then [{ Issue.plain .groupEmpty with span := some g.span }] else [])
  ++ levelIssues env g

/-! #### duplicates: `_sorted` and `_check_for_duplicate_groups_recursive` -/

def strLt : Str → Str → Bool
  | [], [] => false
  | [], _ :: _ => true
  | _ :: _, [] => false
  | a :: as, b :: bs => a.toNat < b.toNat || (a == b && strLt as bs)

/-- keys are pairs compared lexicographically (Python tuples) -/
def keyLt (a b : Str × Str) : Bool := strLt a.1 b.1 || (a.1 == b.1 && strLt a.2 b.2)

/-- stable insertion: after every element whose key is `≤` the new key -/
def insertKeyed (x : (Str × Str) × RNode) : List ((Str × Str) × RNode) → List ((Str × Str) × RNode)
  | [] => [x]
  | y :: ys => if keyLt x.1 y.1 then x :: y :: ys else y :: insertKeyed x ys

def sortKeyed (l : List ((Str × Str) × RNode)) : List ((Str × Str) × RNode) :=
  l.foldl (fun acc x => insertKeyed x acc) []

def isTagNode : RNode → Bool
  | .tag _ => true
  | .group _ _ => false

/- `_sort_key` of the canonical variant, on an element of a sorted view -/
mutual
def sortKeyNode (env : Env) : RNode → Str
  | .tag t => fold (strOf env t)
  | .group _ kids => '(' :: (sortKeyList env kids ++ [')'])
def sortKeyList (env : Env) : List RNode → Str
  | [] => []
  | [n] => sortKeyNode env n
  | n :: ns => sortKeyNode env n ++ (',' :: sortKeyList env ns)
end

def arrange (ks : List ((Str × Str) × RNode)) : List RNode :=
  ((sortKeyed (ks.filter fun k => isTagNode k.2)) ++ (sortKeyed (ks.filter fun k => !isTagNode k.2))).map (·.2)

/- `_sorted`: tags by `str(tag)`, then groups by the `str` of the unsorted group, each group replaced by
its own sorted view (canonical variant: by `_sort_key` of the sorted element first) -/
mutual
def sortNode (env : Env) : RNode → RNode
  | .tag t => .tag t
  | .group s kids => .group s (arrange (keyedList env kids))
def keyedList (env : Env) : List RNode → List ((Str × Str) × RNode)
  | [] => []
  | n :: ns =>
    ((if env.var.sortCanonical then sortKeyNode env (sortNode env n) else [], strNode env n), sortNode env n)
      :: keyedList env ns
end

def sortedView (env : Env) (root : List RNode) : List RNode := arrange (keyedList env root)

/- the `while isinstance(found_group, list): found_group = found_group[0]` descent hits an empty list
(`IndexError`) -/
mutual
def descentRaisesNode : RNode → Bool
  | .tag _ => false
  | .group _ kids => descentRaisesList kids
def descentRaisesList : List RNode → Bool
  | [] => true
  | n :: _ => descentRaisesNode n
end

def eqPrev (env : Env) : Option RNode → RNode → Bool
  | none, _ => false
  | some p, c => nodeEq env c p

def repeatIssue : RNode → Issue
  | .tag t => tagIssue .tagRepeated t
  | .group _ _ => Issue.plain .groupRepeated

/- `_check_for_duplicate_groups_recursive` on a sorted view -/
mutual
def dupNode (env : Env) : RNode → List Issue
  | .tag _ => []
  | .group _ kids => dupList env none kids
def dupList (env : Env) : Option RNode → List RNode → List Issue
  | _, [] => []
  | prev, c :: cs =>
    (if eqPrev env prev c then [repeatIssue c] else []) ++ dupNode env c ++ dupList env (some c) cs
end

/- the same walk raises `IndexError` -/
mutual
def dupRaisesNode (env : Env) : RNode → Bool
  | .tag _ => false
  | .group _ kids => dupRaisesList env none kids
def dupRaisesList (env : Env) : Option RNode → List RNode → Bool
  | _, [] => false
  | prev, c :: cs =>
    (eqPrev env prev c && descentRaisesNode c) || dupRaisesNode env c || dupRaisesList env (some c) cs
end

/-- `_check_for_duplicate_groups` — the one definition to swap when the duplicate rule changes -/
def dupIssues (env : Env) (root : List RNode) : List Issue := dupList env none (sortedView env root)
def dupRaises (env : Env) (root : List RNode) : Bool :=
  !env.var.emptyDupSafe && dupRaisesList env none (sortedView env root)

/-- first tag of a top-level group whose short base tag (case-folded) is one of the anchors
(`find_top_level_tags`) -/
def topLevelAnchored (env : Env) (anchors : List Str) (root : List RNode) : List (RTag × (Nat × Nat) × List RNode) :=
  (directGroups root).filterMap fun g =>
    ((directTags g.2).find? fun t => (anchors.map fold).contains (fold (shortBase env t))).map fun t => (t, g.1, g.2)

/-- `validate_duration_tags` -/
def durationIssues (env : Env) (root : List RNode) : List Issue :=
  (topLevelAnchored env durationKeys root).flatMap fun (top, _, kids) =>
    let tl := ((tagsList kids).filter fun t => (baseAttr env t).topLevelTagGroup).map (shortBase env)
    if tl.any (temporalKeys.contains ·) then []
    else if tl.length != (directTags kids).length then
      ((directTags kids).filter fun t => !tl.contains (shortBase env t)).map (tagIssue .durationOtherTags)
    else if (directGroups kids).length != 1 then [tagIssue .durationWrongGroups top]
    else []

/-- `_validate_def_contents`: `grp` = children of the Def-expand group (`none` for a Def tag) -/
def defContentIssues (env : Env) (t : RTag) (grp : Option (List RNode)) : List Issue :=
  match defExpansion env t with
  | .noEntry => [tagIssue (if grp.isSome then .defExpandUnmatched else .defUnmatched) t]
  | .mismatch takes =>
    [tagIssue (if takes then (if grp.isSome then .defExpandValueMissing else .defValueMissing)
               else (if grp.isSome then .defExpandValueExtra else .defValueExtra)) t]
  | .ok rest =>
    match grp with
    | some kids =>
      if !listEq env (sortedView env kids) (sortedView env (.tag t :: rest)) then [tagIssue .defExpandInvalid t] else []
    | none => []

/-- `_get_def_tags_from_group` + `_validate_def_contents` -/
def defIssuesOf (env : Env) : List RNode → List Issue
  | [] => []
  | .tag t :: ns => (if shortBase env t == defKey then defContentIssues env t none else []) ++ defIssuesOf env ns
  | .group _ kids :: ns =>
    ((directTags kids).filter (fun t => shortBase env t == defExpandKey)).flatMap
        (fun t => defContentIssues env t (some kids))
      ++ defIssuesOf env ns

/-- `validate_def_tags` (`find_def_tags(recursive=True)`) -/
def defPhase (env : Env) (len : Nat) (root : List RNode) : List Issue :=
  (allGroups len root).flatMap fun g => defIssuesOf env g.kids

def nodeSpan : RNode → Nat × Nat
  | .tag t => t.span
  | .group s _ => s

/-- `found_group.find_def_tags()`: (def tag, span of the Def tag itself / of its Def-expand group) -/
def defItemsOf (env : Env) : List RNode → List (RTag × (Nat × Nat))
  | [] => []
  | .tag t :: ns => (if shortBase env t == defKey then [(t, t.span)] else []) ++ defItemsOf env ns
  | .group s kids :: ns =>
    ((directTags kids).filter (fun t => shortBase env t == defExpandKey)).map (fun t => (t, s)) ++ defItemsOf env ns

/-- `_handle_onset_or_offset` -/
def onsetDefIssues (env : Env) (dt : RTag) : List Issue :=
  match defLookup env (defLabel dt) with
  | none => [tagIssue .onsetDefUnmatched dt]
  | some e => if e.takes != !(defValue dt).isEmpty then [tagIssue .onsetPlaceholderWrong dt] else []

/-- body of the loop of `validate_onset_offset` for one anchored top-level group -/
def onsetGroupIssues (env : Env) (onset : RTag) (kids : List RNode) : List Issue :=
  match defItemsOf env kids with
  | [] => [tagIssue .onsetNoDef onset]
  | [(dt, dspan)] =>
    let children := kids.filter fun c => nodeSpan c != dspan && nodeSpan c != onset.span
    let children := children.filter fun c => match c with
      | .tag t => shortBase env t != delayKey
      | .group _ _ => true
    if children.length > (if shortBase env onset == offsetKey then 0 else 1) then
      [tagIssue .onsetWrongNumberGroups dt]
    else
      (match children with
        | .tag c :: _ => [tagIssue .onsetTagOutsideGroup c]
        | _ => [])
      ++ onsetDefIssues env dt
  | (dt, _) :: _ :: _ => [tagIssue .onsetTooManyDefs dt]

/-- `validate_onset_offset` -/
def onsetIssues (env : Env) (root : List RNode) : List Issue :=
  (topLevelAnchored env temporalKeys root).flatMap fun (t, _, kids) => onsetGroupIssues env t kids

/-- `run_full_string_checks` -/
def fullPhase (env : Env) (len : Nat) (root : List RNode) : List Issue :=
  requiredIssues env (tagsList root) ++ uniqueIssues env (tagsList root)
  ++ (allGroups len root).flatMap (groupIssues env)
  ++ dupIssues env root
  ++ durationIssues env root
  ++ onsetIssues env root

/-! ### composition -/

/-- `hed_string == "n/a"` -/
def isNA (env : Env) (root : List RNode) : Bool := strList env root == ['n', '/', 'a']

/-- everything `validate` looks at, computed once -/
structure Parsed where
  root0 : List RNode          -- after `HedString.__init__`
  root1 : List RNode          -- after the second canonicalisation pass
  lookup : List Issue         -- issues of that pass

def parse (env : Env) (text : Str) : Parsed :=
  let r0 := resolveList env text (Tree.construct text)
  let r := recanonList env r0
  ⟨r0, r.1, r.2⟩

/-- the tree the full checks see: the second pass is skipped for "n/a" -/
def Parsed.final (env : Env) (p : Parsed) : List RNode := if isNA env p.root0 then p.root0 else p.root1

def stringIssues (env : Env) (ph : Bool) (text : Str) (p : Parsed) : List Issue :=
  stringPhase env ph text (tagsList p.root0)

def tagIssues (env : Env) (ph : Bool) (p : Parsed) : List Issue :=
  (tagsList p.root0).flatMap (tagCharIssues env ph) ++ p.lookup

def semIssues (env : Env) (ph : Bool) (len : Nat) (p : Parsed) : List Issue :=
  individualPhase env ph len p.root1 ++ defPhase env len p.root1

def fullIssues (env : Env) (len : Nat) (p : Parsed) : List Issue := fullPhase env len (p.final env)

/-- `run_basic_checks` -/
def basicP (env : Env) (ph : Bool) (text : Str) (p : Parsed) : List Issue :=
  let s := stringIssues env ph text p
  if hasError s then s
  else if isNA env p.root0 then s
  else
    let t := s ++ tagIssues env ph p
    if hasError t then t
    else t ++ semIssues env ph text.length p

/-- `HedValidator.validate` on an already parsed string -/
def validateP (env : Env) (ph : Bool) (text : Str) (p : Parsed) : List Issue :=
  let b := basicP env ph text p
  if hasError b then b else b ++ fullIssues env text.length p

def basic (env : Env) (ph : Bool) (text : Str) : List Issue := basicP env ph text (parse env text)

/-- `HedValidator.validate` (default error handler: warnings kept), `HedString(text, schema)` without
definitions -/
def validate (env : Env) (ph : Bool) (text : Str) : List Issue := validateP env ph text (parse env text)

/-- the real validator raises `IndexError` (duplicate check on groups whose leftmost descent is empty) -/
def raisesP (env : Env) (ph : Bool) (text : Str) (p : Parsed) : Bool :=
  !hasError (basicP env ph text p) && dupRaises env (p.final env)
def raises (env : Env) (ph : Bool) (text : Str) : Bool := raisesP env ph text (parse env text)

/-- a construct outside the model: a value class whose characters are given by a pattern the extractor
could not turn into ranges -/
def unmodelledP (env : Env) (p : Parsed) : Bool :=
  (tagsList p.root1).any fun t =>
    defUnmodelled env t ||
    (entryAttr env t).valueClasses.any fun c =>
      match classChars.find? (·.1 == c) with
      | some (_, ccs) => ccs.contains .unsupported
      | none => false

/-- value classes whose character list the extractor could not turn into ranges -/
def patternUnmodelled (env : Env) (t : RTag) : Bool :=
  (entryAttr env t).valueClasses.any fun c =>
    match classChars.find? (·.1 == c) with
    | some (_, ccs) => ccs.contains .unsupported
    | none => false

/-- why a text is outside the model (for the evidence), `none` = inside -/
def unmodelledWhy (env : Env) (p : Parsed) : Option String :=
  if (tagsList p.root1).any (defUnmodelled env) then some "Def value with a rejected character, placeholder tag without classes"
  else if (tagsList p.root1).any (patternUnmodelled env) then some "value-class character pattern not of range shape"
  else none

/-- the condition of the previous round (for the before/after count in the evidence) -/
def unmodelledOldP (env : Env) (p : Parsed) : Bool :=
  (tagsList p.root1).any fun t => defUnmodelledOld env t || patternUnmodelled env t

/-! ### values in default units (for users of the model that need the number, e.g. `Delay/2 s`) -/

/-- `HedTag.value_as_default_unit()` of a resolved tag (C11's `Units.valueAsDefault` on the tag's unit classes) -/
def valueAsDefaultUnit (env : Env) (t : RTag) : Units.ValueResult :=
  Units.valueAsDefault env.mods (tagUnitClasses env t) fold (extension t)

/-- the delay of a `Delay/…` tag in seconds (the default unit of `timeUnits`), as an exact decimal; `none` when the
tag is not a Delay tag, the value is absent / not convertible, or the real code would raise -/
def delayOf (env : Env) (t : RTag) : Option Units.Dec :=
  if shortBase env t == delayKey then
    match valueAsDefaultUnit env t with
    | .value d => some d
    | _ => none
  else none

/-- the Delay tags of a top-level group with their delays (`find_top_level_tags(anchor_tags={DELAY_KEY})`) -/
def groupDelays (env : Env) (kids : List RNode) : List (RTag × Option Units.Dec) :=
  ((directTags kids).filter fun t => shortBase env t == delayKey).map fun t => (t, delayOf env t)

/-- `value_as_default_unit()` of a Delay tag as far as the model commits itself -/
inductive DelayVal where
  | value (d : Units.Dec)      -- seconds, exact
  | absent                     -- returns `None`: no or unknown unit, no value
  | raises                     -- `float()` raises ValueError (or `default_unit.name` AttributeError)
  | unsure                     -- the number is not a plain numeric literal but Python's `float()` is more liberal
                               -- (surrounding blanks, `_` between digits, `inf` / `nan`): not decided here
deriving Repr, DecidableEq, Inhabited

/-- spellings `float()` may accept although the numericClass literal does not -/
def floatLiberal (ext : Str) : Bool :=
  ext.count ' ' ≥ 2 || ext.any fun c => c == '_' || c == 'n' || c == 'N' || c == 'i' || c == 'I' || !isAscii c
    || c == '\t' || c == '\n' || c == '\r' || c == '\x0b' || c == '\x0c'

def delayVal (env : Env) (t : RTag) : DelayVal :=
  match valueAsDefaultUnit env t with
  | .value d => .value d
  | .absent => .absent
  | .raises _ => if floatLiberal (extension t) then .unsure else .raises

/-- The top-level children of `HedString(text)` as `split_delay_tags` sees them: `str(child)`, and for a group in
which `find_top_level_tags({"delay"})` finds a Delay tag (the first tag of the group whose short base tag is
`Delay`, case-folded) the result of its `value_as_default_unit()`.  For users of the model that close the
`delay/` fragment (Tabular's `Oracle.items`). -/
def delayItems (env : Env) (text : Str) : List (Str × Option DelayVal) :=
  let root := (parse env text).root0
  root.map fun n =>
    (strNode env n,
     match n with
     | .tag _ => none
     | .group _ kids =>
       ((directTags kids).find? fun t => fold (shortBase env t) == fold delayKey).map (delayVal env))

end HedVerif.Validate
