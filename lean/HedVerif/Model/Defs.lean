/-
Model of HED definitions (property C09): acceptance into a `DefinitionDict`, expansion of `Def` tags,
shrinking of `Def-expand` groups on one mutable `HedString`, and the Def-expand content check.

Python mirrored (all in /repo/hed):
* `models/definition_dict.py`  `check_for_definitions`, `_find_group`, `_strip_value_placeholder`,
  `_validate_contents`, `_validate_placeholders`, `_validate_name_and_context`
* `models/definition_entry.py` `DefinitionEntry.__init__` (sorted copy), `get_definition`
* `models/hed_tag.py`          `expandable` (lazy cache `_expandable`, flag `_expanded`), `expanded`,
  `replace_placeholder`, `short_base_tag` setter, `__eq__`, `__str__`
* `models/hed_group.py`        `replace/_replace`, `_sorted` with `_sort_key` (canonical case-folded key, then printout), `__eq__`,
  `__str__`, `find_def_tags`, `find_tags`
* `models/hed_string.py`       `expand_defs`, `shrink_defs`, `copy`
* `validator/def_validator.py` `validate_def_tags`, `_validate_def_contents`

Conventions.  Strings are `List Char`.  A tag carries what the code reads from it: which of the three
definition-related schema tags it is (`base`), the printed short name otherwise, `_extension_value`
(with its leading slash), the case-folded original text (for `HedTag.__eq__`), two schema facts supplied by
the harness (`takesValue` = `is_takes_value_tag()`, `uniqReq` = has `unique` or `required`), and the two
mutable fields `_expandable is not None` (`cached`) and `_expanded`.  Library namespaces are not modelled.
The cached group itself is not stored: it is `[tag, deep copy of the stored content with # := value]`,
a function of the (immutable) dictionary and the tag's extension, and nothing mutates it while cached.
Python object identity / cycles: replacing a tag that already sits inside its own cached group makes the
tree cyclic (`str` → RecursionError, searches never return); the model records this as `Obj.cyclic`.
`fold` is `str.casefold` (a parameter; the harness uses ASCII names, where it is `lower`).
No Mathlib imports: linked into the native driver.
-/
namespace HedVerif.Defs

abbrev Str := List Char

inductive Base where
  | def_ | defExpand | definition | other
deriving Repr, DecidableEq, Inhabited

/-- where a tag's `_parent` points: at the group whose children hold the tag (`ok`, true of every parsed or
deep-copied tag); at a group outside the tree that itself has no parent (`det0`: the throw-away group built by
`get_definition(tag)` when the tag is not copied first); at a group outside the tree that has a parent (`det1`:
the cached group after `expand_defs` replaced the tag inside such a throw-away group). -/
inductive Att where
  | ok | det0 | det1
deriving Repr, DecidableEq, Inhabited

structure Tag where
  base : Base := .other
  name : Str := []
  ext : Str := []
  org : Str := []
  takesValue : Bool := false
  uniqReq : Bool := false
  cached : Bool := false
  expanded : Bool := false
  att : Att := .ok
deriving Repr, DecidableEq, Inhabited

inductive Node where
  | tag (t : Tag)
  | grp (ks : List Node)
deriving Repr, Inhabited

def defName : Str := ['D', 'e', 'f']
def deName : Str := ['D', 'e', 'f', '-', 'e', 'x', 'p', 'a', 'n', 'd']
def definitionName : Str := ['D', 'e', 'f', 'i', 'n', 'i', 't', 'i', 'o', 'n']

namespace Tag
/-- `short_base_tag` (the schema entry's short name) -/
def baseName (t : Tag) : Str :=
  match t.base with
  | .def_ => defName | .defExpand => deName | .definition => definitionName | .other => t.name
/-- `str(tag)` = `short_tag` -/
def str (t : Tag) : Str := t.baseName ++ t.ext
/-- `tag.extension` = `_extension_value[1:]` -/
def extension (t : Tag) : Str := t.ext.drop 1
/-- number of `#` in `str(tag)` -/
def hashes (t : Tag) : Nat := t.str.count '#'
def isDefish (t : Tag) : Bool := t.base != .other
/-- forget the mutable fields (a freshly parsed / deep-copied-and-never-queried tag) -/
def erase (t : Tag) : Tag := { t with cached := false, expanded := false, att := .ok }
/-- `HedTag.__eq__` on two distinct objects: case-folded short forms, or case-folded original texts -/
def eqv (fold : Str → Str) (a b : Tag) : Bool := fold a.str == fold b.str || a.org == b.org
end Tag

def isGrp : Node → Bool | .grp _ => true | .tag _ => false
def isTag : Node → Bool | .tag _ => true | .grp _ => false
/-- `group.tags()` -/
def tagsOf : List Node → List Tag
  | [] => []
  | .tag t :: r => t :: tagsOf r
  | .grp _ :: r => tagsOf r
/-- children lists of `group.groups()` -/
def groupsOf : List Node → List (List Node)
  | [] => []
  | .tag _ :: r => groupsOf r
  | .grp ks :: r => ks :: groupsOf r

mutual
/-- `str(x)` -/
def str : Node → Str
  | .tag t => t.str
  | .grp ks => '(' :: (strL ks ++ [')'])
/-- `",".join(str(c) for c in children)` = `str(HedString)` -/
def strL : List Node → Str
  | [] => []
  | k :: ks => match ks with
    | [] => str k
    | _ :: _ => str k ++ (',' :: strL ks)
end

mutual
/-- `get_all_tags()` below a node (pre-order) -/
def allTags : Node → List Tag
  | .tag t => [t]
  | .grp ks => allTagsL ks
def allTagsL : List Node → List Tag
  | [] => []
  | k :: ks => allTags k ++ allTagsL ks
end

mutual
def erase : Node → Node
  | .tag t => .tag t.erase
  | .grp ks => .grp (eraseL ks)
def eraseL : List Node → List Node
  | [] => []
  | k :: ks => erase k :: eraseL ks
end

/-! ### `HedGroup._sorted(update_self=True)` -/

/-- Python `str <=` (code-point lexicographic) -/
def strLe : Str → Str → Bool
  | [], _ => true
  | _ :: _, [] => false
  | a :: as, b :: bs => a.toNat < b.toNat || (a == b && strLe as bs)

/-- stable insertion sort (`list.sort(key=…)` is stable; any stable sort by the same key gives the same list) -/
def insertBy (le : Node → Node → Bool) (x : Node) : List Node → List Node
  | [] => [x]
  | y :: ys => if le x y then x :: y :: ys else y :: insertBy le x ys
def isort (le : Node → Node → Bool) : List Node → List Node
  | [] => []
  | x :: xs => insertBy le x (isort le xs)

mutual
/-- `HedGroup._sort_key` of an element of a sorted view: case-folded printout of a tag,
`"(" + ",".join(keys) + ")"` of an (already sorted) group -/
def skey (fold : Str → Str) : Node → Str
  | .tag t => fold t.str
  | .grp ks => '(' :: (skeyL fold ks ++ [')'])
def skeyL (fold : Str → Str) : List Node → Str
  | [] => []
  | k :: ks => match ks with
    | [] => skey fold k
    | _ :: _ => skey fold k ++ (',' :: skeyL fold ks)
end

/-- `<=` on the sort key `(_sort_key(sorted view), str(element))` (tuple comparison) -/
def leKey (fold : Str → Str) (a b : Node) : Bool :=
  if skey fold a == skey fold b then strLe (str a) (str b) else strLe (skey fold a) (skey fold b)

/-- tags sorted by key, then groups sorted by key (both sorts stable); the members are already sorted -/
def arrange (fold : Str → Str) (ks : List Node) : List Node :=
  isort (leKey fold) (ks.filter isTag) ++ isort (leKey fold) (ks.filter isGrp)

mutual
def sortN (fold : Str → Str) : Node → Node
  | .tag t => .tag t
  | .grp ks => .grp (arrange fold (sortL fold ks))
def sortL (fold : Str → Str) : List Node → List Node
  | [] => []
  | k :: ks => sortN fold k :: sortL fold ks
end

/-- `group.sorted()` / `group.sort()` seen on the children list of the group -/
def sortG (fold : Str → Str) (ks : List Node) : List Node := arrange fold (sortL fold ks)

mutual
/-- `a == b` for two children (`HedTag.__eq__`, `HedGroup.__eq__`; a tag never equals a group) -/
def eqv (fold : Str → Str) : Node → Node → Bool
  | .tag a, n => match n with
    | .tag b => a.eqv fold b
    | .grp _ => false
  | .grp ks, n => match n with
    | .tag _ => false
    | .grp ls => eqvL fold ks ls
def eqvL (fold : Str → Str) : List Node → List Node → Bool
  | [], ls => ls.isEmpty
  | k :: ks, ls => match ls with
    | [] => false
    | l :: ls' => eqv fold k l && eqvL fold ks ls'
end

/-! ### The dictionary -/

/-- `DefinitionEntry`; `content` = children of the stored (sorted) content group, `[]` when the definition
has no content group (or an empty one: `HedGroup.__bool__` is false) -/
structure Entry where
  key : Str
  name : Str
  content : List Node
  takes : Bool
deriving Inhabited

abbrev DefDict := List Entry

def lookup (dd : DefDict) (key : Str) : Option Entry := dd.find? (fun e => e.key == key)

inductive Issue where
  | wrongNumberGroups | noDefinitionContents | wrongNumberTags | invalidDefExtension
  | defTagInDefinition | badPropInDefinition | wrongNumberPlaceholderTags | placeholderNoTakesValue
  | duplicateDefinition
deriving Repr, DecidableEq, Inhabited

/-- `_strip_value_placeholder` -/
def stripValue (x : Str) : Str × Bool :=
  if x.reverse.take 2 == ['#', '/'] then (x.take (x.length - 2), true) else (x, false)

/-- `_find_group` issues for a top-level group with children `ks` anchored by definition tag `dt` -/
def findGroupIssues (dt : Tag) (ks : List Node) : List Issue :=
  (if (groupsOf ks).length > 1 then [Issue.wrongNumberGroups]
   else if (groupsOf ks).length == 0 && dt.extension.contains '#' then [Issue.noDefinitionContents]
   else []) ++
  (if (tagsOf ks).length != 1 then [Issue.wrongNumberTags] else [])

/-- `groups[0] if groups else None`, as a children list -/
def contentOf (ks : List Node) : List Node := (groupsOf ks).headD []

/-- `_validate_contents`: one issue per Def/Def-expand/Definition tag, then one per unique/required tag -/
def contentIssues (cs : List Node) : List Issue :=
  ((allTagsL cs).filter Tag.isDefish).map (fun _ => Issue.defTagInDefinition) ++
  ((allTagsL cs).filter (·.uniqReq)).map (fun _ => Issue.badPropInDefinition)

/-- `_validate_placeholders` -/
def placeholderIssues (cs : List Node) (takes : Bool) : List Issue :=
  let ph := (allTagsL cs).filter (fun t => t.hashes ≥ 1)
  let bad := (allTagsL cs).filter (fun t => t.hashes > 1)
  (if bad.isEmpty then [] else [Issue.wrongNumberPlaceholderTags]) ++
  (if (ph.length == 1) != takes then [Issue.wrongNumberPlaceholderTags]
   else if takes then
     match ph.head? with
     | some p => if p.takesValue then [] else [Issue.placeholderNoTakesValue]
     | none => []
   else [])

section
variable (fold : Str → Str)

/-- One iteration of the loop in `check_for_definitions`: the top-level group `ks` and its definition tag. -/
def accept (dd : DefDict) (dt : Tag) (ks : List Node) : DefDict × List Issue :=
  let nt := stripValue dt.extension
  let i1 := findGroupIssues dt ks ++
    (if nt.1.contains '/' || nt.1.contains '#' then [Issue.invalidDefExtension] else [])
  if !i1.isEmpty then (dd, i1) else
  let cs := contentOf ks
  let i2 := contentIssues cs ++ placeholderIssues cs nt.2
  if !i2.isEmpty then (dd, i2) else
  if (lookup dd (fold nt.1)).isSome then (dd, [Issue.duplicateDefinition]) else
  (dd ++ [⟨fold nt.1, nt.1, eraseL (sortG fold cs), nt.2⟩], [])

/-- `find_top_level_tags({"Definition"})` for one top-level group: first direct Definition tag -/
def defTagOf (ks : List Node) : Option Tag := (tagsOf ks).find? (fun t => t.base == .definition)

/-- `check_for_definitions(HedString)` -/
def acceptString (dd : DefDict) (root : List Node) : DefDict × List Issue :=
  (groupsOf root).foldl (fun acc ks =>
    match defTagOf ks with
    | some dt => let r := accept fold acc.1 dt ks; (r.1, acc.2 ++ r.2)
    | none => acc) (dd, [])

/-! ### Merging dictionaries (`DefinitionDict([d1, d2, …])`, `DefValidator(def_dicts)`, `add_definitions(dict)`)

`_add_definitions_from_dict` feeds every `(key, entry)` of the other dictionary to `_add_definition`: a key that
is already present is reported (one DUPLICATE_DEFINITION issue in `dd.issues`) and ignored — the first entry
stays.  (The issue side agrees with `SidecarV.mergeIssues`: one issue per later name the dictionary already has.) -/

/-- `_add_definition(key, entry)` -/
def addEntry (acc : DefDict × List Issue) (e : Entry) : DefDict × List Issue :=
  if (lookup acc.1 e.key).isSome then (acc.1, acc.2 ++ [Issue.duplicateDefinition]) else (acc.1 ++ [e], acc.2)

/-- `_add_definitions_from_dict(d)` -/
def mergeDict (acc : DefDict × List Issue) (d : DefDict) : DefDict × List Issue := d.foldl addEntry acc

/-- `DefinitionDict([d1, d2, …])` -/
def mergeDicts (ds : List DefDict) : DefDict × List Issue := ds.foldl mergeDict ([], [])

/-! ### Expansion (`DefinitionEntry.get_definition`) -/

def replaceHash (v : Str) (s : Str) : Str := s.flatMap (fun c => if c == '#' then v else [c])

/-- `replace_placeholder` -/
def plugTag (v : Str) (t : Tag) : Tag := { t with name := replaceHash v t.name, ext := replaceHash v t.ext }

mutual
/-- plug the value into the first placeholder tag (`find_placeholder_tag`, pre-order); found? -/
def plugN (v : Str) : Node → Node × Bool
  | .tag t => if t.hashes ≥ 1 then (.tag (plugTag v t), true) else (.tag t, false)
  | .grp ks => ((Node.grp (plugL v ks).1), (plugL v ks).2)
def plugL (v : Str) : List Node → List Node × Bool
  | [] => ([], false)
  | k :: ks => if (plugN v k).2 then ((plugN v k).1 :: ks, true) else (k :: (plugL v ks).1, (plugL v ks).2)
end

inductive Expn where
  | noEntry                 -- name not in the dictionary
  | mismatch (takes : Bool) -- `get_definition` returned None (value given xor expected)
  | internal                -- ValueError("Internal error related to placeholders…")
  | ok (cs : List Node)     -- children following the tag in the returned group
deriving Inhabited

/-- label and value of a Def tag: `extension.partition('/')` -/
def labelOf (t : Tag) : Str := t.extension.takeWhile (· != '/')
def valueOf (t : Tag) : Str := (t.extension.dropWhile (· != '/')).drop 1

def expansion (dd : DefDict) (t : Tag) : Expn :=
  match lookup dd (fold (labelOf t)) with
  | none => .noEntry
  | some e =>
    if e.takes == (valueOf t).isEmpty then .mismatch e.takes
    else if e.content.isEmpty then .ok []
    else if (valueOf t).isEmpty then .ok [.grp e.content]
    else if (plugL (valueOf t) e.content).2 then .ok [.grp (plugL (valueOf t) e.content).1]
    else .internal

/-! ### The mutable object -/

inductive Err where
  | keyError | valueError | recursion | indexError
deriving Repr, DecidableEq, Inhabited

/-- a `HedString` built with its `def_dict`: children of the root, and whether a cycle has been created -/
structure Obj where
  kids : List Node
  cyclic : Bool := false
deriving Inhabited

/-- `find_def_tags(recursive=True, include_groups=0)` membership: Def tags anywhere, Def-expand tags that
are direct children of a parenthesised group -/
def candidate (inGrp : Bool) (t : Tag) : Bool := t.base == .def_ || (t.base == .defExpand && inGrp)

/-- effect of evaluating `tag.expandable` when an expansion exists -/
def touch (t : Tag) : Tag :=
  if t.cached then t else { t with cached := true, expanded := t.base == .defExpand }

/-- the tag after `expand_defs` moved it into its group; `fix` = the repaired code sets `_expanded` -/
def toDE (fix : Bool) (t : Tag) : Tag := { t with base := .defExpand, expanded := fix || t.expanded }
/-- the tag after `shrink_defs`; `fix` = the repaired code clears `_expanded` -/
def toDef (fix : Bool) (t : Tag) : Tag := { t with base := .def_, expanded := !fix && t.expanded }

/-- one tag under `expand_defs` -/
def expTag (fix : Bool) (dd : DefDict) (inGrp : Bool) (t : Tag) : Node :=
  if candidate inGrp t then
    match expansion fold dd t with
    | .ok cs =>
      if (touch t).expanded then .tag (touch t)
      else if t.base == .defExpand then .tag (touch t)      -- replaced by the group it already sits in: cycle
      else if t.att == .ok then .grp (.tag (toDE fix (touch t)) :: cs)
      -- `tag._parent.replace(tag, group)` happens inside a group that is not in the tree: the tag stays where
      -- it is, renamed, and now points at the cached group (which got that outside group as parent)
      else .tag { toDE fix (touch t) with att := .det1 }
    | _ => .tag t
  else .tag t

/-- does `expand_defs` put a group into itself at this tag? -/
def cycTag (dd : DefDict) (inGrp : Bool) (t : Tag) : Bool :=
  candidate inGrp t && t.base == .defExpand && !(touch t).expanded &&
    (match expansion fold dd t with | .ok _ => true | _ => false)

/-- does `tag.expandable` raise at this tag? -/
def intTag (dd : DefDict) (inGrp : Bool) (t : Tag) : Bool :=
  candidate inGrp t && !t.cached && (match expansion fold dd t with | .internal => true | _ => false)

mutual
def expN (fix : Bool) (dd : DefDict) (inGrp : Bool) : Node → Node
  | .tag t => expTag fold fix dd inGrp t
  | .grp ks => .grp (expL fix dd true ks)
def expL (fix : Bool) (dd : DefDict) (inGrp : Bool) : List Node → List Node
  | [] => []
  | k :: ks => expN fix dd inGrp k :: expL fix dd inGrp ks
end

mutual
/-- some tag satisfies `p inGrp` (used for the cycle and the internal-error tests) -/
def anyTag (p : Bool → Tag → Bool) (inGrp : Bool) : Node → Bool
  | .tag t => p inGrp t
  | .grp ks => anyTagL p true ks
def anyTagL (p : Bool → Tag → Bool) (inGrp : Bool) : List Node → Bool
  | [] => false
  | k :: ks => anyTag p inGrp k || anyTagL p inGrp ks
end

/-- Def-expand tags directly in a group -/
def deTags (ks : List Node) : List Tag := (tagsOf ks).filter (fun t => t.base == .defExpand)

/-- those of them whose `_parent` is this group (all of them unless a tag has been re-parented) -/
def deTagsA (ks : List Node) : List Tag := (deTags ks).filter (fun t => t.att == .ok)

mutual
/-- `shrink_defs` on a node below the root: the outermost group holding a Def-expand tag becomes that tag -/
def shrN (fix : Bool) : Node → Node
  | .tag t =>
    -- a Def-expand tag whose `_parent` is an outside group with a parent is renamed where it stands (the
    -- replacement happens outside the tree); with `det0` the `if expanded_parent:` test skips it
    if t.base == .defExpand && t.att == .det1 then .tag { toDef fix t with att := .det0 } else .tag t
  | .grp ks => match deTagsA ks with
    | [] => .grp (shrL fix ks)
    | t :: _ => .tag (toDef fix t)
def shrL (fix : Bool) : List Node → List Node
  | [] => []
  | k :: ks => shrN fix k :: shrL fix ks
end

mutual
/-- (legacy) `shrink_defs` raised KeyError: some parenthesised group (even one already detached) has two Def-expand tags -/
def shrErrN : Node → Bool
  | .tag _ => false
  | .grp ks => decide ((deTagsA ks).length ≥ 2) || shrErrL ks
def shrErrL : List Node → Bool
  | [] => false
  | k :: ks => shrErrN k || shrErrL ks
end

/-- `HedString.expand_defs()` -/
def expandG (fix : Bool) (dd : DefDict) (o : Obj) : Except Err Obj :=
  if o.cyclic then .error .recursion
  else if anyTagL (intTag fold dd) false o.kids then .error .valueError
  else .ok { kids := expL fold fix dd false o.kids, cyclic := anyTagL (cycTag fold dd) false o.kids }

/-- `HedString.shrink_defs()`.  A group found again (it holds a further Def-expand tag, or it lies inside a
group that has already been replaced) is skipped by the identity test
`any(child is def_expand_group for child in expanded_parent.children)`: the outermost group holding a
Def-expand tag becomes its FIRST such tag, everything else in it is dropped, nothing is raised. -/
def shrinkG (fix : Bool) (o : Obj) : Except Err Obj :=
  if o.cyclic then .error .recursion
  else .ok { o with kids := shrL fix o.kids }

/-- `shrink_defs()` before that identity test: the second visit of a group raised KeyError (`shrErrL`). -/
def shrinkLegacyG (fix : Bool) (o : Obj) : Except Err Obj :=
  if o.cyclic then .error .recursion
  else if shrErrL o.kids then .error .keyError
  else .ok { o with kids := shrL fix o.kids }

/-- `HedString.copy()`: an independent object with the same content (deepcopy handles cycles) -/
def copy (o : Obj) : Except Err Obj := .ok o

/-- `str(obj)` -/
def render (o : Obj) : Except Err Str := if o.cyclic then .error .recursion else .ok (strL o.kids)

/-! ### `DefValidator.validate_def_tags` -/

inductive VKind where
  | defUnmatched | defExpandUnmatched | defValueMissing | defExpandValueMissing
  | defValueExtra | defExpandValueExtra | defExpandInvalid | internalError
deriving Repr, DecidableEq, Inhabited

/-- `_validate_def_contents(def_tag, def_expand_group)`; `grp = none` for a Def tag, the children of the
Def-expand group otherwise.  `sorted` = the repaired comparison (`sorted()` on both sides); `false` = the
original order-sensitive `!=` against the stored, sorted content. -/
def checkDefExpand (sorted : Bool) (dd : DefDict) (t : Tag) (grp : Option (List Node)) : List VKind :=
  match expansion fold dd t with
  | .noEntry => [if grp.isSome then .defExpandUnmatched else .defUnmatched]
  | .mismatch takes =>
    [if takes then (if grp.isSome then .defExpandValueMissing else .defValueMissing)
     else (if grp.isSome then .defExpandValueExtra else .defValueExtra)]
  | .internal => [.internalError]
  | .ok cs =>
    match grp with
    | none => []
    | some ks =>
      if (if sorted then eqvL fold (sortG fold ks) (sortG fold (.tag t :: cs)) else eqvL fold ks (.tag t :: cs)) then []
      else [.defExpandInvalid]

/-- `_get_def_tags_from_group(group)` followed by the checks, for the group with these children -/
def chkChildren (sorted : Bool) (dd : DefDict) : List Node → List VKind
  | [] => []
  | .tag t :: r =>
    (if t.base == .def_ then checkDefExpand fold sorted dd t none else []) ++ chkChildren sorted dd r
  | .grp ks :: r =>
    (deTags ks).flatMap (fun t => checkDefExpand fold sorted dd t (some ks)) ++ chkChildren sorted dd r

mutual
def valN (sorted : Bool) (dd : DefDict) : Node → List VKind
  | .tag _ => []
  | .grp ks => chkChildren fold sorted dd ks ++ valL sorted dd ks
def valL (sorted : Bool) (dd : DefDict) : List Node → List VKind
  | [] => []
  | k :: ks => valN sorted dd k ++ valL sorted dd ks
end

/-- `validate_def_tags(hed_string)`: groups in `get_all_groups` order (root first) -/
def validateDefs (sorted : Bool) (dd : DefDict) (root : List Node) : List VKind :=
  chkChildren fold sorted dd root ++ valL fold sorted dd root

/-! ### `DefExpandGatherer` (hed/models/def_expand_gather.py): definitions recovered from Def-expand groups

Modelled: `_process_def_expand` / `_handle_known_definition` as a fold over the (Def-expand tag, group) pairs of
the cells.  Not modelled: the placeholder inference of `AmbiguousDef` — pairs that reach it are collected in
`ambiguous` and the fold stops being compared from there on. -/

structure GState where
  dd : DefDict := []
  /-- `errors`: folded name ↦ reported content groups (children lists), in order -/
  errors : List (Str × List (List Node)) := []
  /-- pairs handed to `_handle_ambiguous_definition` -/
  ambiguous : List (Tag × List Node) := []
deriving Inhabited

def addError (es : List (Str × List (List Node))) (k : Str) (g : List Node) : List (Str × List (List Node)) :=
  if es.any (fun e => e.1 == k) then es.map (fun e => if e.1 == k then (e.1, e.2 ++ [g]) else e)
  else es ++ [(k, [g])]

/-- `defs[key] = entry` (an existing key keeps its position) -/
def setEntry (dd : DefDict) (e : Entry) : DefDict :=
  if dd.any (fun x => x.key == e.key) then dd.map (fun x => if x.key == e.key then e else x) else dd ++ [e]

section
variable (fold : Str → Str)

/-- One (Def-expand tag, group children) pair.  `gfix` = the proposed repair: a name that is defined but used
with the wrong value presence is reported instead of silently replacing the definition. -/
def gatherStep (gfix : Bool) (st : GState) (t : Tag) (ks : List Node) : Except Err GState :=
  let sorted := sortG fold ks                        -- `def_expand_group.sort()`
  let key := fold (labelOf t)
  let report : Except Err GState :=                  -- `errors[...].append(def_expand_group.get_first_group())`
    match (groupsOf sorted).head? with
    | some g => .ok { st with errors := addError st.errors key g }
    | none => .error .indexError
  match expansion fold st.dd t with
  | .ok cs => if eqvL fold (sortG fold (.tag t :: cs)) sorted then .ok st else report
  | .internal => .error .valueError
  | x =>
    let known := match x with | .mismatch _ => true | _ => false
    if gfix && known then report
    else if !(t.extension.contains '/') then
      match (groupsOf sorted).head? with
      | some g => .ok { st with dd := setEntry st.dd ⟨key, labelOf t, eraseL (sortG fold g), false⟩ }
      | none => .error .indexError
    else if st.errors.any (fun e => e.1 == key) then report
    else .ok { st with ambiguous := st.ambiguous ++ [(t, ks)] }

mutual
/-- the pairs of `find_def_tags(recursive=True)` that are Def-expand groups, in its order -/
def dePairsN : Node → List (Tag × List Node)
  | .tag _ => []
  | .grp ks => dePairsKids ks ++ dePairsL ks
def dePairsL : List Node → List (Tag × List Node)
  | [] => []
  | k :: ks => dePairsN k ++ dePairsL ks
def dePairsKids : List Node → List (Tag × List Node)
  | [] => []
  | .tag _ :: r => dePairsKids r
  | .grp ks :: r => (deTags ks).map (fun t => (t, ks)) ++ dePairsKids r
end

/-- all pairs of one cell (root first, then the groups in pre-order) -/
def dePairs (root : List Node) : List (Tag × List Node) := dePairsKids root ++ dePairsL root

def gatherAll (gfix : Bool) (st : GState) : List (Tag × List Node) → Except Err GState
  | [] => .ok st
  | (t, ks) :: r => match gatherStep fold gfix st t ks with
    | .ok st' => gatherAll gfix st' r
    | .error e => .error e
end

/-! ### Histories on one object -/

inductive Op where
  | expand | shrink | copy | str | validate
deriving Repr, DecidableEq, Inhabited

/-- What `validate` does to one live tag: `_validate_def_contents` and `validate_def_value_units` call
`get_definition(tag, return_copy_of_tag=True)`; the returned `HedGroup([tag, content])` sets `_parent` of its
members, so without the copy (`copyTag = false`, not the code's behaviour) the live tag is re-parented. -/
def valTag (copyTag : Bool) (dd : DefDict) (t : Tag) : Tag :=
  if !copyTag && (t.base == .def_ || t.base == .defExpand) &&
      (match expansion fold dd t with | .ok _ => true | _ => false)
  then { t with att := .det0 } else t

mutual
def valAttN (copyTag : Bool) (dd : DefDict) : Node → Node
  | .tag t => .tag (valTag fold copyTag dd t)
  | .grp ks => .grp (valAttL copyTag dd ks)
def valAttL (copyTag : Bool) (dd : DefDict) : List Node → List Node
  | [] => []
  | k :: ks => valAttN copyTag dd k :: valAttL copyTag dd ks
end

/-- `HedString.validate()` seen on the object's state (its issues are `validateDefs`) -/
def validateG (copyTag : Bool) (dd : DefDict) (o : Obj) : Except Err Obj :=
  if o.cyclic then .error .recursion else .ok { o with kids := valAttL fold copyTag dd o.kids }

/-- one operation on the object (observers leave it unchanged but fail on a cyclic tree);
`fix`/`copyTag` = true is the code under test -/
def stepG (fix copyTag : Bool) (dd : DefDict) (o : Obj) : Op → Except Err Obj
  | .expand => expandG fold fix dd o
  | .shrink => shrinkG fix o
  | .copy => copy o
  | .str => (render o).map (fun _ => o)
  | .validate => validateG fold copyTag dd o

def runG (fix copyTag : Bool) (dd : DefDict) (o : Obj) : List Op → Except Err Obj
  | [] => .ok o
  | op :: ops => match stepG fold fix copyTag dd o op with
    | .ok o' => runG fix copyTag dd o' ops
    | .error e => .error e

end

end HedVerif.Defs
