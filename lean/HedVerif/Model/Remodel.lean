/-
Model of the remodeling pipeline (property C17):
  hed/tools/remodeling/dispatcher.py          Dispatcher.run_operations / prep_data / post_proc_data / parse_operations
  hed/tools/remodeling/remodeler_validator.py RemodelerValidator.validate
  hed/tools/remodeling/operations/*_op.py     __init__ / do_op / validate_input_data of all eight non-summary
        operations: remove_rows, remove_columns, rename_columns, reorder_columns, factor_column,
        merge_consecutive (with and without set_durations), remap_columns, split_rows
  hed/tools/analysis/key_map.py               KeyMap.update / _update / _handle_update / remap / _remap / remove_quotes
  hed/tools/remodeling/cli/run_remodel.py     parse_arguments (validate, refuse) then one Dispatcher per task

The model is of the code as committed in /repo (with the nine C17 repairs).  The unrepaired
`reorder_columns.do_op` is kept as `reorderImplOld` for the regression counter-examples in Props/C17.lean.

pandas conventions (DESIGN.md section 3): a table is a list of named columns; a cell is what pandas holds after
`read_csv(..., keep_default_na=False)`: a `str`, an `int64`, a `float64`, or NaN.  Floats are exact numbers on
the 1/2 grid (`flt h` is h/2): onsets, durations and the numeric parameters of the generated operations live
there, sums and differences stay there, and Python prints them as `k.0` / `k.5`.
Only the pandas operations the anchored code uses are modelled, among them the three places where pandas turns
int64 values into float64 ones (a float or NaN entering the column, `iterrows` over all-numeric rows, `.values`
of all-numeric columns).  NOT modelled (`OpErr.unmodelled`): duplicate column labels; text cells in the time
columns that split_rows / merge_consecutive(set_durations) compute with; exotic integer literals in
integer_sources; Python's hash collisions (a KeyMap key is the tuple of texts itself).
No Mathlib: this file is linked into the native driver.
-/
import HedVerif.Generated.C17Params
namespace HedVerif.Remodel

/-! ## Tables -/

inductive Cell
  | str (s : Str)
  | int (n : Int)
  | flt (twice : Int)     -- the float64 twice/2 (1/2 grid)
  | nan
deriving Repr, DecidableEq, Inhabited

/-- a JSON scalar of the parameters (string or number); never `nan` -/
abbrev Val := Cell
abbrev Column := List Cell
abbrev Table := List (Str × Column)

def header (t : Table) : List Str := t.map (·.1)

inductive PyExc | KeyError | ValueError | TypeError | IndexError
deriving Repr, DecidableEq

inductive OpErr
  | raised (e : PyExc)
  | unmodelled            -- outside the modelled pandas fragment (see the file comment)
deriving Repr, DecidableEq

def intRepr (n : Int) : Str := (toString n).toList

/-- Python's `repr` of the float h/2 -/
def fltRepr (h : Int) : Str :=
  (if h < 0 then ['-'] else []) ++ (toString (h.natAbs / 2)).toList
    ++ (if h.natAbs % 2 = 0 then ".0".toList else ".5".toList)

/-- `str(x)` of a pandas cell (`Series.map(str)`, `str(column_value)`, `astype(str)`) -/
def pyStr : Cell → Str
  | .str s => s
  | .int n => intRepr n
  | .flt h => fltRepr h
  | .nan => "nan".toList

/-- elementwise `series == value` for a JSON scalar `value` (str dtype against a number and numeric dtype
against a string are all-False; NaN equals nothing; `1 == 1.0`) -/
def cellEq : Cell → Val → Bool
  | .str a, .str b => a == b
  | .int a, .int b => a == b
  | .int a, .flt h => 2 * a == h
  | .flt h, .int b => h == 2 * b
  | .flt a, .flt b => a == b
  | _, _ => false

def naStr : Str := "n/a".toList

/-- `Dispatcher.prep_data`: `df.replace('n/a', np.nan)` -/
def prepCell : Cell → Cell
  | .str s => if s = naStr then .nan else .str s
  | c => c

/-- `Dispatcher.post_proc_data`: `df.fillna('n/a')` -/
def postCell : Cell → Cell
  | .nan => .str naStr
  | c => c

def mapCells (f : Cell → Cell) (t : Table) : Table := t.map fun p => (p.1, p.2.map f)
def prep (t : Table) : Table := mapCells prepCell t
def post (t : Table) : Table := mapCells postCell t

/-- boolean row mask applied to one column (`df.loc[mask, :]` + `reset_index(drop=True)`) -/
def applyMask {α} : List Bool → List α → List α
  | true :: m, x :: xs => x :: applyMask m xs
  | false :: m, _ :: xs => applyMask m xs
  | _, _ => []

def filterRows (mask : List Bool) (t : Table) : Table := t.map fun p => (p.1, applyMask mask p.2)

/-- `df[name] = column`: replace in place if the label exists, else append -/
def setCol (t : Table) (name : Str) (c : Column) : Table :=
  if name ∈ header t then t.map (fun p => if p.1 = name then (p.1, c) else p) else t ++ [(name, c)]

/-- `df.loc[:, names]` -/
def selectCols : List Str → Table → Except OpErr Table
  | [], _ => .ok []
  | n :: ns, t =>
    match t.lookup n, selectCols ns t with
    | some c, .ok r => .ok ((n, c) :: r)
    | none, _ => .error (.raised .KeyError)
    | _, .error e => .error e

/-! ## Numbers in the time columns (exact on the 1/2 grid) -/

def Cell.isInt : Cell → Bool | .int _ => true | _ => false
def Cell.isFlt : Cell → Bool | .flt _ => true | _ => false
def Cell.isStr : Cell → Bool | .str _ => true | _ => false
def Cell.isNumVal : Cell → Bool | .int _ => true | .flt _ => true | _ => false
/-- twice the numeric value; `none` for NaN (text is excluded by the callers) -/
def Cell.tw : Cell → Option Int
  | .int n => some (2 * n) | .flt h => some h | _ => none
/-- what an int64 value becomes when its column becomes float64 -/
def toFloat : Cell → Cell | .int n => .flt (2 * n) | c => c
/-- a column pandas holds with a numeric dtype (or an object column of numbers and NaN): no text -/
def numericCol (c : Column) : Bool := !c.any Cell.isStr
/-- `pd.to_numeric(column, errors='coerce')` on a column without text: int64 stays, else float64 -/
def toNumericCol (c : Column) : Column := if c.all Cell.isInt then c else c.map toFloat
/-- elementwise `+` of int64 / float64 values (NaN propagates) -/
def numAdd : Cell → Cell → Cell
  | .int x, .int y => .int (x + y)
  | a, b => match a.tw, b.tw with
    | some x, some y => .flt (x + y)
    | _, _ => .nan

def onsetName : Str := "onset".toList
def durationName : Str := "duration".toList

/-! ## Operations: parameters are the state

An operation object keeps *references* to the values of its parameter dictionary (`self.column_order =
parameters['column_order']`), so the parameter dictionary is the operation's mutable state: `opImpl` returns the
parameters after the call next to the result.  (remap_columns also builds a KeyMap in `__init__`; it is a
function of the parameters and never written afterwards, so the model recomputes it: `buildKeyMap`.) -/

/-- one entry of split_rows' `new_events` -/
structure SplitEvent where
  onsetSrc : List Val
  duration : List Val
  copy : Option (List Str)
deriving Repr, DecidableEq

inductive Op
  | removeRows (col : Str) (vals : List Val)
  | removeColumns (cols : List Str) (ignoreMissing : Bool)
  | renameColumns (mapping : List (Str × Str)) (ignoreMissing : Bool)
  | reorderColumns (order : List Str) (ignoreMissing keepOthers : Bool)
  | factorColumn (col : Str) (values names : Option (List Str))
  | mergeConsecutive (col : Str) (code : Val) (matchCols : Option (List Str)) (setDurations ignoreMissing : Bool)
  | remapColumns (src dst : List Str) (mapList : List (List Val)) (ignoreMissing : Bool)
      (intSrc : Option (List Str))
  | splitRows (anchor : Str) (events : List (Str × SplitEvent)) (removeParent : Bool)
deriving Repr, DecidableEq

/-! ### remove_rows -/

/-- one pass of `for value in self.remove_values: df_new = df_new.loc[df_new[col] != value, :]` -/
def removeRowsStep (col : Str) (t : Table) (v : Val) : Table :=
  match t.lookup col with
  | some c => filterRows (c.map fun x => !cellEq x v) t
  | none => t

def removeRowsImpl (col : Str) (vals : List Val) (t : Table) : Except OpErr Table :=
  if col ∈ header t then .ok (vals.foldl (removeRowsStep col) t) else .ok t

/-- documented meaning: keep exactly the rows whose cell in `col` differs from every listed value, in order;
a table without the column is returned as it is -/
def removeRowsSpec (col : Str) (vals : List Val) (t : Table) : Except OpErr Table :=
  match t.lookup col with
  | none => .ok t
  | some c => .ok (filterRows (c.map fun x => vals.all fun v => !cellEq x v) t)

/-! ### remove_columns: `df.drop(names, axis=1, errors='ignore'|'raise')` -/

def removeColumnsImpl (cols : List Str) (ign : Bool) (t : Table) : Except OpErr Table :=
  if !ign && cols.any (fun n => !(header t).contains n) then .error (.raised .KeyError)
  else .ok (t.filter fun p => !cols.contains p.1)

def removeColumnsSpec := removeColumnsImpl

/-! ### rename_columns: `df.rename(columns=mapping, errors=...)` (simultaneous renaming) -/

def renameColumnsImpl (mapping : List (Str × Str)) (ign : Bool) (t : Table) : Except OpErr Table :=
  if !ign && mapping.any (fun kv => !(header t).contains kv.1) then .error (.raised .KeyError)
  else .ok (t.map fun p => ((mapping.lookup p.1).getD p.1, p.2))

def renameColumnsSpec := renameColumnsImpl

/-! ### reorder_columns -/

/-- `do_op` with the repair (`ordered = list(self.column_order)`); returns `self.column_order` after the call -/
def reorderImpl (order : List Str) (ign keep : Bool) (t : Table) : List Str × Except OpErr Table :=
  let current := header t
  let missing := order.filter fun e => !current.contains e
  if !missing.isEmpty && !ign then (order, .error (.raised .ValueError)) else
  let ordered := if !missing.isEmpty then order.filter (fun e => !missing.contains e) else order
  let ordered' := if keep then ordered ++ current.filter (fun e => !ordered.contains e) else ordered
  (order, selectCols ordered' t)

/-- the unrepaired `do_op`: `ordered = self.column_order` aliases the parameter list, `ordered += …` extends it
in place when no column is missing (when one is, `ordered` is rebound to a fresh list first) -/
def reorderImplOld (order : List Str) (ign keep : Bool) (t : Table) : List Str × Except OpErr Table :=
  let current := header t
  let missing := order.filter fun e => !current.contains e
  if !missing.isEmpty && !ign then (order, .error (.raised .ValueError)) else
  if !missing.isEmpty then
    let ordered := order.filter (fun e => !missing.contains e)
    let ordered' := if keep then ordered ++ current.filter (fun e => !ordered.contains e) else ordered
    (order, selectCols ordered' t)
  else
    let ordered' := if keep then order ++ current.filter (fun e => !order.contains e) else order
    (ordered', selectCols ordered' t)

/-- documented meaning: the listed columns that exist, in the listed order, then (iff `keep_others`) the other
columns in file order; an absent listed column is an error unless `ignore_missing` -/
def reorderSpec (order : List Str) (ign keep : Bool) (t : Table) : Except OpErr Table :=
  if !ign && order.any (fun e => !(header t).contains e) then .error (.raised .ValueError) else
  let listed := order.filter fun e => (header t).contains e
  let others := if keep then (header t).filter (fun e => !order.contains e) else []
  selectCols (listed ++ others) t

/-! ### factor_column -/

/-- `isin([str(v)]).astype(int)` on `column.map(str)` -/
def factorCol (c : Column) (v : Str) : Column := c.map fun x => if pyStr x = v then .int 1 else .int 0

/-- `for index, factor_value in enumerate(factor_values)`: reads `df_new[col]` (KeyError), `factor_names[index]`
(IndexError), assigns `df_new[name]` -/
def factorLoop (col : Str) : List Str → List Str → Table → Except OpErr Table
  | [], _, t => .ok t
  | v :: vs, ns, t =>
    match t.lookup col with
    | none => .error (.raised .KeyError)
    | some c =>
      match ns with
      | [] => .error (.raised .IndexError)
      | n :: ns' => factorLoop col vs ns' (setCol t n (factorCol c v))

def factorValues (vals : List Str) (c0 : Column) : List Str :=
  if vals.isEmpty then (c0.eraseDups).map pyStr else vals     -- `df[col].unique()`, first occurrences

def factorNames (col : Str) (nms fv : List Str) : List Str :=
  if nms.isEmpty then fv.map (fun v => col ++ '.' :: v) else nms

def factorImpl (col : Str) (values names : Option (List Str)) (t : Table) : Except OpErr Table :=
  match t.lookup col with
  | none => .error (.raised .KeyError)
  | some c0 =>
    let fv := factorValues (values.getD []) c0
    factorLoop col fv (factorNames col (names.getD []) fv) t

/-- documented meaning: one 0/1 column per factor value (the given values, else the column's unique values),
named by the given names, else `col.value`; every factor is computed from the ORIGINAL column -/
def factorSpec (col : Str) (values names : Option (List Str)) (t : Table) : Except OpErr Table :=
  match t.lookup col with
  | none => .error (.raised .KeyError)
  | some c0 =>
    let fv := factorValues (values.getD []) c0
    let fn := factorNames col (names.getD []) fv
    if fn.length < fv.length then .error (.raised .IndexError)
    else .ok ((fv.zip fn).foldl (fun t' vn => setCol t' vn.2 (factorCol c0 vn.1)) t)


/-! ### merge_consecutive -/

abbrev Row := List (Option Cell)

structure GSt where
  inGroup : Bool := false
  count : Nat := 0
  prev : Option Row := none
  out : List Nat := []          -- reversed
deriving Repr

/-- one iteration of `_get_remove_groups` (`row.equals(match_df.loc[index - 1, :])`: NaN equals NaN) -/
def groupStep (st : GSt) (mr : Bool × Row) : GSt :=
  if !mr.1 then { st with inGroup := false, prev := some mr.2, out := 0 :: st.out }
  else if !st.inGroup then { inGroup := true, count := st.count + 1, prev := some mr.2, out := 0 :: st.out }
  else if st.prev = some mr.2 then { st with prev := some mr.2, out := st.count :: st.out }
  else { st with count := st.count + 1, prev := some mr.2, out := 0 :: st.out }

def removeGroups (mrs : List (Bool × Row)) : List Nat := (mrs.foldl groupStep {}).out.reverse

/-- declarative keep-mask: a row is dropped iff it and its predecessor both carry the event code and agree on
the compared columns -/
def mergeKeep : Option (Bool × Row) → List (Bool × Row) → List Bool
  | _, [] => []
  | prev, mr :: rest =>
    (!(mr.1 && (match prev with | some p => p.1 && p.2 = mr.2 | none => false))) :: mergeKeep (some mr) rest

def matchRows (t : Table) (names : List Str) (n : Nat) : List Row :=
  let cols := names.filterMap (t.lookup ·)
  (List.range n).map fun i => cols.map (·[i]?)

/-- `df.loc[row, ["onset", "duration"]].sum(skipna=True)`, twice the value (NaN counts as 0) -/
def endTw (o d : Cell) : Int := o.tw.getD 0 + d.tw.getD 0

def maxList : List Int → Option Int
  | [] => none
  | x :: xs => some (match maxList xs with | some m => max x m | none => x)

/-- the anchor row's new duration: `max(max_group, max_anchor) - onset` (float64) -/
def anchorDur (o d : Cell) (maxGroup : Int) : Cell :=
  match o.tw with
  | some ot => .flt (max maxGroup (endTw o d) - ot)
  | none => .nan

/-- a row as `_update_durations` sees it: its remove-group number, its onset, its (current) duration -/
abbrev DRow := Nat × Cell × Cell

/-- `df_group.sum(axis=1, skipna=True).max()` over the rows whose group number is `g` -/
def groupMax (g : Nat) (rs : List DRow) : Option Int :=
  maxList ((rs.filter (·.1 == g)).map fun r => endTw r.2.1 r.2.2)

/-- the row just before the first row of group `g` (`anchor = df_group.index[0] - 1`) gets the new duration -/
def updateGroupAux (g : Nat) : List DRow → List DRow
  | a :: b :: rest =>
    if b.1 == g then
      match groupMax g (b :: rest) with
      | some mg => (a.1, a.2.1, anchorDur a.2.1 a.2.2 mg) :: b :: rest
      | none => a :: b :: rest
    else a :: updateGroupAux g (b :: rest)
  | rs => rs

/-- one pass of `for index in range(max_groups)` in `_update_durations`, for group number `g`
(no row of the group: `continue`; the group starts in the first row: `df_new.loc[-1]` is a KeyError — proved
unreachable) -/
def updateGroup (g : Nat) (rs : List DRow) : Except OpErr (List DRow) :=
  match rs with
  | r :: _ => if r.1 == g then .error (.raised .KeyError) else .ok (updateGroupAux g rs)
  | [] => .ok []

def updateLoop : List Nat → List DRow → Except OpErr (List DRow)
  | [], rs => .ok rs
  | g :: gs, rs =>
    match updateGroup g rs with
    | .ok rs' => updateLoop gs rs'
    | .error e => .error e

/-- what `do_op` derives from the compared rows: which rows stay, and (set_durations) the duration column -/
structure MergePlan where
  keep : List Bool
  newDur : Column → Column → Except OpErr (Option Column)     -- onset, duration ↦ new duration (none: untouched)

/-- `_get_remove_groups`, then `if max(remove_groups) > 0: _update_durations` (duration column as float) -/
def mergePlanImpl (mrs : List (Bool × Row)) : MergePlan :=
  let groups := removeGroups mrs
  let mx := groups.foldl max 0
  { keep := groups.map (· == 0),
    newDur := fun O D =>
      if mx > 0 then
        match updateLoop (List.range' 1 mx) (groups.zip (O.zip (D.map toFloat))) with
        | .ok rs => .ok (some (rs.map (·.2.2)))
        | .error e => .error e
      else .ok none }

/-- largest end (twice) among the dropped rows at the head of the list; `none` if there is none -/
def runEnd : List (Bool × Cell × Cell) → Option Int
  | (false, o, d) :: rest =>
    some (match runEnd rest with | some m => max (endTw o d) m | none => endTw o d)
  | _ => none

/-- documented meaning of set_durations: a kept row that absorbs the rows after it lasts until the latest end
of itself and the absorbed rows; the column is float64 -/
def specDur : List (Bool × Cell × Cell) → Column
  | [] => []
  | (k, o, d) :: rest =>
    (match k, runEnd rest with
     | true, some m => anchorDur o (toFloat d) m
     | _, _ => toFloat d) :: specDur rest

def mergePlanSpec (mrs : List (Bool × Row)) : MergePlan :=
  let keep := mergeKeep none mrs
  { keep := keep,
    newDur := fun O D => if keep.any (!·) then .ok (some (specDur (keep.zip (O.zip D)))) else .ok none }

def mergeCore (plan : List (Bool × Row) → MergePlan)
    (col : Str) (code : Val) (matchCols : Option (List Str)) (setDur ign : Bool) (t : Table) :
    Except OpErr Table :=
  let mcs := matchCols.getD []
  if !ign && !(header t).contains col then .error (.raised .ValueError) else
  if setDur && !(header t).contains onsetName then .error (.raised .ValueError) else
  if setDur && !(header t).contains durationName then .error (.raised .ValueError) else
  let missing := mcs.filter fun e => !(header t).contains e
  if !mcs.isEmpty && !ign && !missing.isEmpty then .error (.raised .ValueError) else
  let mc := (mcs.filter fun e => (header t).contains e).eraseDups  -- list(set(match) ∩ set(columns))
  match t.lookup col with
  | none => .error (.raised .KeyError)
  | some c =>
    let mask := c.map (cellEq · code)
    if !mask.any id then .ok t else
    let p := plan (mask.zip (matchRows t (mc ++ [col]) c.length))
    if !setDur then .ok (filterRows p.keep t) else
    let O := (t.lookup onsetName).getD []
    let D := (t.lookup durationName).getD []
    match p.newDur O D with
    | .ok none => .ok (filterRows p.keep t)
    | r =>
      if !numericCol O || !numericCol D then .error .unmodelled else
      match r with
      | .ok (some D') => .ok (filterRows p.keep (setCol t durationName D'))
      | .ok none => .ok (filterRows p.keep t)
      | .error e => .error e

def mergeImpl := mergeCore mergePlanImpl
/-- documented meaning: of consecutive rows that carry `event_code` in `col` and agree on the match columns
only the first is kept; with set_durations it lasts until the latest end of the rows it absorbs -/
def mergeSpec := mergeCore mergePlanSpec

/-! ### remap_columns (RemapColumnsOp + KeyMap) -/

/-- `KeyMap.remove_quotes` -/
def stripQuotes (s : Str) : Str := s.filter fun c => c != '"' && c != '\''

/-- the text of one key value: `row[key_cols].fillna('n/a').astype(str)`, quotes removed -/
def keyStr : Cell → Str
  | .nan => naStr
  | c => stripQuotes (pyStr c)

/-- `pd.DataFrame(map_list)`: a column of numbers with a float among them is float64 -/
def coerceCol (c : List Val) : List Val :=
  if c.all Cell.isNumVal && c.any Cell.isFlt then c.map toFloat else c

def columnsOf (rows : List (List Cell)) (w : Nat) : List (List Cell) :=
  (List.range w).map fun j => rows.map (·.getD j .nan)
def rowsOf (cols : List (List Cell)) (n : Nat) : List (List Cell) :=
  (List.range n).map fun i => cols.map (·.getD i .nan)

/-- the rows `KeyMap._update` iterates over, as (key texts, target values):
`pd.DataFrame(map_list)` per column; `df[targets].values` makes all-numeric targets one dtype;
`iterrows` makes an all-numeric row one dtype -/
def mapEntries (nsrc w : Nat) (mapList : List (List Val)) : List (List Str × List Cell) :=
  let cols := (columnsOf mapList w).map coerceCol
  let keyCols := cols.take nsrc
  let tgtCols := cols.drop nsrc
  let keysNumeric := keyCols.all (·.all Cell.isNumVal)
  let tgtNumeric := tgtCols.all (·.all Cell.isNumVal)
  let tgtCols := if tgtNumeric && tgtCols.any (·.any Cell.isFlt) then tgtCols.map (·.map toFloat) else tgtCols
  let allCols := keyCols ++ tgtCols
  let allCols := if keysNumeric && tgtNumeric && allCols.any (·.any Cell.isFlt)
                 then allCols.map (·.map toFloat) else allCols
  (rowsOf allCols mapList.length).map fun r => ((r.take nsrc).map keyStr, r.drop nsrc)

/-- `KeyMap.map_dict` (key → position) and `KeyMap.col_map` (the target values of the unique keys) -/
structure KeyMapSt where
  dict : List (List Str × Nat) := []
  rows : List (List Cell) := []
deriving Repr

/-- `KeyMap._handle_update`: the first row with a key is recorded at the next position -/
def keyMapStep (st : KeyMapSt) (e : List Str × List Cell) : KeyMapSt :=
  if (st.dict.lookup e.1).isSome then st
  else { dict := st.dict ++ [(e.1, st.rows.length)], rows := st.rows ++ [e.2] }

def buildKeyMap (entries : List (List Str × List Cell)) : KeyMapSt := entries.foldl keyMapStep {}


/-- the entries that define the mapping: the first one of every key -/
def firstEntries : List (List Str) → List (List Str × List Cell) → List (List Str × List Cell)
  | _, [] => []
  | seen, e :: es => if seen.contains e.1 then firstEntries seen es else e :: firstEntries (seen ++ [e.1]) es

def parseDigits (s : Str) : Option Nat :=
  if s.isEmpty || !s.all Char.isDigit then none
  else some (s.foldl (fun a c => a * 10 + (c.toNat - '0'.toNat)) 0)

def parseIntLit : Str → Option Int
  | '-' :: r => (parseDigits r).map fun n => -(n : Int)
  | '+' :: r => (parseDigits r).map Int.ofNat
  | r => (parseDigits r).map Int.ofNat

/-- `int(x)` as `Series.astype(int)` applies it to the cells of an integer source -/
def toIntCell : Cell → Except OpErr Cell
  | .int n => .ok (.int n)
  | .flt h => .ok (.int (Int.tdiv h 2))
  | .nan => .ok .nan
  | .str s =>
    match parseIntLit s with
    | some n => .ok (.int n)
    | none =>
      if s.isEmpty || s.any (fun c => c.toNat < 128 && !c.isDigit && c != '+' && c != '-' && c != '_' && !c.isWhitespace)
      then .error (.raised .ValueError)
      else .error .unmodelled        -- blanks, underscores, non-ASCII digits: Python's `int` may accept them

/-- one cell of a source column: NaN → 'n/a'; integer sources through `int`; then `astype(str)`, quotes removed -/
def sourceCell (isInt : Bool) (c : Cell) : Except OpErr Cell :=
  match c with
  | .nan => .ok (.str naStr)
  | c =>
    if isInt then
      match toIntCell c with
      | .ok v => .ok (.str (stripQuotes (pyStr v)))
      | .error e => .error e
    else .ok (.str (stripQuotes (pyStr c)))

def mapExcept {α β} (f : α → Except OpErr β) : List α → Except OpErr (List β)
  | [] => .ok []
  | x :: xs =>
    match f x, mapExcept f xs with
    | .ok y, .ok ys => .ok (y :: ys)
    | .error e, _ => .error e
    | _, .error e => .error e

/-- the destination column `j` (`df[col] = remapped_df[col + '_new']` after `.fillna('n/a')`): an int64 column of
`col_map` becomes float64 when a row without a match brings a NaN into it -/
def destColumn (uniqueRows : List (List Cell)) (found : List (Option (List Cell))) (j : Nat) : Column :=
  let promote := uniqueRows.all (fun r => (r.getD j .nan).isInt) && found.any Option.isNone
  found.map fun m =>
    match m with
    | some r =>
      match r.getD j .nan with
      | .nan => .str naStr
      | v => if promote then toFloat v else v
    | none => .str naStr

def setCols : Table → List (Str × Column) → Table
  | t, [] => t
  | t, (n, c) :: rest => setCols (setCol t n c) rest

/-- `col_map = pd.DataFrame(row_list)`: the target columns of the unique rows get their dtype again -/
def colMapRows (uniqueRows : List (List Cell)) (ntgt : Nat) : List (List Cell) :=
  rowsOf ((columnsOf uniqueRows ntgt).map coerceCol) uniqueRows.length

def remapCore (lookupIdx : List Str → Option Nat) (uniqueRows : List (List Cell))
    (src dst : List Str) (ign : Bool) (intSrc : Option (List Str)) (t : Table) : Except OpErr Table :=
  let colMap := colMapRows uniqueRows dst.length
  let lookup := fun k => (lookupIdx k).bind (colMap[·]?)
  let uniqueRows := colMap
  let ints := intSrc.getD []
  if src.any (fun s => !(header t).contains s) then .error (.raised .KeyError) else
  if ints.any (fun s => !(header t).contains s) then .error (.raised .KeyError) else
  match mapExcept (fun s => mapExcept (sourceCell (ints.contains s)) ((t.lookup s).getD [])) src with
  | .error e => .error e
  | .ok srcCols =>
    let n := (srcCols.headD []).length
    let found := (rowsOf srcCols n).map fun r => lookup (r.map pyStr)
    if !ign && found.any Option.isNone then .error (.raised .ValueError) else     -- MapSourceValueMissing
    let t1 := setCols t (src.zip srcCols)
    .ok (setCols t1 ((List.range dst.length).map fun j => (dst.getD j [], destColumn uniqueRows found j)))

/-- parameters the modelled pandas fragment covers (the validator guarantees all but the first) -/
def remapShapeOk (src dst : List Str) (mapList : List (List Val)) (intSrc : Option (List Str)) : Bool :=
  decide (src ++ dst).Nodup && !src.isEmpty && mapList.all (fun r => r.length == src.length + dst.length)
    && (intSrc.getD []).all (fun s => src.contains s)

def remapImpl (src dst : List Str) (mapList : List (List Val)) (ign : Bool) (intSrc : Option (List Str))
    (t : Table) : Except OpErr Table :=
  if !remapShapeOk src dst mapList intSrc then .error .unmodelled else
  let km := buildKeyMap (mapEntries src.length (src.length + dst.length) mapList)      -- `__init__`
  remapCore (fun k => km.dict.lookup k) km.rows src dst ign intSrc t      -- `key_series.map(self.map_dict)`

/-- documented meaning: every row gets, in the destination columns, the values of the FIRST `map_list` entry
whose key texts equal the row's source texts (NaN reads 'n/a', integer sources read as integers), 'n/a' if there
is none — which is an error unless `ignore_missing`; the source columns hold their key texts afterwards.
(`firstEntries` = the defining entries; numbers are merged to one dtype per column as pandas does.) -/
def remapSpec (src dst : List Str) (mapList : List (List Val)) (ign : Bool) (intSrc : Option (List Str))
    (t : Table) : Except OpErr Table :=
  if !remapShapeOk src dst mapList intSrc then .error .unmodelled else
  let entries := mapEntries src.length (src.length + dst.length) mapList
  let firsts := firstEntries [] entries
  remapCore (fun k => firsts.findIdx? (fun e => k == e.1)) (firsts.map (·.2)) src dst ign intSrc t

/-! ### split_rows -/

/-- `_create_onsets` / `_add_durations`: add numbers and numeric columns to a start column -/
def addSources (t : Table) : Column → List Val → Except OpErr Column
  | acc, [] => .ok acc
  | acc, .str name :: rest =>
    match t.lookup name with
    | some c =>
      if !numericCol c then .error .unmodelled
      else addSources t (List.zipWith numAdd acc (toNumericCol c)) rest
    | none => .error (.raised .TypeError)
  | _, .nan :: _ => .error (.raised .TypeError)
  | acc, v :: rest => addSources t (acc.map (numAdd · v)) rest

def lookupAll (t : Table) : List Str → Except OpErr (List (Str × Column))
  | [] => .ok []
  | c :: cs =>
    match t.lookup c, lookupAll t cs with
    | some col, .ok r => .ok ((c, col) :: r)
    | none, _ => .error (.raised .KeyError)
    | _, .error e => .error e

/-- the frame of new rows of one event as `_split_rows` builds it, column assignment by column assignment,
before `dropna(subset=['onset'])` -/
def eventTableImpl (t : Table) (n : Nat) (anchor : Str) (ev : Str × SplitEvent) : Except OpErr Table :=
  match addSources t (toNumericCol ((t.lookup onsetName).getD [])) ev.2.onsetSrc with
  | .error e => .error e
  | .ok onsets =>
    let t0 : Table := (header t).map fun h => (h, List.replicate n Cell.nan)     -- DataFrame([], columns=df.columns)
    let t1 := setCol t0 onsetName onsets
    let t2 := setCol t1 anchor (List.replicate n (.str ev.1))
    match addSources t (List.replicate n (.int 0)) ev.2.duration with
    | .error e => .error e
    | .ok durs =>
      let t3 := setCol t2 durationName durs
      match lookupAll t (ev.2.copy.getD []) with
      | .error e => .error e
      | .ok copies => .ok (setCols t3 copies)

/-- the same frame, column by column: a copied column is the parent's; else `duration` is the sum of the
duration items, the anchor column is the event name, `onset` the parent's onset plus the onset items; every other
column is empty -/
def eventTableSpec (t : Table) (n : Nat) (anchor : Str) (ev : Str × SplitEvent) : Except OpErr Table :=
  match addSources t (toNumericCol ((t.lookup onsetName).getD [])) ev.2.onsetSrc with
  | .error e => .error e
  | .ok onsets =>
    match addSources t (List.replicate n (.int 0)) ev.2.duration with
    | .error e => .error e
    | .ok durs =>
      match lookupAll t (ev.2.copy.getD []) with
      | .error e => .error e
      | .ok copies =>
        let hdr := if anchor ∈ header t then header t else header t ++ [anchor]
        .ok (hdr.map fun h =>
          (h, match (copies.reverse).lookup h with
              | some c => c
              | none =>
                if h = durationName then durs
                else if h = anchor then List.replicate n (.str ev.1)
                else if h = onsetName then onsets
                else List.replicate n Cell.nan))

def eventTables (mk : Str × SplitEvent → Except OpErr Table) : List (Str × SplitEvent) → Except OpErr (List Table)
  | [] => .ok []
  | e :: es =>
    match mk e with
    | .error x => .error x
    | .ok te =>
      match eventTables mk es with
      | .ok r => .ok (te :: r)
      | .error x => .error x

/-- `sort_values('onset')` key: NaN last -/
def keyLe : Option Int → Option Int → Bool
  | some a, some b => a ≤ b
  | some _, none => true
  | none, some _ => false
  | none, none => true

def insertRow (k : Option Int) (r : List Cell) : List (Option Int × List Cell) → List (Option Int × List Cell)
  | [] => [(k, r)]
  | p :: rest => if keyLe p.1 k then p :: insertRow k r rest else (k, r) :: p :: rest

/-- a STABLE sort (pandas' default quicksort is not: rows with equal onsets may come in another order there;
the correspondence compares such rows as a set) -/
def stableSort (rows : List (Option Int × List Cell)) : List (List Cell) :=
  (rows.foldl (fun acc p => insertRow p.1 p.2 acc) []).map (·.2)

def colD (t : Table) (name : Str) : Column := (t.lookup name).getD []

/-- the dtype pandas holds a column with, as far as it can be read off the cells (an object column that holds only
numbers is taken for a numeric one: such columns do not arise in lists of at most four operations) -/
inductive DT | int | float | object
deriving Repr, DecidableEq

def cellsDtype (c : Column) : DT := if c.all Cell.isInt then .int else if c.all Cell.isFlt then .float else .object
/-- dtype of a column computed by `_create_onsets` / `_add_durations` (NaN lives in float64 there) -/
def computedDtype (c : Column) : DT := if c.all Cell.isInt then .int else .float

def splitCore (mkEvent : Table → Nat → Str → Str × SplitEvent → Except OpErr Table)
    (anchor : Str) (events : List (Str × SplitEvent)) (removeParent : Bool) (t : Table) : Except OpErr Table :=
  if !(header t).contains onsetName then .error (.raised .ValueError) else
  if !(header t).contains durationName then .error (.raised .ValueError) else
  let O := colD t onsetName
  let D := colD t durationName
  if anchor = onsetName || !numericCol O || !numericCol D then .error .unmodelled else
  let n := O.length
  let dfNew := if anchor ∈ header t then t else t ++ [(anchor, List.replicate n Cell.nan)]
  match eventTables (mkEvent t n anchor) events with
  | .error e => .error e
  | .ok evs =>
    let parts := (if removeParent then [] else [dfNew])
      ++ evs.map fun e => filterRows ((colD e onsetName).map (· != Cell.nan)) e        -- dropna(subset=['onset'])
    -- pd.concat: a time column becomes float64 when every frame holds it with a numeric dtype and one of them
    -- (also an emptied one) as float64; a frame holding it as object (NaN or mixed cells) keeps every value as it is
    let promoted := fun (h : Str) =>
      let dts := (if removeParent then [] else [cellsDtype (colD dfNew h)])
        ++ (events.zip evs).map fun ee =>
             if (ee.1.2.copy.getD []).contains h then cellsDtype (colD ee.2 h) else computedDtype (colD ee.2 h)
      !dts.contains DT.object && dts.contains DT.float
    let hdr := header dfNew
    let cols := hdr.map fun h =>
      let c := parts.flatMap fun p => colD p h
      let c := if (h = onsetName || h = durationName) && promoted h then c.map toFloat else c
      -- `df_ret["onset"].apply(pd.to_numeric)`: the values decide again
      if h = onsetName then toNumericCol c else c
    let m := (cols.headD []).length
    let rows := rowsOf cols m
    let keyed := rows.map fun r => (((hdr.zip r).lookup onsetName).bind Cell.tw, r)
    let sorted := stableSort keyed
    .ok (hdr.zip (columnsOf sorted hdr.length))

def splitImpl := splitCore eventTableImpl
/-- documented meaning: for every row and every event of `new_events` one new row (dropped if its onset is not a
number), then — unless `remove_parent_row` — the original rows, all ordered by onset -/
def splitSpec := splitCore eventTableSpec

/-! ### dispatch -/

def opSpec : Op → Table → Except OpErr Table
  | .removeRows c vs, t => removeRowsSpec c vs t
  | .removeColumns cs i, t => removeColumnsSpec cs i t
  | .renameColumns m i, t => renameColumnsSpec m i t
  | .reorderColumns o i k, t => reorderSpec o i k t
  | .factorColumn c vs ns, t => factorSpec c vs ns t
  | .mergeConsecutive c code m sd i, t => mergeSpec c code m sd i t
  | .remapColumns s d ml i is, t => remapSpec s d ml i is t
  | .splitRows a evs rp, t => splitSpec a evs rp t

/-- `operation.do_op(dispatcher, df, name)`: the operation (its parameters) after the call, and the result -/
def opImpl : Op → Table → Op × Except OpErr Table
  | .removeRows c vs, t => (.removeRows c vs, removeRowsImpl c vs t)
  | .removeColumns cs i, t => (.removeColumns cs i, removeColumnsImpl cs i t)
  | .renameColumns m i, t => (.renameColumns m i, renameColumnsImpl m i t)
  | .reorderColumns o i k, t => let r := reorderImpl o i k t; (.reorderColumns r.1 i k, r.2)
  | .factorColumn c vs ns, t => (.factorColumn c vs ns, factorImpl c vs ns t)
  | .mergeConsecutive c code m sd i, t => (.mergeConsecutive c code m sd i, mergeImpl c code m sd i t)
  | .remapColumns s d ml i is, t => (.remapColumns s d ml i is, remapImpl s d ml i is t)
  | .splitRows a evs rp, t => (.splitRows a evs rp, splitImpl a evs rp t)

/-- the unrepaired code (reorder_columns aliasing) -/
def opImplOld : Op → Table → Op × Except OpErr Table
  | .reorderColumns o i k, t => let r := reorderImplOld o i k t; (.reorderColumns r.1 i k, r.2)
  | o, t => opImpl o t

/-- `Dispatcher.run_operations` on one table: for every operation `prep_data`, `do_op`, `post_proc_data`.
Returns the operations (parameters) afterwards and the result or the escaping exception. -/
def runWith (step : Op → Table → Op × Except OpErr Table) : List Op → Table → List Op × Except OpErr Table
  | [], t => ([], .ok t)
  | o :: os, t =>
    if ¬ (header t).Nodup then (o :: os, .error .unmodelled) else
    match step o (prep t) with
    | (o', .error e) => (o' :: os, .error e)
    | (o', .ok t1) => let r := runWith step os (post t1); (o' :: r.1, r.2)

def runSt := runWith opImpl

/-- `run` in the signature of the design: result table and the operations afterwards -/
def run (ops : List Op) (t : Table) : Except OpErr (Table × List Op) :=
  match runSt ops t with
  | (ops', .ok t') => .ok (t', ops')
  | (_, .error e) => .error e

/-- the property's composition clause as an independent expectation: the operations one at a time, each
through a dispatcher of its own (`Dispatcher([op]).run_operations(previous result)`) -/
def runOneByOne : List Op → Table → Except OpErr Table
  | [], t => .ok t
  | o :: os, t =>
    match (runSt [o] t).2 with
    | .ok t1 => runOneByOne os t1
    | .error e => .error e

/-- the operations applied back to back WITHOUT the conversions in between -/
def applyRaw : List Op → Table → Except OpErr Table
  | [], t => .ok t
  | o :: os, t =>
    match (opImpl o t).2 with
    | .ok t1 => applyRaw os t1
    | .error e => .error e

/-- NOT `run_operations`: a dispatcher that converts n/a → NaN once before the loop and NaN → n/a once after it.
An operation that writes the text 'n/a' itself (remap_columns for "no value", split_rows for an event called
n/a) then hands text to the next operation where `run_operations` hands NaN
(Props/C17: `hoisted_prep_counterexample`). -/
def runHoisted (ops : List Op) (t : Table) : Except OpErr Table :=
  match applyRaw ops (prep t) with
  | .ok t' => .ok (post t')
  | .error e => .error e

/-- several tables through ONE dispatcher, in the given order -/
def runManyWith (step : Op → Table → Op × Except OpErr Table) :
    List Op → List Table → List Op × List (Except OpErr Table)
  | ops, [] => (ops, [])
  | ops, t :: ts =>
    let r := runWith step ops t
    let rs := runManyWith step r.1 ts
    (rs.1, r.2 :: rs.2)

def runMany := runManyWith opImpl

def sourceNames (vs : List Val) : List Str := vs.filterMap fun v => match v with | .str s => some s | _ => none

/-- the columns an operation names as existing -/
def namedCols : Op → List Str
  | .removeRows c _ => [c]
  | .removeColumns cs _ => cs
  | .renameColumns m _ => m.map (·.1)
  | .reorderColumns o _ _ => o
  | .factorColumn c _ _ => [c]
  | .mergeConsecutive c _ m sd _ => c :: m.getD [] ++ (if sd then [onsetName, durationName] else [])
  | .remapColumns s _ _ _ _ => s
  | .splitRows _ evs _ =>
    onsetName :: durationName ::
      evs.flatMap fun e => sourceNames e.2.onsetSrc ++ sourceNames e.2.duration ++ e.2.copy.getD []

/-- "values of the expected kind", per operation:
* merge_consecutive with set_durations: `onset` and `duration` hold numbers (or NaN), no text;
* split_rows: the same for `onset`, `duration` and every column named in an onset_source / duration list, and
  the anchor column is not `onset`;
* remap_columns: the parameters have the shape the validator checks plus distinct column names; every cell of
  an integer source is an integer, a float (truncated), NaN, or text that is a plain integer literal; and, unless
  `ignore_missing`, every row's key is in `map_list` (else the documented ValueError) — the latter two are
  exactly "the operation's own conversions succeed", stated through `remapImpl`'s error;
* the other operations: nothing. -/
def kindOk : Op → Table → Bool
  | .mergeConsecutive _ _ _ sd _, t => !sd || (numericCol (colD t onsetName) && numericCol (colD t durationName))
  | .splitRows a evs _, t =>
    a != onsetName && numericCol (colD t onsetName) && numericCol (colD t durationName)
      && evs.all fun e =>
           (sourceNames e.2.onsetSrc ++ sourceNames e.2.duration).all (fun c => numericCol (colD t c))
           && (e.2.onsetSrc ++ e.2.duration).all (· != Cell.nan)        -- items are texts or numbers (the parser's)
  | .remapColumns s d ml i is, t =>
    remapShapeOk s d ml is &&
    (match mapExcept (fun c => mapExcept (sourceCell ((is.getD []).contains c)) (colD t c)) s with
     | .error _ => false
     | .ok srcCols =>
       i || ((rowsOf srcCols (srcCols.headD []).length).all fun r =>
              ((mapEntries s.length (s.length + d.length) ml).any (fun e => r.map pyStr == e.1))))
  | _, _ => true

/-- every operation, when it is reached, finds the columns it names (unique labels) holding values of the
expected kind -/
def hasColumns : List Op → Table → Bool
  | [], _ => true
  | o :: os, t =>
    decide (header t).Nodup && (namedCols o).all (fun n => (header t).contains n) && kindOk o (prep t) &&
    match (opImpl o (prep t)).2 with
    | .ok t1 => hasColumns os (post t1)
    | .error _ => true

/-! ## Validation (`RemodelerValidator.validate`) over the extracted PARAMS -/

inductive JVal
  | null
  | bool (b : Bool)
  | int (n : Int)
  | flt (twice : Int)
  | str (s : Str)
  | arr (xs : List JVal)
  | obj (kvs : List (Str × JVal))
deriving Repr, Inhabited

mutual
/-- jsonschema's `equal` for `uniqueItems` (`1 == 1.0`, booleans are not numbers, arrays elementwise) -/
def jeq : JVal → JVal → Bool
  | .null, .null => true
  | .bool a, .bool b => a == b
  | .int a, .int b => a == b
  | .int a, .flt h => 2 * a == h
  | .flt h, .int b => h == 2 * b
  | .flt a, .flt b => a == b
  | .str a, .str b => a == b
  | .arr xs, .arr ys => jeqList xs ys
  | .obj xs, .obj ys => jeqObj xs ys
  | _, _ => false
def jeqList : List JVal → List JVal → Bool
  | [], [] => true
  | x :: xs, y :: ys => jeq x y && jeqList xs ys
  | _, _ => false
/-- objects are compared as key-ordered lists (objects never occur under `uniqueItems` in the PARAMS) -/
def jeqObj : List (Str × JVal) → List (Str × JVal) → Bool
  | [], [] => true
  | (k, x) :: xs, (l, y) :: ys => k == l && jeq x y && jeqObj xs ys
  | _, _ => false
end

def uniqueJ : List JVal → Bool
  | [] => true
  | x :: xs => !xs.any (jeq x) && uniqueJ xs

def hasTy0 : Ty0 → JVal → Bool
  | .str, .str _ => true
  | .num, .int _ => true
  | .num, .flt _ => true
  | .bool, .bool _ => true
  | .strOrNum, .str _ => true
  | .strOrNum, .int _ => true
  | .strOrNum, .flt _ => true
  | .arr item mn uq, .arr xs => xs.all (hasTy0 item) && decide (mn ≤ xs.length) && (!uq || uniqueJ xs)
  | _, _ => false

def hasTy : Ty → JVal → Bool
  | .base t, v => hasTy0 t v
  | .dict val mp, .obj kvs => kvs.all (fun kv => hasTy0 val kv.2) && decide (mp ≤ kvs.length)
  | .dictRec fields req mp, .obj kvs =>
    kvs.all (fun kv => match kv.2 with
      | .obj fs => fs.all (fun f => match fields.lookup f.1 with
                                    | some ty => hasTy0 ty f.2
                                    | none => false)
                   && req.all (fun r => (fs.map (·.1)).contains r)
      | _ => false)
    && decide (mp ≤ kvs.length)
  | _, _ => false

inductive ErrKind
  | notObject | missing (key : Str) | unexpected (key : Str) | badValue (key : Str) | unknownOperation
  | dependent (key : Str) | empty | inputData | notModelled
deriving Repr, DecidableEq

structure Err where
  index : Nat
  kind : ErrKind
deriving Repr, DecidableEq

def schemaOf (name : Str) : Option OpSchema := schemas.find? (·.name == name)

/-- the `then` branch of the per-operation `if`: PARAMS applied to `parameters` -/
def checkParams (s : OpSchema) (p : JVal) : List ErrKind :=
  match p with
  | .obj kvs =>
    let keys := kvs.map (·.1)
    (s.required.filter (fun r => !keys.contains r)).map .missing
    ++ (keys.filter (fun k => !(s.props.map (·.1)).contains k)).map .unexpected
    ++ kvs.filterMap (fun kv => match s.props.lookup kv.1 with
        | some ty => if hasTy ty kv.2 then none else some (.badValue kv.1)
        | none => none)
    ++ s.depReq.flatMap (fun d => if keys.contains d.1 then (d.2.filter (fun r => !keys.contains r)).map .dependent else [])
  | _ => [.badValue "parameters".toList]

def opKeys : List Str := ["operation".toList, "description".toList, "parameters".toList]

/-- OPERATION_DICT plus the `allOf` of `if operation = name then parameters : PARAMS` -/
def checkOp (j : JVal) : List ErrKind :=
  match j with
  | .obj kvs =>
    let keys := kvs.map (·.1)
    (opKeys.filter (fun r => !keys.contains r)).map .missing
    ++ (keys.filter (fun k => !opKeys.contains k)).map .unexpected
    ++ (match kvs.lookup "description".toList with
        | some (.str _) => [] | none => [] | some _ => [.badValue "description".toList])
    ++ (match kvs.lookup "parameters".toList with
        | some (.obj _) => [] | none => [] | some _ => [.badValue "parameters".toList])
    ++ (match kvs.lookup "operation".toList with
        | none => []
        | some (.str name) =>
          if !validOps.contains name then [.unknownOperation] else
          match schemaOf name, kvs.lookup "parameters".toList with
          | some s, some p => checkParams s p
          | none, _ => [.notModelled]          -- a summary / HED operation: outside property C17
          | _, none => []
        | some _ => [.badValue "operation".toList])
  | _ => [.notObject]

/-- errors of the items of a list, labelled with the item's index (counted from `i`) -/
def errsFrom {α} (f : α → List ErrKind) : Nat → List α → List Err
  | _, [] => []
  | i, x :: xs => (f x).map (Err.mk i) ++ errsFrom f (i + 1) xs

/-- the JSON-schema pass (BASE_ARRAY: at least one operation) -/
def schemaErrors (raws : List JVal) : List Err :=
  if raws.isEmpty then [⟨0, .empty⟩] else errsFrom checkOp 0 raws

/-! ### parse_operations (`__init__` of each operation) -/

def JVal.asStr : JVal → Option Str | .str s => some s | _ => none
def JVal.asBool : JVal → Option Bool | .bool b => some b | _ => none
def JVal.asVal : JVal → Option Val
  | .str s => some (.str s) | .int n => some (.int n) | .flt h => some (.flt h) | _ => none
def JVal.asStrList : JVal → Option (List Str) | .arr xs => xs.mapM JVal.asStr | _ => none
def JVal.asValList : JVal → Option (List Val) | .arr xs => xs.mapM JVal.asVal | _ => none
def JVal.asStrDict : JVal → Option (List (Str × Str))
  | .obj kvs => kvs.mapM (fun kv => kv.2.asStr.map (fun s => (kv.1, s))) | _ => none

/-- `parameters.get(key, default)` for an optional list parameter -/
def optStrList (kvs : List (Str × JVal)) (key : Str) : Option (Option (List Str)) :=
  match kvs.lookup key with
  | none => some none
  | some v => v.asStrList.map some

def parseEvent (kv : Str × JVal) : Option (Str × SplitEvent) :=
  match kv.2 with
  | .obj fs => do
    let os ← (← fs.lookup "onset_source".toList).asValList
    let ds ← (← fs.lookup "duration".toList).asValList
    let cp ← optStrList fs "copy_columns".toList
    pure (kv.1, { onsetSrc := os, duration := ds, copy := cp })
  | _ => none

/-- the operation object built from one entry of the list; `none` for what the validator rejects or for an
operation outside the eight of this property -/
def parseOp (j : JVal) : Option Op :=
  match j with
  | .obj okvs =>
    match okvs.lookup "operation".toList, okvs.lookup "parameters".toList with
    | some (.str name), some (.obj kvs) =>
      let get := fun (k : String) => kvs.lookup k.toList
      if name = "remove_rows".toList then do
        let c ← (← get "column_name").asStr
        let vs ← (← get "remove_values").asValList
        pure (.removeRows c vs)
      else if name = "remove_columns".toList then do
        let cs ← (← get "column_names").asStrList
        let i ← (← get "ignore_missing").asBool
        pure (.removeColumns cs i)
      else if name = "rename_columns".toList then do
        let m ← (← get "column_mapping").asStrDict
        let i ← (← get "ignore_missing").asBool
        pure (.renameColumns m i)
      else if name = "reorder_columns".toList then do
        let o ← (← get "column_order").asStrList
        let i ← (← get "ignore_missing").asBool
        let k ← (← get "keep_others").asBool
        pure (.reorderColumns o i k)
      else if name = "factor_column".toList then do
        let c ← (← get "column_name").asStr
        let vs ← optStrList kvs "factor_values".toList
        let ns ← optStrList kvs "factor_names".toList
        pure (.factorColumn c vs ns)
      else if name = "merge_consecutive".toList then do
        let c ← (← get "column_name").asStr
        let code ← (← get "event_code").asVal
        let sd ← (← get "set_durations").asBool
        let i ← (← get "ignore_missing").asBool
        let m ← optStrList kvs "match_columns".toList
        pure (.mergeConsecutive c code m sd i)
      else if name = "remap_columns".toList then do
        let s ← (← get "source_columns").asStrList
        let d ← (← get "destination_columns").asStrList
        let ml ← match (← get "map_list") with
          | .arr rows => rows.mapM JVal.asValList
          | _ => none
        let i ← (← get "ignore_missing").asBool
        let is ← optStrList kvs "integer_sources".toList
        pure (.remapColumns s d ml i is)
      else if name = "split_rows".toList then do
        let a ← (← get "anchor_column").asStr
        let evs ← match (← get "new_events") with
          | .obj es => es.mapM parseEvent
          | _ => none
        let rp ← (← get "remove_parent_row").asBool
        pure (.splitRows a evs rp)
      else none
    | _, _ => none
  | _ => none

/-! ### validate_input_data -/

/-- FactorColumnOp.validate_input_data -/
def factorInputErrs (values names : Option (List Str)) : List ErrKind :=
  let ns := names.getD []; let vs := values.getD []
  if !ns.isEmpty && vs.isEmpty then [.inputData]
  else if !ns.isEmpty && !vs.isEmpty && ns.length != vs.length then [.inputData]
  else []

/-- MergeConsecutiveOp.validate_input_data -/
def mergeInputErrs (col : Str) (matchCols : Option (List Str)) : List ErrKind :=
  let m := matchCols.getD []
  if !m.isEmpty && m.contains col then [.inputData] else []

/-- RemapColumnsOp.validate_input_data (with the disjointness check of the repair) -/
def remapInputErrs (src dst : List Str) (mapList : List (List Val)) (intSrc : Option (List Str)) : List ErrKind :=
  if mapList.any (fun r => r.length != src.length + dst.length) then [.inputData]
  else if src.any (fun c => dst.contains c) then [.inputData]
  else if (intSrc.getD []).any (fun i => !src.contains i) then [.inputData]
  else []

def inputDataErrs : Op → List ErrKind
  | .factorColumn _ vs ns => factorInputErrs vs ns
  | .mergeConsecutive c _ m _ _ => mergeInputErrs c m
  | .remapColumns s d ml _ is => remapInputErrs s d ml is
  | _ => []

/-- the operations of a raw list (`Dispatcher.parse_operations`) -/
def parseOps (raws : List JVal) : Option (List Op) := raws.mapM parseOp

/-- `RemodelerValidator.validate`: schema errors first (then stop), else every operation's
`validate_input_data`.  Only emptiness is compared with the implementation. -/
def validateParams (raws : List JVal) : List Err :=
  let e := schemaErrors raws
  if !e.isEmpty then e else
  match parseOps raws with
  | none => [⟨0, .notModelled⟩]
  | some ops => errsFrom inputDataErrs 0 ops

/-! ### the command-line entry point (`run_remodel.parse_arguments` + `main`) -/

inductive Outcome
  | rejected (errs : List Err)                                  -- ValueError raised before any Dispatcher exists
  | ran (ops : List Op) (results : List (Except OpErr Table))   -- operations afterwards, one result per table
  | notModelled
deriving Repr

def remodel (raws : List JVal) (tables : List Table) : Outcome :=
  let errs := validateParams raws
  if !errs.isEmpty then .rejected errs else
  match parseOps raws with
  | none => .notModelled
  | some ops => let r := runMany ops tables; .ran r.1 r.2

end HedVerif.Remodel
