/-
Model of the remodeling pipeline (property C17):
  hed/tools/remodeling/dispatcher.py          Dispatcher.run_operations / prep_data / post_proc_data / parse_operations
  hed/tools/remodeling/remodeler_validator.py RemodelerValidator.validate
  hed/tools/remodeling/operations/*_op.py     __init__ / do_op / validate_input_data of
        remove_rows, remove_columns, rename_columns, reorder_columns, factor_column, merge_consecutive
  hed/tools/remodeling/cli/run_remodel.py     parse_arguments (validate, refuse) then one Dispatcher per task

The model is of the code WITH the repairs fixes/C17_*.diff (reorder_columns copies its list; factor_column and
merge_consecutive default their optional parameters to []).  The unrepaired `reorder_columns.do_op` is kept as
`reorderImplOld` for the regression counter-examples in Props/C17.lean.

pandas conventions (DESIGN.md section 3): a table is a list of named columns; a cell is what pandas holds after
`read_csv(..., keep_default_na=False)`: a `str`, an `int64`, a `float64` (carried as its Python `repr`), or NaN.
Only the pandas operations the anchored code uses are modelled; pandas semantics for duplicate column labels
are NOT modelled (`OpErr.unmodelled`, see `runWith`).  No Mathlib: this file is linked into the native driver.
-/
import HedVerif.Generated.C17Params
namespace HedVerif.Remodel

/-! ## Tables -/

inductive Cell
  | str (s : Str)
  | int (n : Int)
  | flt (repr : Str)      -- a float64, as Python prints it ("1.0", "0.5")
  | nan
deriving Repr, DecidableEq, Inhabited

/-- a JSON scalar of the parameters (string or number); never `nan` -/
abbrev Val := Cell
abbrev Column := List Cell
abbrev Table := List (Str × Column)

def header (t : Table) : List Str := t.map (·.1)

inductive PyExc | KeyError | ValueError | TypeError | IndexError
deriving Repr, DecidableEq

inductive OpErr
  | raised (e : PyExc)
  | unmodelled            -- the table has duplicate column labels: outside the modelled pandas fragment
deriving Repr, DecidableEq

def intRepr (n : Int) : Str := (toString n).toList

/-- `str(x)` of a pandas cell (`Series.map(str)`, `str(column_value)`) -/
def pyStr : Cell → Str
  | .str s => s
  | .int n => intRepr n
  | .flt r => r
  | .nan => "nan".toList

/-- elementwise `series == value` for a JSON scalar `value` (str dtype against a number and numeric dtype
against a string are all-False; NaN equals nothing; `1 == 1.0`) -/
def cellEq : Cell → Val → Bool
  | .str a, .str b => a == b
  | .int a, .int b => a == b
  | .int a, .flt r => intRepr a ++ ".0".toList == r
  | .flt r, .int b => r == intRepr b ++ ".0".toList
  | .flt a, .flt b => a == b
  | _, _ => false

def naStr : Str := "n/a".toList

/-- `Dispatcher.prep_data`: `df.replace('n/a', np.nan)` -/
def prepCell : Cell → Cell
  | .str s => if s = naStr then .nan else .str s
  | c => c

/-- `Dispatcher.post_proc_data`: `df.fillna('n/a')` -/
def postCell : Cell → Cell
  | .nan => .str naStr
  | c => c

def mapCells (f : Cell → Cell) (t : Table) : Table := t.map fun p => (p.1, p.2.map f)
def prep (t : Table) : Table := mapCells prepCell t
def post (t : Table) : Table := mapCells postCell t

/-- boolean row mask applied to one column (`df.loc[mask, :]` + `reset_index(drop=True)`) -/
def applyMask {α} : List Bool → List α → List α
  | true :: m, x :: xs => x :: applyMask m xs
  | false :: m, _ :: xs => applyMask m xs
  | _, _ => []

def filterRows (mask : List Bool) (t : Table) : Table := t.map fun p => (p.1, applyMask mask p.2)

/-- `df[name] = column`: replace in place if the label exists, else append -/
def setCol (t : Table) (name : Str) (c : Column) : Table :=
  if name ∈ header t then t.map (fun p => if p.1 = name then (p.1, c) else p) else t ++ [(name, c)]

/-- `df.loc[:, names]` -/
def selectCols : List Str → Table → Except OpErr Table
  | [], _ => .ok []
  | n :: ns, t =>
    match t.lookup n, selectCols ns t with
    | some c, .ok r => .ok ((n, c) :: r)
    | none, _ => .error (.raised .KeyError)
    | _, .error e => .error e

/-! ## Operations: parameters are the state

An operation object keeps *references* to the values of its parameter dictionary (`self.column_order =
parameters['column_order']`), so the parameter dictionary is the operation's mutable state: `opImpl` returns the
parameters after the call next to the result. -/

inductive Op
  | removeRows (col : Str) (vals : List Val)
  | removeColumns (cols : List Str) (ignoreMissing : Bool)
  | renameColumns (mapping : List (Str × Str)) (ignoreMissing : Bool)
  | reorderColumns (order : List Str) (ignoreMissing keepOthers : Bool)
  | factorColumn (col : Str) (values names : Option (List Str))
  /-- `set_durations = false` only (the duration arithmetic is not modelled) -/
  | mergeConsecutive (col : Str) (code : Val) (matchCols : Option (List Str)) (ignoreMissing : Bool)
deriving Repr, DecidableEq

/-! ### remove_rows -/

/-- one pass of `for value in self.remove_values: df_new = df_new.loc[df_new[col] != value, :]` -/
def removeRowsStep (col : Str) (t : Table) (v : Val) : Table :=
  match t.lookup col with
  | some c => filterRows (c.map fun x => !cellEq x v) t
  | none => t

def removeRowsImpl (col : Str) (vals : List Val) (t : Table) : Except OpErr Table :=
  if col ∈ header t then .ok (vals.foldl (removeRowsStep col) t) else .ok t

/-- documented meaning: keep exactly the rows whose cell in `col` differs from every listed value, in order;
a table without the column is returned as it is -/
def removeRowsSpec (col : Str) (vals : List Val) (t : Table) : Except OpErr Table :=
  match t.lookup col with
  | none => .ok t
  | some c => .ok (filterRows (c.map fun x => vals.all fun v => !cellEq x v) t)

/-! ### remove_columns: `df.drop(names, axis=1, errors='ignore'|'raise')` -/

def removeColumnsImpl (cols : List Str) (ign : Bool) (t : Table) : Except OpErr Table :=
  if !ign && cols.any (fun n => !(header t).contains n) then .error (.raised .KeyError)
  else .ok (t.filter fun p => !cols.contains p.1)

def removeColumnsSpec := removeColumnsImpl

/-! ### rename_columns: `df.rename(columns=mapping, errors=...)` (simultaneous renaming) -/

def renameColumnsImpl (mapping : List (Str × Str)) (ign : Bool) (t : Table) : Except OpErr Table :=
  if !ign && mapping.any (fun kv => !(header t).contains kv.1) then .error (.raised .KeyError)
  else .ok (t.map fun p => ((mapping.lookup p.1).getD p.1, p.2))

def renameColumnsSpec := renameColumnsImpl

/-! ### reorder_columns -/

/-- `do_op` with the repair (`ordered = list(self.column_order)`); returns `self.column_order` after the call -/
def reorderImpl (order : List Str) (ign keep : Bool) (t : Table) : List Str × Except OpErr Table :=
  let current := header t
  let missing := order.filter fun e => !current.contains e
  if !missing.isEmpty && !ign then (order, .error (.raised .ValueError)) else
  let ordered := if !missing.isEmpty then order.filter (fun e => !missing.contains e) else order
  let ordered' := if keep then ordered ++ current.filter (fun e => !ordered.contains e) else ordered
  (order, selectCols ordered' t)

/-- the unrepaired `do_op`: `ordered = self.column_order` aliases the parameter list, `ordered += …` extends it
in place when no column is missing (when one is, `ordered` is rebound to a fresh list first) -/
def reorderImplOld (order : List Str) (ign keep : Bool) (t : Table) : List Str × Except OpErr Table :=
  let current := header t
  let missing := order.filter fun e => !current.contains e
  if !missing.isEmpty && !ign then (order, .error (.raised .ValueError)) else
  if !missing.isEmpty then
    let ordered := order.filter (fun e => !missing.contains e)
    let ordered' := if keep then ordered ++ current.filter (fun e => !ordered.contains e) else ordered
    (order, selectCols ordered' t)
  else
    let ordered' := if keep then order ++ current.filter (fun e => !order.contains e) else order
    (ordered', selectCols ordered' t)

/-- documented meaning: the listed columns that exist, in the listed order, then (iff `keep_others`) the other
columns in file order; an absent listed column is an error unless `ignore_missing` -/
def reorderSpec (order : List Str) (ign keep : Bool) (t : Table) : Except OpErr Table :=
  if !ign && order.any (fun e => !(header t).contains e) then .error (.raised .ValueError) else
  let listed := order.filter fun e => (header t).contains e
  let others := if keep then (header t).filter (fun e => !order.contains e) else []
  selectCols (listed ++ others) t

/-! ### factor_column -/

/-- `isin([str(v)]).astype(int)` on `column.map(str)` -/
def factorCol (c : Column) (v : Str) : Column := c.map fun x => if pyStr x = v then .int 1 else .int 0

/-- `for index, factor_value in enumerate(factor_values)`: reads `df_new[col]` (KeyError), `factor_names[index]`
(IndexError), assigns `df_new[name]` -/
def factorLoop (col : Str) : List Str → List Str → Table → Except OpErr Table
  | [], _, t => .ok t
  | v :: vs, ns, t =>
    match t.lookup col with
    | none => .error (.raised .KeyError)
    | some c =>
      match ns with
      | [] => .error (.raised .IndexError)
      | n :: ns' => factorLoop col vs ns' (setCol t n (factorCol c v))

def factorValues (vals : List Str) (c0 : Column) : List Str :=
  if vals.isEmpty then (c0.eraseDups).map pyStr else vals     -- `df[col].unique()`, first occurrences

def factorNames (col : Str) (nms fv : List Str) : List Str :=
  if nms.isEmpty then fv.map (fun v => col ++ '.' :: v) else nms

def factorImpl (col : Str) (values names : Option (List Str)) (t : Table) : Except OpErr Table :=
  match t.lookup col with
  | none => .error (.raised .KeyError)
  | some c0 =>
    let fv := factorValues (values.getD []) c0
    factorLoop col fv (factorNames col (names.getD []) fv) t

/-- documented meaning: one 0/1 column per factor value (the given values, else the column's unique values),
named by the given names, else `col.value`; every factor is computed from the ORIGINAL column -/
def factorSpec (col : Str) (values names : Option (List Str)) (t : Table) : Except OpErr Table :=
  match t.lookup col with
  | none => .error (.raised .KeyError)
  | some c0 =>
    let fv := factorValues (values.getD []) c0
    let fn := factorNames col (names.getD []) fv
    if fn.length < fv.length then .error (.raised .IndexError)
    else .ok ((fv.zip fn).foldl (fun t' vn => setCol t' vn.2 (factorCol c0 vn.1)) t)

/-! ### merge_consecutive (`set_durations = false`) -/

abbrev Row := List (Option Cell)

structure GSt where
  inGroup : Bool := false
  count : Nat := 0
  prev : Option Row := none
  out : List Nat := []          -- reversed
deriving Repr

/-- one iteration of `_get_remove_groups` (`row.equals(match_df.loc[index - 1, :])`: NaN equals NaN) -/
def groupStep (st : GSt) (mr : Bool × Row) : GSt :=
  if !mr.1 then { st with inGroup := false, prev := some mr.2, out := 0 :: st.out }
  else if !st.inGroup then { inGroup := true, count := st.count + 1, prev := some mr.2, out := 0 :: st.out }
  else if st.prev = some mr.2 then { st with prev := some mr.2, out := st.count :: st.out }
  else { st with count := st.count + 1, prev := some mr.2, out := 0 :: st.out }

def removeGroups (mrs : List (Bool × Row)) : List Nat := (mrs.foldl groupStep {}).out.reverse

/-- declarative keep-mask: a row is dropped iff it and its predecessor both carry the event code and agree on
the compared columns -/
def mergeKeep : Option (Bool × Row) → List (Bool × Row) → List Bool
  | _, [] => []
  | prev, mr :: rest =>
    (!(mr.1 && (match prev with | some p => p.1 && p.2 = mr.2 | none => false))) :: mergeKeep (some mr) rest

def matchRows (t : Table) (names : List Str) (n : Nat) : List Row :=
  let cols := names.filterMap (t.lookup ·)
  (List.range n).map fun i => cols.map (·[i]?)

def mergeCore (keepMask : List (Bool × Row) → List Bool)
    (col : Str) (code : Val) (matchCols : Option (List Str)) (ign : Bool) (t : Table) : Except OpErr Table :=
  let mcs := matchCols.getD []
  if !ign && !(header t).contains col then .error (.raised .ValueError) else
  let missing := mcs.filter fun e => !(header t).contains e
  if !mcs.isEmpty && !ign && !missing.isEmpty then .error (.raised .ValueError) else
  let mc := (mcs.filter fun e => (header t).contains e).eraseDups  -- list(set(match) ∩ set(columns))
  match t.lookup col with
  | none => .error (.raised .KeyError)
  | some c =>
    let mask := c.map (cellEq · code)
    if !mask.any id then .ok t else
    .ok (filterRows (keepMask (mask.zip (matchRows t (mc ++ [col]) c.length))) t)

def mergeImpl := mergeCore (fun mrs => (removeGroups mrs).map (· == 0))
/-- documented meaning: of consecutive rows that carry `event_code` in `col` and agree on the match columns
only the first is kept -/
def mergeSpec := mergeCore (mergeKeep none)

/-! ### dispatch -/

def opSpec : Op → Table → Except OpErr Table
  | .removeRows c vs, t => removeRowsSpec c vs t
  | .removeColumns cs i, t => removeColumnsSpec cs i t
  | .renameColumns m i, t => renameColumnsSpec m i t
  | .reorderColumns o i k, t => reorderSpec o i k t
  | .factorColumn c vs ns, t => factorSpec c vs ns t
  | .mergeConsecutive c code m i, t => mergeSpec c code m i t

/-- `operation.do_op(dispatcher, df, name)`: the operation (its parameters) after the call, and the result -/
def opImpl : Op → Table → Op × Except OpErr Table
  | .removeRows c vs, t => (.removeRows c vs, removeRowsImpl c vs t)
  | .removeColumns cs i, t => (.removeColumns cs i, removeColumnsImpl cs i t)
  | .renameColumns m i, t => (.renameColumns m i, renameColumnsImpl m i t)
  | .reorderColumns o i k, t => let r := reorderImpl o i k t; (.reorderColumns r.1 i k, r.2)
  | .factorColumn c vs ns, t => (.factorColumn c vs ns, factorImpl c vs ns t)
  | .mergeConsecutive c code m i, t => (.mergeConsecutive c code m i, mergeImpl c code m i t)

/-- the unrepaired code (reorder_columns aliasing) -/
def opImplOld : Op → Table → Op × Except OpErr Table
  | .reorderColumns o i k, t => let r := reorderImplOld o i k t; (.reorderColumns r.1 i k, r.2)
  | o, t => opImpl o t

/-- `Dispatcher.run_operations` on one table: for every operation `prep_data`, `do_op`, `post_proc_data`.
Returns the operations (parameters) afterwards and the result or the escaping exception. -/
def runWith (step : Op → Table → Op × Except OpErr Table) : List Op → Table → List Op × Except OpErr Table
  | [], t => ([], .ok t)
  | o :: os, t =>
    if ¬ (header t).Nodup then (o :: os, .error .unmodelled) else
    match step o (prep t) with
    | (o', .error e) => (o' :: os, .error e)
    | (o', .ok t1) => let r := runWith step os (post t1); (o' :: r.1, r.2)

def runSt := runWith opImpl

/-- `run` in the signature of the design: result table and the operations afterwards -/
def run (ops : List Op) (t : Table) : Except OpErr (Table × List Op) :=
  match runSt ops t with
  | (ops', .ok t') => .ok (t', ops')
  | (_, .error e) => .error e

/-- several tables through ONE dispatcher, in the given order -/
def runManyWith (step : Op → Table → Op × Except OpErr Table) :
    List Op → List Table → List Op × List (Except OpErr Table)
  | ops, [] => (ops, [])
  | ops, t :: ts =>
    let r := runWith step ops t
    let rs := runManyWith step r.1 ts
    (rs.1, r.2 :: rs.2)

def runMany := runManyWith opImpl

/-- the columns an operation names -/
def namedCols : Op → List Str
  | .removeRows c _ => [c]
  | .removeColumns cs _ => cs
  | .renameColumns m _ => m.map (·.1)
  | .reorderColumns o _ _ => o
  | .factorColumn c _ _ => [c]
  | .mergeConsecutive c _ m _ => c :: m.getD []

/-- every operation, when it is reached, finds the columns it names (and unique labels) -/
def hasColumns : List Op → Table → Bool
  | [], _ => true
  | o :: os, t =>
    decide (header t).Nodup && (namedCols o).all (fun n => (header t).contains n) &&
    match (opImpl o (prep t)).2 with
    | .ok t1 => hasColumns os (post t1)
    | .error _ => true

/-! ## Validation (`RemodelerValidator.validate`) over the extracted PARAMS -/

inductive JVal
  | null
  | bool (b : Bool)
  | int (n : Int)
  | flt (repr : Str)
  | str (s : Str)
  | arr (xs : List JVal)
  | obj (kvs : List (Str × JVal))
deriving Repr, Inhabited

mutual
/-- jsonschema's `equal` for `uniqueItems` (`1 == 1.0`, booleans are not numbers, arrays elementwise) -/
def jeq : JVal → JVal → Bool
  | .null, .null => true
  | .bool a, .bool b => a == b
  | .int a, .int b => a == b
  | .int a, .flt r => intRepr a ++ ".0".toList == r
  | .flt r, .int b => r == intRepr b ++ ".0".toList
  | .flt a, .flt b => a == b
  | .str a, .str b => a == b
  | .arr xs, .arr ys => jeqList xs ys
  | .obj xs, .obj ys => jeqObj xs ys
  | _, _ => false
def jeqList : List JVal → List JVal → Bool
  | [], [] => true
  | x :: xs, y :: ys => jeq x y && jeqList xs ys
  | _, _ => false
/-- objects are compared as key-ordered lists (objects never occur under `uniqueItems` in the PARAMS) -/
def jeqObj : List (Str × JVal) → List (Str × JVal) → Bool
  | [], [] => true
  | (k, x) :: xs, (l, y) :: ys => k == l && jeq x y && jeqObj xs ys
  | _, _ => false
end

def uniqueJ : List JVal → Bool
  | [] => true
  | x :: xs => !xs.any (jeq x) && uniqueJ xs

def hasTy0 : Ty0 → JVal → Bool
  | .str, .str _ => true
  | .num, .int _ => true
  | .num, .flt _ => true
  | .bool, .bool _ => true
  | .strOrNum, .str _ => true
  | .strOrNum, .int _ => true
  | .strOrNum, .flt _ => true
  | .arr item mn uq, .arr xs => xs.all (hasTy0 item) && decide (mn ≤ xs.length) && (!uq || uniqueJ xs)
  | _, _ => false

def hasTy : Ty → JVal → Bool
  | .base t, v => hasTy0 t v
  | .dict val mp, .obj kvs => kvs.all (fun kv => hasTy0 val kv.2) && decide (mp ≤ kvs.length)
  | .dictRec fields req mp, .obj kvs =>
    kvs.all (fun kv => match kv.2 with
      | .obj fs => fs.all (fun f => match fields.lookup f.1 with
                                    | some ty => hasTy0 ty f.2
                                    | none => false)
                   && req.all (fun r => (fs.map (·.1)).contains r)
      | _ => false)
    && decide (mp ≤ kvs.length)
  | _, _ => false

inductive ErrKind
  | notObject | missing (key : Str) | unexpected (key : Str) | badValue (key : Str) | unknownOperation
  | dependent (key : Str) | empty | inputData | notModelled
deriving Repr, DecidableEq

structure Err where
  index : Nat
  kind : ErrKind
deriving Repr, DecidableEq

def schemaOf (name : Str) : Option OpSchema := schemas.find? (·.name == name)

/-- the `then` branch of the per-operation `if`: PARAMS applied to `parameters` -/
def checkParams (s : OpSchema) (p : JVal) : List ErrKind :=
  match p with
  | .obj kvs =>
    let keys := kvs.map (·.1)
    (s.required.filter (fun r => !keys.contains r)).map .missing
    ++ (keys.filter (fun k => !(s.props.map (·.1)).contains k)).map .unexpected
    ++ kvs.filterMap (fun kv => match s.props.lookup kv.1 with
        | some ty => if hasTy ty kv.2 then none else some (.badValue kv.1)
        | none => none)
    ++ s.depReq.flatMap (fun d => if keys.contains d.1 then (d.2.filter (fun r => !keys.contains r)).map .dependent else [])
  | _ => [.badValue "parameters".toList]

def opKeys : List Str := ["operation".toList, "description".toList, "parameters".toList]

/-- OPERATION_DICT plus the `allOf` of `if operation = name then parameters : PARAMS` -/
def checkOp (j : JVal) : List ErrKind :=
  match j with
  | .obj kvs =>
    let keys := kvs.map (·.1)
    (opKeys.filter (fun r => !keys.contains r)).map .missing
    ++ (keys.filter (fun k => !opKeys.contains k)).map .unexpected
    ++ (match kvs.lookup "description".toList with
        | some (.str _) => [] | none => [] | some _ => [.badValue "description".toList])
    ++ (match kvs.lookup "parameters".toList with
        | some (.obj _) => [] | none => [] | some _ => [.badValue "parameters".toList])
    ++ (match kvs.lookup "operation".toList with
        | none => []
        | some (.str name) =>
          if !validOps.contains name then [.unknownOperation] else
          match schemaOf name, kvs.lookup "parameters".toList with
          | some s, some p => checkParams s p
          | none, _ => [.notModelled]          -- a summary / HED operation: outside property C17
          | _, none => []
        | some _ => [.badValue "operation".toList])
  | _ => [.notObject]

/-- errors of the items of a list, labelled with the item's index (counted from `i`) -/
def errsFrom {α} (f : α → List ErrKind) : Nat → List α → List Err
  | _, [] => []
  | i, x :: xs => (f x).map (Err.mk i) ++ errsFrom f (i + 1) xs

/-- the JSON-schema pass (BASE_ARRAY: at least one operation) -/
def schemaErrors (raws : List JVal) : List Err :=
  if raws.isEmpty then [⟨0, .empty⟩] else errsFrom checkOp 0 raws

/-! ### parse_operations (`__init__` of each operation) -/

def JVal.asStr : JVal → Option Str | .str s => some s | _ => none
def JVal.asBool : JVal → Option Bool | .bool b => some b | _ => none
def JVal.asVal : JVal → Option Val
  | .str s => some (.str s) | .int n => some (.int n) | .flt r => some (.flt r) | _ => none
def JVal.asStrList : JVal → Option (List Str) | .arr xs => xs.mapM JVal.asStr | _ => none
def JVal.asValList : JVal → Option (List Val) | .arr xs => xs.mapM JVal.asVal | _ => none
def JVal.asStrDict : JVal → Option (List (Str × Str))
  | .obj kvs => kvs.mapM (fun kv => kv.2.asStr.map (fun s => (kv.1, s))) | _ => none

/-- `parameters.get(key, default)` for an optional list parameter -/
def optStrList (kvs : List (Str × JVal)) (key : Str) : Option (Option (List Str)) :=
  match kvs.lookup key with
  | none => some none
  | some v => v.asStrList.map some

/-- a parsed operation: modelled (`Op`), or one whose transformation is not modelled (remap_columns, split_rows,
merge_consecutive with `set_durations`) and is only checked by the direct oracle -/
inductive POp
  | modelled (op : Op)
  | other (name : Str) (params : List (Str × JVal))
deriving Repr

def parseOp (j : JVal) : Option POp :=
  match j with
  | .obj okvs =>
    match okvs.lookup "operation".toList, okvs.lookup "parameters".toList with
    | some (.str name), some (.obj kvs) =>
      let get := fun (k : String) => kvs.lookup k.toList
      if name = "remove_rows".toList then do
        let c ← (← get "column_name").asStr
        let vs ← (← get "remove_values").asValList
        pure (.modelled (.removeRows c vs))
      else if name = "remove_columns".toList then do
        let cs ← (← get "column_names").asStrList
        let i ← (← get "ignore_missing").asBool
        pure (.modelled (.removeColumns cs i))
      else if name = "rename_columns".toList then do
        let m ← (← get "column_mapping").asStrDict
        let i ← (← get "ignore_missing").asBool
        pure (.modelled (.renameColumns m i))
      else if name = "reorder_columns".toList then do
        let o ← (← get "column_order").asStrList
        let i ← (← get "ignore_missing").asBool
        let k ← (← get "keep_others").asBool
        pure (.modelled (.reorderColumns o i k))
      else if name = "factor_column".toList then do
        let c ← (← get "column_name").asStr
        let vs ← optStrList kvs "factor_values".toList
        let ns ← optStrList kvs "factor_names".toList
        pure (.modelled (.factorColumn c vs ns))
      else if name = "merge_consecutive".toList then do
        let c ← (← get "column_name").asStr
        let code ← (← get "event_code").asVal
        let sd ← (← get "set_durations").asBool
        let i ← (← get "ignore_missing").asBool
        let m ← optStrList kvs "match_columns".toList
        if sd then pure (.other name kvs) else pure (.modelled (.mergeConsecutive c code m i))
      else if name = "remap_columns".toList ∨ name = "split_rows".toList then some (.other name kvs)
      else none
    | _, _ => none
  | _ => none

/-! ### validate_input_data -/

/-- FactorColumnOp.validate_input_data -/
def factorInputErrs (values names : Option (List Str)) : List ErrKind :=
  let ns := names.getD []; let vs := values.getD []
  if !ns.isEmpty && vs.isEmpty then [.inputData]
  else if !ns.isEmpty && !vs.isEmpty && ns.length != vs.length then [.inputData]
  else []

/-- MergeConsecutiveOp.validate_input_data -/
def mergeInputErrs (col : Str) (matchCols : Option (List Str)) : List ErrKind :=
  let m := matchCols.getD []
  if !m.isEmpty && m.contains col then [.inputData] else []

def arrLen : JVal → Nat | .arr xs => xs.length | _ => 0

/-- RemapColumnsOp.validate_input_data -/
def remapInputErrs (kvs : List (Str × JVal)) : List ErrKind :=
  let src := ((kvs.lookup "source_columns".toList).bind JVal.asStrList).getD []
  let dst := ((kvs.lookup "destination_columns".toList).bind JVal.asStrList).getD []
  let ints := ((kvs.lookup "integer_sources".toList).bind JVal.asStrList).getD []
  let rows := match kvs.lookup "map_list".toList with | some (.arr xs) => xs | _ => []
  if rows.any (fun r => arrLen r != src.length + dst.length) then [.inputData]
  else if src.any (fun c => dst.contains c) then [.inputData]     -- fixes/C17_remap_disjoint_validation.diff
  else if ints.any (fun i => !src.contains i) then [.inputData]
  else []

def inputDataErrs : POp → List ErrKind
  | .modelled (.factorColumn _ vs ns) => factorInputErrs vs ns
  | .modelled (.mergeConsecutive c _ m _) => mergeInputErrs c m
  | .modelled _ => []
  | .other name kvs =>
    if name = "remap_columns".toList then remapInputErrs kvs
    else if name = "merge_consecutive".toList then
      mergeInputErrs (((kvs.lookup "column_name".toList).bind JVal.asStr).getD [])
        ((kvs.lookup "match_columns".toList).bind JVal.asStrList)
    else []

/-- `RemodelerValidator.validate`: schema errors first (then stop), else every operation's
`validate_input_data`.  Only emptiness is compared with the implementation. -/
def validateParams (raws : List JVal) : List Err :=
  let e := schemaErrors raws
  if !e.isEmpty then e else
  match raws.mapM parseOp with
  | none => [⟨0, .notModelled⟩]
  | some pops => errsFrom inputDataErrs 0 pops

def toOps : List POp → Option (List Op)
  | [] => some []
  | .modelled o :: ps => (toOps ps).map (o :: ·)
  | .other _ _ :: _ => none

/-- the modelled operations of a raw list, if all of it is modelled -/
def parseOps (raws : List JVal) : Option (List Op) := (raws.mapM parseOp).bind toOps

/-! ### the command-line entry point (`run_remodel.parse_arguments` + `main`) -/

inductive Outcome
  | rejected (errs : List Err)                                  -- ValueError raised before any Dispatcher exists
  | ran (ops : List Op) (results : List (Except OpErr Table))   -- operations afterwards, one result per table
  | notModelled
deriving Repr

def remodel (raws : List JVal) (tables : List Table) : Outcome :=
  let errs := validateParams raws
  if !errs.isEmpty then .rejected errs else
  match parseOps raws with
  | none => .notModelled
  | some ops => let r := runMany ops tables; .ran r.1 r.2

end HedVerif.Remodel
