/-
Model of bulk conversion of tag forms:
  `HedTag.short_tag / long_tag`                      (hed/models/hed_tag.py)
  `HedString.__init__`, `HedGroup.get_as_form/get_as_short/get_as_long`
                                                     (hed/models/hed_string.py, hed_group.py)
  `df_util._convert_to_form`, `df_util.convert_to_form`   (hed/models/df_util.py)

A cell text is parsed by `Tree.construct` (`HedString.__init__`: a `ValueError` of
`split_into_groups` — unbalanced parentheses — becomes an empty child list, so the converted text is
empty) and printed by `Tree.printList` (`get_as_form`: children joined by ",", groups in "(" ")").
The text of a tag is its source slice (`org_tag`, blanks around it already removed by the tokenizer);
`HedTag.__init__` looks it up with the schema's namespace.

No Mathlib import: linked into the native driver.
-/
import HedVerif.Model.Schema

namespace HedVerif.Schema

/-- the `tag_form` argument: `"short_tag"` or `"long_tag"` -/
inductive Form where
  | short
  | long
deriving Repr, DecidableEq, Inhabited

/-- `HedTag(org, schema).short_tag / long_tag`, `sns` = the schema's namespace (`""` or `"xx:"`).
`_namespace` is computed from the original text; `find_tag_entry` answers `HED_LIBRARY_UNMATCHED`
when it is not the schema's; an unidentified tag (`_schema_entry is None`) answers `str(self)`, which
is the source slice. -/
def tagForm (v : Vocab) (fold : Str → Str) (sns : Str) (f : Form) (org : Str) : Str :=
  let ns := namespaceOf org
  if ns != sns then org
  else
    match find v fold (org.drop ns.length) with
    | .found i rem =>
      match f with
      | .short => shortTag v ns i rem
      | .long => longTag v ns i rem
    | _ => org

/-- `short_tag` with the lookup before fix bb9eaaf (for the counter-example only) -/
def shortTagLegacy (v : Vocab) (fold : Str → Str) (org : Str) : Str :=
  match findLegacy v fold org with
  | .found i rem => shortTag v [] i rem
  | _ => org

/-- `str(HedString(s, schema).get_as_form(tag_form))` = `df_util._convert_to_form(s, schema, tag_form)` -/
def convertText (v : Vocab) (fold : Str → Str) (sns : Str) (f : Form) (s : Str) : Str :=
  Tree.printList (fun a b => tagForm v fold sns f (Tree.slice s a b)) (Tree.construct s)

/-! ### a decidable condition on the vocabulary: names are printable

Evaluated by the driver on every installed vocabulary (`c03.schema` answers `cleanNames`); it is the
hypothesis under which the printed forms can be parsed back (`Props/C03`). -/

/-- a name component is non-empty, contains no delimiter `,()`, no `/`, no `:`, and no blank at either end -/
def cleanComp (c : Str) : Bool :=
  !c.isEmpty && c.all (fun ch => !Tok.isDelim ch && ch != '/' && ch != ':') &&
    c.head? != some ' ' && c.getLast? != some ' '

/-- every tag name is non-empty, all its components are clean, and `#` occurs only as last component -/
def cleanNamesB (tags : List Name) : Bool :=
  tags.all fun n => !n.isEmpty && !(n.dropLast.contains ['#']) && n.all cleanComp

/-! ### the Series / DataFrame wrapper

A frame is the list of its columns `(name, cells)`, column names pairwise distinct (a frame with a
repeated column name is not modelled: pandas then hands a sub-frame to `apply`). -/

abbrev Column := Str × List Str
abbrev DataFrame := List Column

inductive FrameErr where
  | keyError (column : Str)       -- `df[column]` for a column that does not exist
deriving Repr, DecidableEq, Inhabited

/-- `g` applied `k` times -/
def iter (g : Str → Str) : Nat → Str → Str
  | 0, x => x
  | k + 1, x => iter g k (g x)

/-- `series[:] = series.apply(g)` -/
def convertSeries (g : Str → Str) (cells : List Str) : List Str := cells.map g

/-- `df[column] = df[column].apply(g)` -/
def convertColumn (g : Str → Str) (df : DataFrame) (c : Str) : Except FrameErr DataFrame :=
  if df.any (fun col => col.1 == c) then
    .ok (df.map fun col => if col.1 == c then (col.1, col.2.map g) else col)
  else .error (.keyError c)

/-- the loop `for column in columns:` -/
def convertColumns (g : Str → Str) : DataFrame → List Str → Except FrameErr DataFrame
  | df, [] => .ok df
  | df, c :: cs =>
    match convertColumn g df c with
    | .error e => .error e
    | .ok df' => convertColumns g df' cs

/-- `convert_to_form(df, schema, tag_form, columns)` on a DataFrame: `columns=None` means all columns.
(The Python function works in place and returns `None`; the value here is the frame afterwards.  After a
`KeyError` the Python frame keeps the columns converted so far; the model only reports the error.) -/
def convertFrame (g : Str → Str) (df : DataFrame) (columns : Option (List Str)) : Except FrameErr DataFrame :=
  convertColumns g df (columns.getD (df.map (·.1)))

end HedVerif.Schema
