/-
Model of the HED schema cache protocol (property C19).  Self-contained: its own tiny file-system state.

Python anchors (hed/schema):
* `hed_cache.get_hed_versions` / `get_hed_version_path` / `hed_schema_io._load_schema_version_sub`  → process kind `load v`
* `hed_cache.cache_local_versions` / `_copy_installed_folder_to_cache` (`_safe_copy_to_folder`)      → process kind `populate`
* `hed_cache.cache_xml_versions` / `_cache_hed_version` / `_cache_specific_url` /
  `_safe_move_tmp_to_folder`                                                                          → process kind `refresh m`
* `hed_cache_lock.CacheLock.__enter__/__exit__`, `_read_last_cached_time`, `_write_last_cached_time`  → pcs `readTs … unlock`
* `hed_cache.get_library_data` (library_data sub-folder: own lock and timestamp, same copy path)          → a `peek` per direct
  read of `library_data.json`, a `populate` per lock round without timestamp, a `refresh 0` per round with it,
  in an instance of this model with `nFiles = 1`
* `_write_last_cached_time` is two primitives (`truncTs`: `open(…, 'w')`, `writeTs`: the write); a truncated
  timestamp file reads as 0 in `Proto.safe` (repaired `except (…)` tuple) and raises in `Proto.current`

Every process is a sequence of primitive steps (one per system call on the shared cache directory; a file
copy is `create; append-chunk*`, so a truncated copy is representable).  A schedule is any list of
`step p` / `crash p` actions: any interleaving, crash of any process before any of its steps.
A copy is `create; append-chunk*; close; rename`.  Processes address the one directory of the model under path
aliases; the lock file is inside the directory (one inode under every alias).  Three legacy variants of `safe`
exist only to be refuted (`pathlock`, `buffered`, `unanchored`), see `Proto`.
Two protocols:
* `Proto.current` — the code before the repair: the lock object is constructed but never acquired, the
  installed files are copied in place under their final names, a version missing from the cache is "not found".
* `Proto.safe`    — the repaired code: `acquire()` with bounded retries, copy to a per-process temp name,
  atomic rename, release; a version missing from the cache is read from the installed (bundled) folder.
-/
namespace HedVerif.Cache

/-- function update (the state uses total functions for directory and process table) -/
def upd {α : Type} {β : Type} [DecidableEq α] (f : α → β) (a : α) (b : β) : α → β :=
  fun x => if x = a then b else f x

@[simp] theorem upd_same {α β : Type} [DecidableEq α] (f : α → β) (a : α) (b : β) : upd f a b a = b := by
  simp [upd]

@[simp] theorem upd_ne {α β : Type} [DecidableEq α] (f : α → β) {a x : α} (b : β) (h : x ≠ a) :
    upd f a b x = f x := by
  simp [upd, h]

inductive Proto
  | current      -- the code before any repair
  | safe         -- the code as it is now
  | pathlock     -- `safe`, but the lock file is derived from the path string (`normpath(folder) + ".lock"`)
  | buffered     -- `safe`, but the copy goes through a buffered writer and the rename happens before its close
  | unanchored   -- `safe`, but the file-name pattern of `get_hed_versions` has lost its `^…$` anchors
  deriving DecidableEq, Repr

/-- `Cache.current`: the protocol of the code before the repair; `Cache.safe`: the repaired protocol -/
abbrev current : Proto := .current
abbrev safe : Proto := .safe

/-- names in the cache directory: `final f` = the name matching the cache pattern for bundled file `f`
(`HED…<version>.xml`), `tmp p f` = the temporary name process `p` uses while copying file `f`
(`mkstemp` / `NamedTemporaryFile` names are unique per process; never matches the pattern). -/
inductive Name
  | final (f : Nat)
  | tmp (p : Nat) (f : Nat)
  deriving DecidableEq, Repr

/-- content of a cache file: a copy of bundled file `src`, chunk `j` present iff `chunks[j] = true`
(chunks are written at their own offsets, like `write` on a private descriptor). -/
structure Content where
  src : Nat
  chunks : List Bool
  deriving DecidableEq, Repr

structure Cfg where
  nFiles : Nat    -- bundled files are 0 … nFiles-1 (order of `os.listdir(INSTALLED_CACHE_LOCATION)`)
  chunks : Nat    -- chunks per file copy
  thr : Nat       -- CACHE_TIME_THRESHOLD
  retries : Nat   -- lock attempts after the first one (timeout / check_interval)
  deriving Repr

/-- the complete, byte-identical copy of bundled file `f` -/
def full (c : Cfg) (f : Nat) : Content := ⟨f, List.replicate c.chunks true⟩

/-- `os.write` of chunk `j` at its offset (a hole before it reads as missing chunks) -/
def writeChunk (cs : List Bool) (j : Nat) : List Bool :=
  if cs.length ≤ j then cs ++ List.replicate (j - cs.length) false ++ [true] else cs.set j true

inductive Kind
  | populate            -- cache_local_versions(folder)
  | load (v : Nat)      -- load_schema_version(<bundled version v>)
  | refresh (m : Nat)   -- cache_xml_versions: re-download files 0 … m-1 (content = bundled content)
  | peek (v : Nat)      -- one direct read of the cache file `v` (get_library_data opens library_data.json
                        -- without listing the folder): absent → "not there", else its content
  deriving DecidableEq, Repr

/-- the two ways `CacheLock.__enter__` raises `CacheException`; `tsUnreadable` is the `ValueError` of the
unrepaired `_read_last_cached_time` on a truncated timestamp file (only in `Proto.current`) -/
inductive CErr | tooRecent | lockTimeout | tsUnreadable
  deriving DecidableEq, Repr

inductive Status | running | finished | crashed
  deriving DecidableEq, Repr

/-- control state = the next primitive the process will execute -/
inductive Pc
  | list1                      -- load: os.listdir(cache) in get_hed_versions
  | readTs                     -- _read_last_cached_time + threshold test
  | openLock                   -- open(cache_lock.lock, 'a')
  | tryLock (k : Nat)          -- one flock(LOCK_EX|LOCK_NB) attempt, `k` more allowed
  | pick (i : Nat)             -- os.path.exists(final i) (populate) / sha1 of final i (refresh); loop head
  | mktemp (i : Nat)           -- tempfile.mkstemp in the cache directory
  | create (i : Nat)           -- open(target, 'wb')
  | append (i : Nat) (j : Nat) -- write chunk j
  | close (i : Nat)            -- close of the descriptor written by the copy (flushes what is still buffered)
  | rename (i : Nat)           -- os.replace(tmp, final)
  | truncTs                    -- _write_last_cached_time: open(last_update.txt, 'w') (truncates)
  | writeTs                    -- _write_last_cached_time: f.write(str(time))
  | unlock                     -- release()
  | list2                      -- load: os.listdir(cache) after the in-line population
  | read                       -- load: read the cache file found in the listing
  deriving DecidableEq, Repr

/-- inside `with CacheLock(...)` (body and `__exit__`) -/
def Pc.locked : Pc → Bool
  | .pick _ | .mktemp _ | .create _ | .append _ _ | .close _ | .rename _ | .truncTs | .writeTs | .unlock => true
  | _ => false

structure Proc where
  kind : Kind
  now : Nat                          -- this process's `time.time()` (logical clock)
  alias : Nat                        -- the path by which this process addresses the directory (its real path,
                                     -- a symlink to it, …): all aliases denote the one directory of the model
  pc : Pc
  status : Status
  err : Option CErr                  -- the CacheException branch taken, if any
  saw : Bool                         -- load: the wanted name was in the listing
  got : Option (Option Content)      -- load: `some none` = not found, `some (some c)` = loaded content c
  deriving Repr

def Proc.inRegion (pr : Proc) : Bool := pr.status == .running && pr.pc.locked

structure St where
  files : Name → Option Content
  lockFile : Bool          -- cache_lock.lock exists
  holder : Option Nat      -- process holding the flock on the lock file inside the directory (one inode,
                           -- whatever alias the directory is reached by)
  pathHolder : Nat → Option Nat  -- only `Proto.pathlock`: holder of the lock file named after alias `a`
  nprocs : Nat             -- number of processes of the system (only read by `Proto.unanchored`'s listing)
  ts : Option Nat          -- last_update.txt holds this number
  tsTorn : Bool            -- last_update.txt exists but is empty (truncated, not yet written); then `ts = none`
  dirty : Bool             -- something was created in the directory (nothing is ever deleted, so
                           -- `os.listdir` is empty iff `dirty = false`, see `Props.C19.dirty_sound`)
  procs : Nat → Proc

def ver : Kind → Nat
  | .load v => v
  | .peek v => v
  | _ => 0

def startPc : Kind → Pc
  | .load _ => .list1
  | .peek _ => .read
  | _ => .readTs

/-- a process that is not part of the system (never runs: recorded as dead) -/
def idle : Proc := ⟨.populate, 0, 0, .readTs, .crashed, none, false, none⟩

def start (k : Kind) (now alias : Nat) : Proc := ⟨k, now, alias, startPc k, .running, none, false, none⟩

/-- empty cache directory, every process (kind, clock, path alias) at its first step -/
def init (ps : List (Kind × Nat × Nat)) : St :=
  { files := fun _ => none, lockFile := false, holder := none, pathHolder := fun _ => none, nprocs := ps.length,
    ts := none, tsTorn := false, dirty := false,
    procs := fun p => match ps[p]? with
      | some (k, now, a) => start k now a
      | none => idle }

def St.setP (s : St) (p : Nat) (pr : Proc) : St := { s with procs := upd s.procs p pr }

/-- end of `cache_local_versions` / `cache_xml_versions` (normally or by CacheException): a loader goes on
to list the directory again, the others are done -/
def leave (pr : Proc) : Proc :=
  match pr.kind with
  | .load _ => { pr with pc := .list2 }
  | _ => { pr with status := .finished }

def total (c : Cfg) : Kind → Nat
  | .refresh m => m
  | _ => c.nFiles

/-- where a copy writes: the unrepaired `_copy_installed_folder_to_cache` writes the final name -/
def target (proto : Proto) (k : Kind) (p i : Nat) : Name :=
  match proto, k with
  | .current, .populate => .final i
  | .current, .load _ => .final i
  | _, _ => .tmp p i

/-- head of the copy loop for work item `i`: the next file's test, or the end of the `with` body -/
def loopPc (c : Cfg) (k : Kind) (i : Nat) : Pc :=
  if i < total c k then .pick i
  else match k with
    | .refresh _ => .truncTs
    | _ => .unlock

/-- after the last chunk: write … ; close ; rename (the buffered variant renames first, closes afterwards) -/
def afterCopy (c : Cfg) (proto : Proto) (k : Kind) (i : Nat) : Pc :=
  match proto, k with
  | .current, .populate => loopPc c k (i + 1)
  | .current, .load _ => loopPc c k (i + 1)
  | .buffered, _ => .rename i
  | _, _ => .close i

def afterRename (c : Cfg) (proto : Proto) (k : Kind) (i : Nat) : Pc :=
  match proto with
  | .buffered => .close i
  | _ => loopPc c k (i + 1)

/-- chunk `j` reaches the file `t` -/
def writeTo (s : St) (t : Name) (j : Nat) : St :=
  { s with files := upd s.files t ((s.files t).map fun (ct : Content) => (⟨ct.src, writeChunk ct.chunks j⟩ : Content)) }

/-- who holds the lock this process competes for -/
def heldBy (proto : Proto) (s : St) (pr : Proc) : Option Nat :=
  match proto with
  | .pathlock => s.pathHolder pr.alias
  | _ => s.holder

def takeLock (proto : Proto) (p : Nat) (s : St) (pr : Proc) : St :=
  match proto with
  | .pathlock => { s with pathHolder := upd s.pathHolder pr.alias (some p) }
  | _ => { s with holder := some p }

def dropLock (proto : Proto) (p : Nat) (s : St) (pr : Proc) : St :=
  match proto with
  | .pathlock => { s with pathHolder := upd s.pathHolder pr.alias none }
  | _ => { s with holder := if s.holder = some p then none else s.holder }

/-- `get_hed_versions`: is version `v` among the names of the listing that match the file-name pattern?
The anchored pattern matches exactly the final names; without anchors `HED8.3.0.xml.<random>.tmp` matches too. -/
def seen (proto : Proto) (s : St) (v : Nat) : Bool :=
  (s.files (.final v)).isSome ||
    (match proto with
     | .unanchored => (List.range s.nprocs).any fun q => (s.files (.tmp q v)).isSome
     | _ => false)

/-- result of a directory listing by a loader -/
def listed (c : Cfg) (proto : Proto) (p : Nat) (s : St) : St :=
  let pr := s.procs p
  if seen proto s (ver pr.kind) then s.setP p { pr with saw := true, pc := .read }
  else match proto with
    | .current => s.setP p { pr with got := some none, status := .finished }
    | _ => s.setP p { pr with got := some (some (full c (ver pr.kind))), status := .finished }

/-- the primitive at control state `pr.pc` executed by the running process `p` (`pr = s.procs p`) -/
def stepPc (c : Cfg) (proto : Proto) (p : Nat) (s : St) (pr : Proc) : St :=
    match pr.pc with
    | .list1 => if s.dirty then listed c proto p s else s.setP p { pr with pc := .readTs }
    | .list2 => listed c proto p s
    | .read => s.setP p { pr with got := some (s.files (.final (ver pr.kind))), status := .finished }
    | .readTs =>
        match proto with
        | .current =>
            -- `except FileNotFoundError or ValueError or IOError` catches only the first: float('') escapes
            if s.tsTorn then s.setP p { pr with err := some .tsUnreadable, status := .finished }
            else if pr.now < s.ts.getD 0 + c.thr then s.setP p (leave { pr with err := some .tooRecent })
            else s.setP p { pr with pc := loopPc c pr.kind 0 }
        | _ =>
            -- a truncated (empty, unparsable) timestamp reads as 0, like a missing one
            if pr.now < s.ts.getD 0 + c.thr then s.setP p (leave { pr with err := some .tooRecent })
            else s.setP p { pr with pc := .openLock }
    | .openLock => { s with lockFile := true, dirty := true }.setP p { pr with pc := .tryLock c.retries }
    | .tryLock k =>
        match heldBy proto s pr with
        | none => (takeLock proto p s pr).setP p { pr with pc := loopPc c pr.kind 0 }
        | some _ =>
          match k with
          | 0 => s.setP p (leave { pr with err := some .lockTimeout })
          | k + 1 => s.setP p { pr with pc := .tryLock k }
    | .pick i =>
        match pr.kind with
        | .refresh _ =>
            if s.files (.final i) = some (full c i) then s.setP p { pr with pc := loopPc c pr.kind (i + 1) }
            else s.setP p { pr with pc := .create i }
        | _ =>
            if (s.files (.final i)).isSome then s.setP p { pr with pc := loopPc c pr.kind (i + 1) }
            else match proto with
              | .current => s.setP p { pr with pc := .create i }
              | _ => s.setP p { pr with pc := .mktemp i }
    | .mktemp i =>
        { s with files := upd s.files (.tmp p i) (some ⟨i, []⟩), dirty := true }.setP p { pr with pc := .create i }
    | .create i =>
        { s with files := upd s.files (target proto pr.kind p i) (some ⟨i, []⟩), dirty := true }.setP p
          { pr with pc := if c.chunks = 0 then afterCopy c proto pr.kind i else .append i 0 }
    | .append i j =>
        -- the buffered writer keeps the last, short chunk in user space until `close`
        (if proto = .buffered ∧ ¬ (j + 1 < c.chunks) then s else writeTo s (target proto pr.kind p i) j).setP p
          { pr with pc := if j + 1 < c.chunks then .append i (j + 1) else afterCopy c proto pr.kind i }
    | .close i =>
        match proto with
        | .buffered =>
            -- the flush goes to the file the descriptor is open on, which by now carries the final name
            (writeTo s (.final i) (c.chunks - 1)).setP p { pr with pc := loopPc c pr.kind (i + 1) }
        | _ => s.setP p { pr with pc := .rename i }
    | .rename i =>
        match s.files (.tmp p i) with
        | some ct =>
            { s with files := upd (upd s.files (.final i) (some ct)) (.tmp p i) none }.setP p
              { pr with pc := afterRename c proto pr.kind i }
        | none => s.setP p { pr with pc := afterRename c proto pr.kind i }
    | .truncTs => { s with ts := none, tsTorn := true, dirty := true }.setP p { pr with pc := .writeTs }
    | .writeTs => { s with ts := some pr.now, tsTorn := false, dirty := true }.setP p { pr with pc := .unlock }
    | .unlock => (dropLock proto p s pr).setP p (leave pr)

/-- one primitive step of process `p` (nothing if it is finished or dead) -/
def step (c : Cfg) (proto : Proto) (p : Nat) (s : St) : St :=
  match (s.procs p).status with
  | .running => stepPc c proto p s (s.procs p)
  | _ => s

/-- the process dies (kill, power cut of the process): the kernel drops its flock, files stay as they are -/
def crash (p : Nat) (s : St) : St :=
  match (s.procs p).status with
  | .running =>
      { s with holder := if s.holder = some p then none else s.holder,
               pathHolder := fun a => if s.pathHolder a = some p then none else s.pathHolder a }.setP p
        { s.procs p with status := .crashed }
  | _ => s

inductive Action
  | step (p : Nat)
  | crash (p : Nat)
  deriving DecidableEq, Repr

def act (c : Cfg) (proto : Proto) : Action → St → St
  | .step p, s => step c proto p s
  | .crash p, s => crash p s

/-- state after a schedule -/
def runSt (c : Cfg) (proto : Proto) : List Action → St → St
  | [], s => s
  | a :: as, s => runSt c proto as (act c proto a s)

/-- label of the primitive a step of `p` executes in `s` (what the harness sees the real code do) -/
structure Event where
  pid : Nat
  what : String
  i : Nat
  j : Nat
  deriving DecidableEq, Repr

def labelOf (p : Nat) (s : St) : Event :=
  let pr := s.procs p
  match pr.status with
  | .running =>
    match pr.pc with
    | .list1 | .list2 => ⟨p, "list", 0, 0⟩
    | .read => ⟨p, "read", ver pr.kind, 0⟩
    | .readTs => ⟨p, "readTs", 0, 0⟩
    | .openLock => ⟨p, "openLock", 0, 0⟩
    | .tryLock _ => ⟨p, "tryLock", 0, 0⟩
    | .pick i =>
        match pr.kind with
        | .refresh _ => ⟨p, "read", i, 0⟩
        | _ => ⟨p, "exists", i, 0⟩
    | .mktemp i => ⟨p, "mktemp", i, 0⟩
    | .create i => ⟨p, "create", i, 0⟩
    | .append i j => ⟨p, "append", i, j⟩
    | .close i => ⟨p, "close", i, 0⟩
    | .rename i => ⟨p, "rename", i, 0⟩
    | .truncTs => ⟨p, "truncTs", 0, 0⟩
    | .writeTs => ⟨p, "writeTs", 0, 0⟩
    | .unlock => ⟨p, "unlock", 0, 0⟩
  | _ => ⟨p, "idle", 0, 0⟩

/-- two distinct processes among `0 … n-1` are inside the locked region -/
def overlapUpTo (n : Nat) (s : St) : Bool :=
  (List.range n).any fun p => (List.range n).any fun q => p != q && (s.procs p).inRegion && (s.procs q).inRegion

/-- `run`: the trace of primitives, whether two of the first `n` processes ever overlapped, final state -/
def run (c : Cfg) (proto : Proto) (n : Nat) : List Action → St → List Event × Bool × St
  | [], s => ([], overlapUpTo n s, s)
  | a :: as, s =>
    let e := match a with
      | .step p => labelOf p s
      | .crash p => ⟨p, "crash", 0, 0⟩
    let (es, o, s') := run c proto n as (act c proto a s)
    (e :: es, o || overlapUpTo n s, s')

theorem run_state (c : Cfg) (proto : Proto) (n : Nat) (as : List Action) (s : St) :
    (run c proto n as s).2.2 = runSt c proto as s := by
  induction as generalizing s with
  | nil => rfl
  | cons a as ih => simp [run, runSt, ih]

/-- `hed_cache._check_if_url`: a path handed to `load_schema` is fetched as a URL iff it starts with a scheme -/
def checkIfUrl (s : List Char) : Bool :=
  "http://".toList.isPrefixOf s || "https://".toList.isPrefixOf s

end HedVerif.Cache
