/-
Model of event-file assembly (property C06):

* `ColumnMetadata._detect_column_type` / `hed_dict`               (hed/models/column_metadata.py)
* `ColumnMapper._finalize_mapping` / `get_transformers` /
  `_category_handler` / `_value_handler`                           (hed/models/column_mapper.py)
* `BaseInput.assemble` / `_handle_transforms` / `combine_dataframe` / `series_a`
                                                                   (hed/models/base_input.py)
* `df_util._handle_curly_braces_refs` / `replace_ref`, `Sidecar.get_column_refs`
* `StringValidator.check_delimiter_issues_in_hed_string`          (hed/validator/util/string_util.py)

Strings are `List Char`.  The model is that of the code **with** `fixes/C06_replace_ref.diff`, `C06_value_empty_cell.diff`,
`C06_frame_copy.diff` (`fixed = true`); the behaviour of the unchanged code is kept as the `fixed = false` variant
(`replaceRefOld`) and, for references whose name is all digits, `replaceRefOldNumeric`.
No Mathlib imports: this file is linked into the native driver.
-/
import HedVerif.Model.Tok

namespace HedVerif.Assemble

/-- Python `str.isspace` / regex `\s` on the ASCII range. -/
def isSpace (c : Char) : Bool :=
  c == ' ' || c == '\t' || c == '\n' || c == '\r' || c == '\x0b' || c == '\x0c' ||
  c == '\x1c' || c == '\x1d' || c == '\x1e' || c == '\x1f'

def NA : Str := ['n', '/', 'a']
def HEDNAME : Str := ['H', 'E', 'D']
def SEP : Str := [',', ' ']

/-! ### Delimiter well-formedness: `check_delimiter_issues_in_hed_string` returns no issue -/

inductive Cls where
  | ws | comma | opn | cls | other
deriving Repr, DecidableEq, Inhabited

def clsOf (c : Char) : Cls :=
  if isSpace c then .ws else if c == ',' then .comma else if c == '(' then .opn
  else if c == ')' then .cls else .other

/-- locals of the checker: `current_tag.strip() == ''` and `last_non_empty_valid_character` -/
structure DSt where
  tagEmpty : Bool
  last : Option Cls
deriving Repr, DecidableEq, Inhabited

/-- one loop iteration; `none` = an issue is appended (the scan result is then "not well-formed") -/
def dstep (st : DSt) : Cls → Option DSt
  | .ws => some st
  | .comma => if st.tagEmpty then none else some ⟨true, some .comma⟩
  | .opn => if st.tagEmpty then some ⟨true, some .opn⟩ else none
  | .cls => if st.last == some .comma then none else some ⟨false, some .cls⟩
  | .other => if st.last == some .cls then none else some ⟨false, some .other⟩

def dscan : DSt → Str → Option DSt
  | st, [] => some st
  | st, c :: cs => match dstep st (clsOf c) with
    | none => none
    | some st' => dscan st' cs

/-- no issue from the loop and none from the trailing-delimiter test -/
def delimOk (s : Str) : Bool :=
  match dscan ⟨true, none⟩ s with
  | none => false
  | some st => st.last != some .comma

/-! ### Sidecar -/

/-- the part of JSON the code looks at -/
inductive J where
  | str (s : Str)
  | obj (kvs : List (Str × J))
  | other            -- number, list, bool, null

abbrev Sidecar := List (Str × J)     -- `Sidecar.loaded_dict` (keys unique)

inductive Kind where
  | ignore | categorical | value | unknown    -- `unknown` = Python `None`
deriving Repr, DecidableEq, Inhabited

def J.isStr : J → Bool
  | .str _ => true
  | _ => false

/-- `_detect_column_type(dict_for_entry, basic_validation=True)` -/
def kind : J → Kind
  | .obj kvs =>
    if kvs.isEmpty then .ignore
    else match kvs.lookup HEDNAME with
      | none => .ignore
      | some (.obj es) => if es.all (fun p => p.2.isStr) then .categorical else .unknown
      | some (.str s) => if s.contains '#' then .value else .unknown
      | some .other => .unknown
  | _ => .ignore

/-- per-column transformer of `get_transformers` -/
inductive Tr where
  | ident                              -- HED column, and column type `None`: `lambda x: x`
  | value (template : Str)             -- `_value_handler`
  | cat (entries : List (Str × Str))   -- `_category_handler`
deriving Repr, DecidableEq, Inhabited

def strEntries : List (Str × J) → List (Str × Str)
  | [] => []
  | (k, .str s) :: r => (k, s) :: strEntries r
  | _ :: r => strEntries r

/-- `dict_for_entry["HED"]` -/
def hedVal : J → Option J
  | .obj kvs => kvs.lookup HEDNAME
  | _ => none

def hedObj (e : J) : List (Str × Str) :=
  match hedVal e with
  | some (.obj es) => strEntries es
  | _ => []

def hedStr (e : J) : Str :=
  match hedVal e with
  | some (.str s) => s
  | _ => []

/-- `column.hed_dict` packaged by column type; `none` = `ColumnType.Ignore` (no transformer) -/
def trOfEntry (e : J) : Option Tr :=
  match kind e with
  | .ignore => none
  | .unknown => some .ident
  | .categorical => some (.cat (hedObj e))
  | .value => some (.value (hedStr e))

/-- `_finalize_mapping`: sidecar columns present in the file, then `_add_tag_columns` overrides `HED` -/
def trOf (sc : Sidecar) (name : Str) : Option Tr :=
  if name = HEDNAME then some .ident
  else match sc.lookup name with
    | none => none
    | some e => trOfEntry e

structure Col where
  name : Str
  tr : Tr
deriving Repr, DecidableEq, Inhabited

/-- `dict(sorted(final_map.items()))`: insertion by column name, code-point order -/
def insertCol (c : Col) : List Col → List Col
  | [] => [c]
  | d :: ds => if c.name ≤ d.name then c :: d :: ds else d :: insertCol c ds

def sortCols : List Col → List Col
  | [] => []
  | c :: cs => insertCol c (sortCols cs)

def fileCols (sc : Sidecar) (header : List Str) : List Col :=
  header.filterMap fun n => (trOf sc n).map (Col.mk n)

/-- the keys of `transformers`, in order -/
def activeCols (sc : Sidecar) (header : List Str) : List Col := sortCols (fileCols sc header)

/-! ### Transformers -/

/-- `value_str.replace("#", x)` -/
def substPound (x : Str) (template : Str) : Str :=
  template.flatMap fun c => if c == '#' then x else [c]

/-- "is this cell missing": the test of `_value_handler`, `x == "n/a" or x == ""` (equality with the whole
cell — not a substring or case-insensitive test) -/
def isMissing (x : Str) : Bool := x == NA || x == []

/-- `_value_handler(value_str, x)` -/
def valueHandler (t x : Str) : Str := if isMissing x then NA else substPound x t

/-- `_category_handler(category_values, x)`: `category_values.get(x, "")` — no missing-cell test at all,
an `n/a` or empty cell is looked up like any other key -/
def categoryHandler (es : List (Str × Str)) (x : Str) : Str := (es.lookup x).getD []

/-- the transformers of `get_transformers` -/
def applyTr : Tr → Str → Str
  | .ident, x => x
  | .value t, x => valueHandler t x
  | .cat es, x => categoryHandler es x

/-- `_value_handler` of the unchanged code -/
def valueHandlerOld (t x : Str) : Str := if x = NA then NA else substPound x t

/-- the cell of column `name` in a row laid out as `header` -/
def cellOf : List Str → List Str → Str → Str
  | h :: hs, c :: cs, n => if h = n then c else cellOf hs cs n
  | _, _, _ => []

/-- one row of `assemble(skip_curly_braces=True)` = `_handle_transforms` -/
def transformed (cols : List Col) (header row : List Str) : List (Str × Str) :=
  cols.map fun c => (c.name, applyTr c.tr (cellOf header row c.name))

/-! ### `replace_ref` -/

def mkRef (name : Str) : Str := '{' :: (name ++ ['}'])

/-- `text.find(ref)`: the text before the first occurrence and the text after it -/
def splitFirst (ref : Str) : Str → Option (Str × Str)
  | [] => none
  | c :: cs =>
    if ref.isPrefixOf (c :: cs) then some ([], (c :: cs).drop ref.length)
    else match splitFirst ref cs with
      | none => none
      | some (a, b) => some (c :: a, b)

/-- leftmost, non-overlapping substitution: `f before after` gives the text emitted for the match
(including the kept part of `before`) and the text at which scanning resumes.  `fuel` ≥ length. -/
def subF (ref : Str) (f : Str → Str → Str × Str) : Nat → Str → Str
  | 0, t => t
  | n + 1, t => match splitFirst ref t with
    | none => t
    | some (pre, post) => (f pre post).1 ++ subF ref f n (f pre post).2

def isC (c : Char) : Bool := isSpace c || c == ','     -- `[\s,]`
def isP1 (c : Char) : Bool := isSpace c || c == '('    -- `[(\s]`
def isP2 (c : Char) : Bool := isSpace c || c == ')'    -- `[\s)]`

/-- the match around one occurrence: kept text `u`, groups `c1 p1 p2 c2`, rest `w` -/
structure Groups where
  u : Str
  c1 : Str
  p1 : Str
  p2 : Str
  c2 : Str
  w : Str
deriving Repr, DecidableEq, Inhabited

/-- `before` = text since the end of the previous match.  The match starts at the longest suffix of
`before` lying in `[\s,]*[(\s]*`; `c1` is the maximal `[\s,]*` prefix of that suffix. -/
def groups (pre post : Str) : Groups :=
  let pr := pre.reverse
  let bR := pr.takeWhile isP1
  let r1 := pr.dropWhile isP1
  let aR := r1.takeWhile isC
  let region := aR.reverse ++ bR.reverse
  let r2 := post.dropWhile isP2
  { u := (r1.dropWhile isC).reverse, c1 := region.takeWhile isC, p1 := region.dropWhile isC,
    p2 := post.takeWhile isP2, c2 := r2.takeWhile isC, w := r2.dropWhile isC }

/-- `_remover`.  `fixed`: the equal-parentheses branch tests `c1.strip()` instead of `c1`
(a `c1` of blanks only is dropped together with `c2`). -/
def removerOut (fixed : Bool) (g : Groups) : Str :=
  let a := g.p1.count '('
  let b := g.p2.count ')'
  if a > b then g.c1 ++ List.replicate (a - b) '('
  else if b > a then List.replicate (b - a) ')' ++ g.c2
  else if fixed then (if g.c1.contains ',' then g.c2 else [])
  else (if g.c1.isEmpty then [] else g.c2)

def removeF (fixed : Bool) (pre post : Str) : Str × Str :=
  let g := groups pre post
  (g.u ++ removerOut fixed g, g.w)

def replaceF (new : Str) (pre post : Str) : Str × Str := (pre ++ new, post)

/-- `replace_ref(text, "{name}", newvalue)` of the fixed code:
`re.escape` makes the name opaque; an empty value is removed like `n/a`. -/
def replaceRef (text name new : Str) : Str :=
  if new = [] ∨ new = NA then subF (mkRef name) (removeF true) text.length text
  else subF (mkRef name) (replaceF new) text.length text

/-- the unchanged code, for names that are not all digits -/
def replaceRefOld (text name new : Str) : Str :=
  if new = NA then subF (mkRef name) (removeF false) text.length text
  else subF (mkRef name) (replaceF new) text.length text

/-- The unchanged code for the reference `{n}` (name = decimal digits of `n`), value `n/a`: the
pattern is `[\s,]*([(\s]*){n}[\s)]*[\s,]*` — it matches at every position (possibly empty), the
reference itself is never matched.  `none` = `AttributeError` (`n = 0`: group `p1` is `None`). -/
def oldNumericGo (n : Nat) : Nat → Str → Str
  | _, [] => []
  | skip + 1, _ :: cs => oldNumericGo n skip cs
  | 0, c :: cs =>
    let s := c :: cs
    let c1 := s.takeWhile isC
    let s1 := s.dropWhile isC
    let p1 := s1.takeWhile isP1
    let s2 := s1.dropWhile isP1
    let p2 := s2.takeWhile isP2
    let s3 := s2.dropWhile isP2
    let c2 := s3.takeWhile isC
    let len := c1.length + p1.length + p2.length + c2.length
    if len = 0 then c :: oldNumericGo n 0 cs
    else
      -- for n ≥ 2 the group is re-matched empty by the last repetition
      let g : Groups := ⟨[], c1, if n = 1 then p1 else [], p2, c2, []⟩
      removerOut false g ++ oldNumericGo n (len - 1) cs

def replaceRefOldNumeric (text : Str) (n : Nat) : Option Str :=
  if n = 0 then none else some (oldNumericGo n 0 text)

/-! ### References and rows -/

def isRefChar (c : Char) : Bool := c.isAlphanum || c == '_' || c == '-'

/-- `re.findall(r"\{([a-z_\-0-9]+)\}", s, re.IGNORECASE)` (ASCII) -/
def findRefs : Str → List Str
  | [] => []
  | c :: cs =>
    let nm := cs.takeWhile isRefChar
    if c == '{' && !nm.isEmpty && (cs.dropWhile isRefChar).head? == some '}' then nm :: findRefs cs
    else findRefs cs

/-- the HED strings of one sidecar column (`get_hed_strings`): none for ignored / untyped columns -/
def hedStrings (e : J) : List Str :=
  match kind e with
  | .categorical => (hedObj e).map (·.2)
  | .value => [hedStr e]
  | _ => []

/-- `Sidecar.get_column_refs` (a Python `set`: order unspecified; here first-appearance order) -/
def refsOf (sc : Sidecar) : List Str :=
  (sc.flatMap fun p => (hedStrings p.2).flatMap findRefs).eraseDups

/-- the inner loop of `_handle_curly_braces_refs` for one cell -/
def spliceAll (refs : List Str) (tr : List (Str × Str)) (text : Str) : Str :=
  refs.foldl (fun t r => replaceRef t r ((tr.lookup r).getD [])) text

/-- `refs = [ref for ref in refs if ref in column_names]` -/
def liveRefs (refs : List Str) (tr : List (Str × Str)) : List Str :=
  refs.filter fun r => tr.any (fun p => p.1 == r)

/-- `_handle_curly_braces_refs(df, refs, column_names)` on one transformed row -/
def assembled (refs : List Str) (tr : List (Str × Str)) : List (Str × Str) :=
  (tr.filter fun p => !(liveRefs refs tr).contains p.1).map fun p => (p.1, spliceAll (liveRefs refs tr) tr p.2)

def keep (e : Str) : Bool := !e.isEmpty && e != NA

/-- `combine_dataframe`: `', '.join(filter(lambda e: bool(e) and e != "n/a", row))` -/
def joinRow (items : List Str) : Str := SEP.intercalate (items.filter keep)

structure Table where
  header : List Str
  rows : List (List Str)
deriving Repr, DecidableEq, Inhabited

/-- one entry of `series_a`, given the iteration order `refs` of the reference set -/
def row (refs : List Str) (sc : Sidecar) (header r : List Str) : Str :=
  joinRow ((assembled refs (transformed (activeCols sc header) header r)).map (·.2))

def seriesWith (refs : List Str) (sc : Sidecar) (t : Table) : List Str :=
  t.rows.map (row refs sc t.header)

/-- `list(TabularInput(table, sidecar).series_a)` -/
def series (sc : Sidecar) (t : Table) : List Str := seriesWith (refsOf sc) sc t

/-- A `TabularInput` as far as assembly is concerned, and one call of `series_a` on it:
the answer and the object afterwards (`_handle_transforms` works on a copy, `fixes/C06_frame_copy`). -/
structure Input where
  sidecar : Sidecar
  table : Table

def call (x : Input) : List Str × Input := (series x.sidecar x.table, x)

def calls : Nat → Input → List (List Str) × Input
  | 0, x => ([], x)
  | n + 1, x => let (a, x') := call x; let (as, x'') := calls n x'; (a :: as, x'')

end HedVerif.Assemble
