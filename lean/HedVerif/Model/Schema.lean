/-
Model of the tag vocabulary and of tag lookup:
  `HedSchemaTagSection._get_tag_forms/_check_if_duplicate/get`   (hed/schema/hed_schema_section.py)
  `HedSchema._find_tag_entry/_find_tag_subfunction/_validate_remaining_terms` (hed/schema/hed_schema.py)
  `HedTag.short_tag/long_tag/base_tag/extension/_get_schema_namespace`        (hed/models/hed_tag.py)

A tag name is a list of `/`-separated components (`List Str`).  `fold` (Python `casefold`) is a
parameter acting on one component; it is assumed char-wise, so slash positions are those of the
original text (stated in DESIGN.md §3; the harness only varies case over characters where that holds).
-/
import HedVerif.Model.Tok

namespace HedVerif.Schema

abbrev Name := List Str          -- components

def splitSlash (s : Str) : Name :=
  let rec go (cur : Str) : Str → Name
    | [] => [cur.reverse]
    | c :: cs => if c == '/' then cur.reverse :: go [] cs else go (c :: cur) cs
  go [] s

def joinSlash : Name → Str
  | [] => []
  | [c] => c
  | c :: cs => c ++ ('/' :: joinSlash cs)

/-- all `/`-suffixes of a long name, longest first (`_get_tag_forms`), the bare `#` dropped -/
def suffixes : Name → List Name
  | [] => []
  | c :: cs => (c :: cs) :: suffixes cs

def forms (n : Name) : List Name := (suffixes n).filter (fun f => f != [['#']])

/-- `name_key` of `_get_tag_forms`: the last component -/
def nameKey (n : Name) : Str := n.getLast?.getD []

/-- The dictionary `long_form_tags`: newest binding first; `get` = first match. -/
abbrev Table := List (Name × Nat)

def Table.get (t : Table) (k : Name) : Option Nat := (t.find? (fun e => e.1 == k)).map (·.2)

def foldName (fold : Str → Str) (n : Name) : Name := n.map fold

/-- `_check_if_duplicate` over all tags in schema order: a tag whose (folded) last component is
already a key is recorded as duplicate and registers nothing. Returns the table and the duplicates. -/
def register (fold : Str → Str) : List Name → Nat → Table → List Nat → Table × List Nat
  | [], _, tbl, dups => (tbl, dups.reverse)
  | n :: rest, i, tbl, dups =>
    if (tbl.get [fold (nameKey n)]).isSome then register fold rest (i + 1) tbl (i :: dups)
    else register fold rest (i + 1) (((forms n).map fun f => (foldName fold f, i)).reverse ++ tbl) dups

structure Vocab where
  tags : Array Name       -- long names in schema order, `#` as last component of value nodes
  table : Table
  dups : List Nat

def Vocab.build (fold : Str → Str) (tags : List Name) : Vocab :=
  let (tbl, d) := register fold tags 0 [] []
  ⟨tags.toArray, tbl, d⟩

def Vocab.name (v : Vocab) (i : Nat) : Name := v.tags[i]?.getD []

/-- `entry.takes_value_child_entry`: `_get_tag_entry(self.name + "/#")` -/
def Vocab.valueChild (v : Vocab) (fold : Str → Str) (i : Nat) : Option Nat :=
  v.table.get (foldName fold (v.name i ++ [['#']]))

inductive FindResult where
  | found (node : Nat) (remainder : Str)
  | noValidTag (stop : Nat)                 -- NO_VALID_TAG_FOUND, index_in_tag_end relative to clean tag
  | invalidParent (start stop : Nat) (expected : Nat)   -- INVALID_PARENT_NODE
deriving Repr, DecidableEq, Inhabited

/-- length of the text `joinSlash n` -/
def joinLen : Name → Nat
  | [] => 0
  | [c] => c.length
  | c :: cs => c.length + 1 + joinLen cs

/-- the lookup of one `/`-prefix inside `_find_tag_subfunction` (after fix bb9eaaf): a prefix that ends
in the placeholder (`parent_name.endswith("/#")`) is never an intermediate node — what follows the tag
is its value, as written. -/
def walkGet (tbl : Table) (p : Name) : Option Nat :=
  if p.getLast? == some ['#'] && p.length ≥ 2 then none else tbl.get p

/-- `_find_tag_subfunction`: walk the `/`-prefixes left to right; `k` components are known so far
(`cur` = their entry).  Returns the deepest known entry and the number of components consumed. -/
def walk (tbl : Table) (w : Name) : Nat → Option Nat → Nat → Option (Nat × Nat)
  | 0, cur, k => cur.map (·, k)
  | fuel + 1, cur, k =>
    if k ≥ w.length then cur.map (·, k)
    else match walkGet tbl (w.take (k + 1)) with
      | some e => walk tbl w fuel (some e) (k + 1)
      | none => cur.map (·, k)

/-- the walk before fix bb9eaaf: it stepped onto the placeholder node (`Label/#/x` resolved to `Label/#`
with remainder `/x`).  Kept for the decided counter-example in `Props/C03`. -/
def walkLegacy (tbl : Table) (w : Name) : Nat → Option Nat → Nat → Option (Nat × Nat)
  | 0, cur, k => cur.map (·, k)
  | fuel + 1, cur, k =>
    if k ≥ w.length then cur.map (·, k)
    else match tbl.get (w.take (k + 1)) with
      | some e => walkLegacy tbl w fuel (some e) (k + 1)
      | none => cur.map (·, k)

/-- `_validate_remaining_terms`: first remaining component that is itself a known tag -/
def badTerm (tbl : Table) (pos : Nat) : Name → Option (Nat × Nat × Nat)
  | [] => none
  | c :: cs => match tbl.get [c] with
    | some e => some (pos, pos + c.length, e)
    | none => badTerm tbl (pos + c.length + 1) cs

/-- `_find_tag_entry` after splitting the clean tag text at `/` (`comps` in original case). -/
def findComps (v : Vocab) (fold : Str → Str) (comps : Name) : FindResult :=
  let w := foldName fold comps
  match v.table.get w with
  | some e => .found e (if w.getLast? == some ['#'] && w.length ≥ 2 then ['/', '#'] else [])
  | none =>
    match walk v.table w w.length none 0 with
    | none => .noValidTag (comps.head?.getD []).length
    | some (e, k) =>
      let rem := comps.drop k
      let remText : Str := if rem.isEmpty then [] else '/' :: joinSlash rem
      match v.valueChild fold e with
      | some ch => if rem.isEmpty then .found e [] else .found ch remText
      | none =>
        match badTerm v.table (joinLen (comps.take k) + 1) (w.drop k) with
        | some (a, b, x) => .invalidParent a b x
        | none => .found e remText

/-- `_find_tag_entry` on the tag text with the namespace already removed (`clean_tag`). -/
def find (v : Vocab) (fold : Str → Str) (clean : Str) : FindResult :=
  findComps v fold (splitSlash clean)

/-- `_find_tag_entry` with the walk before fix bb9eaaf -/
def findLegacy (v : Vocab) (fold : Str → Str) (clean : Str) : FindResult :=
  let comps := splitSlash clean
  let w := foldName fold comps
  match v.table.get w with
  | some e => .found e (if w.getLast? == some ['#'] && w.length ≥ 2 then ['/', '#'] else [])
  | none =>
    match walkLegacy v.table w w.length none 0 with
    | none => .noValidTag (comps.head?.getD []).length
    | some (e, k) =>
      let rem := comps.drop k
      let remText : Str := if rem.isEmpty then [] else '/' :: joinSlash rem
      match v.valueChild fold e with
      | some ch => if rem.isEmpty then .found e [] else .found ch remText
      | none =>
        match badTerm v.table (joinLen (comps.take k) + 1) (w.drop k) with
        | some (a, b, x) => .invalidParent a b x
        | none => .found e remText

/-- `HedTag._get_schema_namespace` -/
def namespaceOf (org : Str) : Str :=
  match org.idxOf? ':' with
  | none => []
  | some ic =>
    match org.idxOf? '/' with
    | some is => if ic > is then [] else org.take (ic + 1)
    | none => org.take (ic + 1)

/-- `long_tag_name` / `short_tag_name` of an entry: the `/#` is removed from both -/
def Vocab.longName (v : Vocab) (i : Nat) : Str :=
  let n := v.name i
  joinSlash (if n.getLast? == some ['#'] then n.dropLast else n)

def Vocab.shortName (v : Vocab) (i : Nat) : Str :=
  let n := v.name i
  let n' := if n.getLast? == some ['#'] then n.dropLast else n
  n'.getLast?.getD []

/-- `HedTag.short_tag` / `long_tag` for a resolved tag -/
def shortTag (v : Vocab) (ns : Str) (i : Nat) (rem : Str) : Str := ns ++ v.shortName i ++ rem
def longTag (v : Vocab) (ns : Str) (i : Nat) (rem : Str) : Str := ns ++ v.longName i ++ rem

end HedVerif.Schema
