/-
Model of sidecar validation — the sidecar layer only:
  `Sidecar.load_sidecar_files`, `Sidecar.column_data/all_hed_columns/get_column_refs`      (hed/models/sidecar.py)
  `ColumnMetadata._detect_column_type/hed_dict/get_hed_strings/expected_pound_sign_count`  (hed/models/column_metadata.py)
  `SidecarValidator.validate/validate_structure/_validate_column_structure/_validate_categorical_column/
   _validate_refs/_find_non_matching_braces/_check_for_key/_validate_pound_sign_count/_check_definitions_bad_spot`
                                                                                          (hed/validator/sidecar_validator.py)
  `HedString.__init__/remove_refs/shrink_defs/__str__` as far as `_validate_pound_sign_count` needs them
  (parse tree of `Model/Tok`, the `#` are counted on the tags that are left);
  `df_util.replace_ref` (both branches: the model of `Model/Assemble`, property C06).

What the HED *string* layer says about an entry string (HedValidator.run_basic_checks / run_full_string_checks,
definition extraction, which tag resolves to `Def-expand`) is NOT modelled: it enters through `Oracle`.

Every Python operation that is partial on a wrongly-typed JSON value (`d[k]`, `.get`, `.items()`, `.keys()`,
`pd.Series(non-strings)`, `refs_strings[key]`, `dict.update(non-dict)`) is an explicit `Except` step, so that
"never raises" is a theorem (`Props/C08.total`).  `Guards` switches the guards proposed in
/verif/fixes/C08_*.diff on (`Guards.fixed`: the tree the check is run against) or off (`Guards.unfixed`: the
tree as found; used only for the counter-example theorems).

JSON numbers are integers here (truthiness is all that is ever asked of a number).  A JSON object is an
association list in document order with distinct keys (`json.load` has already collapsed duplicates).
No Mathlib: this file is linked into the native driver.
-/
import HedVerif.Generated.C08Codes
import HedVerif.Model.Tok
import HedVerif.Model.Assemble
import HedVerif.Model.Defs

namespace HedVerif.SidecarV
open HedVerif.Generated

abbrev Str := List Char

inductive Json where
  | null
  | bool (b : Bool)
  | num (n : Int)
  | str (s : Str)
  | arr (xs : List Json)
  | obj (kvs : List (Str × Json))
deriving Inhabited

/-- Python exception classes that the modelled operations can raise; `unmodelled` marks a step whose Python
behaviour on that input is outside the model (pandas coercion of non-strings, `format_error(None)`):
`total` proves it unreachable. -/
inductive Exn where
  | attributeError | typeError | valueError | keyError | unmodelled
deriving DecidableEq, Repr, Inhabited

def HED : Str := ['H', 'E', 'D']
def NA : Str := ['n', '/', 'a']

/-! ## Python primitives on JSON values -/

/-- `bool(x)` -/
def truthy : Json → Bool
  | .null => false
  | .bool b => b
  | .num n => n != 0
  | .str s => !s.isEmpty
  | .arr xs => !xs.isEmpty
  | .obj kvs => !kvs.isEmpty

def isDict : Json → Bool
  | .obj _ => true
  | _ => false

def isStr : Json → Bool
  | .str _ => true
  | _ => false

/-- `d.get(k)` on an association list with distinct keys -/
def lookup (k : Str) : List (Str × α) → Option α
  | [] => none
  | (k', v) :: rest => if k == k' then some v else lookup k rest

/-- `x[k]`: `TypeError` unless `x` is a dict, `KeyError` if the key is missing -/
def getItem (x : Json) (k : Str) : Except Exn Json :=
  match x with
  | .obj kvs => match lookup k kvs with
    | some v => .ok v
    | none => .error .keyError
  | _ => .error .typeError

/-- `x.keys()` -/
def keys : Json → Except Exn (List Str)
  | .obj kvs => .ok (kvs.map (·.1))
  | _ => .error .attributeError

/-- `x.items()` -/
def items : Json → Except Exn (List (Str × Json))
  | .obj kvs => .ok kvs
  | _ => .error .attributeError

/-- `x.get(k, dflt)` -/
def attrGet (x : Json) (k : Str) (dflt : Json) : Except Exn Json :=
  match x with
  | .obj kvs => .ok ((lookup k kvs).getD dflt)
  | _ => .error .attributeError

/-- `for x in xs: ys.append(f(x))` where `f` may raise -/
def mapE (f : α → Except Exn β) : List α → Except Exn (List β)
  | [] => .ok []
  | x :: xs => match f x with
    | .error e => .error e
    | .ok y => match mapE f xs with
      | .error e => .error e
      | .ok ys => .ok (y :: ys)

mutual
/-- `SidecarValidator._check_for_key(key, data)` -/
def hasKey (k : Str) : Json → Bool
  | .obj kvs => kvs.any (fun kv => kv.1 == k) || hasKeyKvs k kvs
  | .arr xs => hasKeyList k xs
  | _ => false
/-- `_check_list` -/
def hasKeyList (k : Str) : List Json → Bool
  | [] => false
  | x :: xs => hasKey k x || hasKeyList k xs
/-- the `for sub_data in data_dict.values()` loop of `_check_dict` -/
def hasKeyKvs (k : Str) : List (Str × Json) → Bool
  | [] => false
  | (_, v) :: rest => hasKey k v || hasKeyKvs k rest
end

/-! ## Strings: braces, references, '#', replace -/

/-- `_find_non_matching_braces`: `op` = `open_brace_index` (`none` = -1), `i` = current index -/
def bracesGo (op : Option Nat) (i : Nat) : Str → List Nat
  | [] => match op with
    | some k => [k]
    | none => []
  | c :: cs =>
    if c == '{' then
      match op with
      | some k => k :: bracesGo (some i) (i + 1) cs
      | none => bracesGo (some i) (i + 1) cs
    else if c == '}' then
      match op with
      | some _ => bracesGo none (i + 1) cs
      | none => i :: bracesGo none (i + 1) cs
    else bracesGo op (i + 1) cs

def braces (s : Str) : List Nat := bracesGo none 0 s

/-- the character class `[a-z_\-0-9]` under `re.IGNORECASE` on a `str` pattern: ASCII letters, digits, `_`, `-`,
and the four non-ASCII characters whose simple case mapping lands in `a-z` (U+0130, U+0131, U+017F, U+212A) -/
def isRefChar (c : Char) : Bool :=
  c.isAlphanum || c == '_' || c == '-' || c.toNat == 0x130 || c.toNat == 0x131 || c.toNat == 0x17f || c.toNat == 0x212a

/-- `re.findall(r"\{([a-z_\-0-9]+)\}", s, re.IGNORECASE)`; `st` = the (reversed) run collected since the last `{` -/
def findRefsGo : Option Str → Str → List Str
  | _, [] => []
  | st, c :: cs =>
    if c == '{' then findRefsGo (some []) cs
    else match st with
      | none => findRefsGo none cs
      | some acc =>
        if isRefChar c then findRefsGo (some (c :: acc)) cs
        else if c == '}' && !acc.isEmpty then acc.reverse :: findRefsGo none cs
        else findRefsGo none cs

def findRefs (s : Str) : List Str := findRefsGo none s

/-- `s.count("#")` -/
def countHash (s : Str) : Nat := s.count '#'

/-- `text.replace(old, new)` for non-empty `old`; `skip` = characters of a matched `old` still to drop -/
def replaceGo (old new : Str) : Nat → Str → Str
  | _, [] => []
  | skip + 1, _ :: cs => replaceGo old new skip cs
  | 0, c :: cs =>
    if old.isPrefixOf (c :: cs) then new ++ replaceGo old new (old.length - 1) cs
    else c :: replaceGo old new 0 cs

def replaceAll (text old new : Str) : Str := replaceGo old new 0 text

/-- `itertools.product(*lists)` -/
def product : List (List α) → List (List α)
  | [] => [[]]
  | l :: ls => l.flatMap fun x => (product ls).map (x :: ·)

/-! ## Issues -/

/-- observable part of an issue dict: `code`, `severity`, `ec_sidecarColumnName`, `ec_sidecarKeyName`;
`kind` is the internal error type (`[]` for issues coming from the string layer) -/
structure Issue where
  kind : Str
  code : Str
  sev : Nat
  col : Option Str
  key : Option Str
deriving DecidableEq, Repr, Inhabited

/-- internal error kinds raised by the sidecar layer; code and severity come from the extracted table -/
inductive Kind where
  | hedUsedColumn | unknownType | hedUsed | blank | wrongType | naUsed
  | malformedRef | invalidRef | selfRef | nestedRef | poundValue | poundCategory | badDefLocation
  /-- an issue of `DefinitionDict.check_for_definitions` / `_add_definition` (a definition declared in the sidecar) -/
  | defn (i : Defs.Issue)
deriving DecidableEq, Repr

/-- `DefinitionErrors.*` constant behind each issue of the definition model -/
def defnName : Defs.Issue → Str
  | .wrongNumberGroups => C08.kind_WRONG_NUMBER_GROUPS
  | .noDefinitionContents => C08.kind_NO_DEFINITION_CONTENTS
  | .wrongNumberTags => C08.kind_WRONG_NUMBER_TAGS
  | .invalidDefExtension => C08.kind_INVALID_DEFINITION_EXTENSION
  | .defTagInDefinition => C08.kind_DEF_TAG_IN_DEFINITION
  | .badPropInDefinition => C08.kind_BAD_PROP_IN_DEFINITION
  | .wrongNumberPlaceholderTags => C08.kind_WRONG_NUMBER_PLACEHOLDER_TAGS
  | .placeholderNoTakesValue => C08.kind_PLACEHOLDER_NO_TAKES_VALUE
  | .duplicateDefinition => C08.kind_DUPLICATE_DEFINITION

def defnCode : Defs.Issue → Str
  | .wrongNumberGroups => C08.code_WRONG_NUMBER_GROUPS
  | .noDefinitionContents => C08.code_NO_DEFINITION_CONTENTS
  | .wrongNumberTags => C08.code_WRONG_NUMBER_TAGS
  | .invalidDefExtension => C08.code_INVALID_DEFINITION_EXTENSION
  | .defTagInDefinition => C08.code_DEF_TAG_IN_DEFINITION
  | .badPropInDefinition => C08.code_BAD_PROP_IN_DEFINITION
  | .wrongNumberPlaceholderTags => C08.code_WRONG_NUMBER_PLACEHOLDER_TAGS
  | .placeholderNoTakesValue => C08.code_PLACEHOLDER_NO_TAKES_VALUE
  | .duplicateDefinition => C08.code_DUPLICATE_DEFINITION

def defnSev : Defs.Issue → Nat
  | .wrongNumberGroups => C08.sev_WRONG_NUMBER_GROUPS
  | .noDefinitionContents => C08.sev_NO_DEFINITION_CONTENTS
  | .wrongNumberTags => C08.sev_WRONG_NUMBER_TAGS
  | .invalidDefExtension => C08.sev_INVALID_DEFINITION_EXTENSION
  | .defTagInDefinition => C08.sev_DEF_TAG_IN_DEFINITION
  | .badPropInDefinition => C08.sev_BAD_PROP_IN_DEFINITION
  | .wrongNumberPlaceholderTags => C08.sev_WRONG_NUMBER_PLACEHOLDER_TAGS
  | .placeholderNoTakesValue => C08.sev_PLACEHOLDER_NO_TAKES_VALUE
  | .duplicateDefinition => C08.sev_DUPLICATE_DEFINITION

def Kind.name : Kind → Str
  | .hedUsedColumn => C08.kind_SIDECAR_HED_USED_COLUMN
  | .unknownType => C08.kind_UNKNOWN_COLUMN_TYPE
  | .hedUsed => C08.kind_SIDECAR_HED_USED
  | .blank => C08.kind_BLANK_HED_STRING
  | .wrongType => C08.kind_WRONG_HED_DATA_TYPE
  | .naUsed => C08.kind_SIDECAR_NA_USED
  | .malformedRef => C08.kind_MALFORMED_COLUMN_REF
  | .invalidRef => C08.kind_INVALID_COLUMN_REF
  | .selfRef => C08.kind_SELF_COLUMN_REF
  | .nestedRef => C08.kind_NESTED_COLUMN_REF
  | .poundValue => C08.kind_INVALID_POUND_SIGNS_VALUE
  | .poundCategory => C08.kind_INVALID_POUND_SIGNS_CATEGORY
  | .badDefLocation => C08.kind_BAD_DEFINITION_LOCATION
  | .defn i => defnName i

def Kind.code : Kind → Str
  | .hedUsedColumn => C08.code_SIDECAR_HED_USED_COLUMN
  | .unknownType => C08.code_UNKNOWN_COLUMN_TYPE
  | .hedUsed => C08.code_SIDECAR_HED_USED
  | .blank => C08.code_BLANK_HED_STRING
  | .wrongType => C08.code_WRONG_HED_DATA_TYPE
  | .naUsed => C08.code_SIDECAR_NA_USED
  | .malformedRef => C08.code_MALFORMED_COLUMN_REF
  | .invalidRef => C08.code_INVALID_COLUMN_REF
  | .selfRef => C08.code_SELF_COLUMN_REF
  | .nestedRef => C08.code_NESTED_COLUMN_REF
  | .poundValue => C08.code_INVALID_POUND_SIGNS_VALUE
  | .poundCategory => C08.code_INVALID_POUND_SIGNS_CATEGORY
  | .badDefLocation => C08.code_BAD_DEFINITION_LOCATION
  | .defn i => defnCode i

def Kind.sev : Kind → Nat
  | .hedUsedColumn => C08.sev_SIDECAR_HED_USED_COLUMN
  | .unknownType => C08.sev_UNKNOWN_COLUMN_TYPE
  | .hedUsed => C08.sev_SIDECAR_HED_USED
  | .blank => C08.sev_BLANK_HED_STRING
  | .wrongType => C08.sev_WRONG_HED_DATA_TYPE
  | .naUsed => C08.sev_SIDECAR_NA_USED
  | .malformedRef => C08.sev_MALFORMED_COLUMN_REF
  | .invalidRef => C08.sev_INVALID_COLUMN_REF
  | .selfRef => C08.sev_SELF_COLUMN_REF
  | .nestedRef => C08.sev_NESTED_COLUMN_REF
  | .poundValue => C08.sev_INVALID_POUND_SIGNS_VALUE
  | .poundCategory => C08.sev_INVALID_POUND_SIGNS_CATEGORY
  | .badDefLocation => C08.sev_BAD_DEFINITION_LOCATION
  | .defn i => defnSev i

def mk (k : Kind) (col key : Option Str) : Issue := ⟨k.name, k.code, k.sev, col, key⟩

/-- `issue['severity'] < ErrorSeverity.WARNING` -/
def Issue.isError (i : Issue) : Bool := i.sev < C08.sevWarning

/-- `check_for_any_errors` -/
def anyError (is : List Issue) : Bool := is.any Issue.isError

/-- What the string layer reports, per request (computed by the harness with the real validator). -/
structure Oracle where
  /-- `run_basic_checks(HedString(s).remove_refs(), allow_placeholders=True)` as `(code, severity)` -/
  basic : Str → List (Str × Nat)
  /-- `run_full_string_checks(HedString(s))` -/
  full : Str → List (Str × Nat)
  /-- number of `Definition/` tags found in `s` (`find_tags({"Definition"}, recursive=True)`) -/
  defCount : Str → Nat
  /-- `sidecar._extract_definition_issues + sidecar_def_dict.issues`, with their contexts -/
  defIssues : List Issue
  /-- does the tag with this text resolve to `Def-expand` (`tag.short_base_tag.casefold() == "def-expand"`)? -/
  isDefExpand : Str → Bool := fun _ => false
  /-- the children of `HedString(s, schema)` as the definition model (`Model/Defs`, property C09) reads them: groups and
  tags with what the schema says about each tag (Def / Def-expand / Definition / other, printed name and extension,
  takes-value, unique-or-required).  Only consulted by `validateD` / `extractDefs` (sidecars that declare definitions). -/
  defTree : Str → List Defs.Node := fun _ => []
  /-- `str.casefold` on definition names -/
  fold : Str → Str := id

def ext (col key : Option Str) (cs : Str × Nat) : Issue := ⟨[], cs.1, cs.2, col, key⟩

/-- which of the proposed guards are present -/
structure Guards where
  /-- `ColumnMetadata.hed_dict`: a non-dict entry has no HED (C08_nondict_entry.diff) -/
  entry : Bool
  /-- `Sidecar.load_sidecar_files`: a non-dict top level is not merged but reported (C08_nondict_top_level.diff) -/
  top : Bool
  /-- `SidecarValidator.validate`: references to unknown columns are reported, not indexed (C08_unknown_ref_keyerror.diff) -/
  ref : Bool
  /-- `HedString.shrink_defs`: a group already replaced is not replaced a second time (C08_shrink_defs_twice.diff) -/
  shrink : Bool

def Guards.fixed : Guards := ⟨true, true, true, true⟩
def Guards.unfixed : Guards := ⟨false, false, false, false⟩

/-! ## Loading and column kinds -/

/-- `Sidecar.load_sidecar_files` on one file: `(load issues, loaded_dict)`.
Unfixed: `merged_dict.update(loaded_json)` — `TypeError` on scalars/`null`/lists of non-pairs, `ValueError` on a
non-empty string, `{}` for `[]` and `""`; a non-empty list is modelled as `TypeError` (a list of 2-sequences would be
accepted by `dict.update` and produce a garbage dict: not modelled, unfixed tree only). -/
def load (g : Guards) : Json → Except Exn (List Issue × List (Str × Json))
  | .obj kvs => .ok ([], kvs)
  | j =>
    if g.top then .ok ([mk .wrongType none none], [])
    else match j with
      | .arr [] => .ok ([], [])
      | .str [] => .ok ([], [])
      | .str _ => .error .valueError
      | _ => .error .typeError

/-- `ColumnType` members that occur; Python `None` (unknown) is `Option.none` -/
inductive CType where
  | ignore | categorical | value
deriving DecidableEq, Repr

/-- `ColumnMetadata._detect_column_type(dict_for_entry, basic_validation)` -/
def detect (basic : Bool) (e : Json) : Except Exn (Option CType) :=
  if !truthy e || !isDict e then .ok (some .ignore)
  else match keys e with
    | .error x => .error x
    | .ok ks =>
      if !ks.contains HED then .ok (some .ignore)
      else match getItem e HED with
        | .error x => .error x
        | .ok (.obj vs) => if basic && !vs.all (fun kv => isStr kv.2) then .ok none else .ok (some .categorical)
        | .ok (.str s) => if basic && countHash s == 0 then .ok none else .ok (some .value)
        | .ok _ => .ok none

/-- a `ColumnMetadata(name, source=loaded_dict)`: `self._source[self.column_name]` is `entry` (the name is a key of
the same dict), `column_type` as stored by the constructor or overwritten by `_get_unvalidated_data` -/
structure Col where
  name : Str
  entry : Json
  ctype : Option CType

/-- `Sidecar.column_data` -/
def columnData (src : List (Str × Json)) : Except Exn (List Col) :=
  mapE (fun ne => match detect true ne.2 with
    | .error x => .error x
    | .ok t => .ok ⟨ne.1, ne.2, t⟩) src

/-- `ColumnMetadata.hed_dict` (source is the loaded dict) -/
def hedDict (g : Guards) (entry : Json) : Except Exn Json :=
  if g.entry && !isDict entry then .ok (.obj []) else attrGet entry HED (.obj [])

/-- `pd.Series(x, dtype=str).items()`: a string gives one row (its index `0` is never used as a key name), a dict of
strings one row per key; anything else is coerced by pandas in ways not modelled -/
def series : Json → Except Exn (List (Str × Str))
  | .str s => .ok [([], s)]
  | .obj kvs => mapE (fun kv => match kv.2 with
      | .str s => .ok (kv.1, s)
      | _ => .error .unmodelled) kvs
  | _ => .error .unmodelled

/-- `ColumnMetadata.get_hed_strings` -/
def hedStrings (g : Guards) (c : Col) : Except Exn (List (Str × Str)) :=
  match c.ctype with
  | none => .ok []
  | some _ => match hedDict g c.entry with
    | .error x => .error x
    | .ok d => series d

/-! ## validate_structure -/

def reservedColumn (n : Str) : Bool := C08.reservedColumnNames.contains n
def reservedCategory (k : Str) : Bool := C08.reservedCategoryValues.contains k

/-- one iteration of the loop of `_validate_categorical_column` -/
def categoryIssue (col : Str) (kv : Str × Json) : List Issue :=
  if !truthy kv.2 then [mk .blank (some col) (some kv.1)]
  else if !isStr kv.2 then [mk .wrongType (some col) (some kv.1)]
  else if reservedCategory kv.1 then [mk .naUsed (some col) (some kv.1)]
  else []

/-- `_validate_categorical_column` -/
def categoricalIssues (col : Str) (e : Json) : Except Exn (List Issue) :=
  match getItem e HED with
  | .error x => .error x
  | .ok raw => match items raw with
    | .error x => .error x
    | .ok its => .ok ((if !truthy raw then [mk .blank (some col) none] else []) ++ its.flatMap (categoryIssue col))

/-- `_validate_column_structure` -/
def columnStructure (ne : Str × Json) : Except Exn (List Issue) :=
  if reservedColumn ne.1 then .ok [mk .hedUsedColumn (some ne.1) none]
  else match detect false ne.2 with
    | .error x => .error x
    | .ok none => .ok [mk .unknownType (some ne.1) none]
    | .ok (some .ignore) => .ok (if hasKey HED ne.2 then [mk .hedUsed (some ne.1) none] else [])
    | .ok (some .categorical) => categoricalIssues ne.1 ne.2
    | .ok (some .value) => .ok []

/-- `validate_structure` (with the load issues of the fixed loader in front) -/
def structureIssues (loadIssues : List Issue) (src : List (Str × Json)) : Except Exn (List Issue) :=
  match mapE columnStructure src with
  | .error x => .error x
  | .ok ls => .ok (loadIssues ++ ls.flatten)

/-! ## _validate_refs -/

/-- issues of one entry string in `_validate_refs` -/
def stringRefIssues (possible : List Str) (col : Str) (key : Option Str) (s : Str) : List Issue :=
  (braces s).map (fun _ => mk .malformedRef (some col) key)
  ++ ((findRefs s).filter (fun r => !possible.contains r)).map (fun _ => mk .invalidRef (some col) key)

/-- `len(hed_strings) > 1` decides whether the key name is part of the context -/
def keyCtx (strs : List (Str × Str)) (k : Str) : Option Str := if strs.length > 1 then some k else none

/-- `sidecar.all_hed_columns`, plus `"HED"` -/
def possibleRefs (cols : List Col) : List Str :=
  let p := (cols.filter (fun c => c.ctype != some .ignore)).map (·.name)
  if p.contains HED then p else p ++ [HED]

/-- the per-column part of `_validate_refs`: `(column, references, issues)` -/
def colRefs (g : Guards) (possible : List Str) (c : Col) : Except Exn (Str × List Str × List Issue) :=
  match hedStrings g c with
  | .error x => .error x
  | .ok strs =>
    let refs := strs.flatMap (fun ks => findRefs ks.2)
    .ok (c.name, refs,
         strs.flatMap (fun ks => stringRefIssues possible c.name (keyCtx strs ks.1) ks.2)
         ++ (if refs.contains c.name then [mk .selfRef none none] else []))

/-- the final loop of `_validate_refs` over `found_column_references` -/
def nestedIssues (per : List (Str × List Str × List Issue)) : List Issue :=
  let found := per.filter (fun p => !p.2.1.isEmpty)
  found.flatMap fun p => (p.2.1.filter (fun r => found.any (fun q => q.1 == r) && r != p.1)).map
    (fun _ => mk .nestedRef none none)

def refIssues (g : Guards) (cols : List Col) : Except Exn (List Issue) :=
  match mapE (colRefs g (possibleRefs cols)) cols with
  | .error x => .error x
  | .ok per => .ok (per.flatMap (fun p => p.2.2) ++ nestedIssues per)

/-! ## the per-entry loop of `validate` -/

/-! ### the tree whose `#` are counted

`_validate_pound_sign_count` works on a deep copy of the entry's `HedString` *after* `remove_refs()`; it calls
`remove_definitions()` (a no-op here: the count is only made for entries in which no `Definition` tag was found) and
`shrink_defs()`, and counts `"#"` in `str()` of what is left.  `str()` prints each remaining tag (its short form when it
resolves: namespace + short name + the extension as written, else its source text) joined by `,` and parentheses, so the
number of `#` printed is the number of `#` in the source spans of the remaining tags. -/

/-- source text of a tag -/
def tagText (s : Str) (a b : Nat) : Str := Tree.slice s a b

/-- `HedTag.is_column_ref`: `org_tag.startswith('{') and org_tag.endswith('}')` -/
def isRefTag (t : Str) : Bool := t.head? == some '{' && t.getLast? == some '}'

mutual
/-- `HedString.remove_refs` = `HedGroup.remove(ref tags)`: a group that becomes empty is pruned too -/
def dropNode (s : Str) : Node → Option Node
  | .tag a b => if isRefTag (tagText s a b) then none else some (.tag a b)
  | .group a b kids =>
    let k := dropList s kids
    if k.isEmpty && !kids.isEmpty then none else some (.group a b k)
def dropList (s : Str) : List Node → List Node
  | [] => []
  | n :: ns =>
    match dropNode s n with
    | none => dropList s ns
    | some m => m :: dropList s ns
end

/-- the direct child tags of a group that resolve to `Def-expand`, in order -/
def defExpandTags (O : Oracle) (s : Str) : List Node → List (Nat × Nat)
  | [] => []
  | .tag a b :: ns => if O.isDefExpand (tagText s a b) then (a, b) :: defExpandTags O s ns else defExpandTags O s ns
  | .group .. :: ns => defExpandTags O s ns

mutual
/-- Does `shrink_defs` raise?  It replaces, for every `Def-expand` tag found (`find_tags(recursive=True)`), the group
holding the tag by the tag — in the group's parent, searched by identity.  A group (other than the string itself) holding
two such tags is looked for a second time after it has been replaced: `KeyError` (the tree as found). -/
def twiceNode (O : Oracle) (s : Str) : Node → Bool
  | .tag .. => false
  | .group _ _ kids => (defExpandTags O s kids).length ≥ 2 || twiceList O s kids
def twiceList (O : Oracle) (s : Str) : List Node → Bool
  | [] => false
  | n :: ns => twiceNode O s n || twiceList O s ns
end

mutual
/-- `#` printed by `str()` after `shrink_defs`: a group holding a `Def-expand` tag prints as that tag (the first one) -/
def hashNode (O : Oracle) (s : Str) : Node → Nat
  | .tag a b => countHash (tagText s a b)
  | .group _ _ kids =>
    match defExpandTags O s kids with
    | (a, b) :: _ => countHash (tagText s a b)
    | [] => hashList O s kids
def hashList (O : Oracle) (s : Str) : List Node → Nat
  | [] => 0
  | n :: ns => hashNode O s n + hashList O s ns
end

/-- the children of `HedString(s)` after `remove_refs()` (unbalanced parentheses: no children) -/
def entryTree (s : Str) : List Node := dropList s (Tree.construct s)

/-- `str(hed_string_copy).count("#")` of `_validate_pound_sign_count`, as a function of the entry text -/
def treeHash (O : Oracle) (s : Str) : Nat := hashList O s (entryTree s)

/-- the count, or the `KeyError` of `shrink_defs` -/
def poundOf (g : Guards) (O : Oracle) (s : Str) : Except Exn Nat :=
  if !g.shrink && twiceList O s (entryTree s) then .error .keyError else .ok (treeHash O s)

/-- `_validate_pound_sign_count` + `expected_pound_sign_count`; for a column of no usable type the error type is
`None` (never reached: such columns have no strings) -/
def poundCount (g : Guards) (O : Oracle) (t : Option CType) (s : Str) (col key : Option Str) : Except Exn (List Issue) :=
  match poundOf g O s with
  | .error x => .error x
  | .ok n =>
    match t with
    | some .value => .ok (if n != 1 then [mk .poundValue col key] else [])
    | some .categorical => .ok (if n != 0 then [mk .poundCategory col key] else [])
    | _ => if n != 0 then .error .unmodelled else .ok []

/-- `df_util.replace_ref(text, "{ref}", value)`: `str.replace` for a proper value, the splice that also removes the
surrounding comma / parentheses for `n/a` and `""` (`Assemble.replaceRef`, the model of property C06).  The oracle
argument is not used; it is kept for callers. -/
def replaceRef (_O : Oracle) (text ref value : Str) : Str := Assemble.replaceRef text ref value

/-- `ref_dict = dict(zip(refs, combination))`; `ref_dict[ref]` (later duplicates win) -/
def refDictGet (rd : List (Str × Str)) (r : Str) : Str := (lookup r rd.reverse).getD []

/-- the string checked for one combination -/
def combine (O : Oracle) (s : Str) (refs : List Str) (combo : List Str) : Str :=
  refs.foldl (fun acc r => replaceRef O acc r (refDictGet (refs.zip combo) r)) s

/-- full-string checks of one entry over every combination of the referenced columns' entries -/
def fullIssues (g : Guards) (O : Oracle) (refsStrings : List (Str × List Str)) (s : Str) (col key : Option Str) :
    Except Exn (List Issue) :=
  let refs := findRefs s
  let unknown := refs.filter (fun r => (lookup r refsStrings).isNone)
  if g.ref && !unknown.isEmpty then .ok (unknown.map (fun _ => mk .invalidRef col key))
  else match mapE (fun r => match lookup r refsStrings with
      | some l => .ok l
      | none => .error .keyError) refs with
    | .error x => .error x
    | .ok lists => .ok ((product lists).flatMap fun combo => (O.full (combine O s refs combo)).map (ext col key))

/-- one entry string in the loop of `validate`: `(number of definitions, issues)` -/
def entryIssues (g : Guards) (O : Oracle) (refsStrings : List (Str × List Str)) (isRefCol : Bool)
    (t : Option CType) (col : Str) (key : Option Str) (s : Str) : Except Exn (Nat × List Issue) :=
  let b := (O.basic s).map (ext (some col) key)
  let dc := O.defCount s
  match (if dc == 0 then poundCount g O t s (some col) key else .ok []) with
  | .error x => .error x
  | .ok p => match (if isRefCol then .ok [] else fullIssues g O refsStrings s (some col) key) with
    | .error x => .error x
    | .ok f => .ok (dc, b ++ p ++ f)

/-- `_check_definitions_bad_spot` for one column, from the definition counts of its strings -/
def badSpot (col : Str) (dcs : List Nat) : List Issue :=
  if dcs.any (· > 0) && dcs.any (· == 0) then List.replicate dcs.sum (mk .badDefLocation (some col) none) else []

/-- one column in the loop of `validate` -/
def columnIssues (g : Guards) (O : Oracle) (refsStrings : List (Str × List Str)) (allRefCols : List Str) (c : Col) :
    Except Exn (List Issue) :=
  match detect false c.entry with            -- `_get_unvalidated_data`
  | .error x => .error x
  | .ok t => match hedStrings g { c with ctype := t } with
    | .error x => .error x
    | .ok strs =>
      match mapE (fun ks => entryIssues g O refsStrings (allRefCols.contains c.name) t c.name (keyCtx strs ks.1) ks.2) strs with
      | .error x => .error x
      | .ok rs => .ok (rs.flatMap (·.2) ++ badSpot c.name (rs.map (·.1)))

/-- `Sidecar.get_column_refs` -/
def columnRefs (g : Guards) (cols : List Col) : Except Exn (List Str) :=
  match mapE (fun c => if c.ctype == some .ignore then .ok [] else hedStrings g c) cols with
  | .error x => .error x
  | .ok ss => .ok (ss.flatMap fun strs => strs.flatMap fun ks => findRefs ks.2)

/-- `refs_strings` -/
def refsStringsOf (g : Guards) (cols : List Col) : Except Exn (List (Str × List Str)) :=
  match mapE (fun c => match hedStrings g c with
      | .error x => .error x
      | .ok strs => .ok (c.name, strs.map (·.2))) cols with
  | .error x => .error x
  | .ok rs => .ok (if (lookup HED rs).isSome then rs else rs ++ [(HED, [NA])])

/-- `Sidecar(io.StringIO(json_text)).validate(schema)` up to the order of the issues -/
def validate (g : Guards) (O : Oracle) (doc : Json) : Except Exn (List Issue) :=
  match load g doc with
  | .error x => .error x
  | .ok (li, src) =>
  match structureIssues li src with
  | .error x => .error x
  | .ok sIss =>
  match columnData src with
  | .error x => .error x
  | .ok cols =>
  match refIssues g cols with
  | .error x => .error x
  | .ok rIss =>
  if anyError (sIss ++ rIss) then .ok (sIss ++ rIss)
  else
  match columnRefs g cols with
  | .error x => .error x
  | .ok allRefCols =>
  match refsStringsOf g cols with
  | .error x => .error x
  | .ok refsStrings =>
  match mapE (columnIssues g O refsStrings allRefCols) cols with
  | .error x => .error x
  | .ok ls => .ok (sIss ++ rIss ++ O.defIssues ++ ls.flatten)

/-! ## sidecars that declare definitions

`Sidecar.get_def_dict(hed_schema, extra_def_dicts)` → `extract_definitions`: every HED string of the sidecar, column by column
and key by key (`get_hed_strings()` of the columns as typed by the constructor), goes through
`DefinitionDict.check_for_definitions` on one dictionary: a definition is kept under its folded name unless it breaks a
condition or the name is taken (first wins).  Its issues carry the column and — when the column has several entries — the key
(`_extract_definition_issues`).  `DefinitionDict([sidecar dict] + extra)` then merges the external dictionaries: a name that
the sidecar already defines yields one more `duplicateDefinition` issue, whose context is empty (the context list it kept was
popped empty long before).  `SidecarValidator.validate` adds both lists after the early exit and skips the `#` count of
entries in which a `Definition` tag is found. -/

/-- an issue of `check_for_definitions` in its sidecar context -/
def defLabel (col : Str) (key : Option Str) (i : Defs.Issue) : Issue := mk (.defn i) (some col) key

/-- one entry string through `check_for_definitions` -/
def extractString (O : Oracle) (col : Str) (key : Option Str) (acc : Defs.DefDict × List Issue) (s : Str) :
    Defs.DefDict × List Issue :=
  let r := Defs.acceptString O.fold acc.1 (O.defTree s)
  (r.1, acc.2 ++ r.2.map (defLabel col key))

/-- one column: `(name, get_hed_strings())` -/
def extractColumn (O : Oracle) (acc : Defs.DefDict × List Issue) (c : Str × List (Str × Str)) : Defs.DefDict × List Issue :=
  c.2.foldl (fun a ks => extractString O c.1 (keyCtx c.2 ks.1) a ks.2) acc

/-- `Sidecar.extract_definitions`: the sidecar's dictionary and `_extract_definition_issues` -/
def extractDefs (g : Guards) (O : Oracle) (cols : List Col) : Except Exn (Defs.DefDict × List Issue) :=
  match mapE (fun c => match hedStrings g c with
      | .error x => .error x
      | .ok strs => .ok (c.name, strs)) cols with
  | .error x => .error x
  | .ok cs => .ok (cs.foldl (extractColumn O) ([], []))

/-- `DefinitionDict([sidecar dict, external…]).issues`: external names (folded, in order) the sidecar already defines -/
def mergeIssues (dd : Defs.DefDict) (ext : List Str) : List Issue :=
  (ext.filter fun k => (Defs.lookup dd k).isSome).map fun _ => mk (.defn .duplicateDefinition) none none

/-- `find_tags({"Definition"}, recursive=True, include_groups=0)` on the entry's tree -/
def defCountOf (O : Oracle) (s : Str) : Nat := ((Defs.allTagsL (O.defTree s)).filter fun t => t.base == .definition).length

/-- the oracle with its two definition fields computed instead of supplied -/
def withDefs (O : Oracle) (dis : List Issue) : Oracle := { O with defIssues := dis, defCount := defCountOf O }

/-- the sidecar's own definitions, from the document: `Sidecar(doc).get_def_dict(schema)` -/
def extractDefsDoc (g : Guards) (O : Oracle) (doc : Json) : Except Exn (Defs.DefDict × List Issue) :=
  match load g doc with
  | .error x => .error x
  | .ok (_, src) =>
  match columnData src with
  | .error x => .error x
  | .ok cols => extractDefs g O cols

/-- `Sidecar(..).validate(schema, extra_def_dicts)` with the definition part computed by the model: `O.defIssues` and
`O.defCount` are not consulted; `ext` = the folded names defined by the external dictionaries, in order.
(The code extracts after the early exit; the calls that could raise there — `get_hed_strings` — are those `_validate_refs`
already made, so extracting first changes nothing observable.) -/
def validateD (g : Guards) (O : Oracle) (ext : List Str) (doc : Json) : Except Exn (List Issue) :=
  match extractDefsDoc g O doc with
  | .error x => .error x
  | .ok (dd, dis) => validate g (withDefs O (dis ++ mergeIssues dd ext)) doc

/-! names used in DESIGN.md for the parts of the model (`structure` is a Lean keyword: `structureIssues`) -/
abbrev kind := @detect
abbrev refs := @refIssues

end HedVerif.SidecarV
