/-
Model of unit handling:
  `UnitEntry.finalize_entry/_get_conversion_factor/get_conversion_factor`,
  `UnitClassEntry.finalize_entry/get_derivative_unit_entry`          (hed/schema/hed_schema_entry.py)
  `HedSchema._get_modifiers_for_unit`                                 (hed/schema/hed_schema.py)
  `HedTag._get_tag_units_portion/get_stripped_unit_value/value_as_default_unit/default_unit`
  `UnitValueValidator.check_tag_unit_class_units_are_valid/_check_units`, numericClass pattern.

Numbers are exact decimals `m · 10^e` (conversion factors are decimal or `10^n` literals).
`plural` of a unit name is data supplied with the vocabulary (Python `inflect`, not modelled).
-/
import HedVerif.Model.Tok

namespace HedVerif.Units

/-- exact decimal `m · 10^e` -/
structure Dec where
  m : Int
  e : Int
deriving Repr, DecidableEq, Inhabited

def Dec.mul (a b : Dec) : Dec := ⟨a.m * b.m, a.e + b.e⟩
def Dec.one : Dec := ⟨1, 0⟩
/-- scaling by an integer -/
def Dec.scale (k : Int) (a : Dec) : Dec := ⟨k * a.m, a.e⟩

structure UnitDef where
  name : Str
  isSymbol : Bool
  isSI : Bool
  isPrefix : Bool
  factor : Option Dec      -- `conversionFactor` attribute if declared
  plural : Str             -- plural of the lower-cased name (data)
deriving Repr, Inhabited

structure Modifier where
  name : Str
  forSymbol : Bool         -- SIUnitSymbolModifier
  forName : Bool           -- SIUnitModifier
  factor : Dec
deriving Repr, Inhabited

structure UnitClass where
  name : Str
  units : List UnitDef
  defaultUnit : Option Str
deriving Repr, Inhabited

def lower (s : Str) : Str := s.map Char.toLower

/-- `_get_modifiers_for_unit` -/
def modifiersFor (mods : List Modifier) (u : UnitDef) : List Modifier :=
  if !u.isSI then []
  else if u.isSymbol then mods.filter (·.forSymbol)
  else mods.filter (·.forName)

/-- base spellings of a unit: the symbol itself, or lower-cased name and its plural -/
def baseSpellings (u : UnitDef) : List Str :=
  if u.isSymbol then [u.name] else [lower u.name, u.plural]

/-- A derived spelling: key, unit index in class, and the prefix factor (`none` = no prefix). -/
structure Derived where
  key : Str
  unit : Nat
  modFactor : Option Dec
deriving Repr, Inhabited

/-- `UnitEntry.finalize_entry`: derived spellings of one unit -/
def deriveUnit (mods : List Modifier) (i : Nat) (u : UnitDef) : List Derived :=
  (baseSpellings u).flatMap fun d =>
    ⟨d, i, none⟩ :: (modifiersFor mods u).map fun m => ⟨m.name ++ d, i, some m.factor⟩

/-- `UnitClassEntry.finalize_entry`: the class dictionary, newest binding first
(`dict.update` in unit order: later units override). -/
def deriveClass (mods : List Modifier) (c : UnitClass) : List Derived :=
  let rec go (i : Nat) : List UnitDef → List Derived → List Derived
    | [], acc => acc
    | u :: us, acc => go (i + 1) us ((deriveUnit mods i u).reverse ++ acc)
  go 0 c.units []

def getKey (tbl : List Derived) (k : Str) : Option Derived := tbl.find? (fun d => d.key == k)

/-- `get_derivative_unit_entry`: exact hit that is a symbol, else case-folded hit that is not. -/
def lookupClass (mods : List Modifier) (c : UnitClass) (fold : Str → Str) (units : Str) : Option Derived :=
  let tbl := deriveClass mods c
  let isSym (d : Derived) : Bool := (c.units[d.unit]?.map (·.isSymbol)).getD false
  match getKey tbl units with
  | some d => if isSym d then some d else
      match getKey tbl (fold units) with
      | some d2 => if isSym d2 then none else some d2
      | none => none
  | none =>
      match getKey tbl (fold units) with
      | some d2 => if isSym d2 then none else some d2
      | none => none

/-- Python `str.rpartition(" ")`: (before, after) of the last blank; ("", s) when there is none -/
def rpartitionBlank (s : Str) : Str × Str :=
  let r := s.reverse
  match r.idxOf? ' ' with
  | none => ([], s)
  | some i => ((r.drop (i + 1)).reverse, (r.take i).reverse)

structure Match where
  value : Str
  unitText : Str
  cls : Nat
  d : Derived
deriving Repr, Inhabited

/-- `_get_tag_units_portion` over the tag's unit classes in order -/
def unitsPortion (mods : List Modifier) (classes : List UnitClass) (fold : Str → Str) (ext : Str) :
    Option Match :=
  let (value, units) := rpartitionBlank ext
  if units.isEmpty then none else
  let rec go (ci : Nat) : List UnitClass → Option Match
    | [] => none
    | c :: cs =>
      let isPre (d : Derived) : Bool := (c.units[d.unit]?.map (·.isPrefix)).getD false
      match lookupClass mods c fold units with
      | some d => if !isPre d then some ⟨value, units, ci, d⟩ else
          match lookupClass mods c fold value with
          | some d2 => if isPre d2 then some ⟨units, value, ci, d2⟩ else go (ci + 1) cs
          | none => go (ci + 1) cs
      | none =>
          match lookupClass mods c fold value with
          | some d2 => if isPre d2 then some ⟨units, value, ci, d2⟩ else go (ci + 1) cs
          | none => go (ci + 1) cs
  go 0 classes

/-- `get_stripped_unit_value`: (stripped value, matched unit text if any) -/
def stripped (mods : List Modifier) (classes : List UnitClass) (fold : Str → Str) (ext : Str) :
    Str × Option Match :=
  match unitsPortion mods classes fold ext with
  | some m => if m.value.isEmpty then (ext, none) else (m.value, some m)
  | none => (ext, none)

/-! ### numeric literals: `^[+-]?(\d+(\.\d*)?|\.\d+)([eE][+-]?\d+)?$` -/

def isDigit (c : Char) : Bool := '0' ≤ c && c ≤ '9'

def takeDigits (s : Str) : Str × Str := (s.takeWhile isDigit, s.dropWhile isDigit)

def digitsVal (ds : Str) : Nat := ds.foldl (fun acc c => acc * 10 + (c.toNat - '0'.toNat)) 0

/-- an optional leading sign: (negative?, rest) -/
def splitSign (s : Str) : Bool × Str :=
  match s with
  | '+' :: r => (false, r)
  | '-' :: r => (true, r)
  | _ => (false, s)

/-- the mantissa of a literal after its sign: (integer digits, fraction digits, rest) -/
def mantOf (s1 : Str) : Option (Str × Str × Str) :=
  let (ip, s2) := takeDigits s1
  if !ip.isEmpty then
    match s2 with
    | '.' :: r => let (fp, s3) := takeDigits r; some (ip, fp, s3)
    | _ => some (ip, [], s2)
  else
    match s2 with
    | '.' :: r => let (fp, s3) := takeDigits r; if fp.isEmpty then none else some ([], fp, s3)
    | _ => none

/-- the optional exponent part: `[eE][+-]?\d+` up to the end of the text -/
def expOf (rest : Str) : Option Int :=
  match rest with
  | [] => some 0
  | c :: r =>
    if c == 'e' || c == 'E' then
      let (eneg, r1) := splitSign r
      let (ed, r2) := takeDigits r1
      if ed.isEmpty || !r2.isEmpty then none
      else
        let ev : Int := digitsVal ed
        some (if eneg then -ev else ev)
    else none

/-- sign, mantissa and exponent put together -/
def finishNumber (neg : Bool) (mant : Option (Str × Str × Str)) : Option Dec :=
  match mant with
  | none => none
  | some (ip, fp, rest) =>
    let m : Int := digitsVal (ip ++ fp)
    let m := if neg then -m else m
    let e0 : Int := -(fp.length : Int)
    (expOf rest).map (fun ev => ⟨m, e0 + ev⟩)

/-- parse a numeric literal accepted by the numericClass pattern into an exact decimal -/
def parseNumber (s : Str) : Option Dec :=
  let (neg, s1) := splitSign s
  finishNumber neg (mantOf s1)

def isNumeric (s : Str) : Bool := (parseNumber s).isSome

/-! ### validation and conversion -/

inductive Issue where
  | unitsInvalid      -- UNITS_INVALID (error)
  | unitsMissing      -- UNITS_MISSING (warning)
  | valueInvalid      -- VALUE_INVALID (error): numericClass pattern does not match
deriving Repr, DecidableEq, Inhabited

/-- `check_tag_unit_class_units_are_valid` for a tag whose value class is numeric (`numeric = true`)
or that has no value-class pattern. -/
def check (mods : List Modifier) (classes : List UnitClass) (fold : Str → Str) (numeric : Bool)
    (ext : Str) : List Issue :=
  if classes.isEmpty then [] else
  let (sv, m) := stripped mods classes fold ext
  let bad := sv.contains ' '
  let sv' := if bad then sv.takeWhile (· != ' ') else sv
  let v : List Issue := if numeric && !isNumeric sv' then [.valueInvalid] else []
  match m with
  | some _ => v
  | none => v ++ [if bad then .unitsInvalid else .unitsMissing]

/-- `UnitEntry.get_conversion_factor(unit_name)` apart from the `conversionFactor` test: the prefix
factor found in the unit's *own* derived table under the text as typed, else under its folded form
(fix 3d67c73). `none` = no such key. -/
def ownFactor (mods : List Modifier) (i : Nat) (u : UnitDef) (fold : Str → Str) (text : Str) :
    Option (Option Dec) :=
  let own := (deriveUnit mods i u).reverse
  match getKey own text with
  | some d => some d.modFactor
  | none => (getKey own (fold text)).map (·.modFactor)

inductive ValueResult where
  | value (d : Dec)
  | absent                 -- returns None
  | raises (what : Str)    -- a Python exception escapes
deriving Repr, DecidableEq, Inhabited

/-- `value_as_default_unit` (after fix 3d67c73: the factor is found under the folded key too). -/
def valueAsDefault (mods : List Modifier) (classes : List UnitClass) (fold : Str → Str) (ext : Str) :
    ValueResult :=
  let (value, units) := rpartitionBlank ext
  if value.isEmpty then
    -- no blank: the whole extension is the value, in default units
    match classes with
    | [c] =>
      match c.defaultUnit.bind (fun n => c.units.find? (·.name == n)) with
      | none => .raises "AttributeError".toList       -- `self.default_unit.name` on None
      | some u =>
        if units.isEmpty then .absent else
        match u.factor with
        | none => .absent
        | some f =>
          -- get_conversion_factor(u.name): key as declared, else folded, in the unit's own table
          match ownFactor mods 0 u fold u.name with
          | none => .absent
          | some mf =>
            match parseNumber units with
            | none => .raises "ValueError".toList
            | some n => .value (n.mul (f.mul (mf.getD Dec.one)))
    | _ => .raises "AttributeError".toList
  else
    match unitsPortion mods classes fold ext with
    | none => .absent
    | some m =>
      if m.value.isEmpty then .absent else
      match classes[m.cls]?.bind (·.units[m.d.unit]?) with
      | none => .absent
      | some u =>
        match u.factor with
        | none => .absent
        | some f =>
          match ownFactor mods m.d.unit u fold m.unitText with
          | none => .absent
          | some mf =>
            match parseNumber m.value with
            | none => .raises "ValueError".toList
            | some n => .value (n.mul (f.mul (mf.getD Dec.one)))

/-! ### a decidable well-formedness condition on a unit class (evaluated by the driver for every
bundled class; hypothesis of the closed theorems of C11) -/

/-- is the derived entry one of a symbol unit of the class -/
def isSymD (c : UnitClass) (d : Derived) : Bool := (c.units[d.unit]?.map (·.isSymbol)).getD false

/-- (1) one entry per spelling; (2) no spelling is empty (or the folded empty text); (3) spellings of
name units are fixed by case folding; (4) no symbol spelling folds to a name spelling -/
def unitsDistinct (mods : List Modifier) (c : UnitClass) (fold : Str → Str) : Bool :=
  let tbl := deriveClass mods c
  (tbl.all fun a => tbl.all fun b => a.key != b.key || (a.unit == b.unit && a.modFactor == b.modFactor))
  && (tbl.all fun a => a.key != [] && a.key != fold [])
  && (tbl.all fun a => isSymD c a || fold a.key == a.key)
  && (tbl.all fun a => !isSymD c a || tbl.all fun b => isSymD c b || fold a.key != b.key)

end HedVerif.Units
