/-
Model of `OnsetValidator.validate_temporal_relations/_handle_onset_or_offset`
(hed/validator/onset_validator.py) and of the time-point construction
`df_util.split_delay_tags` / `sort_dataframe_by_onsets` / `filter_series_by_onset`.

Names are compared after case folding; `fold` is a parameter (Python: `str.casefold`).
Times are integers (the harness draws times on a 1/8 s grid and scales by 8).
-/
namespace HedVerif.Temporal

abbrev Str := List Char

inductive MKind where
  | onset | offset | inset
deriving Repr, DecidableEq, Inhabited

/-- One top-level temporal group: its anchor kind and the extension of its first Def tag
(`def_tag.extension`, name with value). -/
structure Marker where
  kind : MKind
  name : Str
deriving Repr, DecidableEq, Inhabited

inductive Err where
  | sameDefs          -- ONSET_SAME_DEFS_ONE_ROW
  | offsetBeforeOnset -- OFFSET_BEFORE_ONSET
  | insetBeforeOnset  -- INSET_BEFORE_ONSET
deriving Repr, DecidableEq, Inhabited

/-- `self._onsets[k] = v` on a dict keyed by folded name: insert if absent. -/
def insertKey (op : List Str) (k : Str) : List Str := if op.contains k then op else k :: op

/-- `_handle_onset_or_offset`: new open-scope dictionary and the error, if any. -/
def handle (op : List Str) (kind : MKind) (key : Str) : List Str × Option Err :=
  match kind with
  | .onset => (insertKey op key, none)
  | .offset => if op.contains key then (op.erase key, none) else (op, some .offsetBeforeOnset)
  | .inset => if op.contains key then (op, none) else (op, some .insetBeforeOnset)

/-- The loop body of `validate_temporal_relations` for one marker.
State: open scopes, names used in this time point. Output: error for this marker, if any. -/
def stepMarker (fold : Str → Str) (st : List Str × List Str) (m : Marker) :
    (List Str × List Str) × Option Err :=
  let key := fold m.name
  if st.2.contains key then (st, some .sameDefs)
  else
    let (op', e) := handle st.1 m.kind key
    ((op', key :: st.2), e)

/-- One time point: `used_def_names` starts empty. Errors are tagged with the marker's position. -/
def stepPoint (fold : Str → Str) (op : List Str) (ms : List Marker) : List Str × List (Nat × Err) :=
  let rec go (st : List Str × List Str) (i : Nat) : List Marker → List Str × List (Nat × Err)
    | [] => (st.1, [])
    | m :: rest =>
      let (st', e) := stepMarker fold st m
      let (op', es) := go st' (i + 1) rest
      (op', match e with | some x => (i, x) :: es | none => es)
  go (op, []) 0 ms

/-- A whole history of time points; errors tagged (time point index, marker index). -/
def run (fold : Str → Str) : List Str → Nat → List (List Marker) → List (Nat × Nat × Err)
  | _, _, [] => []
  | op, t, ms :: rest =>
    let (op', es) := stepPoint fold op ms
    es.map (fun (i, e) => (t, i, e)) ++ run fold op' (t + 1) rest

/-! ### time-point construction -/

/-- A row of the events table: onset time, its own markers, and its top-level Delay groups
(delay, markers inside). `idx` is the row's original index. -/
structure Row where
  time : Int
  markers : List Marker
  delayed : List (Int × List Marker)
deriving Repr, Inhabited

/-- A row of the frame built by `split_delay_tags` before merging. -/
structure TRow where
  time : Int
  markers : List Marker
  orig : Nat
deriving Repr, Inhabited, DecidableEq

/-- rows of `split_df` before sorting: the original rows (Delay groups removed), then one appended
row per Delay group, in row order -/
def splitRows (rows : List Row) : List TRow :=
  let rec own (i : Nat) : List Row → List TRow
    | [] => []
    | r :: rs => ⟨r.time, r.markers, i⟩ :: own (i + 1) rs
  let rec del (i : Nat) : List Row → List TRow
    | [] => []
    | r :: rs => r.delayed.map (fun (d, ms) => ⟨r.time + d, ms, i⟩) ++ del (i + 1) rs
  own 0 rows ++ del 0 rows

/-- stable insertion of a row by time (before the first row whose time is ≥ its own; the inserted row precedes the others in frame order) -/
def insertRow (x : TRow) : List TRow → List TRow
  | [] => [x]
  | y :: ys => if x.time ≤ y.time then x :: y :: ys else y :: insertRow x ys

/-- stable sort by time (`sort_values` on the numeric onset; ties keep frame order) -/
def sortRows : List TRow → List TRow
  | [] => []
  | x :: xs => insertRow x (sortRows xs)

/-- `filter_series_by_onset`: consecutive rows with the same time are joined into the first
one (which keeps *its* original index). -/
def mergeRows : List TRow → List TRow
  | [] => []
  | x :: xs =>
    match mergeRows xs with
    | [] => [x]
    | y :: ys => if x.time = y.time then ⟨x.time, x.markers ++ y.markers, x.orig⟩ :: ys else x :: y :: ys

def timePoints (rows : List Row) : List TRow := mergeRows (sortRows (splitRows rows))

end HedVerif.Temporal
