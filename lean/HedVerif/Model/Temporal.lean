/-
Model of `OnsetValidator.validate_temporal_relations/_handle_onset_or_offset`
(hed/validator/onset_validator.py) and of the time-point construction
`df_util.split_delay_tags` / `sort_dataframe_by_onsets` / `filter_series_by_onset`.

Names are compared after case folding; `fold` is a parameter (Python: `str.casefold`).
Times are integers (the harness draws times on a 1/8 s grid and scales by 8).
-/
namespace HedVerif.Temporal

abbrev Str := List Char

inductive MKind where
  | onset | offset | inset
deriving Repr, DecidableEq, Inhabited

/-- One top-level temporal group: its anchor kind and the extension of its first Def tag
(`def_tag.extension`, name with value). -/
structure Marker where
  kind : MKind
  name : Str
deriving Repr, DecidableEq, Inhabited

inductive Err where
  | sameDefs          -- ONSET_SAME_DEFS_ONE_ROW
  | offsetBeforeOnset -- OFFSET_BEFORE_ONSET
  | insetBeforeOnset  -- INSET_BEFORE_ONSET
deriving Repr, DecidableEq, Inhabited

/-- `self._onsets[k] = v` on a dict keyed by folded name: insert if absent. -/
def insertKey (op : List Str) (k : Str) : List Str := if op.contains k then op else k :: op

/-- `_handle_onset_or_offset`: new open-scope dictionary and the error, if any. -/
def handle (op : List Str) (kind : MKind) (key : Str) : List Str × Option Err :=
  match kind with
  | .onset => (insertKey op key, none)
  | .offset => if op.contains key then (op.erase key, none) else (op, some .offsetBeforeOnset)
  | .inset => if op.contains key then (op, none) else (op, some .insetBeforeOnset)

/-- The loop body of `validate_temporal_relations` for one marker.
State: open scopes, names used in this time point. Output: error for this marker, if any. -/
def stepMarker (fold : Str → Str) (st : List Str × List Str) (m : Marker) :
    (List Str × List Str) × Option Err :=
  let key := fold m.name
  if st.2.contains key then (st, some .sameDefs)
  else
    let (op', e) := handle st.1 m.kind key
    ((op', key :: st.2), e)

/-- One time point: `used_def_names` starts empty. Errors are tagged with the marker's position. -/
def stepPoint (fold : Str → Str) (op : List Str) (ms : List Marker) : List Str × List (Nat × Err) :=
  let rec go (st : List Str × List Str) (i : Nat) : List Marker → List Str × List (Nat × Err)
    | [] => (st.1, [])
    | m :: rest =>
      let (st', e) := stepMarker fold st m
      let (op', es) := go st' (i + 1) rest
      (op', match e with | some x => (i, x) :: es | none => es)
  go (op, []) 0 ms

/-- A whole history of time points; errors tagged (time point index, marker index). -/
def run (fold : Str → Str) : List Str → Nat → List (List Marker) → List (Nat × Nat × Err)
  | _, _, [] => []
  | op, t, ms :: rest =>
    let (op', es) := stepPoint fold op ms
    es.map (fun (i, e) => (t, i, e)) ++ run fold op' (t + 1) rest

/-! ### time-point construction -/

/-- A row of the events table: onset time, its own markers, and its top-level Delay groups
(delay, markers inside). `idx` is the row's original index. -/
structure Row where
  time : Int
  markers : List Marker
  delayed : List (Int × List Marker)
deriving Repr, Inhabited

/-- A row of the frame built by `split_delay_tags` before merging. -/
structure TRow where
  time : Int
  markers : List Marker
  orig : Nat
deriving Repr, Inhabited, DecidableEq

/-- rows of `split_df` before sorting: the original rows (Delay groups removed), then one appended
row per Delay group, in row order -/
def splitRows (rows : List Row) : List TRow :=
  let rec own (i : Nat) : List Row → List TRow
    | [] => []
    | r :: rs => ⟨r.time, r.markers, i⟩ :: own (i + 1) rs
  let rec del (i : Nat) : List Row → List TRow
    | [] => []
    | r :: rs => r.delayed.map (fun (d, ms) => ⟨r.time + d, ms, i⟩) ++ del (i + 1) rs
  own 0 rows ++ del 0 rows

/-- stable insertion of a row by time (before the first row whose time is ≥ its own; the inserted row precedes the others in frame order) -/
def insertRow (x : TRow) : List TRow → List TRow
  | [] => [x]
  | y :: ys => if x.time ≤ y.time then x :: y :: ys else y :: insertRow x ys

/-- stable sort by time (`sort_values` on the numeric onset; ties keep frame order) -/
def sortRows : List TRow → List TRow
  | [] => []
  | x :: xs => insertRow x (sortRows xs)

/-- `filter_series_by_onset`: consecutive rows with the same time are joined into the first
one (which keeps *its* original index). -/
def mergeRows : List TRow → List TRow
  | [] => []
  | x :: xs =>
    match mergeRows xs with
    | [] => [x]
    | y :: ys => if x.time = y.time then ⟨x.time, x.markers ++ y.markers, x.orig⟩ :: ys else x :: y :: ys

def timePoints (rows : List Row) : List TRow := mergeRows (sortRows (splitRows rows))

/-! ### per-group structural checks
`DefValidator.validate_onset_offset/_handle_onset_or_offset` (hed/validator/def_validator.py) -/

/-- a direct child of a top-level group, as far as the structural checks look at it -/
inductive Child where
  | anchor (k : MKind)              -- an Onset / Offset / Inset tag
  | defTag (ext : Str)              -- `Def/ext`
  | delay                           -- a `Delay/…` tag (ignored by the count)
  | tag                             -- any other tag
  | group (defExpands : List Str)   -- a sub-group; the extensions of the Def-expand tags directly in it
deriving Repr, DecidableEq, Inhabited

inductive ShapeErr where
  | noDef              -- ONSET_NO_DEF_TAG_FOUND
  | tooManyDefs        -- ONSET_TOO_MANY_DEFS
  | wrongNumberGroups  -- ONSET_WRONG_NUMBER_GROUPS
  | tagOutsideGroup    -- ONSET_TAG_OUTSIDE_OF_GROUP
  | defUnmatched       -- ONSET_DEF_UNMATCHED
  | placeholderWrong   -- ONSET_PLACEHOLDER_WRONG
deriving Repr, DecidableEq, Inhabited

def Child.isGroup : Child → Bool
  | .group _ => true
  | _ => false

/-- `find_top_level_tags`: the first direct tag of the group that is a temporal tag, with its position -/
def firstAnchor (i : Nat) : List Child → Option (MKind × Nat)
  | [] => none
  | .anchor k :: _ => some (k, i)
  | _ :: rest => firstAnchor (i + 1) rest

/-- `find_def_tags` (non-recursive): Def tags and Def-expand groups among the children, each with the
position of the child that carries it (`def_group`) -/
def defTagsOf (i : Nat) : List Child → List (Str × Nat)
  | [] => []
  | .defTag e :: rest => (e, i) :: defTagsOf (i + 1) rest
  | .group des :: rest => des.map (fun e => (e, i)) ++ defTagsOf (i + 1) rest
  | _ :: rest => defTagsOf (i + 1) rest

/-- the children other than the def (group), the anchor tag and Delay tags -/
def restOf (di ai : Nat) (i : Nat) : List Child → List Child
  | [] => []
  | ch :: rest =>
    if i == di || i == ai || ch == .delay then restOf di ai (i + 1) rest
    else ch :: restOf di ai (i + 1) rest

/-- Python `str.partition('/')`: (before the first slash, after it) -/
def partitionSlash (s : Str) : Str × Str := (s.takeWhile (· != '/'), (s.dropWhile (· != '/')).drop 1)

/-- `_handle_onset_or_offset`: `defs` maps a folded definition name to `takes_value` -/
def handleDef (defs : Str → Option Bool) (fold : Str → Str) (ext : Str) : List ShapeErr :=
  let (name, ph) := partitionSlash ext
  match defs (fold name) with
  | none => [.defUnmatched]
  | some tv => if tv != !ph.isEmpty then [.placeholderWrong] else []

/-- the body of the loop of `validate_onset_offset` for one top-level group -/
def groupShapeIssues (defs : Str → Option Bool) (fold : Str → Str) (g : List Child) : List ShapeErr :=
  match firstAnchor 0 g with
  | none => []                      -- not a temporal group
  | some (k, ai) =>
    match defTagsOf 0 g with
    | [] => [.noDef]
    | [(ext, di)] =>
      let rest := restOf di ai 0 g
      let maxChildren := if k = .offset then 0 else 1
      if rest.length > maxChildren then [.wrongNumberGroups]
      else
        (match rest with
          | ch :: _ => if ch.isGroup then [] else [.tagOutsideGroup]
          | [] => []) ++ handleDef defs fold ext
    | _ :: _ :: _ => [.tooManyDefs]

/-- `validate_onset_offset` over the top-level groups of a string -/
def validateOnsetOffset (defs : Str → Option Bool) (fold : Str → Str) (groups : List (List Child)) :
    List ShapeErr := groups.flatMap (groupShapeIssues defs fold)

/-! ### which rows take part in the event history
`SpreadsheetValidator._run_checks` (marks a row invalid) and `_run_onset_checks` (skips the time points
whose original row is invalid). -/

/-- severity of a cell issue of the row-by-row checks -/
inductive Sev where
  | warning | error
deriving Repr, DecidableEq, Inhabited

/-- `check_for_any_errors(new_column_issues)`: the row is invalid iff one of its cell issues has
error severity (warnings, kept in the list under the default error handler, do not count) -/
def rowInvalid (iss : List Sev) : Bool := iss.any (· == .error)

/-- `_run_onset_checks`: the time points whose original row is in `invalid_original_rows` are skipped.
`cellIssues i` = severities of the cell issues of file row `i`. -/
def keptPoints (rows : List Row) (cellIssues : Nat → List Sev) : List TRow :=
  (timePoints rows).filter fun tp => !rowInvalid (cellIssues tp.orig)

/-- temporal issues of a file: (original row index, kind), in report order -/
def fileErrors (fold : Str → Str) (rows : List Row) (cellIssues : Nat → List Sev) : List (Nat × Err) :=
  let tps := keptPoints rows cellIssues
  (run fold [] 0 (tps.map (·.markers))).map fun x => ((tps[x.1]?.map (·.orig)).getD 0, x.2.2)

/-- one more cell issue on row `i` -/
def addIssue (cellIssues : Nat → List Sev) (i : Nat) (s : Sev) : Nat → List Sev :=
  fun j => if j = i then s :: cellIssues j else cellIssues j

end HedVerif.Temporal
