/-
Rewrites of an annotation (property C04) over the full validator model `Model/Validate.lean`:
what is observed, and when two parsed annotations count as "the same annotation written differently".

* `errCodes`  — the observable of C04: the published codes of the error-severity issues.
* `Core`      — two resolved tags that the schema-based rules cannot tell apart (namespace, entry,
                value/extension; the original text too when unresolved); spans and the spelling of a
                resolved tag are free.
* `NodeSim R` / `ForestSim R` — two resolved trees of the same shape whose tags are related by `R`
                and whose sibling lists are permutations of each other, at every level (spans free).
* `SpanDistinct` — siblings have distinct spans (true of every parse; the temporal rule identifies
                the Def and the anchor among the members of a group by their spans).
* `Blank`     — texts related by inserting/deleting U+0020 next to a delimiter or at the ends.
* `toDup`     — the translation of a resolved tree into the trees of `Model/Dup.lean`.
* `Rewrite`   — the rewrites of C04 on abstract forests with their layout (`Layout`): respell a tag,
                change the blanks next to delimiters, permute the members of a group.
Definitions only; the theorems are in `Props/C04.lean`.
-/
import HedVerif.Model.Validate
import HedVerif.Model.Dup

namespace HedVerif.Rewrite
open HedVerif HedVerif.Validate

/-! ### observables -/

/-- code and severity of one issue: what `check_for_any_errors` and the caller's code list look at -/
def sig (i : Issue) : Str × Nat := (i.code, i.sev)
def sigs (l : List Issue) : List (Str × Nat) := l.map sig

/-- the observable of C04: codes of the issues of error severity -/
def errCodes (l : List Issue) : List Str := codes (errors l)

/-! ### tags and trees -/

structure Core (t t' : RTag) : Prop where
  ns : t'.ns = t.ns
  entry : t'.entry = t.entry
  ext : t'.extVal = t.extVal
  org : t.entry = none → t'.org = t.org

mutual
/-- same shape, tags related by `R`, members of every group permuted (spans free) -/
def NodeSim (R : RTag → RTag → Prop) : RNode → RNode → Prop
  | .tag t, .tag t' => R t t'
  | .group _ ks, .group _ ks' => ∃ m, PointSim R ks m ∧ m.Perm ks'
  | .tag _, .group _ _ => False
  | .group _ _, .tag _ => False
/-- position by position -/
def PointSim (R : RTag → RTag → Prop) : List RNode → List RNode → Prop
  | [], [] => True
  | k :: ks, k' :: ks' => NodeSim R k k' ∧ PointSim R ks ks'
  | [], _ :: _ => False
  | _ :: _, [] => False
end

/-- top level: position by position, then a permutation -/
def ForestSim (R : RTag → RTag → Prop) (l l' : List RNode) : Prop := ∃ m, PointSim R l m ∧ m.Perm l'

mutual
/-- siblings (members of one group, or of the top level) have pairwise distinct spans, at every level -/
def SpanDistinctNode : RNode → Prop
  | .tag _ => True
  | .group _ ks => SpanDistinct ks ∧ (ks.map nodeSpan).Nodup
def SpanDistinct : List RNode → Prop
  | [] => True
  | k :: ks => SpanDistinctNode k ∧ SpanDistinct ks
end

/-- the forest with its own sibling list -/
def SpansOK (l : List RNode) : Prop := SpanDistinct l ∧ (l.map nodeSpan).Nodup

/-! ### texts -/

/-- one U+0020 inserted next to a delimiter (`,` `(` `)`), next to another blank, or at either end -/
inductive BlankStep : Str → Str → Prop
  | start (s : Str) : BlankStep s (' ' :: s)
  | stop (s : Str) : BlankStep s (s ++ [' '])
  | after (a b : Str) (d : Char) (hd : Tok.isDelim d = true ∨ d = ' ') : BlankStep (a ++ d :: b) (a ++ d :: ' ' :: b)
  | before (a b : Str) (d : Char) (hd : Tok.isDelim d = true ∨ d = ' ') : BlankStep (a ++ d :: b) (a ++ ' ' :: d :: b)

/-- blanks inserted or deleted next to delimiters and at the ends, any number of times -/
inductive Blank : Str → Str → Prop
  | refl (s : Str) : Blank s s
  | ins {s s' : Str} : BlankStep s s' → Blank s s'
  | del {s s' : Str} : BlankStep s s' → Blank s' s
  | trans {a b c : Str} : Blank a b → Blank b c → Blank a c

/-! ### translation into the trees of `Model/Dup.lean` -/

/-- a resolved tag as the duplicate rule sees it: `str(tag)`, its case-folded form, the folded source text -/
def toDupTag (env : Env) (t : RTag) : Dup.Tag := ⟨strOf env t, fold (strOf env t), fold t.org⟩

mutual
def toDup (env : Env) : RNode → Dup.Tree
  | .tag t => .tag (toDupTag env t)
  | .group _ ks => .grp (toDupL env ks)
def toDupL (env : Env) : List RNode → List Dup.Tree
  | [] => []
  | k :: ks => toDup env k :: toDupL env ks
end

/-- published code of a duplicate issue of `Model/Dup.lean` -/
def dupCode : Dup.Kind → Str
  | .tag => Kind.tagRepeated.code
  | .grp => Kind.groupRepeated.code

end HedVerif.Rewrite
