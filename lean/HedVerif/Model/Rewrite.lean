/-
Rewrites of an annotation (property C04) over the full validator model `Model/Validate.lean`:
what is observed, and when two parsed annotations count as "the same annotation written differently".

* `errCodes`  — the observable of C04: the published codes of the error-severity issues.
* `Core`      — two resolved tags that the schema-based rules cannot tell apart (namespace, entry,
                value/extension; the original text too when unresolved); spans and the spelling of a
                resolved tag are free.
* `NodeSim R` / `ForestSim R` — two resolved trees of the same shape whose tags are related by `R`
                and whose sibling lists are permutations of each other, at every level (spans free).
* `SpanDistinct` — siblings have distinct spans (true of every parse; the temporal rule identifies
                the Def and the anchor among the members of a group by their spans).
* `Blank`     — texts related by inserting/deleting U+0020 next to a delimiter or at the ends.
* `toDup`     — the translation of a resolved tree into the trees of `Model/Dup.lean`.
* `SameTag`, `Respelled`, `TagRel` — the relations between the tags of two parses (reordering/spacing: the
                same tag elsewhere; spelling: tags the rules cannot tell apart) and what such a relation must
                respect for the whole validator to agree.
* `ParsedWF`, `textIssues`, `DefsOK`, `GVSim`, `mkTagW` — bookkeeping of the proofs.
The relations on abstract forests (`ANodeSim`, `RespellText`) and the inductive `C04.Rewrite` on texts use
`ATree` of `Props/C02.lean` and are defined in `Props/C04.lean`.
Definitions only; the theorems are in `Props/C04.lean`.
-/
import HedVerif.Model.Validate
import HedVerif.Model.Dup

namespace HedVerif.Rewrite
open HedVerif HedVerif.Validate

/-! ### observables -/

/-- code and severity of one issue: what `check_for_any_errors` and the caller's code list look at -/
def sig (i : Issue) : Str × Nat := (i.code, i.sev)
def sigs (l : List Issue) : List (Str × Nat) := l.map sig

/-- the observable of C04: codes of the issues of error severity -/
def errCodes (l : List Issue) : List Str := codes (errors l)

/-! ### tags and trees -/

structure Core (t t' : RTag) : Prop where
  ns : t'.ns = t.ns
  entry : t'.entry = t.entry
  ext : t'.extVal = t.extVal
  org : t.entry = none → t'.org = t.org

mutual
/-- same shape, tags related by `R`, members of every group permuted (spans free) -/
def NodeSim (R : RTag → RTag → Prop) : RNode → RNode → Prop
  | .tag t, .tag t' => R t t'
  | .group _ ks, .group _ ks' => ∃ m, PointSim R ks m ∧ m.Perm ks'
  | .tag _, .group _ _ => False
  | .group _ _, .tag _ => False
/-- position by position -/
def PointSim (R : RTag → RTag → Prop) : List RNode → List RNode → Prop
  | [], [] => True
  | k :: ks, k' :: ks' => NodeSim R k k' ∧ PointSim R ks ks'
  | [], _ :: _ => False
  | _ :: _, [] => False
end

/-- top level: position by position, then a permutation -/
def ForestSim (R : RTag → RTag → Prop) (l l' : List RNode) : Prop := ∃ m, PointSim R l m ∧ m.Perm l'

mutual
/-- siblings (members of one group, or of the top level) have pairwise distinct spans, at every level -/
def SpanDistinctNode : RNode → Prop
  | .tag _ => True
  | .group _ ks => SpanDistinct ks ∧ (ks.map nodeSpan).Nodup
def SpanDistinct : List RNode → Prop
  | [] => True
  | k :: ks => SpanDistinctNode k ∧ SpanDistinct ks
end

mutual
/-- the start positions of a resolved node and of everything below it; in a parse they are pairwise distinct
(`C04.construct_starts_nodup`), which is how the code's identity tests (`is`) read in the model -/
def rstartsNode : RNode → List Nat
  | .tag t => [t.span.1]
  | .group s ks => s.1 :: rstartsList ks
def rstartsList : List RNode → List Nat
  | [] => []
  | k :: ks => rstartsNode k ++ rstartsList ks
end

/-- the forest with its own sibling list -/
def SpansOK (l : List RNode) : Prop := SpanDistinct l ∧ (l.map nodeSpan).Nodup

/-! ### texts -/

/-- one U+0020 inserted right after or right before a delimiter (`,` `(` `)`), or at either end.
(Repeating the step gives runs of blanks; a blank next to a blank *inside a tag* is not a step: it would
change the tag.) -/
inductive BlankStep : Str → Str → Prop
  | start (s : Str) : BlankStep s (' ' :: s)
  | stop (s : Str) : BlankStep s (s ++ [' '])
  | after (a b : Str) (d : Char) (hd : Tok.isDelim d = true) : BlankStep (a ++ d :: b) (a ++ d :: ' ' :: b)
  | before (a b : Str) (d : Char) (hd : Tok.isDelim d = true) : BlankStep (a ++ d :: b) (a ++ ' ' :: d :: b)

/-- blanks inserted or deleted next to delimiters and at the ends, any number of times -/
inductive Blank : Str → Str → Prop
  | refl (s : Str) : Blank s s
  | ins {s s' : Str} : BlankStep s s' → Blank s s'
  | del {s s' : Str} : BlankStep s s' → Blank s' s
  | trans {a b c : Str} : Blank a b → Blank b c → Blank a c

/-! ### translation into the trees of `Model/Dup.lean` -/

/-- a resolved tag as the duplicate rule sees it: `str(tag)`, its case-folded form, the folded source text -/
def toDupTag (env : Env) (t : RTag) : Dup.Tag := ⟨strOf env t, fold (strOf env t), fold t.org⟩

mutual
def toDup (env : Env) : RNode → Dup.Tree
  | .tag t => .tag (toDupTag env t)
  | .group _ ks => .grp (toDupL env ks)
def toDupL (env : Env) : List RNode → List Dup.Tree
  | [] => []
  | k :: ks => toDup env k :: toDupL env ks
end

/-- published code of a duplicate issue of `Model/Dup.lean` -/
def dupCode : Dup.Kind → Str
  | .tag => Kind.tagRepeated.code
  | .grp => Kind.groupRepeated.code

/-! ### relations between the tags of two parses -/

/-- the same tag up to its position in the text (reordering, spacing) -/
def SameTag (t t' : RTag) : Prop := t'.org = t.org ∧ t'.ns = t.ns ∧ t'.entry = t.entry ∧ t'.extVal = t.extVal

/-- what a relation between the tags of two parses must respect for the whole validator to agree:
the schema-based rules see `Core`; phases 1 and 2 read the text of the tag itself -/
structure TagRel (env : Env) (R : RTag → RTag → Prop) : Prop where
  core : ∀ t t', R t t' → Core t t'
  slash : ∀ t t', R t t' → errCodes (slashIssues t) = errCodes (slashIssues t')
  chars : ∀ t t', R t t' → ∀ ph, errCodes (tagCharIssues env ph t) = errCodes (tagCharIssues env ph t')
  recanon : ∀ t t', R t t' → R (canon env t).1 (canon env t').1
  lookup : ∀ t t', R t t' → errCodes (canon env t).2 = errCodes (canon env t').2

/-- a respelled tag: the two spellings resolve alike (`Core`: same namespace, entry, value — C03), the
character and slash rules say the same about both texts ("the same characters class-wise"), and looking a
resolved tag up again changes nothing -/
structure Respelled (env : Env) (t t' : RTag) : Prop where
  core : Core t t'
  slash : errCodes (slashIssues t) = errCodes (slashIssues t')
  chars : ∀ ph, errCodes (tagCharIssues env ph t) = errCodes (tagCharIssues env ph t')
  stable : (canon env t).1 = t ∧ (canon env t').1 = t'

/-- `p` is what `parse` builds from its first tree -/
def ParsedWF (env : Env) (p : Parsed) : Prop :=
  p.root1 = (recanonList env p.root0).1 ∧ p.lookup = (recanonList env p.root0).2

/-- the rules that read the raw text only -/
def textIssues (env : Env) (ph : Bool) (text : Str) : List Issue :=
  charIssues env ph text ++ parenIssues text ++ delimIssues env.cd text

/-- the definitions in use expand to admissible tags -/
def DefsOK (env : Env) (P : Dup.Tag → Prop) : Prop :=
  ∀ t rest, defExpansion env t = .ok rest → ∀ x ∈ tagsList rest, P (toDupTag env x)

/-- two entries of `get_all_groups`: same flags, related members -/
def GVSim (R : RTag → RTag → Prop) (g g' : GV) : Prop :=
  g.isGroup = g'.isGroup ∧ g.isTop = g'.isTop ∧ ForestSim R g.kids g'.kids

/-- `HedTag(text)` at a span -/
def mkTagW (env : Env) (w : Str) (sp : Nat × Nat) : RTag := (canon env ⟨sp, w, Schema.namespaceOf w, none, []⟩).1

end HedVerif.Rewrite
