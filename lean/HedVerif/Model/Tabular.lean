/-
Model of the FILE layer of `SpreadsheetValidator.validate` (hed/validator/spreadsheet_validator.py)
with `BaseInput.needs_sorting/series_a/dataframe_a` (hed/models/base_input.py),
`df_util.sort_dataframe_by_onsets/split_delay_tags/filter_series_by_onset`, `HedString.from_hed_strings`
and the context labelling of `ErrorHandler` (push/pop context, `add_context_and_filter`, `sort_issues`).

String-level validation is NOT modelled here: it enters as an `Oracle` (what `run_basic_checks`,
`run_full_string_checks`, `check_for_banned_tags`, the parse of a `delay/`-bearing string and the top-level
temporal groups give for a given text).  The model decides WHICH strings get WHICH checks, how they are
labelled, skipped, sorted, split into time points and fed to the temporal machine (`Temporal.run`).

Naming of rows.  The index labels of a DataFrame are distinct; the model names the rows of the processed
(possibly onset-sorted) frame by their POSITION `p` in it and keeps the list `labs` of their index labels
(= original 0-based row numbers).  Wherever the code uses the numeric value of a label
(`row_number + row_adj`, `original_index + row_adj`, `onset_mask.iloc[row_number]`) the model uses `labs[p]`.
`invalid_original_rows` and `original_index` are sets/columns of labels in the code and of positions here.

Times are integers (the harness draws onsets and delays on a 1/8 s grid and scales by 8); `none` = a
non-numeric onset (NaN after `pd.to_numeric(errors='coerce')`).
-/
import HedVerif.Model.Temporal
import HedVerif.Model.Tok
namespace HedVerif.Tabular
open HedVerif.Temporal (Marker)

abbrev Str := List Char

/-- exceptions the modelled code can raise -/
inductive PyExc where
  | typeError | valueError | indexError
deriving Repr, DecidableEq, Inhabited

/-- an issue as a string-level check reports it: internal kind (`code:error_type`) and severity
(1 = error, 10 = warning) -/
structure RIssue where
  kind : Str
  sev : Nat
deriving Repr, DecidableEq, Inhabited

/-- `check_for_any_errors`: `issue['severity'] < ErrorSeverity.WARNING` -/
def RIssue.isError (i : RIssue) : Bool := decide (i.sev < 10)
def anyError (l : List RIssue) : Bool := l.any RIssue.isError

/-- `tag.value_as_default_unit()` of a top-level Delay tag: a number, `None` (no/invalid unit, no value),
or `float(...)` raising ValueError (non-numeric value) -/
inductive DVal where
  | num (k : Int) | none | bad
deriving Repr, DecidableEq, Inhabited

/-- one top-level child of a parsed string: `str(child)` and, for a group `find_top_level_tags({"delay"})`
returns, the Delay value -/
structure Item where
  text : Str
  delay : Option DVal
deriving Repr, DecidableEq, Inhabited

structure Oracle where
  /-- `HedValidator.run_basic_checks(HedString(cell), allow_placeholders=False)` -/
  cell : Str → List RIssue
  /-- `run_full_string_checks` of `HedString.from_hed_strings(cells)` with this joined text (`_run_checks`) -/
  full : Str → List RIssue
  /-- `run_full_string_checks` of `HedString(text, schema, def_validator)` (`_run_onset_checks`) -/
  pfull : Str → List RIssue
  /-- `OnsetValidator.check_for_banned_tags` ("temporal tags need a time") -/
  banned : Str → List RIssue
  /-- `none` iff `"delay/" not in text.casefold()`, else the top-level children of `HedString(text)` -/
  items : Str → Option (List Item)
  /-- top-level temporal groups (kind, Def extension) of `HedString(text)` in `validate_temporal_relations` order -/
  markers : Str → List Marker
  fold : Str → Str

structure Row where
  /-- numeric onset, `none` if not numeric (ignored when the file has no onset column) -/
  onset : Option Int
  /-- the row of `dataframe_a` (assembled HED-bearing columns) -/
  cells : List Str
  /-- raw values of the categorical columns (`Cfg.catCols` order) -/
  cats : List Str
deriving Repr, DecidableEq, Inhabited

structure Cfg where
  /-- 1, +1 if the file has column names -/
  rowAdj : Nat
  hasOnset : Bool
  /-- column names of `dataframe_a` -/
  columns : List Str
  /-- categorical columns of `column_metadata()`: name and `hed_dict.keys()` -/
  catCols : List (Str × List Str)
  /-- `ColumnMapper.check_for_mapping_issues()` (as data) -/
  mapIssues : List RIssue
  /-- `get_column_refs()` and `base_input.columns` -/
  refs : List Str
  allColumns : List Str
  /-- proposed fix C07_onset_mask: the onset mask is taken per assembled row, not `iloc[label]` of the
  time-point frame's mask -/
  maskByRow : Bool
  /-- proposed fix C07_delay_guard: a Delay group without usable value or numeric onset stays in its row -/
  guardDelay : Bool
  /-- for an integer column label of `dataframe_a` its value (`columns` then holds its `str()`); `none` / absent for
  a string label -/
  colIdx : List (Option Nat) := []
  kKey : RIssue
  kRef : RIssue
  kUnordered : RIssue
  kTemporal : Temporal.Err → RIssue
  o : Oracle

/-- a pandas column label as `ec_column` carries it: a string (file with a header line) or an integer
(`has_column_names=False`: the columns are addressed by position).  `0`, `"0"` and `""` are three different labels. -/
inductive ColLabel where
  | name (s : Str)
  | idx (n : Nat)
deriving Repr, DecidableEq, Inhabited

/-- where an issue was produced (`p` = position in the processed frame, `k` = original row) -/
inductive Src where
  | mapping | ref | unordered
  | key (k c : Nat)
  | cell (p c : Nat)
  | row (p : Nat)
  | point (p : Nat)
  | temporal (p : Nat)
deriving Repr, DecidableEq, Inhabited

structure Issue where
  kind : Str
  sev : Nat
  /-- `ec_row`; holds the position `p` until `relabel` -/
  row : Option Nat
  /-- `ec_column` -/
  col : Option Str
  /-- text of the HED_STRING context -/
  text : Str
  src : Src
deriving Repr, DecidableEq, Inhabited

def mk (e : RIssue) (row : Option Nat) (col : Option Str) (text : Str) (src : Src) : Issue :=
  { kind := e.kind, sev := e.sev, row := row, col := col, text := text, src := src }

def na : Str := ['n', '/', 'a']

/-- `if not cell or cell == "n/a": continue` -/
def isSkip (c : Str) : Bool := c.isEmpty || c == na

def joinWith (sep : Str) : List Str → Str
  | [] => []
  | [x] => x
  | x :: y :: r => x ++ sep ++ joinWith sep (y :: r)

/-- the cells of a row that are looked at: (column number, column name, text) -/
def liveFrom (i : Nat) : List Str → List Str → List (Nat × Str × Str)
  | c :: cs, x :: xs => if isSkip x then liveFrom (i + 1) cs xs else (i, c, x) :: liveFrom (i + 1) cs xs
  | _, _ => []

def live (cfg : Cfg) (r : Row) : List (Nat × Str × Str) := liveFrom 0 cfg.columns r.cells

/-- text of `HedString.from_hed_strings(row_strings)`: `",".join` -/
def rowText (cfg : Cfg) (r : Row) : Str := joinWith [','] ((live cfg r).map (·.2.2))

/-- `combine_dataframe`: `', '.join` of the same cells -/
def seriesText (cfg : Cfg) (r : Row) : Str := joinWith [',', ' '] ((live cfg r).map (·.2.2))

/-- `_get_org_span_from_strings`: start of the `i`-th string inside the joined text
(`string_start_index += string.span[1] + 1`) -/
def startOf : List Str → Nat → Nat
  | _, 0 => 0
  | [], _ => 0
  | x :: xs, i + 1 => x.length + 1 + startOf xs i

def remapSpan (cells : List Str) (i : Nat) (span : Nat × Nat) : Nat × Nat :=
  (span.1 + startOf cells i, span.2 + startOf cells i)

/-! ### the tree of `HedString.from_hed_strings`: the cells' trees side by side, spans remapped -/

mutual
/-- a node of cell `i` seen from the joined string (`_get_org_span_from_strings`) -/
def shiftNode (o : Nat) : Node → Node
  | .tag a b => .tag (a + o) (b + o)
  | .group a b kids => .group (a + o) (b + o) (shiftList o kids)
def shiftList (o : Nat) : List Node → List Node
  | [] => []
  | n :: ns => shiftNode o n :: shiftList o ns
end

mutual
/-- a tree as a flat code (for comparing trees; `Node` is a nested inductive) -/
def nodeCode : Node → List Nat
  | .tag a b => [0, a, b]
  | .group a b kids => [1, a, b] ++ listCode kids ++ [2]
def listCode : List Node → List Nat
  | [] => []
  | n :: ns => nodeCode n ++ listCode ns
end

def concatFrom (all : List Str) : Nat → List Str → List Node
  | _, [] => []
  | i, c :: cs => shiftList (startOf all i) (Tree.construct c) ++ concatFrom all (i + 1) cs

/-- `contents = [child for sub_string in hed_strings for child in sub_string.children]`: each cell parsed on its own
(a cell with unbalanced parentheses has no children) -/
def concatTrees (cells : List Str) : List Node := concatFrom cells 0 cells

/-- the tree of the joined text parsed as one string -/
def joinedTree (cells : List Str) : List Node := Tree.construct (joinWith [','] cells)

def sameTree (cells : List Str) : Bool := listCode (concatTrees cells) == listCode (joinedTree cells)

/-! ### `_run_checks`, one row -/

structure RowRes where
  issues : List Issue
  invalid : Bool
deriving Repr

/-- "the row has a time": its onset cell parses as a number (`~pd.isna(pd.to_numeric(onset, errors='coerce'))`; the
`n/a` cell, any other text, and `nan` do not).  The SINGLE source for both passes: `_run_checks` leaves exactly these rows
to the onset pass (`onset_mask`), and `split_delay_tags` / `_indexed_dict_from_onsets` keep exactly these rows' text. -/
def hasTime (r : Row) : Bool := r.onset.isSome

/-- `new_column_issues` after the cell loop: the issues of the LAST looked-at cell -/
def lastCellIssues (cfg : Cfg) (r : Row) : List RIssue :=
  match (live cfg r).getLast? with
  | none => []
  | some c => cfg.o.cell c.2.2

/-- the label object `columns[column_number]` pushed as COLUMN context -/
def labelOf (cfg : Cfg) (c : Nat) (name : Str) : ColLabel :=
  match (cfg.colIdx[c]?).join with
  | some n => .idx n
  | none => .name name

/-- `ec_column` with its type: `col` is the `str()` of the label (the key `sort_issues` compares); for a cell issue
the label object is that of column number `c` -/
def Issue.label (cfg : Cfg) (i : Issue) : Option ColLabel :=
  match i.src, i.col with
  | .cell _ c, some name => some (labelOf cfg c name)
  | _, some name => some (.name name)
  | _, none => none

def cellIssues (cfg : Cfg) (p : Nat) (r : Row) : List Issue :=
  (live cfg r).flatMap fun c => (cfg.o.cell c.2.2).map fun e =>
    mk e (some p) (some c.2.1) c.2.2 (.cell p c.1)

/-- does the row reach `onset_mask.iloc[row_number]` -/
def reaches (cfg : Cfg) (r : Row) : Bool := !anyError (lastCellIssues cfg r) && !(live cfg r).isEmpty

def checkRow (cfg : Cfg) (onsetLike : Bool) (p : Nat) (r : Row) : RowRes :=
  if anyError (lastCellIssues cfg r) then ⟨cellIssues cfg p r, true⟩
  else if (live cfg r).isEmpty || onsetLike then ⟨cellIssues cfg p r, false⟩
  else
    let s := rowText cfg r
    ⟨cellIssues cfg p r ++ (cfg.o.full s ++ cfg.o.banned s).map (fun e => mk e (some p) none s (.row p)), false⟩

/-! ### sorting (`sort_dataframe_by_onsets`), generic in the payload; same algorithm as `Temporal.sortRows` -/

def insertT {β} (x : Int × β) : List (Int × β) → List (Int × β)
  | [] => [x]
  | y :: ys => if x.1 ≤ y.1 then x :: y :: ys else y :: insertT x ys

def sortT {β} : List (Int × β) → List (Int × β)
  | [] => []
  | x :: xs => insertT x (sortT xs)

def enumF {α} : Nat → List α → List (Nat × α)
  | _, [] => []
  | n, x :: xs => (n, x) :: enumF (n + 1) xs

/-- `is_monotonic_increasing` of the coerced onsets (any NaN: False) -/
def monotone : List (Option Int) → Bool
  | [] => true
  | [x] => x.isSome
  | x :: y :: r => (match x, y with | some a, some b => decide (a ≤ b) | _, _ => false) && monotone (y :: r)

def needsSorting (cfg : Cfg) (T : List Row) : Bool := cfg.hasOnset && !monotone (T.map (·.onset))

def numeric (F : List (Nat × Row)) : List (Int × Nat × Row) := F.filterMap fun kr => kr.2.onset.map (·, kr)
def nans (F : List (Nat × Row)) : List (Nat × Row) := F.filter fun kr => kr.2.onset.isNone

/-- the sorted copy: numeric onsets ascending, NaN last; index labels kept -/
def sortFrame (F : List (Nat × Row)) : List (Nat × Row) := (sortT (numeric F)).map (·.2) ++ nans F

def frame (cfg : Cfg) (T : List Row) : List (Nat × Row) :=
  if needsSorting cfg T then sortFrame (enumF 0 T) else enumF 0 T

/-! ### `split_delay_tags` -/

def rowItems (cfg : Cfg) (r : Row) : List Item := (cfg.o.items (seriesText cfg r)).getD []

/-- `tag.value_as_default_unit() + float(onsets[i])`: what it raises -/
def groupExc (onset : Option Int) : DVal → Option PyExc
  | .bad => some .valueError
  | .num _ => if onset.isNone then some .valueError else none
  | .none => if onset.isNone then some .valueError else some .typeError

def usable (onset : Option Int) : DVal → Option Int
  | .num v => onset.map (· + v)
  | _ => none

/-- first exception of the loop over `delay_strings` -/
def delayExc (cfg : Cfg) (R : List Row) : Option PyExc :=
  if cfg.guardDelay then none
  else (R.flatMap fun r => (rowItems cfg r).filterMap fun it => it.delay.bind (groupExc r.onset)).head?

def isMoved (onset : Option Int) (it : Item) : Bool :=
  match it.delay with
  | some d => (usable onset d).isSome
  | none => false

/-- HED text the row keeps: unchanged if no `delay/`, else `str(delay_string)` after the removals -/
def ownText (cfg : Cfg) (r : Row) : Str :=
  match cfg.o.items (seriesText cfg r) with
  | none => seriesText cfg r
  | some its => joinWith [','] ((its.filter (fun it => !isMoved r.onset it)).map (·.text))

/-- appended rows, one per moved Delay group: (time, `str(group)`, original row) -/
def movedRows (cfg : Cfg) (p : Nat) (r : Row) : List (Int × Str × Nat) :=
  (rowItems cfg r).filterMap fun it =>
    match it.delay with
    | some d => (usable r.onset d).map fun t => (t, it.text, p)
    | none => none

/-- the rows that have a time, with the HED text they keep: the row's own contribution to the time points -/
def ownFrame (cfg : Cfg) (R : List Row) : List (Int × Str × Nat) :=
  (enumF 0 R).filterMap fun pr => pr.2.onset.map fun t => (t, ownText cfg pr.2, pr.1)   -- `some` iff `hasTime`

/-- numeric rows of `split_df` before sorting: the rows themselves, then the appended ones -/
def splitFrame (cfg : Cfg) (R : List Row) : List (Int × Str × Nat) :=
  ownFrame cfg R ++
  (enumF 0 R).flatMap (fun pr => movedRows cfg pr.1 pr.2)

/-- `filter_series_by_onset`: consecutive rows with the same time: the first gets the `","`-joined text,
the others stay in the frame with an empty text -/
def mergeF : List (Int × Str × Nat) → List (Int × Str × Nat)
  | [] => []
  | x :: xs =>
    match mergeF xs with
    | [] => [x]
    | y :: ys =>
      if x.1 = y.1 then (x.1, x.2.1 ++ [','] ++ y.2.1, x.2.2) :: (y.1, [], y.2.2) :: ys else x :: y :: ys

/-- numeric part of the time-point frame (the NaN rows follow it, with empty HED) -/
def timeFrame (cfg : Cfg) (R : List Row) : List (Int × Str × Nat) := mergeF (sortT (splitFrame cfg R))

/-! ### `_run_onset_checks` -/

def livePoints (invalid : List Nat) (tf : List (Int × Str × Nat)) : List (Str × Nat) :=
  (tf.filter fun x => !x.2.1.isEmpty && !invalid.contains x.2.2).map (·.2)

def pointPass (cfg : Cfg) (invalid : List Nat) (tf : List (Int × Str × Nat)) : List Issue :=
  let pts := livePoints invalid tf
  pts.flatMap (fun sp => (cfg.o.pfull sp.1).map fun e => mk e (some sp.2) none sp.1 (.point sp.2)) ++
  (Temporal.run cfg.o.fold [] 0 (pts.map fun sp => cfg.o.markers sp.1)).filterMap fun te =>
    pts[te.1]?.map fun sp => mk (cfg.kTemporal te.2.2) (some sp.2) none sp.1 (.temporal sp.2)

/-! ### `_validate_column_structure` (on the unsorted file) -/

def keyIssuesFrom (cfg : Cfg) (k : Nat) (c : Nat) : List (Str × List Str) → List Str → List Issue
  | (name, keys) :: cs, v :: vs =>
    (if v != na && !keys.contains v then [mk cfg.kKey (some (k + cfg.rowAdj)) (some name) [] (.key k c)] else []) ++
      keyIssuesFrom cfg k (c + 1) cs vs
  | _, _ => []

def structIssues (cfg : Cfg) (T : List Row) : List Issue :=
  cfg.mapIssues.map (fun e => mk e none none [] .mapping) ++
  (enumF 0 T).flatMap (fun kr => keyIssuesFrom cfg kr.1 0 cfg.catCols kr.2.cats) ++
  (cfg.refs.filter fun x => !cfg.allColumns.contains x).map (fun _ => mk cfg.kRef none none [] .ref)

/-! ### `sort_issues`: stable, by (row, column) -/

def strLe : Str → Str → Bool
  | [], _ => true
  | _ :: _, [] => false
  | a :: as, b :: bs => if a.toNat < b.toNat then true else if b.toNat < a.toNat then false else strLe as bs

def issueLe (a b : Issue) : Bool :=
  let ra := (a.row.map (· + 1)).getD 0
  let rb := (b.row.map (· + 1)).getD 0
  if ra < rb then true else if rb < ra then false else strLe (a.col.getD []) (b.col.getD [])

def insertI (x : Issue) : List Issue → List Issue
  | [] => [x]
  | y :: ys => if issueLe x y then x :: y :: ys else y :: insertI x ys

def sortIssues : List Issue → List Issue
  | [] => []
  | x :: xs => insertI x (sortIssues xs)

/-- position → `label + row_adj` -/
def relabel (labs : List Nat) (adj : Nat) (i : Issue) : Issue :=
  { i with row := i.row.map fun p => labs[p]?.getD 0 + adj }

/-! ### `validate` -/

/-- issues of `_run_checks` + `_run_onset_checks`, rows named by position -/
def rowPhase (cfg : Cfg) (onsetLike : Nat × Row → Bool) (R : List Row) : List RowRes :=
  (enumF 0 R).map fun pr => checkRow cfg (onsetLike pr) pr.1 pr.2

def invalidRows (rr : List RowRes) : List Nat :=
  (enumF 0 rr).filterMap fun pr => if pr.2.invalid then some pr.1 else none

/-- `_run_checks` then `_run_onset_checks` over the processed frame's rows (named by position) -/
def core (cfg : Cfg) (onsetLike : Nat × Row → Bool) (R : List Row) : List Issue :=
  let rr := rowPhase cfg onsetLike R
  rr.flatMap (·.issues) ++ (if cfg.hasOnset then pointPass cfg (invalidRows rr) (timeFrame cfg R) else [])

def unorderedIssues (cfg : Cfg) (T : List Row) : List Issue :=
  if needsSorting cfg T then [mk cfg.kUnordered none none [] .unordered] else []

/-- all issues, labelled and sorted -/
def assemble (cfg : Cfg) (T : List Row) (onsetLike : Nat × Row → Bool) : List Issue :=
  let F := frame cfg T
  sortIssues (structIssues cfg T ++ unorderedIssues cfg T ++
    (core cfg onsetLike (F.map (·.2))).map (relabel (F.map (·.1)) cfg.rowAdj))

def validate (cfg : Cfg) (T : List Row) : Except PyExc (List Issue) :=
  let F := frame cfg T
  let labs := F.map (·.1)
  let R := F.map (·.2)
  if cfg.hasOnset then
    match delayExc cfg R with
    | some e => .error e
    | none =>
      let tf := timeFrame cfg R
      -- `onset_mask` has one entry per row of the time-point frame: numeric rows first, NaN rows last
      let maskLen := tf.length + (R.filter (·.onset.isNone)).length
      let lab := fun (p : Nat) => labs[p]?.getD 0
      if !cfg.maskByRow && (enumF 0 R).any (fun pr => reaches cfg pr.2 && decide (maskLen ≤ lab pr.1)) then
        .error .indexError
      else
        .ok (assemble cfg T fun pr =>
          if cfg.maskByRow then hasTime pr.2 else decide (lab pr.1 < tf.length))
  else
    .ok (assemble cfg T fun _ => false)

end HedVerif.Tabular
