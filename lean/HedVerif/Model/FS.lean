/-
Shared file-system step model (DESIGN.md section 3, "File system / OS"), namespace `HedVerif.FS`.

State  = association list  path -> file   (`File = dir | reg bytes`), paths are component lists.
Steps  = `mkdir`, `create` (create-empty / truncate = `open(p,'w')`), `append` (one written chunk),
         `close`, `rename` (`os.replace` of one entry), `remove`.
`shutil.copy*`/`open+write` are `create; append*; close`, so a truncated file is a reachable state.
Crash  = stop after any prefix of the step list (`crashAfter`).
Not modelled: loss of data after a reported success, permissions, metadata (`copystat`), symlinks.
`create` on an existing directory overwrites the entry (Python raises `IsADirectoryError`; unreachable
from the well-formed trees the users of this model start from).
The content alphabet `β` is a parameter (bytes, or lexed JSON symbols, see `Model/Backup.lean`).
No Mathlib imports: this file is linked into the native driver.
-/
namespace HedVerif.FS

abbrev Name := List Char
abbrev Path := List Name

inductive File (β : Type) where
  | dir
  | reg (content : List β)
deriving Repr, DecidableEq, Inhabited

abbrev State (β : Type) := List (Path × File β)

variable {β : Type}

/-- `os.path.exists` / `isdir` / reading: first entry stored under the path. -/
def get : State β → Path → Option (File β)
  | [], _ => none
  | (q, f) :: r, p => if q = p then some f else get r p

/-- Replace in place, or append a new entry. Keys stay unique if they were. -/
def set : State β → Path → File β → State β
  | [], p, f => [(p, f)]
  | (q, g) :: r, p, f => if q = p then (p, f) :: r else (q, g) :: set r p f

def del (s : State β) (p : Path) : State β := s.filter (fun e => !(e.1 == p))

/-- `shutil.rmtree(p)` / `os.remove(p)`: drop the entry and everything below it. -/
def delTree (s : State β) (p : Path) : State β := s.filter (fun e => !(p.isPrefixOf e.1))

def isDir (s : State β) (p : Path) : Bool :=
  match get s p with | some .dir => true | _ => false

def isReg (s : State β) (p : Path) : Bool :=
  match get s p with | some (.reg _) => true | _ => false

/-- `os.listdir(p)`: names of the entries directly below `p`. -/
def children (s : State β) (p : Path) : List Name :=
  s.filterMap (fun e => if e.1.dropLast = p then e.1.getLast? else none)

/-- Regular files strictly below `root` (`os.walk` + files; `io_util.get_file_list` without filters). -/
def walk (s : State β) (root : Path) : List Path :=
  s.filterMap (fun e => if root.isPrefixOf e.1 && isReg s e.1 then some e.1 else none)

inductive Step (β : Type) where
  | mkdir (p : Path)                       -- no-op when something exists at `p` (`exist_ok=True`)
  | create (p : Path)                      -- create empty or truncate
  | append (p : Path) (chunk : List β)     -- write one chunk at the end of an open regular file
  | close (p : Path)
  | rename (a b : Path)                    -- `os.replace(a, b)` of one entry, atomic
  | remove (p : Path)
deriving Repr

def step (s : State β) : Step β → State β
  | .mkdir p => match get s p with | none => set s p .dir | some _ => s
  | .create p => set s p (.reg [])
  | .append p ch => match get s p with | some (.reg c) => set s p (.reg (c ++ ch)) | _ => s
  | .close _ => s
  | .rename a b => match get s a with | some f => set (del s a) b f | none => s
  | .remove p => del s p

def exec (steps : List (Step β)) (s : State β) : State β := steps.foldl step s

/-- The state a crash leaves behind: exactly the first `k` primitive steps happened. -/
def crashAfter (k : Nat) (steps : List (Step β)) (s : State β) : State β := exec (steps.take k) s

/-- Paths whose entry a step may change. -/
def Step.tgt : Step β → List Path
  | .mkdir p => [p] | .create p => [p] | .append p _ => [p] | .close _ => []
  | .rename a b => [a, b] | .remove p => [p]

/-- `copy`-like leaf: `create; append first half; append rest; close`. -/
def writeSteps (p : Path) (c : List β) : List (Step β) :=
  [.create p, .append p (c.take (c.length / 2)), .append p (c.drop (c.length / 2)), .close p]

/-- `os.makedirs(base ++ rel, exist_ok=True)` issued below an existing `base`: one `mkdir` per prefix. -/
def mkdirsSteps (base : Path) (rel : Path) : List (Step β) :=
  (List.range rel.length).map (fun i => .mkdir (base ++ rel.take (i + 1)))

/-! ### Basic facts -/

theorem get_set (s : State β) (p q : Path) (f : File β) :
    get (set s p f) q = if p = q then some f else get s q := by
  induction s with
  | nil => simp [set, get]
  | cons e r ih =>
    obtain ⟨a, g⟩ := e
    by_cases h : a = p
    · subst h; simp only [set, if_true, get]; split <;> simp_all
    · simp only [set, h, if_false, get, ih]
      by_cases h2 : a = q
      · subst h2; simp [Ne.symm h]
      · simp [h2]

theorem get_del (s : State β) (p q : Path) :
    get (del s p) q = if p = q then none else get s q := by
  induction s with
  | nil => simp [del, get]
  | cons e r ih =>
    obtain ⟨a, g⟩ := e
    simp only [del] at ih
    by_cases h : a = p
    · subst h
      simp only [del, List.filter, beq_self_eq_true, Bool.not_true, get, ih]
      split <;> simp_all
    · have : (a == p) = false := by simpa using h
      simp only [del, List.filter, this, Bool.not_false, get, ih]
      by_cases h2 : a = q
      · subst h2; simp [Ne.symm h]
      · simp [h2]

theorem get_delTree (s : State β) (p q : Path) :
    get (delTree s p) q = if p <+: q then none else get s q := by
  induction s with
  | nil => simp [delTree, get]
  | cons e r ih =>
    obtain ⟨a, g⟩ := e
    simp only [delTree] at ih
    by_cases h : p <+: a
    · have h' : p.isPrefixOf a = true := by simpa using h
      simp only [delTree, List.filter, h', Bool.not_true, get, ih]
      by_cases h2 : a = q
      · subst h2; simp [h]
      · simp [h2]
    · have h' : p.isPrefixOf a = false := by
        cases hb : p.isPrefixOf a with
        | false => rfl
        | true => exact absurd (List.isPrefixOf_iff_prefix.mp hb) h
      simp only [delTree, List.filter, h', Bool.not_false, get, ih]
      by_cases h2 : a = q
      · subst h2; simp [h]
      · simp [h2]

/-- A step changes only the entries it targets. -/
theorem get_step (s : State β) (st : Step β) (q : Path) (h : q ∉ st.tgt) :
    get (step s st) q = get s q := by
  cases st with
  | mkdir p =>
    have : p ≠ q := by intro e; simp [Step.tgt, e] at h
    simp only [step]; split <;> simp [get_set, this]
  | create p =>
    have : p ≠ q := by intro e; simp [Step.tgt, e] at h
    simp [step, get_set, this]
  | append p ch =>
    have : p ≠ q := by intro e; simp [Step.tgt, e] at h
    simp only [step]; split <;> simp [get_set, this]
  | close p => rfl
  | rename a b =>
    have ha : a ≠ q := by intro e; simp [Step.tgt, e] at h
    have hb : b ≠ q := by intro e; simp [Step.tgt, e] at h
    simp only [step]; split <;> simp [get_set, get_del, ha, hb]
  | remove p =>
    have : p ≠ q := by intro e; simp [Step.tgt, e] at h
    simp [step, get_del, this]

theorem exec_append (a b : List (Step β)) (s : State β) : exec (a ++ b) s = exec b (exec a s) := by
  simp [exec, List.foldl_append]

theorem exec_cons (a : Step β) (b : List (Step β)) (s : State β) : exec (a :: b) s = exec b (step s a) := rfl

theorem get_exec (steps : List (Step β)) (s : State β) (q : Path)
    (h : ∀ st ∈ steps, q ∉ st.tgt) : get (exec steps s) q = get s q := by
  induction steps generalizing s with
  | nil => rfl
  | cons a r ih =>
    rw [exec_cons, ih _ (fun st hst => h st (List.mem_cons_of_mem _ hst)), get_step _ _ _ (h a (List.mem_cons_self ..))]

/-- After the four leaf steps the file holds exactly `c`; nothing else changed. -/
theorem get_writeSteps (s : State β) (p q : Path) (c : List β) :
    get (exec (writeSteps p c) s) q = if p = q then some (.reg c) else get s q := by
  by_cases h : p = q
  · subst h
    simp [writeSteps, exec, step, get_set, List.take_append_drop]
  · simp [writeSteps, exec, step, get_set, h]

/-- `mkdir` never creates, changes or removes a regular file. -/
theorem get_mkdir_reg (s : State β) (p q : Path) (c : List β) :
    get (step s (.mkdir p)) q = some (.reg c) ↔ get s q = some (.reg c) := by
  simp only [step]
  split
  · rename_i hn
    by_cases h : p = q
    · subst h; simp [get_set, hn]
    · simp [get_set, h]
  · rfl

theorem get_mkdirs_reg (base rel : Path) (s : State β) (q : Path) (c : List β) :
    get (exec (mkdirsSteps base rel) s) q = some (.reg c) ↔ get s q = some (.reg c) := by
  unfold mkdirsSteps
  generalize (List.range rel.length) = l
  induction l generalizing s with
  | nil => rfl
  | cons a r ih => rw [List.map_cons, exec_cons, ih, get_mkdir_reg]

theorem mem_walk (s : State β) (root p : Path) (h : p ∈ walk s root) :
    root <+: p ∧ ∃ c, get s p = some (.reg c) := by
  simp only [walk, List.mem_filterMap] at h
  obtain ⟨e, _, he⟩ := h
  split at he
  · rename_i hc
    simp only [Bool.and_eq_true, List.isPrefixOf_iff_prefix] at hc
    have : e.1 = p := by simpa using he
    subst this
    refine ⟨hc.1, ?_⟩
    have := hc.2
    unfold isReg at this
    split at this
    · rename_i c hg; exact ⟨c, hg⟩
    · simp at this
  · simp at he

/-! ### Listing facts: steps that write elsewhere do not change `children` / `walk`; entries never vanish
under `mkdir/create/append/close` -/

/-- not `rename` / `remove` -/
def Step.simple : Step β → Bool
  | .rename _ _ => false
  | .remove _ => false
  | _ => true

theorem step_simple (s : State β) (st : Step β) (h : st.simple = true) :
    step s st = s ∨ ∃ q f, q ∈ st.tgt ∧ step s st = set s q f := by
  cases st with
  | mkdir p => simp only [step]; split; · exact .inr ⟨p, _, by simp [Step.tgt], rfl⟩
               · exact .inl rfl
  | create p => exact .inr ⟨p, _, by simp [Step.tgt], rfl⟩
  | append p ch => simp only [step]; split; · exact .inr ⟨p, _, by simp [Step.tgt], rfl⟩
                   · exact .inl rfl
  | close p => exact .inl rfl
  | rename a b => simp [Step.simple] at h
  | remove p => simp [Step.simple] at h

theorem filterMap_congr' {α γ : Type} (l : List α) (f g : α → Option γ) (h : ∀ x ∈ l, f x = g x) :
    l.filterMap f = l.filterMap g := by
  induction l with
  | nil => rfl
  | cons a r ih =>
    rw [List.filterMap_cons, List.filterMap_cons, h a (List.mem_cons_self ..),
      ih (fun x hx => h x (List.mem_cons_of_mem _ hx))]

/-- a key-indexed enumeration ignores a `set` at a key it maps to nothing -/
theorem filterMap_set {γ : Type} (F : Path → Option γ) (s : State β) (q : Path) (f : File β) (hF : F q = none) :
    (set s q f).filterMap (fun e => F e.1) = s.filterMap (fun e => F e.1) := by
  induction s with
  | nil => simp only [set, List.filterMap_cons, hF, List.filterMap_nil]
  | cons e r ih =>
    obtain ⟨a, g⟩ := e
    by_cases ha : a = q
    · subst ha; simp only [set, if_true, List.filterMap_cons]
    · simp only [set, ha, if_false, List.filterMap_cons, ih]

theorem key_mem_set (s : State β) (q : Path) (f : File β) (a : Path) (g : File β) (h : (a, g) ∈ s) :
    ∃ g', (a, g') ∈ set s q f := by
  induction s with
  | nil => cases h
  | cons e r ih =>
    obtain ⟨b, gb⟩ := e
    by_cases hb : b = q
    · subst hb
      simp only [set, if_true]
      rcases List.mem_cons.mp h with h1 | h1
      · cases h1; exact ⟨f, List.mem_cons_self ..⟩
      · exact ⟨g, List.mem_cons_of_mem _ h1⟩
    · simp only [set, hb, if_false]
      rcases List.mem_cons.mp h with h1 | h1
      · cases h1; exact ⟨g, List.mem_cons_self ..⟩
      · obtain ⟨g', hg'⟩ := ih h1; exact ⟨g', List.mem_cons_of_mem _ hg'⟩

/-- ... and never loses an element -/
theorem mem_filterMap_set {γ : Type} (F : Path → Option γ) (s : State β) (q : Path) (f : File β) (x : γ)
    (h : x ∈ s.filterMap (fun e => F e.1)) : x ∈ (set s q f).filterMap (fun e => F e.1) := by
  rw [List.mem_filterMap] at h ⊢
  obtain ⟨⟨a, g⟩, he, hx⟩ := h
  obtain ⟨g', hg'⟩ := key_mem_set s q f a g he
  exact ⟨(a, g'), hg', hx⟩

theorem children_set (s : State β) (p q : Path) (f : File β) (h : ¬ p <+: q) :
    children (set s q f) p = children s p := by
  have hq : q.dropLast ≠ p := fun e => h (e ▸ List.dropLast_prefix q)
  exact filterMap_set (fun k => if k.dropLast = p then k.getLast? else none) s q f (by simp [hq])

theorem mem_children_set (s : State β) (p q : Path) (f : File β) (n : Name) (h : n ∈ children s p) :
    n ∈ children (set s q f) p :=
  mem_filterMap_set (fun k => if k.dropLast = p then k.getLast? else none) s q f n h

theorem mem_children_of_get (s : State β) (p : Path) (n : Name) (h : get s (p ++ [n]) ≠ none) :
    n ∈ children s p := by
  induction s with
  | nil => simp [get] at h
  | cons e r ih =>
    obtain ⟨a, g⟩ := e
    simp only [children, List.filterMap_cons] at ih ⊢
    by_cases ha : a = p ++ [n]
    · subst ha; simp
    · simp only [get, ha, if_false] at h
      split
      · exact ih h
      · exact List.mem_cons_of_mem _ (ih h)

/-- `walk` with the enumerated list and the looked-up state separated -/
def walkAux (t s : State β) (root : Path) : List Path :=
  t.filterMap (fun e => if root.isPrefixOf e.1 && isReg s e.1 then some e.1 else none)

theorem walk_eq (s : State β) (root : Path) : walk s root = walkAux s s root := rfl

theorem isPrefixOf_false {root q : Path} (h : ¬ root <+: q) : root.isPrefixOf q = false := by
  cases hb : root.isPrefixOf q with
  | false => rfl
  | true => exact absurd (List.isPrefixOf_iff_prefix.mp hb) h

theorem walkAux_set_right (t s : State β) (root q : Path) (f : File β) (h : ¬ root <+: q) :
    walkAux t (set s q f) root = walkAux t s root := by
  unfold walkAux
  apply filterMap_congr'
  intro e _
  by_cases hp : root <+: e.1
  · have : q ≠ e.1 := fun he => h (he ▸ hp)
    simp [isReg, get_set, this]
  · simp [isPrefixOf_false hp]

theorem walkAux_set_left (t s : State β) (root q : Path) (f : File β) (h : ¬ root <+: q) :
    walkAux (set t q f) s root = walkAux t s root :=
  filterMap_set (fun k => if root.isPrefixOf k && isReg s k then some k else none) t q f
    (by simp [isPrefixOf_false h])

theorem walk_set (s : State β) (root q : Path) (f : File β) (h : ¬ root <+: q) :
    walk (set s q f) root = walk s root := by
  rw [walk_eq, walkAux_set_right _ _ _ _ _ h, walkAux_set_left _ _ _ _ _ h]; rfl

/-- Steps that are simple and write nowhere at or below `p` keep `children s p` and `walk s p`. -/
theorem children_walk_exec (steps : List (Step β)) (s : State β) (p : Path)
    (h : ∀ st ∈ steps, st.simple = true ∧ ∀ q ∈ st.tgt, ¬ p <+: q) :
    children (exec steps s) p = children s p ∧ walk (exec steps s) p = walk s p := by
  induction steps generalizing s with
  | nil => exact ⟨rfl, rfl⟩
  | cons a r ih =>
    rw [exec_cons]
    obtain ⟨h1, h2⟩ := ih (step s a) (fun st hst => h st (List.mem_cons_of_mem _ hst))
    obtain ⟨hs, ht⟩ := h a (List.mem_cons_self ..)
    rcases step_simple s a hs with he | ⟨q, f, hq, he⟩
    · rw [h1, h2, he]; exact ⟨rfl, rfl⟩
    · rw [h1, h2, he, children_set _ _ _ _ (ht q hq), walk_set _ _ _ _ (ht q hq)]; exact ⟨rfl, rfl⟩

/-- Simple steps never remove a name from a directory listing. -/
theorem mem_children_exec (steps : List (Step β)) (s : State β) (p : Path) (n : Name)
    (h : ∀ st ∈ steps, st.simple = true) (hn : n ∈ children s p) : n ∈ children (exec steps s) p := by
  induction steps generalizing s with
  | nil => exact hn
  | cons a r ih =>
    rw [exec_cons]
    apply ih _ (fun st hst => h st (List.mem_cons_of_mem _ hst))
    rcases step_simple s a (h a (List.mem_cons_self ..)) with he | ⟨q, f, _, he⟩
    · rw [he]; exact hn
    · rw [he]; exact mem_children_set _ _ _ _ _ hn

theorem get_ne_none_of_mem (s : State β) (a : Path) (g : File β) (h : (a, g) ∈ s) : get s a ≠ none := by
  induction s with
  | nil => cases h
  | cons e r ih =>
    obtain ⟨b, gb⟩ := e
    by_cases hb : b = a
    · simp [get, hb]
    · simp only [get, hb, if_false]
      rcases List.mem_cons.mp h with h1 | h1
      · cases h1; exact absurd rfl hb
      · exact ih h1

theorem dropLast_append_of_getLast? {α : Type} (l : List α) (a : α) (h : l.getLast? = some a) :
    l.dropLast ++ [a] = l := by
  induction l with
  | nil => simp at h
  | cons x r ih =>
    cases r with
    | nil => simp at h; simp [h]
    | cons y t =>
      have h' : (y :: t).getLast? = some a := by simpa [List.getLast?_cons_cons] using h
      simp only [List.dropLast_cons₂, List.cons_append]
      rw [ih h']

/-- a listed name has an entry -/
theorem get_ne_none_of_mem_children (s : State β) (p : Path) (n : Name) (h : n ∈ children s p) :
    get s (p ++ [n]) ≠ none := by
  simp only [children, List.mem_filterMap] at h
  obtain ⟨⟨a, g⟩, he, hx⟩ := h
  split at hx
  · rename_i hd
    have : a = p ++ [n] := by
      have := dropLast_append_of_getLast? a n hx
      rw [← this, hd]
    exact this ▸ get_ne_none_of_mem s a g he
  · cases hx

end HedVerif.FS
