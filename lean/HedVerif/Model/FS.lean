/-
Shared file-system step model (DESIGN.md section 3, "File system / OS"), namespace `HedVerif.FS`.

State  = association list  path -> file   (`File = dir | reg bytes`), paths are component lists.
Steps  = `mkdir`, `create` (create-empty / truncate = `open(p,'w')`), `append` (one written chunk),
         `close`, `rename` (`os.replace` of one entry), `remove`.
`shutil.copy*`/`open+write` are `create; append*; close`, so a truncated file is a reachable state.
Crash  = stop after any prefix of the step list (`crashAfter`).
Not modelled: loss of data after a reported success, permissions, metadata (`copystat`), symlinks.
`create` on an existing directory overwrites the entry (Python raises `IsADirectoryError`; unreachable
from the well-formed trees the users of this model start from).
The content alphabet `β` is a parameter (bytes, or lexed JSON symbols, see `Model/Backup.lean`).
No Mathlib imports: this file is linked into the native driver.
-/
namespace HedVerif.FS

abbrev Name := List Char
abbrev Path := List Name

inductive File (β : Type) where
  | dir
  | reg (content : List β)
deriving Repr, DecidableEq, Inhabited

abbrev State (β : Type) := List (Path × File β)

variable {β : Type}

/-- `os.path.exists` / `isdir` / reading: first entry stored under the path. -/
def get : State β → Path → Option (File β)
  | [], _ => none
  | (q, f) :: r, p => if q = p then some f else get r p

/-- Replace in place, or append a new entry. Keys stay unique if they were. -/
def set : State β → Path → File β → State β
  | [], p, f => [(p, f)]
  | (q, g) :: r, p, f => if q = p then (p, f) :: r else (q, g) :: set r p f

def del (s : State β) (p : Path) : State β := s.filter (fun e => !(e.1 == p))

/-- `shutil.rmtree(p)` / `os.remove(p)`: drop the entry and everything below it. -/
def delTree (s : State β) (p : Path) : State β := s.filter (fun e => !(p.isPrefixOf e.1))

def isDir (s : State β) (p : Path) : Bool :=
  match get s p with | some .dir => true | _ => false

def isReg (s : State β) (p : Path) : Bool :=
  match get s p with | some (.reg _) => true | _ => false

/-- `os.listdir(p)`: names of the entries directly below `p`. -/
def children (s : State β) (p : Path) : List Name :=
  s.filterMap (fun e => if e.1.dropLast = p then e.1.getLast? else none)

/-- Regular files strictly below `root` (`os.walk` + files; `io_util.get_file_list` without filters). -/
def walk (s : State β) (root : Path) : List Path :=
  s.filterMap (fun e => if root.isPrefixOf e.1 && isReg s e.1 then some e.1 else none)

inductive Step (β : Type) where
  | mkdir (p : Path)                       -- no-op when something exists at `p` (`exist_ok=True`)
  | create (p : Path)                      -- create empty or truncate
  | append (p : Path) (chunk : List β)     -- write one chunk at the end of an open regular file
  | close (p : Path)
  | rename (a b : Path)                    -- `os.replace(a, b)` of one entry, atomic
  | remove (p : Path)
deriving Repr

def step (s : State β) : Step β → State β
  | .mkdir p => match get s p with | none => set s p .dir | some _ => s
  | .create p => set s p (.reg [])
  | .append p ch => match get s p with | some (.reg c) => set s p (.reg (c ++ ch)) | _ => s
  | .close _ => s
  | .rename a b => match get s a with | some f => set (del s a) b f | none => s
  | .remove p => del s p

def exec (steps : List (Step β)) (s : State β) : State β := steps.foldl step s

/-- The state a crash leaves behind: exactly the first `k` primitive steps happened. -/
def crashAfter (k : Nat) (steps : List (Step β)) (s : State β) : State β := exec (steps.take k) s

/-- Paths whose entry a step may change. -/
def Step.tgt : Step β → List Path
  | .mkdir p => [p] | .create p => [p] | .append p _ => [p] | .close _ => []
  | .rename a b => [a, b] | .remove p => [p]

/-- `copy`-like leaf: `create; append first half; append rest; close`. -/
def writeSteps (p : Path) (c : List β) : List (Step β) :=
  [.create p, .append p (c.take (c.length / 2)), .append p (c.drop (c.length / 2)), .close p]

/-- `os.makedirs(base ++ rel, exist_ok=True)` issued below an existing `base`: one `mkdir` per prefix. -/
def mkdirsSteps (base : Path) (rel : Path) : List (Step β) :=
  (List.range rel.length).map (fun i => .mkdir (base ++ rel.take (i + 1)))

/-! ### Basic facts -/

theorem get_set (s : State β) (p q : Path) (f : File β) :
    get (set s p f) q = if p = q then some f else get s q := by
  induction s with
  | nil => simp [set, get]
  | cons e r ih =>
    obtain ⟨a, g⟩ := e
    by_cases h : a = p
    · subst h; simp only [set, if_true, get]; split <;> simp_all
    · simp only [set, h, if_false, get, ih]
      by_cases h2 : a = q
      · subst h2; simp [Ne.symm h]
      · simp [h2]

theorem get_del (s : State β) (p q : Path) :
    get (del s p) q = if p = q then none else get s q := by
  induction s with
  | nil => simp [del, get]
  | cons e r ih =>
    obtain ⟨a, g⟩ := e
    simp only [del] at ih
    by_cases h : a = p
    · subst h
      simp only [del, List.filter, beq_self_eq_true, Bool.not_true, get, ih]
      split <;> simp_all
    · have : (a == p) = false := by simpa using h
      simp only [del, List.filter, this, Bool.not_false, get, ih]
      by_cases h2 : a = q
      · subst h2; simp [Ne.symm h]
      · simp [h2]

theorem get_delTree (s : State β) (p q : Path) :
    get (delTree s p) q = if p <+: q then none else get s q := by
  induction s with
  | nil => simp [delTree, get]
  | cons e r ih =>
    obtain ⟨a, g⟩ := e
    simp only [delTree] at ih
    by_cases h : p <+: a
    · have h' : p.isPrefixOf a = true := by simpa using h
      simp only [delTree, List.filter, h', Bool.not_true, get, ih]
      by_cases h2 : a = q
      · subst h2; simp [h]
      · simp [h2]
    · have h' : p.isPrefixOf a = false := by
        cases hb : p.isPrefixOf a with
        | false => rfl
        | true => exact absurd (List.isPrefixOf_iff_prefix.mp hb) h
      simp only [delTree, List.filter, h', Bool.not_false, get, ih]
      by_cases h2 : a = q
      · subst h2; simp [h]
      · simp [h2]

/-- A step changes only the entries it targets. -/
theorem get_step (s : State β) (st : Step β) (q : Path) (h : q ∉ st.tgt) :
    get (step s st) q = get s q := by
  cases st with
  | mkdir p =>
    have : p ≠ q := by intro e; simp [Step.tgt, e] at h
    simp only [step]; split <;> simp [get_set, this]
  | create p =>
    have : p ≠ q := by intro e; simp [Step.tgt, e] at h
    simp [step, get_set, this]
  | append p ch =>
    have : p ≠ q := by intro e; simp [Step.tgt, e] at h
    simp only [step]; split <;> simp [get_set, this]
  | close p => rfl
  | rename a b =>
    have ha : a ≠ q := by intro e; simp [Step.tgt, e] at h
    have hb : b ≠ q := by intro e; simp [Step.tgt, e] at h
    simp only [step]; split <;> simp [get_set, get_del, ha, hb]
  | remove p =>
    have : p ≠ q := by intro e; simp [Step.tgt, e] at h
    simp [step, get_del, this]

theorem exec_append (a b : List (Step β)) (s : State β) : exec (a ++ b) s = exec b (exec a s) := by
  simp [exec, List.foldl_append]

theorem exec_cons (a : Step β) (b : List (Step β)) (s : State β) : exec (a :: b) s = exec b (step s a) := rfl

theorem get_exec (steps : List (Step β)) (s : State β) (q : Path)
    (h : ∀ st ∈ steps, q ∉ st.tgt) : get (exec steps s) q = get s q := by
  induction steps generalizing s with
  | nil => rfl
  | cons a r ih =>
    rw [exec_cons, ih _ (fun st hst => h st (List.mem_cons_of_mem _ hst)), get_step _ _ _ (h a (List.mem_cons_self ..))]

/-- After the four leaf steps the file holds exactly `c`; nothing else changed. -/
theorem get_writeSteps (s : State β) (p q : Path) (c : List β) :
    get (exec (writeSteps p c) s) q = if p = q then some (.reg c) else get s q := by
  by_cases h : p = q
  · subst h
    simp [writeSteps, exec, step, get_set, List.take_append_drop]
  · simp [writeSteps, exec, step, get_set, h]

/-- `mkdir` never creates, changes or removes a regular file. -/
theorem get_mkdir_reg (s : State β) (p q : Path) (c : List β) :
    get (step s (.mkdir p)) q = some (.reg c) ↔ get s q = some (.reg c) := by
  simp only [step]
  split
  · rename_i hn
    by_cases h : p = q
    · subst h; simp [get_set, hn]
    · simp [get_set, h]
  · rfl

theorem get_mkdirs_reg (base rel : Path) (s : State β) (q : Path) (c : List β) :
    get (exec (mkdirsSteps base rel) s) q = some (.reg c) ↔ get s q = some (.reg c) := by
  unfold mkdirsSteps
  generalize (List.range rel.length) = l
  induction l generalizing s with
  | nil => rfl
  | cons a r ih => rw [List.map_cons, exec_cons, ih, get_mkdir_reg]

theorem mem_walk (s : State β) (root p : Path) (h : p ∈ walk s root) :
    root <+: p ∧ ∃ c, get s p = some (.reg c) := by
  simp only [walk, List.mem_filterMap] at h
  obtain ⟨e, _, he⟩ := h
  split at he
  · rename_i hc
    simp only [Bool.and_eq_true, List.isPrefixOf_iff_prefix] at hc
    have : e.1 = p := by simpa using he
    subst this
    refine ⟨hc.1, ?_⟩
    have := hc.2
    unfold isReg at this
    split at this
    · rename_i c hg; exact ⟨c, hg⟩
    · simp at this
  · simp at he

end HedVerif.FS
