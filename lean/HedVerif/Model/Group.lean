/-
Model of schema groups, namespaces, version-list parsing and partnered-schema merging:
  `HedSchemaGroup.find_tag_entry/schema_for_namespace/get_tags_with_attribute`   (hed/schema/hed_schema_group.py)
  `HedSchema.find_tag_entry/set_schema_prefix/get_tags_with_attribute`           (hed/schema/hed_schema.py)
  `CharValidator._check_invalid_prefix_issues`                                   (hed/validator/util/char_util.py)
  `GroupValidator.check_for_required_tags/check_multiple_unique_tags_exist`      (hed/validator/util/group_util.py)
  `parse_version_list/_load_schema_version`                                      (hed/schema/hed_schema_io.py)
  `SchemaLoader._load/_add_to_dict_base/find_rooted_entry`, `SchemaLoaderXML._add_tags_recursive`
                                                                                 (hed/schema/schema_io/*.py)
`casefold` is a character-wise parameter `fc` (DESIGN.md §3); the fold of a text is `s.map fc`.
-/
import HedVerif.Model.Schema

namespace HedVerif.Group
open HedVerif.Schema

/-- fold of one component / one text -/
def foldS (fc : Char → Char) (s : Str) : Str := s.map fc

/-- One member schema as far as C13 needs it: vocabulary and the names (long names, as
`entry.name`) of the tags carrying the `required` / `unique` attribute. -/
structure Member where
  vocab : Vocab
  required : List Str
  unique : List Str

/-- `HedSchemaGroup._schemas`: namespace ("" or "xx:") ↦ member schema.  An association list read
with first-match lookup; the constructor refuses repeated prefixes, so this is the dictionary. -/
abbrev Group := List (Str × Member)

def prefixes (g : Group) : List Str := g.map (·.1)

/-- `HedSchemaGroup.__init__` (after fix 1a730be): not empty, and the prefixes are pairwise distinct
*after case folding* (SCHEMA_DUPLICATE_PREFIX otherwise) — "sc:" and "SC:" cannot both be members, which is
the hypothesis `foldS fc a ≠ foldS fc b` of `C13.separated_of_prefixes`. -/
def wellFormed (fc : Char → Char) (g : Group) : Bool :=
  !g.isEmpty && decide ((prefixes g).map (foldS fc)).Nodup

/-- `schema_for_namespace` -/
def lookup (g : Group) (ns : Str) : Option Member := (g.find? (fun e => e.1 == ns)).map (·.2)

inductive GResult where
  | unmatched (ns : Str)          -- HED_LIBRARY_UNMATCHED
  | res (r : FindResult)
deriving Repr, DecidableEq, Inhabited

/-- `HedSchemaGroup.find_tag_entry(tag, tag.schema_namespace)` as called by `HedTag`:
the namespace is extracted from the text, the owning member strips it and looks the rest up. -/
def find (g : Group) (fc : Char → Char) (text : Str) : GResult :=
  let ns := namespaceOf text
  match lookup g ns with
  | none => .unmatched ns
  | some m => .res (Schema.find m.vocab (foldS fc) (text.drop ns.length))

/-- `HedSchema.find_tag_entry` of a single schema loaded under prefix `p` (not in a group) -/
def findAlone (p : Str) (m : Member) (fc : Char → Char) (text : Str) : GResult :=
  let ns := namespaceOf text
  if ns != p then .unmatched ns
  else .res (Schema.find m.vocab (foldS fc) (text.drop ns.length))

/-- validation codes of a tag-resolution outcome (`error_messages.py`: HED_LIBRARY_UNMATCHED is
reported as TAG_NAMESPACE_PREFIX_INVALID) -/
inductive Code where
  | tagNamespacePrefixInvalid | tagInvalid | tagExtensionInvalid
deriving Repr, DecidableEq

def codeOf : GResult → Option Code
  | .unmatched _ => some .tagNamespacePrefixInvalid
  | .res (.noValidTag _) => some .tagInvalid
  | .res (.invalidParent ..) => some .tagExtensionInvalid
  | .res (.found ..) => none

/-- `schema_namespace[:-1].isalpha()`.  `alpha` is `str.isalpha` on one character: Lean has no Unicode
tables, so for non-ASCII characters the predicate is DATA computed by CPython for the alphabet in use and
handed in by the harness (as `Validate.CharData.alpha` is for C01); every statement is parametric in it. -/
def alphaPrefix (alpha : Char → Bool) (ns : Str) : Bool := !ns.dropLast.isEmpty && ns.dropLast.all alpha

/-- `_check_invalid_prefix_issues` (tag side): a non-empty namespace whose body is not alphabetic is flagged -/
def prefixIssue (alpha : Char → Bool) (ns : Str) : Bool := !ns.isEmpty && !alphaPrefix alpha ns

inductive LoadErr where
  | invalidLibraryPrefix                 -- INVALID_LIBRARY_PREFIX
  | duplicateLibrary (version : Str)     -- SCHEMA_DUPLICATE_LIBRARY
  | duplicatePrefix                      -- SCHEMA_DUPLICATE_PREFIX
deriving Repr, DecidableEq

/-- `set_schema_prefix` (load side): a colon is appended when missing; the body must be alphabetic — the SAME
test as on the tag side -/
def setPrefix (alpha : Char → Bool) (ns : Str) : Except LoadErr Str :=
  let ns' := if !ns.isEmpty && ns.getLast? != some ':' then ns ++ [':'] else ns
  if !ns'.isEmpty && !alphaPrefix alpha ns' then .error .invalidLibraryPrefix else .ok ns'

/-! ### attribute lists: union over the members, names carrying the prefix -/

/-- first-occurrence de-duplication (Python builds a `set`) -/
def dedup {α} [BEq α] : List α → List α
  | [] => []
  | x :: xs => x :: (dedup xs).filter (fun y => y != x)

/-- `HedSchema.get_tags_with_attribute`: each name prefixed with the schema's namespace -/
def memberNames (sel : Member → List Str) (e : Str × Member) : List Str := (sel e.2).map (e.1 ++ ·)

/-- `HedSchemaGroup.get_tags_with_attribute`: union over ALL members -/
def tagsWithAttribute (sel : Member → List Str) (g : Group) : List Str := dedup (g.flatMap (memberNames sel))

/-- `check_for_required_tags`: every listed name that no tag's long form (folded) starts with -/
def missing (fc : Char → Char) (names longs : List Str) : List Str :=
  names.filter fun r => !(longs.any fun l => (foldS fc r).isPrefixOf (foldS fc l))

/-- number of tags whose long form starts with the name -/
def countFor (fc : Char → Char) (u : Str) (longs : List Str) : Nat :=
  (longs.filter fun l => (foldS fc u).isPrefixOf (foldS fc l)).length

/-- `check_multiple_unique_tags_exist`: every listed name matched by more than one tag -/
def repeated (fc : Char → Char) (names longs : List Str) : List Str :=
  names.filter fun u => decide (countFor fc u longs > 1)

/-- REQUIRED_TAG_MISSING / TAG_NOT_UNIQUE issues of a group for the long forms of an annotation's tags -/
def requiredIssues (g : Group) (fc : Char → Char) (longs : List Str) : List Str :=
  missing fc (tagsWithAttribute (·.required) g) longs
def uniqueIssues (g : Group) (fc : Char → Char) (longs : List Str) : List Str :=
  repeated fc (tagsWithAttribute (·.unique) g) longs

/-! ### version lists -/

/-- `str.partition(":")` keeping namespace and version -/
def partitionColon (v : Str) : Str × Str :=
  match v.idxOf? ':' with
  | none => ([], v)
  | some i => (v.take i, v.drop (i + 1))

/-- the loop of `parse_version_list`: `seen` holds the (namespace, version) pairs so far, in order;
`version in out_versions[namespace]` is `(namespace, version) ∈ seen`. -/
def parseSeen : List Str → List (Str × Str) → Except LoadErr (List (Str × Str))
  | [], seen => .ok seen
  | v :: vs, seen =>
    let e := partitionColon v
    if e ∈ seen then .error (.duplicateLibrary e.2) else parseSeen vs (seen ++ [e])

def joinComma : List Str → Str
  | [] => []
  | [v] => v
  | v :: vs => v ++ (',' :: joinComma vs)

/-- the dictionary returned: keys in first-occurrence order, value "ns:v1,v2" (or "v1,v2") -/
def grouping (seen : List (Str × Str)) : List (Str × Str) :=
  (dedup (seen.map (·.1))).map fun ns =>
    let vs := joinComma ((seen.filter (fun e => e.1 == ns)).map (·.2))
    (ns, if ns.isEmpty then vs else ns ++ (':' :: vs))

/-- `parse_version_list` -/
def parseVersionList (vs : List Str) : Except LoadErr (List (Str × Str)) :=
  (parseSeen vs []).map grouping

/-! ### merging a library into (a copy of) its partner -/

inductive Clash where
  | duplicate (dups : List Nat)          -- SCHEMA_DUPLICATE_NAMES (indices in the merged tag list)
  | rootedMissing (root : Str)           -- ROOTED_TAG_DOES_NOT_EXIST
  | rootedNotRoot (n : Name)             -- ROOTED_TAG_INVALID
deriving Repr, DecidableEq

/-- A library tag as written in the library's own (unmerged) file: long name relative to the file,
and the value of its `rooted` attribute if any.  Entries come in file order (depth first). -/
abbrev LibEntry := Name × Option Str

/-- `_add_tags_recursive` + `find_rooted_entry` (not loading a merged file): a rooted tag must be a
top-level node of the library, its root must be a tag of the partner that is not itself a library tag
(`index < nStd`); it and its descendants are placed under the root's long name.  `cur` is the path
prefix of the current top-level subtree. -/
def placeAll (base : Vocab) (fc : Char → Char) (nStd : Nat) : Name → List LibEntry → Except Clash (List Name)
  | _, [] => .ok []
  | _, (n, some r) :: rest =>
    if n.length != 1 then .error (.rootedNotRoot n)
    else match base.table.get [foldS fc r] with
      | none => .error (.rootedMissing r)
      | some i =>
        if i < nStd then
          let pre := base.name i
          (placeAll base fc nStd pre rest).map (fun l => (pre ++ n) :: l)
        else .error (.rootedMissing r)
  | cur, (n, none) :: rest =>
    if n.length ≤ 1 then (placeAll base fc nStd [] rest).map (fun l => n :: l)
    else (placeAll base fc nStd cur rest).map (fun l => (cur ++ n) :: l)

/-- the tag dictionary after `_parse_data` on top of `base`: the base's entries first, unchanged, then
the library's in file order -/
def place (fc : Char → Char) (base : List Name) (nStd : Nat) (lib : List LibEntry) : Except Clash (List Name) :=
  (placeAll (Vocab.build (foldS fc) base) fc nStd [] lib).map (fun l => base ++ l)

/-- `_load_schema_version` appending one more library to a schema of the same prefix:
`has_duplicates()` afterwards refuses the load. -/
def mergeInto (fc : Char → Char) (base : List Name) (nStd : Nat) (lib : List LibEntry) : Except Clash (List Name) :=
  match place fc base nStd lib with
  | .error e => .error e
  | .ok all =>
    let d := (Vocab.build (foldS fc) all).dups
    if d.isEmpty then .ok all else .error (.duplicate d)

/-- a library merged into a deep copy of its standard partner -/
def merge (fc : Char → Char) (std : List Name) (lib : List LibEntry) : Except Clash (List Name) :=
  mergeInto fc std std.length lib

/-- several libraries under one prefix ("testlib_2.0.0,score_1.1.0"): the first is placed on the
partner without a duplicate check (a single load never raises for duplicates), every further one is
merged into the result and checked. -/
def loadSamePrefix (fc : Char → Char) (std : List Name) : List (List LibEntry) → Except Clash (List Name)
  | [] => .ok std
  | l :: ls => do
    let first ← place fc std std.length l
    ls.foldlM (fun cur lib => mergeInto fc cur std.length lib) first

/-! ### the name-keyed sections (unit classes, units, unit modifiers, value classes, attributes, properties) -/

/-- one entry of a section: name, attributes as (name, value) pairs, and whether it carries `inLibrary` -/
structure SEntry where
  name : Str
  attrs : List (Str × Str)
  inLib : Bool
deriving DecidableEq, Repr

/-- the dictionary key of an entry: the name as written for the case-sensitive sections (unit classes, unit
modifiers, value classes, attributes, properties, units that are symbols), the case-folded name for the other
units (`HedSchemaUnitSection._check_if_duplicate`) -/
def nameKeyExact (e : SEntry) : Str := e.name
def unitKey (fc : Char → Char) (e : SEntry) : Str :=
  if e.attrs.any (fun kv => kv.1 == "unitSymbol".toList) then e.name else foldS fc e.name

/-- `HedSchemaUnitClassSection._check_if_duplicate`: an entry whose only attribute is `inLibrary` -/
def isPlaceholder (e : SEntry) : Bool := e.attrs.isEmpty && e.inLib

/-- `HedSchemaSection._add_to_dict/_check_if_duplicate` over a list of new entries: an entry whose key is
already bound is recorded in `duplicate_names` and binds nothing — except, in the unit-class section (`ph`),
a bare placeholder of an existing class (it only carries new units).  `acc` = entries bound so far. -/
def addAll (key : SEntry → Str) (ph : Bool) : List SEntry → List SEntry → List Str → List SEntry × List Str
  | [], acc, d => (acc, d)
  | e :: es, acc, d =>
    if acc.any (fun x => key x == key e) then
      (if ph && isPlaceholder e then addAll key ph es acc d else addAll key ph es acc (d ++ [e.name]))
    else addAll key ph es (acc ++ [e]) d

/-- `section.get(key)` -/
def sectionGet (key : SEntry → Str) (sec : List SEntry) (k : Str) : Option SEntry :=
  sec.find? (fun x => key x == k)

/-- what the loader offers to the section: everything of an unmerged library file; only the `inLibrary`
entries of a merged file that is appended (`_add_to_dict_base`) -/
def offered (lib : List SEntry) (appendingMerged : Bool) : List SEntry :=
  if appendingMerged then lib.filter (·.inLib) else lib

/-- merging one section of a library into the partner's; `has_duplicates()` refuses the result of an append -/
def mergeSection (key : SEntry → Str) (ph : Bool) (base lib : List SEntry) (appendingMerged : Bool) :
    Except (List Str) (List SEntry) :=
  let r := addAll key ph (offered lib appendingMerged) base []
  if r.2.isEmpty then .ok r.1 else .error r.2

/-! ### several versions under one prefix: the header guards of `SchemaLoader.__init__` -/

/-- One bundled schema file (merged form): its `withStandard` header value ("" for a standard or stand-alone
schema) and all its tags in file order, flagged `inLibrary` or not. -/
structure Source where
  withStandard : Str
  tags : List (Name × Bool)

def Source.names (s : Source) : List Name := s.tags.map (·.1)

/-- `_add_to_dict_base` while appending a merged file: entries without `inLibrary` are skipped -/
def Source.libNames (s : Source) : List Name := (s.tags.filter (·.2)).map (·.1)

inductive Refusal where
  | notPartnered           -- SCHEMA_DUPLICATE_PREFIX "Loading multiple normal schemas as a merged one …"
  | withStandardDiffers    -- BAD_WITH_STANDARD_MULTIPLE_VALUES "Merging schemas requires same withStandard value."
  | clash (c : Clash)      -- SCHEMA_DUPLICATE_NAMES after the append
deriving Repr, DecidableEq

/-- `SchemaLoader.__init__(schema=cur)` + `_parse_data` + `has_duplicates()` of `_load_schema_version`:
the schema appended to must be partnered, the new file must name the same partner, and afterwards no short
name may be bound twice.  `ws` is the `withStandard` of the schema appended to. -/
def appendSource (fc : Char → Char) (ws : Str) (cur : List Name) (s : Source) : Except Refusal (List Name) :=
  if ws.isEmpty then .error .notPartnered
  else if s.withStandard != ws then .error .withStandardDiffers
  else match mergeInto fc cur cur.length (s.libNames.map fun n => (n, none)) with
    | .ok m => .ok m
    | .error c => .error (.clash c)

/-- `_load_schema_version("a,b,…")`: the first file as it is, every further one appended -/
def loadVersions (fc : Char → Char) (first : Source) (rest : List Source) : Except Refusal (List Name) :=
  rest.foldlM (fun cur s => appendSource fc first.withStandard cur s) first.names

end HedVerif.Group
