/-
Raw closed mode of C07 (`Tabular.validateClosedRaw`, lean/HedVerif/Model/ClosedRaw.lean): the composition
assembly (C06) → file layer (C07) → string validator (C01), as a function of sidecar + events table.
The theorems of `Props/Closed.lean` restated on raw input, and the facts of `Props/C06.lean` about assembly lifted to
the rows the file layer sees.
-/
import HedVerif.Model.ClosedRaw
import HedVerif.Props.Closed
import HedVerif.Props.C06

namespace HedVerif.Raw
open HedVerif HedVerif.Assemble

theorem transformed_names (cols : List Col) (header r : List Str) :
    (transformed cols header r).map (·.1) = cols.map (·.name) := by
  simp [transformed, Function.comp_def]

theorem liveRefs_names (refs : List Str) (tr tr' : List (Str × Str)) (h : tr.map (·.1) = tr'.map (·.1)) :
    liveRefs refs tr = liveRefs refs tr' := by
  unfold liveRefs
  apply List.filter_congr
  intro r _
  have : ∀ l : List (Str × Str), (l.any fun p => p.1 == r) = (l.map (·.1)).any (· == r) := by
    intro l; simp [List.any_map, Function.comp_def]
  rw [this tr, this tr', h]

/-- the column names of the assembled frame do not depend on the row -/
theorem aRow_names (sc : Sidecar) (header r : List Str) : (aRow sc header r).map (·.1) = aColumns sc header := by
  unfold aColumns aRow
  rw [(C06.splice _ _).1, (C06.splice _ _).1, transformed_names, transformed_names,
    liveRefs_names _ (transformed (activeCols sc header) header r) (transformed (activeCols sc header) header [])
      (by rw [transformed_names, transformed_names])]

theorem liveFrom_texts : ∀ (cols cells : List Str) (i : Nat), cols.length = cells.length →
    (Tabular.liveFrom i cols cells).map (·.2.2) = cells.filter fun x => !Tabular.isSkip x
  | [], [], _, _ => rfl
  | [], _ :: _, _, h => by simp at h
  | _ :: _, [], _, h => by simp at h
  | c :: cs, x :: xs, i, h => by
    have ih := liveFrom_texts cs xs (i + 1) (by simpa using h)
    unfold Tabular.liveFrom
    cases hx : Tabular.isSkip x <;> simp [hx, ih]

theorem keep_eq : keep = fun x => !Tabular.isSkip x := by
  funext x
  simp [keep, Tabular.isSkip, Tabular.na, NA, bne]

theorem joinWith_intercalate (sep : Str) : ∀ l : List Str, Tabular.joinWith sep l = sep.intercalate l
  | [] => rfl
  | [x] => by simp [Tabular.joinWith, List.intercalate]
  | x :: y :: r => by
    have ih := joinWith_intercalate sep (y :: r)
    simp only [Tabular.joinWith, ih, List.intercalate, List.intersperse, List.flatten_cons, List.append_assoc]

end HedVerif.Raw

namespace HedVerif.C07
open HedVerif HedVerif.Tabular HedVerif.Closed HedVerif.Assemble HedVerif.Raw

/-- `raw_is_composition`: validating a (sidecar, table) pair is: assemble with the C06 model, configure the file layer
from the sidecar and the header, validate the assembled frame with the closed file model. -/
theorem raw_is_composition (env : Validate.Env) (k : Consts) (sc : Sidecar) (t : Table) :
    validateClosedRaw env k sc t = validateClosed env k.kBanned (rawCfg k sc t) (t.rows.map (rawRow sc t.header)) := rfl

/-- `raw_rows_order`: assembly keeps the number and the order of the rows: row `i` of the frame the file layer validates
is the assembly of row `i` of the table, its cells are the assembled columns (C06 `assembled`), named alike in every row,
and there are as many as the C06 series has entries. -/
theorem raw_rows_order (sc : Sidecar) (t : Table) :
    (rawRows sc t).length = t.rows.length ∧ (rawRows sc t).length = (series sc t).length ∧
    (∀ i : Nat, (rawRows sc t)[i]? = (t.rows[i]?).map (rawRow sc t.header)) ∧
    (∀ r, ((rawRow sc t.header r).cells = (aRow sc t.header r).map (·.2)) ∧
          (aRow sc t.header r).map (·.1) = aColumns sc t.header) := by
  refine ⟨by simp [rawRows], by simp [rawRows, (C06.length_order sc t).1], fun i => by simp [rawRows], fun r => ⟨rfl, aRow_names _ _ _⟩⟩

/-- `raw_series_is_assembly`: the text the file layer forms for a row (`combine_dataframe`: the `", "`-join of its
non-empty, non-`n/a` cells; the input of the time-point pass) is the C06 model's annotation of that table row, so the
list of these texts is `Assemble.series` (`list(TabularInput(table, sidecar).series_a)`). -/
theorem raw_series_is_assembly (k : Consts) (sc : Sidecar) (t : Table) :
    (∀ r, seriesText (rawCfg k sc t) (rawRow sc t.header r) = Assemble.row (refsOf sc) sc t.header r) ∧
    (rawRows sc t).map (seriesText (rawCfg k sc t)) = series sc t := by
  have h1 : ∀ r, seriesText (rawCfg k sc t) (rawRow sc t.header r) = Assemble.row (refsOf sc) sc t.header r := by
    intro r
    have hlen : (aColumns sc t.header).length = ((aRow sc t.header r).map (·.2)).length := by
      rw [← aRow_names sc t.header r]; simp
    show joinWith [',', ' '] ((liveFrom 0 (aColumns sc t.header) ((aRow sc t.header r).map (·.2))).map (·.2.2)) = _
    rw [liveFrom_texts _ _ 0 hlen, joinWith_intercalate, ← keep_eq]
    rfl
  refine ⟨h1, ?_⟩
  simp only [rawRows, List.map_map, series, seriesWith]
  exact List.map_congr_left fun r _ => h1 r

/-- `total_closed_raw`: with the two repairs, validation of any sidecar + table returns a list of issues. -/
theorem total_closed_raw (env : Validate.Env) (k : Consts) (sc : Sidecar) (t : Table) (hm : k.maskByRow = true)
    (hg : k.guardDelay = true) : ∃ out, validateClosedRaw env k sc t = .ok out :=
  total_closed env k.kBanned (rawCfg k sc t) (rawRows sc t) hm hg

/-- `labels_closed_raw`: every issue is well labelled with respect to the assembled frame. -/
theorem labels_closed_raw (env : Validate.Env) (k : Consts) (sc : Sidecar) (t : Table) (out : List Issue)
    (h : validateClosedRaw env k sc t = .ok out) :
    ∀ i ∈ out, WellLabelled (closeCfg env k.kBanned (rawCfg k sc t)) (rawRows sc t) i :=
  labels_closed env k.kBanned (rawCfg k sc t) (rawRows sc t) out h

/-- `cell_issue_closed_raw`: an issue attributed to a cell names a row of the TABLE (`ec_row` = its 0-based position + 2)
and a column of the assembled frame, and is an issue `Validate.basic` finds in the text assembled (handlers applied,
references spliced) for that column from that table row. -/
theorem cell_issue_closed_raw (env : Validate.Env) (k : Consts) (sc : Sidecar) (t : Table) (out : List Issue)
    (h : validateClosedRaw env k sc t = .ok out) (i : Issue) (hi : i ∈ out) (p c : Nat) (hs : i.src = .cell p c) :
    ∃ n r name vi, t.rows[n]? = some r ∧ (aRow sc t.header r)[c]? = some (name, i.text) ∧
      vi ∈ Validate.basic env false i.text ∧ i.kind = vi.code ++ [':'] ++ vi.kind.name ∧ i.sev = vi.sev ∧
      i.row = some (n + 2) ∧ i.col = some name := by
  obtain ⟨n, R, name, vi, h1, h2, h3, h4, h5, h6, h7, h8⟩ :=
    cell_issue_closed env k.kBanned (rawCfg k sc t) (rawRows sc t) out h i hi p c hs
  rw [(raw_rows_order sc t).2.2.1 n] at h1
  obtain ⟨r, hr, rfl⟩ := Option.map_eq_some_iff.mp h1
  refine ⟨n, r, name, vi, hr, ?_, h4, h5, h6, h7, h8⟩
  have hn : ((aRow sc t.header r).map (·.1))[c]? = some name := by rw [aRow_names]; exact h2
  have hv : ((aRow sc t.header r).map (·.2))[c]? = some i.text := h3
  rw [List.getElem?_map] at hn hv
  cases hx : (aRow sc t.header r)[c]? with
  | none => simp [hx] at hn
  | some x => simp [hx] at hn hv; cases x; simp_all

/-- `cell_errors_kept_closed_raw`: every issue `Validate.basic` finds in an assembled, looked-at cell is reported with the
table row and the assembled column. -/
theorem cell_errors_kept_closed_raw (env : Validate.Env) (k : Consts) (sc : Sidecar) (t : Table) (out : List Issue)
    (h : validateClosedRaw env k sc t = .ok out) (n : Nat) (r : List Str) (hr : t.rows[n]? = some r) (c : Nat) (name x : Str)
    (hc : (c, name, x) ∈ live (rawCfg k sc t) (rawRow sc t.header r)) (vi : Validate.Issue)
    (hv : vi ∈ Validate.basic env false x) :
    ∃ i ∈ out, i.kind = vi.code ++ [':'] ++ vi.kind.name ∧ i.sev = vi.sev ∧ i.row = some (n + 2) ∧
      i.col = some name ∧ i.text = x :=
  cell_errors_kept_closed env k.kBanned (rawCfg k sc t) (rawRows sc t) out h n _
    (by rw [(raw_rows_order sc t).2.2.1 n, hr]; rfl) c name x hc vi hv

/-! #### a concrete sidecar + table through the raw pipeline (tiny schema of `Props/C01.lean`) -/

def rawConsts : Consts :=
  { maskByRow := true, guardDelay := true, kKey := ⟨['K'], 10⟩, kRef := ⟨['F'], 1⟩, kUnordered := ⟨['U'], 10⟩,
    kUnknownCol := ⟨['C'], 10⟩, kBanned := ⟨['B'], 1⟩, kTemporal := fun _ => ⟨['T'], 1⟩ }

/-- `{"b": {"HED": {"k1": "Red,{v}", "k2": "Zz,({v})"}}, "v": {"HED": "Label/#"}}` -/
def rawSidecar : Sidecar :=
  [(['b'], .obj [(HEDNAME, .obj [(['k','1'], .str ['R','e','d',',','{','v','}']),
                                (['k','2'], .str ['Z','z',',','(','{','v','}',')'])])]),
   (['v'], .obj [(HEDNAME, .str ['L','a','b','e','l','/','#'])])]

/-- columns `v | t | b`, rows `ab | 1 | k1`, `n/a | 2 | k2`, `ab | 3 | zz` -/
def rawTable : Table :=
  ⟨[['v'], ['t'], ['b']],
   [[['a','b'], ['1'], ['k','1']], [['n','/','a'], ['2'], ['k','2']], [['a','b'], ['3'], ['z','z']]]⟩

/-- the assembled frame has the single column `b` (column `v` is referenced, `t` has no sidecar entry): the value
template is spliced into the category entry, and removed with its parentheses and comma where the value cell is `n/a` -/
example : (rawRows rawSidecar rawTable).map (·.cells) =
    [[['R','e','d',',','L','a','b','e','l','/','a','b']], [['Z','z']], [[]]] ∧
    aColumns rawSidecar rawTable.header = [['b']] := by decide +kernel

/-- `pipeline_example_closed_raw`: the unknown column `t` is warned about; row 2 (`Red,Label/ab`) is clean; row 3 assembles
to `Zz`, an unknown tag in column `b`; row 4 holds the unknown key `zz`. -/
theorem pipeline_example_closed_raw :
    (validateClosedRaw C01.Tiny.env rawConsts rawSidecar rawTable).toOption =
    some [⟨['C'], 10, none, none, [], .mapping⟩,
          ⟨kindOf .noValidTag, 1, some 3, some ['b'], ['Z','z'], .cell 1 0⟩,
          ⟨['K'], 10, some 4, some ['b'], [], .key 2 0⟩] := by
  decide +kernel

/-! #### Delay through the raw pipeline (schema of `C07.DelayDemo`) -/

def delayConsts : Consts := { rawConsts with kTemporal := DelayDemo.kT }

/-- `{"e": {"HED": {"go": "(Delay/1 s, Def/A, Onset)", "in": "(Def/A, Inset)"}}}` -/
def delaySidecar : Sidecar :=
  [(['e'], .obj [(HEDNAME, .obj [(['g','o'], .str DelayDemo.delayedOnset), (['i','n'], .str DelayDemo.inset)])])]

/-- columns `onset | e`, rows `1.0 | go`, `1.5 | in`, `3.0 | in` -/
def delayTable : Table :=
  ⟨[onsetName, ['e']], [[['1','.','0'], ['g','o']], [['1','.','5'], ['i','n']], [['3','.','0'], ['i','n']]]⟩

/-- `delay_pipeline_example_closed_raw`: from the sidecar and the raw table alone: the category entry of the first row
holds a Delay-shifted Onset (lands at 2.0 s), so the Inset of the row at 1.5 s is reported (file row 3) and the Inset of
the row at 3.0 s is in scope. -/
theorem delay_pipeline_example_closed_raw :
    (validateClosedRaw DelayDemo.env delayConsts delaySidecar delayTable).toOption =
      some [⟨['I'], 1, some 3, none, DelayDemo.inset, .temporal 1⟩] := by
  decide +kernel

/-! #### sidecars that declare definitions (`validateClosedRawD`) -/

/-- `raw_defs_is_composition`: with a sidecar that may declare definitions the raw pipeline is the raw pipeline in the
environment whose dictionary is the sidecar's extracted definitions followed by the external ones. -/
theorem raw_defs_is_composition (env : Validate.Env) (k : Consts) (sc : Sidecar) (t : Table) :
    validateClosedRawD env k sc t =
      validateClosed (Closed.envWith env (sidecarDict env sc)) k.kBanned (rawCfg k sc t) (rawRows sc t) := rfl

theorem total_closed_rawD (env : Validate.Env) (k : Consts) (sc : Sidecar) (t : Table) (hm : k.maskByRow = true)
    (hg : k.guardDelay = true) : ∃ out, validateClosedRawD env k sc t = .ok out :=
  total_closed_raw (envD env sc) k sc t hm hg

/-- `cell_issue_closed_rawD`: cell issues are `Validate.basic` issues of the assembled text in the enlarged dictionary. -/
theorem cell_issue_closed_rawD (env : Validate.Env) (k : Consts) (sc : Sidecar) (t : Table) (out : List Issue)
    (h : validateClosedRawD env k sc t = .ok out) (i : Issue) (hi : i ∈ out) (p c : Nat) (hs : i.src = .cell p c) :
    ∃ n r name vi, t.rows[n]? = some r ∧ (aRow sc t.header r)[c]? = some (name, i.text) ∧
      vi ∈ Validate.basic (envD env sc) false i.text ∧ i.kind = vi.code ++ [':'] ++ vi.kind.name ∧ i.sev = vi.sev ∧
      i.row = some (n + 2) ∧ i.col = some name :=
  cell_issue_closed_raw (envD env sc) k sc t out h i hi p c hs

/-- `{"d": {"HED": {"d1": "(Definition/Mk/#, (Label/#))"}}, "e": {"HED": {"go": "Def/Mk/ab", "no": "Def/Mk"}}}` -/
def defSidecar : Sidecar :=
  [(['d'], .obj [(HEDNAME, .obj [(['d','1'], .str ['(','D','e','f','i','n','i','t','i','o','n','/','M','k','/','#',',',' ','(','L','a','b','e','l','/','#',')',')'])])]),
   (['e'], .obj [(HEDNAME, .obj [(['g','o'], .str ['D','e','f','/','M','k','/','a','b']), (['n','o'], .str ['D','e','f','/','M','k'])])])]

/-- columns `e | HED`, rows `go | Def/Mk/x`, `no | Red`, `go | Def/Zz` -/
def defTable : Table :=
  ⟨[['e'], HEDNAME], [[['g','o'], ['D','e','f','/','M','k','/','x']], [['n','o'], ['R','e','d']], [['g','o'], ['D','e','f','/','Z','z']]]⟩

/-- `defs_pipeline_example_closed_raw`: the definition `Mk/#` is declared only in the sidecar (column `d`, not a column of
the file).  Row 2 uses it rightly in both columns; row 3 assembles `Def/Mk` (value missing) in column `e`; row 4 uses the
undeclared `Def/Zz` in the HED column. -/
theorem defs_pipeline_example_closed_raw :
    (validateClosedRawD C01.Tiny.env rawConsts defSidecar defTable).toOption =
      some [⟨kindOf .defValueMissing, 1, some 3, some ['e'], ['D','e','f','/','M','k'], .cell 1 1⟩,
            ⟨kindOf .defUnmatched, 1, some 4, some HEDNAME, ['D','e','f','/','Z','z'], .cell 2 0⟩] := by
  decide +kernel

end HedVerif.C07
