/-
C19 — The schema cache never serves or keeps a torn schema file.

Theorems about `Cache.safe` (the repaired protocol = the code as it is after the fix) for ALL schedules:
any list of `step p` / `crash p` actions over any set of processes, from the empty cache directory.
Proof: an invariant preserved by every action, induction over the schedule.  Counter-examples for
`Cache.current` (the code before the repair) by `decide` on short concrete schedules.
-/
import HedVerif.Model.Cache

namespace HedVerif.C19
open HedVerif.Cache

/-! ### helper lemmas -/

theorem writeChunk_replicate (j : Nat) : writeChunk (List.replicate j true) j = List.replicate (j + 1) true := by
  simp [writeChunk, List.replicate_succ']

@[simp] theorem setP_files (s : St) (p : Nat) (pr : Proc) : (s.setP p pr).files = s.files := rfl
@[simp] theorem setP_holder (s : St) (p : Nat) (pr : Proc) : (s.setP p pr).holder = s.holder := rfl
@[simp] theorem setP_ts (s : St) (p : Nat) (pr : Proc) : (s.setP p pr).ts = s.ts := rfl
@[simp] theorem setP_lockFile (s : St) (p : Nat) (pr : Proc) : (s.setP p pr).lockFile = s.lockFile := rfl
@[simp] theorem setP_dirty (s : St) (p : Nat) (pr : Proc) : (s.setP p pr).dirty = s.dirty := rfl
@[simp] theorem setP_procs_same (s : St) (p : Nat) (pr : Proc) : (s.setP p pr).procs p = pr := by
  simp [St.setP]
@[simp] theorem setP_procs_ne (s : St) {p q : Nat} (pr : Proc) (h : q ≠ p) : (s.setP p pr).procs q = s.procs q := by
  simp [St.setP, h]

/-- the invariant of the safe protocol -/
structure Inv (c : Cfg) (s : St) : Prop where
  /-- every file under a name matching the cache pattern is the complete bundled file -/
  torn : ∀ f ct, s.files (.final f) = some ct → ct = full c f
  /-- a process inside the locked region holds the flock -/
  lock : ∀ p, (s.procs p).inRegion = true → s.holder = some p
  /-- a process in the middle of a copy owns a temp file holding exactly the chunks written so far -/
  tmpA : ∀ p i j, (s.procs p).status = .running → (s.procs p).pc = .append i j →
      s.files (.tmp p i) = some ⟨i, List.replicate j true⟩ ∧ j < c.chunks
  /-- a process about to rename owns a complete temp file -/
  tmpR : ∀ p i, (s.procs p).status = .running → ((s.procs p).pc = .close i ∨ (s.procs p).pc = .rename i) →
      s.files (.tmp p i) = some (full c i)
  /-- whatever a loader obtained is the bundled content of the version it asked for -/
  got : ∀ p ct, (s.procs p).got = some (some ct) → ct = full c (ver (s.procs p).kind)
  /-- a loader that has seen its file in a listing will find it -/
  saw : ∀ p v, (s.procs p).kind = .load v → (s.procs p).status = .running → (s.procs p).pc = .read →
      (s.files (.final (ver (s.procs p).kind))).isSome
  /-- only a loader lists the directory; only a loader or a direct reader reads a cache file -/
  rdk : ∀ p, (s.procs p).status = .running →
      ((s.procs p).pc = .list1 ∨ (s.procs p).pc = .list2 ∨ (s.procs p).pc = .read) →
      (∃ v, (s.procs p).kind = .load v) ∨ ((s.procs p).pc = .read ∧ ∃ v, (s.procs p).kind = .peek v)
  /-- a finished loader has read some content (never "not found") -/
  fin : ∀ p v, (s.procs p).kind = .load v → (s.procs p).status = .finished → ∃ ct, (s.procs p).got = some (some ct)

theorem init_procs (ps : List (Kind × Nat × Nat)) (p : Nat) :
    (init ps).procs p = idle ∨ ∃ k now a, (init ps).procs p = start k now a := by
  simp only [init]
  split
  · right; exact ⟨_, _, _, rfl⟩
  · left; rfl

theorem inv_init (c : Cfg) (ps : List (Kind × Nat × Nat)) : Inv c (init ps) := by
  constructor
  · intro f ct h; simp [init] at h
  · intro p h
    rcases init_procs ps p with h' | ⟨k, now, a, h'⟩ <;> rw [h'] at h
    · simp [idle, Proc.inRegion] at h
    · cases k <;> simp [start, startPc, Proc.inRegion, Pc.locked] at h
  · intro p i j h1 h2
    rcases init_procs ps p with h' | ⟨k, now, a, h'⟩ <;> rw [h'] at h1 h2
    · simp [idle] at h1
    · cases k <;> simp [start, startPc] at h2
  · intro p i h1 h2
    rcases init_procs ps p with h' | ⟨k, now, a, h'⟩ <;> rw [h'] at h1 h2
    · simp [idle] at h1
    · cases k <;> simp [start, startPc] at h2
  · intro p ct h
    rcases init_procs ps p with h' | ⟨k, now, a, h'⟩ <;> rw [h'] at h <;> simp [idle, start] at h
  · intro p v hk h1 h2
    rcases init_procs ps p with h' | ⟨k, now, a, h'⟩ <;> rw [h'] at hk h1 h2
    · simp [idle] at h1
    · cases k <;> simp_all [start, startPc]
  · intro p h1 h2
    rcases init_procs ps p with h' | ⟨k, now, a, h'⟩ <;> rw [h'] at h1 h2 ⊢
    · simp [idle] at h1
    · cases k <;> simp_all [start, startPc]
  · intro p v h1 h2
    rcases init_procs ps p with h' | ⟨k, now, a, h'⟩ <;> rw [h'] at h1 h2 <;> simp [idle, start] at h1 h2

theorem inv_crash (c : Cfg) (p : Nat) (s : St) (h : Inv c s) : Inv c (crash p s) := by
  obtain ⟨h1, h2, h3, h4, h5, h6, h7, h8⟩ := h
  unfold crash
  split
  · constructor <;> (intro q; by_cases hq : q = p <;> simp_all [St.setP, upd, Proc.inRegion] <;> grind)
  · exact ⟨h1, h2, h3, h4, h5, h6, h7, h8⟩

/-- frame rule: a step of `p` that only touches `p`'s record, `p`'s temp files, final names (keeping them
complete) and never takes the lock away from another holder preserves the invariant if `p`'s new record
satisfies its own clauses. -/
theorem inv_frame (c : Cfg) (p : Nat) (s s' : St) (pr' : Proc) (h : Inv c s)
    (hp : s'.procs = upd s.procs p pr')
    (htorn : ∀ f ct, s'.files (.final f) = some ct → ct = full c f)
    (htmp : ∀ q i, q ≠ p → s'.files (.tmp q i) = s.files (.tmp q i))
    (hmono : ∀ f, (s.files (.final f)).isSome = true → (s'.files (.final f)).isSome = true)
    (hhold : ∀ q, q ≠ p → s.holder = some q → s'.holder = some q)
    (hl : pr'.inRegion = true → s'.holder = some p)
    (hA : ∀ i j, pr'.status = .running → pr'.pc = .append i j →
      s'.files (.tmp p i) = some ⟨i, List.replicate j true⟩ ∧ j < c.chunks)
    (hR : ∀ i, pr'.status = .running → (pr'.pc = .close i ∨ pr'.pc = .rename i) →
      s'.files (.tmp p i) = some (full c i))
    (hG : ∀ ct, pr'.got = some (some ct) → ct = full c (ver pr'.kind))
    (hS : ∀ v, pr'.kind = .load v → pr'.status = .running → pr'.pc = .read →
      (s'.files (.final (ver pr'.kind))).isSome = true)
    (hK : pr'.status = .running → (pr'.pc = .list1 ∨ pr'.pc = .list2 ∨ pr'.pc = .read) →
      (∃ v, pr'.kind = .load v) ∨ (pr'.pc = .read ∧ ∃ v, pr'.kind = .peek v))
    (hF : ∀ v, pr'.kind = .load v → pr'.status = .finished → ∃ ct, pr'.got = some (some ct)) : Inv c s' := by
  obtain ⟨h1, h2, h3, h4, h5, h6, h8, h7⟩ := h
  constructor
  · exact htorn
  · intro q hq
    by_cases e : q = p
    · subst e; simp [hp] at hq; exact hl hq
    · simp [hp, e] at hq; exact hhold q e (h2 q hq)
  · intro q i j hs hpc
    by_cases e : q = p
    · subst e; simp [hp] at hs hpc; exact hA i j hs hpc
    · simp [hp, e] at hs hpc; rw [htmp q i e]; exact h3 q i j hs hpc
  · intro q i hs hpc
    by_cases e : q = p
    · subst e; simp [hp] at hs hpc; exact hR i hs hpc
    · simp [hp, e] at hs hpc; rw [htmp q i e]; exact h4 q i hs hpc
  · intro q x hg
    by_cases e : q = p
    · subst e; simp [hp] at hg ⊢; exact hG x hg
    · simp [hp, e] at hg ⊢; exact h5 q x hg
  · intro q v hk hs hpc
    by_cases e : q = p
    · subst e; simp [hp] at hk hs hpc ⊢; exact hS v hk hs hpc
    · simp [hp, e] at hk hs hpc ⊢; exact hmono _ (h6 q v hk hs hpc)
  · intro q hs hpc
    by_cases e : q = p
    · subst e; simp [hp] at hs hpc ⊢; exact hK hs hpc
    · simp [hp, e] at hs hpc ⊢; exact h8 q hs hpc
  · intro q v hk hs
    by_cases e : q = p
    · subst e; simp [hp] at hk hs ⊢; exact hF v hk hs
    · simp [hp, e] at hk hs ⊢; exact h7 q v hk hs

/-- frame rule for a step that only changes `p`'s record -/
theorem inv_local (c : Cfg) (p : Nat) (s : St) (pr' : Proc) (h : Inv c s)
    (hl : pr'.inRegion = true → s.holder = some p)
    (hA : ∀ i j, pr'.status = .running → pr'.pc = .append i j →
      s.files (.tmp p i) = some ⟨i, List.replicate j true⟩ ∧ j < c.chunks)
    (hR : ∀ i, pr'.status = .running → (pr'.pc = .close i ∨ pr'.pc = .rename i) →
      s.files (.tmp p i) = some (full c i))
    (hG : ∀ ct, pr'.got = some (some ct) → ct = full c (ver pr'.kind))
    (hS : ∀ v, pr'.kind = .load v → pr'.status = .running → pr'.pc = .read →
      (s.files (.final (ver pr'.kind))).isSome = true)
    (hK : pr'.status = .running → (pr'.pc = .list1 ∨ pr'.pc = .list2 ∨ pr'.pc = .read) →
      (∃ v, pr'.kind = .load v) ∨ (pr'.pc = .read ∧ ∃ v, pr'.kind = .peek v))
    (hF : ∀ v, pr'.kind = .load v → pr'.status = .finished → ∃ ct, pr'.got = some (some ct)) :
    Inv c (s.setP p pr') :=
  inv_frame c p s (s.setP p pr') pr' h rfl h.torn (fun _ _ _ => rfl) (fun _ hf => hf) (fun _ _ hq => hq)
    hl hA hR hG hS hK hF

@[simp] theorem target_safe (k : Kind) (p i : Nat) : target .safe k p i = .tmp p i := by
  cases k <;> rfl

@[simp] theorem afterCopy_safe (c : Cfg) (k : Kind) (i : Nat) : afterCopy c .safe k i = .close i := by
  cases k <;> rfl

@[simp] theorem afterRename_safe (c : Cfg) (k : Kind) (i : Nat) :
    afterRename c .safe k i = loopPc c k (i + 1) := rfl

@[simp] theorem heldBy_safe (s : St) (pr : Proc) : heldBy .safe s pr = s.holder := rfl

@[simp] theorem takeLock_safe (p : Nat) (s : St) (pr : Proc) :
    takeLock .safe p s pr = { s with holder := some p } := rfl

@[simp] theorem dropLock_safe (p : Nat) (s : St) (pr : Proc) :
    dropLock .safe p s pr = { s with holder := if s.holder = some p then none else s.holder } := rfl

@[simp] theorem seen_safe (s : St) (v : Nat) : seen .safe s v = (s.files (.final v)).isSome := by
  simp [seen]

theorem loopPc_cases (c : Cfg) (k : Kind) (i : Nat) :
    loopPc c k i = .pick i ∨ loopPc c k i = .truncTs ∨ loopPc c k i = .unlock := by
  unfold loopPc
  split
  · left; rfl
  · cases k <;> simp

theorem loopPc_ne (c : Cfg) (k : Kind) (i : Nat) (pc : Pc)
    (h1 : ∀ j, pc ≠ .pick j) (h2 : pc ≠ .truncTs) (h3 : pc ≠ .unlock) : loopPc c k i ≠ pc := by
  rcases loopPc_cases c k i with e | e | e <;> rw [e] <;> first | exact (h1 _).symm | exact h2.symm | exact h3.symm

@[simp] theorem loopPc_read (c : Cfg) (k : Kind) (i : Nat) : (loopPc c k i = .read) = False :=
  eq_false (loopPc_ne c k i _ (by simp) (by simp) (by simp))
@[simp] theorem loopPc_list1 (c : Cfg) (k : Kind) (i : Nat) : (loopPc c k i = .list1) = False :=
  eq_false (loopPc_ne c k i _ (by simp) (by simp) (by simp))
@[simp] theorem loopPc_list2 (c : Cfg) (k : Kind) (i : Nat) : (loopPc c k i = .list2) = False :=
  eq_false (loopPc_ne c k i _ (by simp) (by simp) (by simp))
@[simp] theorem loopPc_writeTs' (c : Cfg) (k : Kind) (i : Nat) : (loopPc c k i = .writeTs) = False :=
  eq_false (loopPc_ne c k i _ (by simp) (by simp) (by simp))
@[simp] theorem loopPc_append (c : Cfg) (k : Kind) (i a b : Nat) : (loopPc c k i = .append a b) = False :=
  eq_false (loopPc_ne c k i _ (by simp) (by simp) (by simp))
@[simp] theorem loopPc_rename (c : Cfg) (k : Kind) (i a : Nat) : (loopPc c k i = .rename a) = False :=
  eq_false (loopPc_ne c k i _ (by simp) (by simp) (by simp))
@[simp] theorem loopPc_close (c : Cfg) (k : Kind) (i a : Nat) : (loopPc c k i = .close a) = False :=
  eq_false (loopPc_ne c k i _ (by simp) (by simp) (by simp))
@[simp] theorem loopPc_create (c : Cfg) (k : Kind) (i a : Nat) : (loopPc c k i = .create a) = False :=
  eq_false (loopPc_ne c k i _ (by simp) (by simp) (by simp))
@[simp] theorem loopPc_mktemp (c : Cfg) (k : Kind) (i a : Nat) : (loopPc c k i = .mktemp a) = False :=
  eq_false (loopPc_ne c k i _ (by simp) (by simp) (by simp))

theorem leave_cases (pr : Proc) :
    (leave pr = { pr with pc := .list2 } ∧ ∃ v, pr.kind = .load v) ∨
    (leave pr = { pr with status := .finished } ∧ ∀ v, pr.kind ≠ .load v) := by
  unfold leave
  cases h : pr.kind <;> simp

theorem inv_listed (c : Cfg) (p : Nat) (s : St) (h : Inv c s) (hr : (s.procs p).status = .running)
    (hpc : (s.procs p).pc = .list1 ∨ (s.procs p).pc = .list2) : Inv c (listed c .safe p s) := by
  have hgot := h.got p
  have hk : ∃ v, (s.procs p).kind = .load v := by
    rcases h.rdk p hr (by rcases hpc with e | e <;> simp [e]) with e | ⟨e, _⟩
    · exact e
    · rcases hpc with e' | e' <;> simp [e'] at e
  obtain ⟨v, hv⟩ := hk
  unfold listed
  simp only []
  split
  · apply inv_local c p s _ h <;> simp_all [Proc.inRegion, Pc.locked]
  · apply inv_local c p s _ h <;> simp_all [Proc.inRegion, Pc.locked]

/-- `leave` after the locked region or a CacheException: never inside the region, loader keeps running -/
theorem inv_leave (c : Cfg) (p : Nat) (s : St) (pr : Proc) (h : Inv c s)
    (hk : pr.kind = (s.procs p).kind) (hg : pr.got = (s.procs p).got) (hs : pr.status = .running) :
    Inv c (s.setP p (leave pr)) := by
  have hgot := h.got p
  rcases leave_cases pr with ⟨e, v, hv⟩ | ⟨e, hv⟩ <;> rw [e] <;>
    apply inv_local c p s _ h <;> simp_all [Proc.inRegion, Pc.locked] <;> first | assumption | grind

theorem inv_stepPc (c : Cfg) (p : Nat) (s : St) (h : Inv c s) (hr : (s.procs p).status = .running) :
    Inv c (stepPc c .safe p s (s.procs p)) := by
  have hgot := h.got p
  unfold stepPc
  split
  next hpc => -- list1
    split
    · exact inv_listed c p s h hr (Or.inl hpc)
    · have hk := h.rdk p hr (Or.inl hpc)
      apply inv_local c p s _ h <;> simp_all [Proc.inRegion, Pc.locked]
  next hpc => -- list2
    exact inv_listed c p s h hr (Or.inr hpc)
  next hpc => -- read
    have ht := h.torn
    have h6 := h.saw p
    have hk := h.rdk p hr (Or.inr (Or.inr hpc))
    apply inv_local c p s _ h <;> simp_all [Proc.inRegion, Pc.locked]
    · intro ct hct; exact ht _ ct hct
    · intro v hv
      have := h6 v hv
      exact Option.isSome_iff_exists.mp this
  next hpc => -- readTs
    simp only []
    split
    · exact inv_leave c p s _ h rfl rfl hr
    · apply inv_local c p s _ h <;> simp_all [Proc.inRegion, Pc.locked]
  next hpc => -- openLock
    have ht := h.torn
    refine inv_frame c p s _ _ h rfl ?_ ?_ ?_ ?_ ?_ ?_ ?_ ?_ ?_ ?_ ?_ <;>
      simp_all [St.setP, Proc.inRegion, Pc.locked] <;> assumption
  next k hpc => -- tryLock
    have ht := h.torn
    split
    next hh =>
      rcases loopPc_cases c (s.procs p).kind 0 with e | e | e <;>
      refine inv_frame c p s _ _ h rfl ?_ ?_ ?_ ?_ ?_ ?_ ?_ ?_ ?_ ?_ ?_ <;>
        simp_all [St.setP, Proc.inRegion, Pc.locked] <;> assumption
    next q hh =>
      split
      · exact inv_leave c p s _ h rfl rfl hr
      · apply inv_local c p s _ h <;> simp_all [Proc.inRegion, Pc.locked]
  next i hpc => -- pick
    have hlk : s.holder = some p := h.lock p (by simp [Proc.inRegion, hr, hpc, Pc.locked])
    rcases loopPc_cases c (s.procs p).kind (i + 1) with e | e | e <;>
      (split <;> split <;> apply inv_local c p s _ h <;> simp_all [Proc.inRegion, Pc.locked])
  next i hpc => -- mktemp
    have hlk : s.holder = some p := h.lock p (by simp [Proc.inRegion, hr, hpc, Pc.locked])
    have ht := h.torn
    refine inv_frame c p s _ _ h rfl ?_ ?_ ?_ ?_ ?_ ?_ ?_ ?_ ?_ ?_ ?_ <;>
      simp_all [St.setP, upd, Proc.inRegion, Pc.locked] <;> assumption
  next i hpc => -- create
    have hlk : s.holder = some p := h.lock p (by simp [Proc.inRegion, hr, hpc, Pc.locked])
    have ht := h.torn
    by_cases hc : c.chunks = 0 <;>
    refine inv_frame c p s _ _ h rfl ?_ ?_ ?_ ?_ ?_ ?_ ?_ ?_ ?_ ?_ ?_ <;>
      simp_all [St.setP, upd, Proc.inRegion, Pc.locked, full] <;> first | assumption | omega
  next i j hpc => -- append
    have hlk : s.holder = some p := h.lock p (by simp [Proc.inRegion, hr, hpc, Pc.locked])
    have ht := h.torn
    obtain ⟨hA, hj⟩ := h.tmpA p i j hr hpc
    by_cases hc : j + 1 < c.chunks <;>
    refine inv_frame c p s _ _ h rfl ?_ ?_ ?_ ?_ ?_ ?_ ?_ ?_ ?_ ?_ ?_ <;>
      simp_all [St.setP, upd, writeTo, Proc.inRegion, Pc.locked, full, writeChunk_replicate] <;>
      first | assumption | omega | grind
  next i hpc => -- close
    have hlk : s.holder = some p := h.lock p (by simp [Proc.inRegion, hr, hpc, Pc.locked])
    have hR := h.tmpR p i hr (Or.inl hpc)
    simp only []
    apply inv_local c p s _ h <;> simp_all [Proc.inRegion, Pc.locked]
  next i hpc => -- rename
    have hlk : s.holder = some p := h.lock p (by simp [Proc.inRegion, hr, hpc, Pc.locked])
    have ht := h.torn
    have hR := h.tmpR p i hr (Or.inr hpc)
    rw [hR]
    simp only [afterRename_safe]
    rcases loopPc_cases c (s.procs p).kind (i + 1) with e | e | e <;>
    refine inv_frame c p s _ _ h rfl ?_ ?_ ?_ ?_ ?_ ?_ ?_ ?_ ?_ ?_ ?_ <;>
      simp_all [St.setP, upd, Proc.inRegion, Pc.locked] <;> first | assumption | grind
  next hpc => -- truncTs
    have hlk : s.holder = some p := h.lock p (by simp [Proc.inRegion, hr, hpc, Pc.locked])
    have ht := h.torn
    refine inv_frame c p s _ _ h rfl ?_ ?_ ?_ ?_ ?_ ?_ ?_ ?_ ?_ ?_ ?_ <;>
      simp_all [St.setP, Proc.inRegion, Pc.locked] <;> assumption
  next hpc => -- writeTs
    have hlk : s.holder = some p := h.lock p (by simp [Proc.inRegion, hr, hpc, Pc.locked])
    have ht := h.torn
    refine inv_frame c p s _ _ h rfl ?_ ?_ ?_ ?_ ?_ ?_ ?_ ?_ ?_ ?_ ?_ <;>
      simp_all [St.setP, Proc.inRegion, Pc.locked] <;> assumption
  next hpc => -- unlock
    have hlk : s.holder = some p := h.lock p (by simp [Proc.inRegion, hr, hpc, Pc.locked])
    have ht := h.torn
    rcases leave_cases (s.procs p) with ⟨e, v, hv⟩ | ⟨e, hv⟩ <;> rw [e]
    · refine inv_frame c p s _ _ h rfl ?_ ?_ ?_ ?_ ?_ ?_ ?_ ?_ ?_ ?_ ?_ <;>
        simp_all [St.setP, Proc.inRegion, Pc.locked] <;> first | assumption | grind
    · refine inv_frame c p s _ _ h rfl ?_ ?_ ?_ ?_ ?_ ?_ ?_ ?_ ?_ ?_ ?_ <;>
        simp [St.setP, Proc.inRegion, Pc.locked, hlk] <;> first | assumption | grind

theorem inv_act (c : Cfg) (a : Action) (s : St) (h : Inv c s) : Inv c (act c .safe a s) := by
  cases a with
  | step p =>
    simp only [act, step]
    split
    · next hr => exact inv_stepPc c p s h hr
    · exact h
  | crash p => exact inv_crash c p s h

theorem inv_run (c : Cfg) (sched : List Action) (s : St) (h : Inv c s) : Inv c (runSt c .safe sched s) := by
  induction sched generalizing s with
  | nil => exact h
  | cons a as ih => exact ih _ (inv_act c a s h)

/-- the invariant holds in every state reachable from the empty cache directory, for any set of
processes, any interleaving and any crashes -/
theorem reach_inv (c : Cfg) (ps : List (Kind × Nat × Nat)) (sched : List Action) :
    Inv c (runSt c .safe sched (init ps)) :=
  inv_run c sched _ (inv_init c ps)

/-! ### the property, for `Cache.safe` -/

/-- **no_torn**: in every reachable state of every schedule (any processes, interleaving, crash points),
every file whose name matches the cache pattern is complete and equal to the bundled file. -/
theorem no_torn (c : Cfg) (ps : List (Kind × Nat × Nat)) (sched : List Action) (f : Nat) (ct : Content)
    (h : (runSt c .safe sched (init ps)).files (.final f) = some ct) : ct = full c f :=
  (reach_inv c ps sched).torn f ct h

/-- **load_ok**: every `load v` that runs to completion, in any schedule, returns the bundled content of `v`
(never "not found", never a partial file). -/
theorem load_ok (c : Cfg) (ps : List (Kind × Nat × Nat)) (sched : List Action) (p v : Nat)
    (hk : ((runSt c .safe sched (init ps)).procs p).kind = .load v)
    (hf : ((runSt c .safe sched (init ps)).procs p).status = .finished) :
    ((runSt c .safe sched (init ps)).procs p).got = some (some (full c v)) := by
  have hi := reach_inv c ps sched
  obtain ⟨ct, hg⟩ := hi.fin p v hk hf
  rw [hg, hi.got p ct hg, hk]; rfl

/-- **mutex**: no reachable state has two processes inside the locked region. -/
theorem mutex (c : Cfg) (ps : List (Kind × Nat × Nat)) (sched : List Action) (p q : Nat) (hne : p ≠ q) :
    ¬ (((runSt c .safe sched (init ps)).procs p).inRegion = true ∧
       ((runSt c .safe sched (init ps)).procs q).inRegion = true) := by
  intro ⟨hp, hq⟩
  have hi := reach_inv c ps sched
  have h1 := hi.lock p hp
  have h2 := hi.lock q hq
  rw [h1] at h2
  exact hne (Option.some.inj h2)

/-- the executable overlap test of the driver never fires on `Cache.safe` -/
theorem mutex_overlapUpTo (c : Cfg) (ps : List (Kind × Nat × Nat)) (sched : List Action) (n : Nat) :
    overlapUpTo n (runSt c .safe sched (init ps)) = false := by
  cases h : overlapUpTo n (runSt c .safe sched (init ps)) with
  | false => rfl
  | true =>
    simp only [overlapUpTo, List.any_eq_true, Bool.and_eq_true, bne_iff_ne] at h
    obtain ⟨p, _, q, _, ⟨hne, hp⟩, hq⟩ := h
    exact absurd ⟨hp, hq⟩ (mutex c ps sched p q hne)

/-! ### second invariant: the timestamp and the "directory is empty" flag -/

/-- the timestamp file holds a number or is in the middle of being rewritten (or was left truncated) -/
def tsOk (s : St) : Prop := s.ts.isSome = true ∨ s.tsTorn = true

structure Inv2 (s : St) : Prop where
  /-- `dirty = false` means `os.listdir` is empty -/
  dirty : s.dirty = false → (∀ n, s.files n = none) ∧ s.lockFile = false ∧ s.ts = none ∧ s.tsTorn = false
  /-- only a refresh writes the timestamp -/
  wts : ∀ p, (s.procs p).status = .running → ((s.procs p).pc = .truncTs ∨ (s.procs p).pc = .writeTs) →
    ∃ m, (s.procs p).kind = .refresh m
  /-- the timestamp is the clock of some refresh process -/
  tsFrom : ∀ t, s.ts = some t → ∃ q m, (s.procs q).kind = .refresh m ∧ (s.procs q).now = t
  /-- after a refresh got to the end of its locked region the timestamp file has been (re)written, unless
  somebody is rewriting it right now or died doing so -/
  tsDone : ∀ p m, (s.procs p).kind = .refresh m →
    ((s.procs p).status = .running ∧ (s.procs p).pc = .unlock) ∨
      ((s.procs p).status = .finished ∧ (s.procs p).err = none) → tsOk s
  /-- only a loader lists the directory and only a loader or a direct reader reads a cache file -/
  ldk : ∀ p, (s.procs p).status = .running →
    ((s.procs p).pc = .list1 ∨ (s.procs p).pc = .list2 ∨ (s.procs p).pc = .read) →
    (∃ v, (s.procs p).kind = .load v) ∨ (∃ v, (s.procs p).kind = .peek v)

theorem loopPc_truncTs (c : Cfg) (k : Kind) (i : Nat) (h : loopPc c k i = .truncTs) : ∃ m, k = .refresh m := by
  unfold loopPc at h
  split at h
  · simp at h
  · cases k <;> simp_all

theorem loopPc_unlock (c : Cfg) (k : Kind) (i m : Nat) (h : loopPc c k i = .unlock) : k ≠ .refresh m := by
  unfold loopPc at h
  split at h
  · simp at h
  · cases k <;> simp_all

@[simp] theorem loopPc_refresh_unlock (c : Cfg) (m i : Nat) : (loopPc c (.refresh m) i = .unlock) = False := by
  simp only [eq_iff_iff, iff_false]
  intro h
  exact loopPc_unlock c _ i m h rfl

theorem inv2_frame (p : Nat) (s s' : St) (pr' : Proc) (h : Inv2 s)
    (hp : s'.procs = upd s.procs p pr')
    (hk : pr'.kind = (s.procs p).kind) (hn : pr'.now = (s.procs p).now)
    (hd : s'.dirty = false →
      s.dirty = false ∧ s'.files = s.files ∧ s'.lockFile = s.lockFile ∧ s'.ts = s.ts ∧ s'.tsTorn = s.tsTorn)
    (hts : ∀ t, s'.ts = some t → s.ts = some t ∨ (t = (s.procs p).now ∧ ∃ m, (s.procs p).kind = .refresh m))
    (hmono : tsOk s → tsOk s')
    (hw : pr'.status = .running → (pr'.pc = .truncTs ∨ pr'.pc = .writeTs) → ∃ m, pr'.kind = .refresh m)
    (hD : ∀ m, pr'.kind = .refresh m →
      (pr'.status = .running ∧ pr'.pc = .unlock) ∨ (pr'.status = .finished ∧ pr'.err = none) → tsOk s')
    (hL : pr'.status = .running → (pr'.pc = .list1 ∨ pr'.pc = .list2 ∨ pr'.pc = .read) →
      (∃ v, pr'.kind = .load v) ∨ (∃ v, pr'.kind = .peek v)) :
    Inv2 s' := by
  obtain ⟨h1, h2, h3, h4, h5⟩ := h
  constructor
  · intro hd'
    obtain ⟨a, b, c', d, e⟩ := hd hd'
    rw [b, c', d, e]; exact h1 a
  · intro q hs hpc
    by_cases e : q = p
    · subst e; simp [hp] at hs hpc ⊢; exact hw hs hpc
    · simp [hp, e] at hs hpc ⊢; exact h2 q hs hpc
  · intro t ht
    have key : ∀ q m, (s.procs q).kind = .refresh m →
        (s'.procs q).kind = .refresh m ∧ (s'.procs q).now = (s.procs q).now := by
      intro q m hq
      by_cases e : q = p
      · subst e; simp [hp, hk, hn, hq]
      · simp [hp, e, hq]
    rcases hts t ht with e | ⟨e, m, hm⟩
    · obtain ⟨q, m, hq, hq'⟩ := h3 t e
      exact ⟨q, m, (key q m hq).1, (key q m hq).2.trans hq'⟩
    · exact ⟨p, m, (key p m hm).1, (key p m hm).2.trans e.symm⟩
  · intro q m hq hc
    by_cases e : q = p
    · subst e; simp [hp] at hq hc; exact hD m hq hc
    · simp [hp, e] at hq hc; exact hmono (h4 q m hq hc)
  · intro q hs hpc
    by_cases e : q = p
    · subst e; simp [hp] at hs hpc ⊢; exact hL hs hpc
    · simp [hp, e] at hs hpc ⊢; exact h5 q hs hpc

theorem inv2_local (p : Nat) (s : St) (pr' : Proc) (h : Inv2 s)
    (hk : pr'.kind = (s.procs p).kind) (hn : pr'.now = (s.procs p).now)
    (hw : pr'.status = .running → (pr'.pc = .truncTs ∨ pr'.pc = .writeTs) → ∃ m, pr'.kind = .refresh m)
    (hD : ∀ m, pr'.kind = .refresh m →
      (pr'.status = .running ∧ pr'.pc = .unlock) ∨ (pr'.status = .finished ∧ pr'.err = none) → tsOk s)
    (hL : pr'.status = .running → (pr'.pc = .list1 ∨ pr'.pc = .list2 ∨ pr'.pc = .read) →
      (∃ v, pr'.kind = .load v) ∨ (∃ v, pr'.kind = .peek v)) :
    Inv2 (s.setP p pr') :=
  inv2_frame p s (s.setP p pr') pr' h rfl hk hn (fun hd => ⟨hd, rfl, rfl, rfl, rfl⟩) (fun _ h => Or.inl h)
    (fun h => h) hw hD hL

theorem inv2_init (ps : List (Kind × Nat × Nat)) : Inv2 (init ps) := by
  constructor
  · intro _; simp [init]
  · intro p h1 h2
    rcases init_procs ps p with h' | ⟨k, now, a, h'⟩ <;> rw [h'] at h1 h2
    · simp [idle] at h1
    · cases k <;> simp [start, startPc] at h2
  · intro t h; simp [init] at h
  · intro p m hk hc
    rcases init_procs ps p with h' | ⟨k, now, a, h'⟩ <;> rw [h'] at hk hc
    · simp [idle] at hk
    · cases k <;> simp [start, startPc] at hk hc
  · intro p h1 h2
    rcases init_procs ps p with h' | ⟨k, now, a, h'⟩ <;> rw [h'] at h1 h2 ⊢
    · simp [idle] at h1
    · cases k <;> simp [start, startPc] at h2 ⊢

theorem inv2_crash (p : Nat) (s : St) (h : Inv2 s) : Inv2 (crash p s) := by
  unfold crash
  split
  · next hr =>
    refine inv2_frame p s _ _ h rfl rfl rfl ?_ (fun _ h => Or.inl h) (fun h => h) ?_ ?_ ?_ <;> simp_all [St.setP]
  · exact h

theorem inv2_listed (c : Cfg) (p : Nat) (s : St) (h : Inv2 s) (hr : (s.procs p).status = .running)
    (hpc : (s.procs p).pc = .list1 ∨ (s.procs p).pc = .list2) : Inv2 (listed c .safe p s) := by
  have hk := h.ldk p hr (by rcases hpc with e | e <;> simp [e])
  unfold listed
  simp only []
  split
  · apply inv2_local p s _ h <;> simp_all
  · apply inv2_local p s _ h <;> simp_all <;> grind

theorem inv2_leave (p : Nat) (s : St) (hd : Option Nat) (pr : Proc) (h : Inv2 s)
    (hk : pr.kind = (s.procs p).kind) (hn : pr.now = (s.procs p).now)
    (he : ∀ m, pr.kind = .refresh m → pr.err = none → tsOk s) :
    Inv2 (({ s with holder := hd } : St).setP p (leave pr)) := by
  rcases leave_cases pr with ⟨e, v, hv⟩ | ⟨e, hv⟩ <;> rw [e] <;>
    refine inv2_frame p s _ _ h rfl hk hn ?_ (fun _ h => Or.inl h) (fun h => h) ?_ ?_ ?_ <;>
    simp_all [St.setP, tsOk] <;> grind

theorem inv2_stepPc (c : Cfg) (p : Nat) (s : St) (h : Inv2 s) (hr : (s.procs p).status = .running) :
    Inv2 (stepPc c .safe p s (s.procs p)) := by
  unfold stepPc
  split
  next hpc => -- list1
    split
    · exact inv2_listed c p s h hr (Or.inl hpc)
    · have hk := h.ldk p hr (Or.inl hpc)
      apply inv2_local p s _ h <;> simp_all <;> grind
  next hpc => -- list2
    exact inv2_listed c p s h hr (Or.inr hpc)
  next hpc => -- read
    have hk := h.ldk p hr (Or.inr (Or.inr hpc))
    apply inv2_local p s _ h <;> simp_all <;> grind
  next hpc => -- readTs
    simp only []
    split
    · exact inv2_leave p s s.holder { s.procs p with err := some .tooRecent } h rfl rfl (by simp)
    · apply inv2_local p s _ h <;> simp_all
  next hpc => -- openLock
    refine inv2_frame p s _ _ h rfl rfl rfl ?_ (fun _ h => Or.inl h) (fun h => h) ?_ ?_ ?_ <;> simp_all [St.setP]
  next k hpc => -- tryLock
    split
    · have e1 := loopPc_truncTs c (s.procs p).kind 0
      rcases loopPc_cases c (s.procs p).kind 0 with e | e | e <;>
      refine inv2_frame p s _ _ h rfl rfl rfl ?_ (fun _ h => Or.inl h) (fun h => h) ?_ ?_ ?_ <;>
        simp_all [St.setP]
    · split
      · exact inv2_leave p s s.holder { s.procs p with err := some .lockTimeout } h rfl rfl (by simp)
      · apply inv2_local p s _ h <;> simp_all
  next i hpc => -- pick
    have e1 := loopPc_truncTs c (s.procs p).kind (i + 1)
    rcases loopPc_cases c (s.procs p).kind (i + 1) with e | e | e <;>
      (split <;> split <;> apply inv2_local p s _ h <;> simp_all)
  next i hpc => -- mktemp
    refine inv2_frame p s _ _ h rfl rfl rfl ?_ (fun _ h => Or.inl h) (fun h => h) ?_ ?_ ?_ <;> simp_all [St.setP]
  next i hpc => -- create
    by_cases hc : c.chunks = 0 <;>
    refine inv2_frame p s _ _ h rfl rfl rfl ?_ (fun _ h => Or.inl h) (fun h => h) ?_ ?_ ?_ <;> simp_all [St.setP]
  next i j hpc => -- append
    have hdirt := h.dirty
    by_cases hc : j + 1 < c.chunks <;>
    refine inv2_frame p s _ _ h rfl rfl rfl ?_ (fun _ h => Or.inl h) (fun h => h) ?_ ?_ ?_ <;>
    simp_all [St.setP, writeTo] <;>
    first
      | (intro hd; funext n; have := (hdirt hd).1; simp_all [upd]; done)
      | grind
  next i hpc => -- close
    simp only []
    apply inv2_local p s _ h <;> simp_all
  next i hpc => -- rename
    have hdirt := h.dirty
    have e1 := loopPc_truncTs c (s.procs p).kind (i + 1)
    simp only [afterRename_safe]
    split
    · next ct hct =>
      rcases loopPc_cases c (s.procs p).kind (i + 1) with e | e | e <;>
      refine inv2_frame p s _ _ h rfl rfl rfl ?_ (fun _ h => Or.inl h) (fun h => h) ?_ ?_ ?_ <;>
      simp_all [St.setP] <;> (intro hd; have := (hdirt hd).1; simp_all)
    · rcases loopPc_cases c (s.procs p).kind (i + 1) with e | e | e <;>
      apply inv2_local p s _ h <;> simp_all
  next hpc => -- truncTs
    obtain ⟨m, hm⟩ := h.wts p hr (Or.inl hpc)
    refine inv2_frame p s _ _ h rfl rfl rfl ?_ ?_ ?_ ?_ ?_ ?_ <;> simp_all [St.setP, tsOk]
  next hpc => -- writeTs
    obtain ⟨m, hm⟩ := h.wts p hr (Or.inr hpc)
    refine inv2_frame p s _ _ h rfl rfl rfl ?_ ?_ ?_ ?_ ?_ ?_ <;> simp_all [St.setP, tsOk]
  next hpc => -- unlock
    exact inv2_leave p s _ (s.procs p) h rfl rfl (fun m hk _ => h.tsDone p m hk (Or.inl ⟨hr, hpc⟩))

theorem inv2_act (c : Cfg) (a : Action) (s : St) (h : Inv2 s) : Inv2 (act c .safe a s) := by
  cases a with
  | step p =>
    simp only [act, step]
    split
    · next hr => exact inv2_stepPc c p s h hr
    · exact h
  | crash p => exact inv2_crash p s h

theorem reach_inv2 (c : Cfg) (ps : List (Kind × Nat × Nat)) (sched : List Action) :
    Inv2 (runSt c .safe sched (init ps)) := by
  suffices ∀ s, Inv2 s → Inv2 (runSt c .safe sched s) from this _ (inv2_init ps)
  induction sched with
  | nil => intro s h; exact h
  | cons a as ih => intro s h; exact ih _ (inv2_act c a s h)

/-- the `dirty` flag of the model is a sound reading of "the directory listing is empty" -/
theorem dirty_sound (c : Cfg) (ps : List (Kind × Nat × Nat)) (sched : List Action)
    (h : (runSt c .safe sched (init ps)).dirty = false) :
    (∀ n, (runSt c .safe sched (init ps)).files n = none) ∧
      (runSt c .safe sched (init ps)).lockFile = false ∧ (runSt c .safe sched (init ps)).ts = none ∧
      (runSt c .safe sched (init ps)).tsTorn = false :=
  (reach_inv2 c ps sched).dirty h

/-- a finished or dead process makes no step -/
theorem step_not_running (c : Cfg) (proto : Proto) (p : Nat) (s : St) (h : (s.procs p).status ≠ .running) :
    step c proto p s = s := by
  unfold step
  split
  · next hr => exact absurd hr h
  · rfl

/-- **mutex**, second half: a process whose last lock attempt finds the lock held by someone takes the
`CacheException` branch: the only change is its own record (error `lockTimeout`, outside the region; a
populate / refresh is finished, a loader goes on to its second listing); nothing in the directory, the lock
or the timestamp changes. -/
theorem lock_timeout (c : Cfg) (p q : Nat) (s : St)
    (hr : (s.procs p).status = .running) (hpc : (s.procs p).pc = .tryLock 0) (hh : s.holder = some q) :
    step c .safe p s = s.setP p (leave { s.procs p with err := some .lockTimeout }) ∧
      ((step c .safe p s).procs p).inRegion = false := by
  have e : step c .safe p s = s.setP p (leave { s.procs p with err := some .lockTimeout }) := by
    simp [step, hr, stepPc, hpc, hh]
  refine ⟨e, ?_⟩
  rw [e]
  rcases leave_cases { s.procs p with err := some .lockTimeout } with ⟨e', _⟩ | ⟨e', _⟩ <;>
    simp [e', Proc.inRegion, Pc.locked]

/-- an attempt on a held lock never takes it: the holder is unchanged and the process stays outside -/
theorem lock_busy (c : Cfg) (p q k : Nat) (s : St)
    (hr : (s.procs p).status = .running) (hpc : (s.procs p).pc = .tryLock (k + 1)) (hh : s.holder = some q) :
    step c .safe p s = s.setP p { s.procs p with pc := .tryLock k } := by
  simp [step, hr, stepPc, hpc, hh]

/-- **refresh_skipped** (step form): a process that starts `CacheLock.__enter__` while the recorded
timestamp `t` is less than the threshold old takes the `CacheException` branch at once: its only primitive
is reading the timestamp, and the only change is its own record (error `tooRecent`). -/
theorem refresh_skipped (c : Cfg) (p t : Nat) (s : St)
    (hr : (s.procs p).status = .running) (hpc : (s.procs p).pc = .readTs)
    (hts : s.ts = some t) (hnow : (s.procs p).now < t + c.thr) :
    step c .safe p s = s.setP p (leave { s.procs p with err := some .tooRecent }) ∧
      labelOf p s = ⟨p, "readTs", 0, 0⟩ := by
  constructor
  · simp [step, hr, stepPc, hpc, hts, hnow]
  · simp [labelOf, hr, hpc]

/-! ### third invariant: progress of a population (what "finished" leaves behind) -/

/-- loop index of a control state inside the copy loop -/
def idx : Pc → Option Nat
  | .pick i | .mktemp i | .create i | .append i _ | .close i | .rename i => some i
  | _ => none

/-- control states after the copy loop, still inside the locked region -/
def isTail : Pc → Bool
  | .truncTs | .writeTs | .unlock => true
  | _ => false

/-- the cache names of files `0 … n-1` exist -/
def present (s : St) (n : Nat) : Prop := ∀ f, f < n → (s.files (.final f)).isSome = true

structure Inv3 (c : Cfg) (s : St) : Prop where
  loop : ∀ p i, (s.procs p).status = .running → idx (s.procs p).pc = some i → present s i
  tail : ∀ p, (s.procs p).status = .running → isTail (s.procs p).pc = true → present s (total c (s.procs p).kind)
  done : ∀ p, (s.procs p).status = .finished → (s.procs p).err = none →
    ((s.procs p).kind = .populate ∨ ∃ m, (s.procs p).kind = .refresh m) →
    (s.procs p).pc = .unlock ∧ present s (total c (s.procs p).kind)

theorem loopPc_spec (c : Cfg) (k : Kind) (j : Nat) :
    (j < total c k ∧ loopPc c k j = .pick j) ∨
    (total c k ≤ j ∧ isTail (loopPc c k j) = true ∧ idx (loopPc c k j) = none) := by
  unfold loopPc
  split
  · left; exact ⟨by assumption, rfl⟩
  · right; refine ⟨by omega, ?_⟩; cases k <;> simp [isTail, idx]

theorem inv3_frame (c : Cfg) (p : Nat) (s s' : St) (pr' : Proc) (h : Inv3 c s)
    (hp : s'.procs = upd s.procs p pr')
    (hmono : ∀ f, (s.files (.final f)).isSome = true → (s'.files (.final f)).isSome = true)
    (hL : ∀ i, pr'.status = .running → idx pr'.pc = some i → present s' i)
    (hT : pr'.status = .running → isTail pr'.pc = true → present s' (total c pr'.kind))
    (hD : pr'.status = .finished → pr'.err = none → (pr'.kind = .populate ∨ ∃ m, pr'.kind = .refresh m) →
      pr'.pc = .unlock ∧ present s' (total c pr'.kind)) : Inv3 c s' := by
  obtain ⟨h1, h2, h3⟩ := h
  have hm : ∀ n, present s n → present s' n := fun n hn f hf => hmono f (hn f hf)
  constructor
  · intro q i hs hi
    by_cases e : q = p
    · subst e; simp [hp] at hs hi; exact hL i hs hi
    · simp [hp, e] at hs hi; exact hm _ (h1 q i hs hi)
  · intro q hs ht
    by_cases e : q = p
    · subst e; simp [hp] at hs ht ⊢; exact hT hs ht
    · simp [hp, e] at hs ht ⊢; exact hm _ (h2 q hs ht)
  · intro q hs he hk
    by_cases e : q = p
    · subst e; simp [hp] at hs he hk ⊢; exact hD hs he hk
    · simp [hp, e] at hs he hk ⊢; exact ⟨(h3 q hs he hk).1, hm _ (h3 q hs he hk).2⟩

theorem inv3_local (c : Cfg) (p : Nat) (s : St) (pr' : Proc) (h : Inv3 c s)
    (hL : ∀ i, pr'.status = .running → idx pr'.pc = some i → present s i)
    (hT : pr'.status = .running → isTail pr'.pc = true → present s (total c pr'.kind))
    (hD : pr'.status = .finished → pr'.err = none → (pr'.kind = .populate ∨ ∃ m, pr'.kind = .refresh m) →
      pr'.pc = .unlock ∧ present s (total c pr'.kind)) : Inv3 c (s.setP p pr') :=
  inv3_frame c p s (s.setP p pr') pr' h rfl (fun _ hf => hf) hL hT hD

theorem inv3_init (c : Cfg) (ps : List (Kind × Nat × Nat)) : Inv3 c (init ps) := by
  constructor
  · intro p i h1 h2
    rcases init_procs ps p with h' | ⟨k, now, a, h'⟩ <;> rw [h'] at h1 h2
    · simp [idle] at h1
    · cases k <;> simp [start, startPc, idx] at h2
  · intro p h1 h2
    rcases init_procs ps p with h' | ⟨k, now, a, h'⟩ <;> rw [h'] at h1 h2
    · simp [idle] at h1
    · cases k <;> simp [start, startPc, isTail] at h2
  · intro p h1
    rcases init_procs ps p with h' | ⟨k, now, a, h'⟩ <;> rw [h'] at h1 <;> simp [idle, start] at h1

theorem inv3_crash (c : Cfg) (p : Nat) (s : St) (h : Inv3 c s) : Inv3 c (crash p s) := by
  unfold crash
  split
  · refine inv3_frame c p s _ _ h rfl (fun _ hf => hf) ?_ ?_ ?_ <;> simp [St.setP]
  · exact h

/-- a step of the copy loop that moves on to `loopPc … j` once files `0 … j-1` are there -/
theorem inv3_next (c : Cfg) (p : Nat) (s s' : St) (pr : Proc) (j : Nat) (h : Inv3 c s)
    (hs : pr.status = .running)
    (hp : s'.procs = upd s.procs p { pr with pc := loopPc c pr.kind j })
    (hmono : ∀ f, (s.files (.final f)).isSome = true → (s'.files (.final f)).isSome = true)
    (hj : present s' j) : Inv3 c s' := by
  rcases loopPc_spec c pr.kind j with ⟨hlt, e⟩ | ⟨hge, e1, e2⟩
  · refine inv3_frame c p s s' _ h hp hmono ?_ ?_ ?_ <;> simp_all [idx, isTail]
  · refine inv3_frame c p s s' _ h hp hmono ?_ ?_ ?_ <;> simp_all
    intro f hf; exact hj f (by omega)

theorem inv3_leave (c : Cfg) (p : Nat) (s : St) (hd : Option Nat) (pr : Proc) (h : Inv3 c s)
    (he : pr.err = none → pr.pc = .unlock ∧ present s (total c pr.kind)) :
    Inv3 c (({ s with holder := hd } : St).setP p (leave pr)) := by
  rcases leave_cases pr with ⟨e, v, hv⟩ | ⟨e, hv⟩ <;> rw [e] <;>
    refine inv3_frame c p s _ _ h rfl (fun _ hf => hf) ?_ ?_ ?_ <;> simp_all [St.setP, idx, isTail, present] <;> first | assumption | grind

theorem inv3_stepPc (c : Cfg) (p : Nat) (s : St) (hI : Inv c s) (h : Inv3 c s)
    (hr : (s.procs p).status = .running) : Inv3 c (stepPc c .safe p s (s.procs p)) := by
  have hnot : ∀ v, (s.procs p).kind = .load v ∨ (s.procs p).kind = .peek v →
      ¬ ((s.procs p).kind = .populate ∨ ∃ m, (s.procs p).kind = .refresh m) := by
    intro v hv; rcases hv with e | e <;> simp [e]
  unfold stepPc
  split
  next hpc => -- list1
    have hk := hI.rdk p hr (Or.inl hpc)
    unfold listed
    simp only []
    split
    · split <;> apply inv3_local c p s _ h <;> simp_all [idx, isTail] <;> first | assumption | grind [present]
    · apply inv3_local c p s _ h <;> simp_all [idx, isTail] <;> first | assumption | grind [present]
  next hpc => -- list2
    have hk := hI.rdk p hr (Or.inr (Or.inl hpc))
    unfold listed
    simp only []
    split <;> apply inv3_local c p s _ h <;> simp_all [idx, isTail] <;> first | assumption | grind [present]
  next hpc => -- read
    have hk := hI.rdk p hr (Or.inr (Or.inr hpc))
    apply inv3_local c p s _ h <;> simp_all [idx, isTail] <;> first | assumption | grind [present]
  next hpc => -- readTs
    simp only []
    split
    · exact inv3_leave c p s s.holder { s.procs p with err := some .tooRecent } h (by simp)
    · apply inv3_local c p s _ h <;> simp_all [idx, isTail] <;> first | assumption | grind [present]
  next hpc => -- openLock
    refine inv3_frame c p s _ _ h rfl (fun _ hf => hf) ?_ ?_ ?_ <;> simp_all [St.setP, idx, isTail, present] <;> first | assumption | grind
  next k hpc => -- tryLock
    split
    · exact inv3_next c p s _ (s.procs p) 0 h hr rfl (fun _ hf => hf) (fun f hf => absurd hf (by omega))
    · split
      · exact inv3_leave c p s s.holder { s.procs p with err := some .lockTimeout } h (by simp)
      · apply inv3_local c p s _ h <;> simp_all [idx, isTail] <;> first | assumption | grind [present]
  next i hpc => -- pick
    have hi : present s i := h.loop p i hr (by simp [hpc, idx])
    have hnext : ∀ (hf : (s.files (.final i)).isSome = true), present s (i + 1) := by
      intro hf f hlt
      by_cases e : f = i
      · rw [e]; exact hf
      · exact hi f (by omega)
    split
    · split
      · next hfull => exact inv3_next c p s _ (s.procs p) (i + 1) h hr rfl (fun _ hf => hf) (hnext (by simp [hfull]))
      · apply inv3_local c p s _ h <;> simp_all [idx, isTail] <;> first | assumption | grind [present]
    · split
      · next hsome => exact inv3_next c p s _ (s.procs p) (i + 1) h hr rfl (fun _ hf => hf) (hnext hsome)
      · apply inv3_local c p s _ h <;> simp_all [idx, isTail] <;> first | assumption | grind [present]
  next i hpc => -- mktemp
    have hi : present s i := h.loop p i hr (by simp [hpc, idx])
    refine inv3_frame c p s _ _ h rfl ?_ ?_ ?_ ?_ <;>
      simp_all [St.setP, upd, idx, isTail, present]
  next i hpc => -- create
    have hi : present s i := h.loop p i hr (by simp [hpc, idx])
    by_cases hc : c.chunks = 0 <;>
    refine inv3_frame c p s _ _ h rfl ?_ ?_ ?_ ?_ <;>
      simp_all [St.setP, upd, idx, isTail, present]
  next i j hpc => -- append
    have hi : present s i := h.loop p i hr (by simp [hpc, idx])
    by_cases hc : j + 1 < c.chunks <;>
    refine inv3_frame c p s _ _ h rfl ?_ ?_ ?_ ?_ <;>
      simp_all [St.setP, upd, writeTo, idx, isTail, present] <;> first | assumption | grind
  next i hpc => -- close
    have hi : present s i := h.loop p i hr (by simp [hpc, idx])
    simp only []
    apply inv3_local c p s _ h <;> simp_all [idx, isTail] <;> first | assumption | grind [present]
  next i hpc => -- rename
    have hi : present s i := h.loop p i hr (by simp [hpc, idx])
    simp only [afterRename_safe]
    split
    · next ct hct =>
      refine inv3_next c p s _ (s.procs p) (i + 1) h hr rfl ?_ ?_
      · intro f hf; simp [upd]; split <;> simp_all
      · intro f hf
        by_cases e : f = i
        · simp [upd, e]
        · have := hi f (by omega); simp [upd, e]; exact this
    · next hnone =>
      have := hI.tmpR p i hr (Or.inr hpc)
      rw [hnone] at this; simp at this
  next hpc => -- truncTs
    have ht := h.tail p hr (by simp [hpc, isTail])
    refine inv3_frame c p s _ _ h rfl (fun _ hf => hf) ?_ ?_ ?_ <;> simp_all [St.setP, idx, isTail, present]
  next hpc => -- writeTs
    have ht := h.tail p hr (by simp [hpc, isTail])
    refine inv3_frame c p s _ _ h rfl (fun _ hf => hf) ?_ ?_ ?_ <;> simp_all [St.setP, idx, isTail, present]
  next hpc => -- unlock
    have ht := h.tail p hr (by simp [hpc, isTail])
    exact inv3_leave c p s _ (s.procs p) h (fun _ => ⟨hpc, ht⟩)

theorem reach_inv3 (c : Cfg) (ps : List (Kind × Nat × Nat)) (sched : List Action) :
    Inv3 c (runSt c .safe sched (init ps)) := by
  suffices ∀ s, Inv c s → Inv3 c s → Inv3 c (runSt c .safe sched s) from this _ (inv_init c ps) (inv3_init c ps)
  induction sched with
  | nil => intro s _ h; exact h
  | cons a as ih =>
    intro s hI h
    refine ih _ (inv_act c a s hI) ?_
    cases a with
    | step p =>
      simp only [act, step]
      split
      · next hr => exact inv3_stepPc c p s hI h hr
      · exact h
    | crash p => exact inv3_crash c p s h

/-- **refresh_skipped**: in any reachable state in which some refresh has completed, a refresh `p` that
starts now and whose clock is within the threshold of every refresher's clock is skipped: it ends at once
with `tooRecent`, having made no file-system step other than reading the timestamp — provided nobody is in the
middle of rewriting the timestamp file (or died there: a truncated timestamp reads as "never refreshed"). -/
theorem refresh_skipped_after_completed (c : Cfg) (ps : List (Kind × Nat × Nat)) (sched : List Action)
    (p q m mp : Nat)
    (hq : ((runSt c .safe sched (init ps)).procs q).kind = .refresh m)
    (hqf : ((runSt c .safe sched (init ps)).procs q).status = .finished)
    (hqe : ((runSt c .safe sched (init ps)).procs q).err = none)
    (hp : ((runSt c .safe sched (init ps)).procs p).kind = .refresh mp)
    (hr : ((runSt c .safe sched (init ps)).procs p).status = .running)
    (hpc : ((runSt c .safe sched (init ps)).procs p).pc = .readTs)
    (hnt : (runSt c .safe sched (init ps)).tsTorn = false)
    (hclock : ∀ q' m', ((runSt c .safe sched (init ps)).procs q').kind = .refresh m' →
      ((runSt c .safe sched (init ps)).procs p).now < ((runSt c .safe sched (init ps)).procs q').now + c.thr) :
    step c .safe p (runSt c .safe sched (init ps)) =
      (runSt c .safe sched (init ps)).setP p
        { (runSt c .safe sched (init ps)).procs p with err := some .tooRecent, status := .finished } := by
  have hi := reach_inv2 c ps sched
  have hsome : (runSt c .safe sched (init ps)).ts.isSome = true := by
    rcases hi.tsDone q m hq (Or.inr ⟨hqf, hqe⟩) with e | e
    · exact e
    · rw [hnt] at e; cases e
  cases hts : (runSt c .safe sched (init ps)).ts with
  | none => simp [hts] at hsome
  | some t =>
    obtain ⟨q', m', hk', hn'⟩ := hi.tsFrom t hts
    have hnow := hclock q' m' hk'
    rw [hn'] at hnow
    rw [(refresh_skipped c p t _ hr hpc hts hnow).1]
    simp [leave, hp]

/-! ### what a finished population / refresh leaves, downloads, direct reads -/

/-- **populate_complete** ("a finished population leaves byte-identical copies"): when `cache_local_versions`
has returned normally (no CacheException branch), every bundled file is in the cache, complete and equal to
the bundled file — in any schedule, whoever copied it. -/
theorem populate_complete (c : Cfg) (ps : List (Kind × Nat × Nat)) (sched : List Action) (p f : Nat)
    (hk : ((runSt c .safe sched (init ps)).procs p).kind = .populate)
    (hf : ((runSt c .safe sched (init ps)).procs p).status = .finished)
    (he : ((runSt c .safe sched (init ps)).procs p).err = none) (hlt : f < c.nFiles) :
    (runSt c .safe sched (init ps)).files (.final f) = some (full c f) := by
  have h3 := (reach_inv3 c ps sched).done p hf he (Or.inl hk)
  have hp := h3.2 f (by rw [hk]; exact hlt)
  obtain ⟨ct, hct⟩ := Option.isSome_iff_exists.mp hp
  rw [hct, (reach_inv c ps sched).torn f ct hct]

/-- **refresh_complete**: a refresh of files `0 … m-1` that returned normally leaves each of them complete. -/
theorem refresh_complete (c : Cfg) (ps : List (Kind × Nat × Nat)) (sched : List Action) (p m f : Nat)
    (hk : ((runSt c .safe sched (init ps)).procs p).kind = .refresh m)
    (hf : ((runSt c .safe sched (init ps)).procs p).status = .finished)
    (he : ((runSt c .safe sched (init ps)).procs p).err = none) (hlt : f < m) :
    (runSt c .safe sched (init ps)).files (.final f) = some (full c f) := by
  have h3 := (reach_inv3 c ps sched).done p hf he (Or.inr ⟨m, hk⟩)
  have hp := h3.2 f (by rw [hk]; exact hlt)
  obtain ⟨ct, hct⟩ := Option.isSome_iff_exists.mp hp
  rw [hct, (reach_inv c ps sched).torn f ct hct]

/-- **refresh_no_torn**: the download path (sha check, copy of the downloaded file to a temp name in the cache
folder, `os.replace`) never puts a partial file under a cache name — also for versions that are not bundled
(`f ≥ nFiles`) — and what a refresh is about to rename into place is a complete file. -/
theorem refresh_no_torn (c : Cfg) (ps : List (Kind × Nat × Nat)) (sched : List Action) :
    (∀ f ct, (runSt c .safe sched (init ps)).files (.final f) = some ct → ct = full c f) ∧
    (∀ p m i, ((runSt c .safe sched (init ps)).procs p).kind = .refresh m →
      ((runSt c .safe sched (init ps)).procs p).status = .running →
      ((runSt c .safe sched (init ps)).procs p).pc = .rename i →
      (runSt c .safe sched (init ps)).files (.tmp p i) = some (full c i)) :=
  ⟨(reach_inv c ps sched).torn, fun p _ i _ hr hpc => (reach_inv c ps sched).tmpR p i hr (Or.inr hpc)⟩

/-- **peek_no_torn**: a direct read of a cache file (`get_library_data` opening `library_data.json`) never
obtains a partial file: whatever content it got is the bundled content. -/
theorem peek_no_torn (c : Cfg) (ps : List (Kind × Nat × Nat)) (sched : List Action) (p v : Nat) (ct : Content)
    (hk : ((runSt c .safe sched (init ps)).procs p).kind = .peek v)
    (hg : ((runSt c .safe sched (init ps)).procs p).got = some (some ct)) : ct = full c v := by
  rw [(reach_inv c ps sched).got p ct hg, hk]; rfl

/-! ### the code before the repair (`Cache.current`) violates every clause -/

/-- one bundled file of two chunks -/
def cfg1 : Cfg := ⟨1, 2, 1800, 4⟩

/-- (a) two `CacheLock` holders overlap; (b) a populate killed after the first chunk leaves a torn file
under the final name which a later complete populate keeps (`exists` → skip) and a later load is served;
(c) a load concurrent with a populate reads the half-copied file. -/
theorem current_counterexamples :
    -- (a)
    (let s := runSt cfg1 .current [.step 0, .step 1] (init [(.populate, 5000, 0), (.populate, 5000, 0)])
     (s.procs 0).inRegion && (s.procs 1).inRegion) = true ∧
    -- (b)
    (let s := runSt cfg1 .current
        [.step 0, .step 0, .step 0, .step 0, .crash 0, .step 1, .step 1, .step 1, .step 2, .step 2]
        (init [(.populate, 5000, 0), (.populate, 5000, 0), (.load 0, 5000, 0)])
     s.files (.final 0) = some ⟨0, [true]⟩ ∧ (s.procs 1).status = .finished ∧ (s.procs 1).err = none ∧
       (s.procs 2).status = .finished ∧ (s.procs 2).got = some (some ⟨0, [true]⟩)) ∧
    -- (c)
    (let s := runSt cfg1 .current [.step 0, .step 0, .step 0, .step 0, .step 1, .step 1, .step 0, .step 0]
        (init [(.populate, 5000, 0), (.load 0, 5000, 0)])
     (s.procs 1).got = some (some ⟨0, [true]⟩) ∧ (s.procs 0).status = .finished ∧
       s.files (.final 0) = some (full cfg1 0)) := by
  decide

/-- the unrepaired timestamp read (`except FileNotFoundError or ValueError or IOError`): a first-use loader
that has listed the empty directory, then a refresh that is killed between truncating and writing
`last_update.txt`; the loader's `CacheLock.__enter__` raises `ValueError` and the load fails. -/
theorem current_timestamp_counterexample :
    (let s := runSt cfg1 .current
        [.step 0, .step 1, .step 1, .step 1, .step 1, .step 1, .step 1, .step 1, .step 1, .crash 1, .step 0]
        (init [(.load 0, 5000, 0), (.refresh 1, 5000, 0)])
     s.tsTorn = true ∧ (s.procs 0).status = .finished ∧ (s.procs 0).err = some .tsUnreadable ∧
       (s.procs 0).got = none) := by
  decide

/-- the unrepaired in-place copy also serves a torn `library_data.json` to a direct reader -/
theorem current_direct_read_counterexample :
    (let s := runSt cfg1 .current [.step 0, .step 0, .step 0, .step 0, .crash 0, .step 1]
        (init [(.populate, 5000, 0), (.peek 0, 5000, 0)])
     (s.procs 1).status = .finished ∧ (s.procs 1).got = some (some ⟨0, [true]⟩)) := by
  decide

/-! ### lock identity, write protocol, listing filter (mechanisms of the later seeded changes) -/

/-- **lock_excludes_per_directory**: the processes of a system address the one directory under arbitrary path
aliases (third component of their descriptors: real path, symlinks, …).  Because the lock file lives inside the
directory it is one inode under every alias, and no two processes are ever inside the locked region of the
same directory, whatever aliases they use. -/
theorem lock_excludes_per_directory (c : Cfg) (ps : List (Kind × Nat × Nat)) (sched : List Action) (p q : Nat)
    (hne : p ≠ q) :
    ¬ (((runSt c .safe sched (init ps)).procs p).inRegion = true ∧
       ((runSt c .safe sched (init ps)).procs q).inRegion = true) :=
  mutex c ps sched p q hne

/-- a lock file named after the path string does not exclude two aliases of one directory -/
theorem pathlock_counterexample :
    (let s := runSt cfg1 .pathlock [.step 0, .step 0, .step 0, .step 1, .step 1, .step 1]
        (init [(.populate, 5000, 0), (.populate, 5000, 1)])
     (s.procs 0).inRegion && (s.procs 1).inRegion) = true ∧
    -- (with one spelling it does exclude: the variant differs from `safe` only under aliasing)
    (let s := runSt cfg1 .pathlock [.step 0, .step 0, .step 0, .step 1, .step 1, .step 1]
        (init [(.populate, 5000, 7), (.populate, 5000, 7)])
     (s.procs 0).inRegion && (s.procs 1).inRegion) = false := by
  decide

/-- the copy is "write the chunks; close; rename" -/
theorem copy_order (c : Cfg) (k : Kind) (i : Nat) (p : Nat) (s : St) (hr : (s.procs p).status = .running)
    (hpc : (s.procs p).pc = .close i) :
    afterCopy c .safe k i = .close i ∧ ((step c .safe p s).procs p).pc = .rename i ∧
      (step c .safe p s).files = s.files := by
  refine ⟨afterCopy_safe c k i, ?_, ?_⟩ <;> simp [step, hr, stepPc, hpc]

/-- **rename_only_after_complete**: in every reachable state, a process about to rename a temp file into place
holds the complete source content in it (all chunks written, descriptor closed), so the file that becomes
visible under the final name is complete at the instant of the rename — at every crash point and for every
concurrent reader (`no_torn` is the same fact for all later states). -/
theorem rename_only_after_complete (c : Cfg) (ps : List (Kind × Nat × Nat)) (sched : List Action) (p i : Nat)
    (hr : ((runSt c .safe sched (init ps)).procs p).status = .running)
    (hpc : ((runSt c .safe sched (init ps)).procs p).pc = .rename i) :
    (runSt c .safe sched (init ps)).files (.tmp p i) = some (full c i) ∧
      (step c .safe p (runSt c .safe sched (init ps))).files (.final i) = some (full c i) := by
  have hR := (reach_inv c ps sched).tmpR p i hr (Or.inr hpc)
  refine ⟨hR, ?_⟩
  simp [step, hr, stepPc, hpc, hR, upd]

/-- the buffered-tail variant (rename inside the `with` block, before the writer is closed): a kill right
after the rename leaves a file without its tail under the final name, and a later load is served it; a
concurrent load in that window reads it too, although the populate then completes the file. -/
theorem buffered_tail_counterexample :
    (let s := runSt cfg1 .buffered (List.replicate 9 (.step 0) ++ [.crash 0, .step 1, .step 1])
        (init [(.populate, 5000, 0), (.load 0, 5000, 0)])
     s.files (.final 0) = some ⟨0, [true]⟩ ∧ (s.procs 1).got = some (some ⟨0, [true]⟩)) ∧
    (let s := runSt cfg1 .buffered (List.replicate 9 (.step 0) ++ [.step 1, .step 1, .step 0, .step 0])
        (init [(.populate, 5000, 0), (.load 0, 5000, 0)])
     s.files (.final 0) = some (full cfg1 0) ∧ (s.procs 0).status = .finished ∧
       (s.procs 1).got = some (some ⟨0, [true]⟩)) := by
  decide

/-- **listed_versions_are_final_files**: the listing filter of the repaired code counts a version only when
its final name exists (a temporary or partial name is never listed as a version), and a loader that has seen
its version in a listing will read a complete file. -/
theorem listed_versions_are_final_files (c : Cfg) (ps : List (Kind × Nat × Nat)) (sched : List Action) :
    (∀ v, seen .safe (runSt c .safe sched (init ps)) v = true →
      (runSt c .safe sched (init ps)).files (.final v) = some (full c v)) ∧
    (∀ p v, ((runSt c .safe sched (init ps)).procs p).kind = .load v →
      ((runSt c .safe sched (init ps)).procs p).status = .running →
      ((runSt c .safe sched (init ps)).procs p).pc = .read →
      (runSt c .safe sched (init ps)).files (.final v) = some (full c v)) := by
  have hi := reach_inv c ps sched
  constructor
  · intro v hv
    rw [seen_safe] at hv
    obtain ⟨ct, hct⟩ := Option.isSome_iff_exists.mp hv
    rw [hct, hi.torn v ct hct]
  · intro p v hk hr hpc
    have := hi.saw p v hk hr hpc
    rw [hk] at this
    obtain ⟨ct, hct⟩ := Option.isSome_iff_exists.mp this
    have hct' : (runSt c .safe sched (init ps)).files (.final v) = some ct := hct
    rw [hct', hi.torn v ct hct']

/-- without the anchors the temp name of a copy in progress is listed as the version; the loader looks for a
final file that is not there and ends "not found" (the real code then goes to the network) -/
theorem unanchored_counterexample :
    (let s := runSt cfg1 .unanchored [.step 0, .step 0, .step 0, .step 0, .step 0, .step 1, .step 1]
        (init [(.populate, 5000, 0), (.load 0, 5000, 0)])
     s.files (.final 0) = none ∧ (s.procs 1).saw = true ∧ (s.procs 1).status = .finished ∧
       (s.procs 1).got = some none) := by
  decide

theorem runSt_append (c : Cfg) (proto : Proto) (a b : List Action) (s : St) :
    runSt c proto (a ++ b) s = runSt c proto b (runSt c proto a s) := by
  induction a generalizing s with
  | nil => rfl
  | cons x xs ih => simp [runSt, ih]

/-- **load_uses_cache_or_bundled**: take any reachable state of the cache directory (left by any earlier
history `pre` of any processes, with any crashes) and continue in any way (`post`): every load of a bundled
version that completes returns bytes equal to the bundled file — read from the cache if the version was
listed (then the cache file is complete), from the installed copy otherwise. -/
theorem load_uses_cache_or_bundled (c : Cfg) (ps : List (Kind × Nat × Nat)) (pre post : List Action) (p v : Nat)
    (hk : ((runSt c .safe post (runSt c .safe pre (init ps))).procs p).kind = .load v)
    (hf : ((runSt c .safe post (runSt c .safe pre (init ps))).procs p).status = .finished) :
    ((runSt c .safe post (runSt c .safe pre (init ps))).procs p).got = some (some (full c v)) := by
  rw [← runSt_append] at hk hf ⊢
  exact load_ok c ps (pre ++ post) p v hk hf

/-- outside the interval `CacheLock.__enter__` goes on to the lock (the threshold test is exact) -/
theorem refresh_not_skipped_outside (c : Cfg) (p : Nat) (s : St)
    (hr : (s.procs p).status = .running) (hpc : (s.procs p).pc = .readTs)
    (hnow : s.ts.getD 0 + c.thr ≤ (s.procs p).now) :
    step c .safe p s = s.setP p { s.procs p with pc := .openLock } := by
  have : ¬ (s.procs p).now < s.ts.getD 0 + c.thr := by omega
  simp [step, hr, stepPc, hpc, this]

/-- `_check_if_url`: exactly the two scheme prefixes; an absolute file path is never taken for a URL, so the
path of a cache (or bundled) file always goes to the file loader -/
theorem checkIfUrl_spec (s : List Char) :
    checkIfUrl s = true ↔ "http://".toList.isPrefixOf s = true ∨ "https://".toList.isPrefixOf s = true := by
  simp [checkIfUrl]

theorem checkIfUrl_abs (t : List Char) : checkIfUrl ('/' :: t) = false := by
  simp [checkIfUrl, List.isPrefixOf]

/-! ### non-vacuity: the hypotheses of the theorems are satisfiable, and the same schedules are harmless
under `Cache.safe` -/

/-- the primitives of an undisturbed populate, in order (the "list of primitive steps" of the process) -/
example : (run cfg1 .safe 1 (List.replicate 12 (.step 0)) (init [(.populate, 5000, 0)])).1.map (·.what) =
    ["readTs", "openLock", "tryLock", "exists", "mktemp", "create", "append", "append", "close", "rename", "unlock",
     "idle"] := by decide

/-- the primitives of an undisturbed refresh of one file (sha check, download to temp, replace, timestamp) -/
example : (run cfg1 .safe 1 (List.replicate 12 (.step 0)) (init [(.refresh 1, 5000, 0)])).1.map (·.what) =
    ["readTs", "openLock", "tryLock", "read", "create", "append", "append", "close", "rename", "truncTs", "writeTs",
     "unlock"] := by decide

/-- the torn-timestamp schedule under the repaired protocol: the truncated file reads as 0, the loader
populates the cache itself and gets the bundled content -/
example :
    (let s := runSt cfg1 .safe
        ([.step 0] ++ List.replicate 10 (.step 1) ++ [.crash 1] ++ List.replicate 7 (.step 0))
        (init [(.load 0, 5000, 0), (.refresh 1, 5000, 0)])
     s.tsTorn = true ∧ (s.procs 0).status = .finished ∧ (s.procs 0).err = none ∧
       (s.procs 0).got = some (some (full cfg1 0))) := by decide

/-- a direct reader: nothing there before the population, the complete file after it -/
example :
    (let s := runSt cfg1 .safe ([.step 1] ++ List.replicate 11 (.step 0) ++ [.step 2])
        (init [(.populate, 5000, 0), (.peek 0, 5000, 0), (.peek 0, 5000, 0)])
     (s.procs 1).got = some none ∧ (s.procs 2).got = some (some (full cfg1 0)) ∧
       (s.procs 0).status = .finished ∧ (s.procs 0).err = none) := by decide

/-- schedule (b) under the repaired protocol: the killed populate leaves only a temp file, the second one
completes the cache, the loader gets the bundled content -/
example :
    (let s := runSt cfg1 .safe
        ([.step 0, .step 0, .step 0, .step 0, .step 0, .step 0, .step 0, .crash 0] ++ List.replicate 11 (.step 1) ++
          [.step 2, .step 2])
        (init [(.populate, 5000, 0), (.populate, 5000, 0), (.load 0, 5000, 0)])
     s.files (.final 0) = some (full cfg1 0) ∧ s.files (.tmp 0 0) = some ⟨0, [true]⟩ ∧
       (s.procs 2).kind = .load 0 ∧ (s.procs 2).status = .finished ∧
       (s.procs 2).got = some (some (full cfg1 0))) := by decide

/-- a loader arriving in the middle of a populate is served the bundled file (not in the listing yet) -/
example :
    (let s := runSt cfg1 .safe [.step 0, .step 0, .step 0, .step 0, .step 0, .step 0, .step 0, .step 1]
        (init [(.populate, 5000, 0), (.load 0, 5000, 0)])
     s.files (.final 0) = none ∧ (s.procs 1).status = .finished ∧ (s.procs 1).got = some (some (full cfg1 0))) := by
  decide

/-- the lock-timeout branch is reachable: the second populate burns its five attempts and gives up -/
example :
    (let s := runSt cfg1 .safe ([.step 0, .step 0, .step 0] ++ List.replicate 7 (.step 1))
        (init [(.populate, 5000, 0), (.populate, 5000, 0)])
     (s.procs 0).inRegion = true ∧ (s.procs 1).status = .finished ∧ (s.procs 1).err = some .lockTimeout ∧
       s.holder = some 0) := by decide

/-- the hypotheses of `refresh_skipped_after_completed` are satisfiable: refresh 0 completes at clock 5000,
refresh 1 starts at 5100 -/
example :
    (let s := runSt cfg1 .safe (List.replicate 12 (.step 0)) (init [(.refresh 1, 5000, 0), (.refresh 1, 5100, 0)])
     (s.procs 0).status = .finished ∧ (s.procs 0).err = none ∧ s.ts = some 5000 ∧ s.tsTorn = false ∧
       (s.procs 1).status = .running ∧ (s.procs 1).pc = .readTs ∧
       ((step cfg1 .safe 1 s).procs 1).err = some .tooRecent ∧ ((step cfg1 .safe 1 s).procs 1).status = .finished) := by
  decide

end HedVerif.C19
