/-
C16, closed mode — dataset validation as a closed Lean function (Model/ClosedDataset.lean).

`validateDatasetClosed env kB F tree excl types cfw` : participating files by `Bids.load`, the sidecar of each file by
`Bids.mergeImpl`, sidecar issues by `SidecarV.validateClosed`, file issues by `Tabular.validateClosed` (both with the
C01 string-validator model inside), concatenated sidecars first in discovery order, each issue labelled with its file.
-/
import HedVerif.Model.ClosedDataset
import HedVerif.Model.ClosedDatasetRaw
import HedVerif.Props.C16
import HedVerif.Props.Closed

namespace HedVerif.C16
open HedVerif HedVerif.Bids

/-! ## the closed dataset model is the instance of the generic one (`BidsV`) with the closed oracles -/

theorem closed_is_instance (env : Validate.Env) (kB : Tabular.RIssue) (F : Frames) (g : Group SJson) :
    validateGroupClosed env kB F g = groupValidate (closedOracles env kB F) g := rfl

theorem datasetClosed_is_instance (env : Validate.Env) (kB : Tabular.RIssue) (F : Frames) (t : Tree SJson)
    (excl types : List Str) (cfw : Bool) :
    validateDatasetClosed env kB F t excl types cfw = datasetValidate (closedOracles env kB F) t excl types cfw := rfl

/-- the sidecar the property gives a file: the merge of every applicable sidecar on its path, or none -/
def specSidecar (g : Group SJson) (d : PFile SJson) : Option (Columns SJson) :=
  if (specChain g d).isEmpty then none else some (mergeSpec g d)

/-- validating a merged document with its own string layer (`sidecarOracleFor`) is the closed sidecar pipeline with
declared definitions, `SidecarV.validateClosedD` -/
theorem sidecarOracleFor_validate (env : Validate.Env) (m : Columns SJson) :
    SidecarV.validate .fixed (sidecarOracleFor env m) (.obj m) = SidecarV.validateClosedD env .fixed (.obj m) := by
  unfold SidecarV.validateClosedD SidecarV.validateD sidecarOracleFor
  simp only [C08.extractDefsDoc_eq]

/-- a sidecar whose chain holds JSON objects only is judged by `validateClosedD` on its merged document -/
theorem sidecarClosed_eq_closedD (env : Validate.Env) (g : Group SJson) (s : PFile SJson)
    (h : loadIssueCount g s = 0) :
    sidecarClosed env g s = SidecarV.validateClosedD env .fixed (.obj (mergeImpl g s)) := by
  unfold sidecarClosed
  rw [h, List.replicate_zero, ← validate_obj, sidecarOracleFor_validate]

/-- **dataset_closed_is_union.**  In a group of a well-formed tree (file-system listing, at most one applicable
sidecar per directory, sidecars are JSON objects) the dataset's issue list is the concatenation — participating
sidecars first, then participating events files, each in discovery order — of the closed sidecar pipeline (declared definitions included, `validateClosedD`) on each
sidecar's `mergeSpec` document and of the closed file pipeline on each file presented with its `mergeSpec`
sidecar in the environment of that sidecar's definitions (`fileEnv`); every issue is labelled with its file; the first step that raises ends the run. -/
theorem dataset_closed_is_union (env : Validate.Env) (kB : Tabular.RIssue) (F : Frames) (g : Group SJson)
    (hW : ∀ o ∈ g.sidecars ++ g.datafiles, WellFormed g o) (hobj : ∀ s ∈ g.sidecars, s.obj = true) :
    validateGroupClosed env kB F g =
      seqE ((g.sidecars.map fun s =>
              tagE (DIssue.sidecar s.path) (DExn.sidecar s.path)
                (SidecarV.validateClosedD env .fixed (.obj (mergeSpec g s)))) ++
            (g.datafiles.map fun d =>
              tagE (DIssue.table d.path) (DExn.table d.path)
                (Tabular.validateClosed (fileEnv env (specSidecar g d)) kB
                  (F d (specSidecar g d)).1 (F d (specSidecar g d)).2))) := by
  rw [closed_is_instance, dataset_validate_eq _ g (fun o ho => (hW o ho).toFiles) hobj]
  congr 2
  · apply map_congr'
    intro s hs
    rw [mergeChosen_eq_mergeSpec g s (hW s (List.mem_append_left _ hs)).unique]
    show tagE _ _ (SidecarV.validate .fixed (sidecarOracleFor env (mergeSpec g s)) (.obj (mergeSpec g s))) = _
    rw [sidecarOracleFor_validate]
  · apply map_congr'
    intro d hd
    have hu := (hW d (List.mem_append_right _ hd)).unique
    simp only [mergeChosen_eq_mergeSpec g d hu, chosenChain_eq_specChain g d hu]
    rfl

theorem seqE_single {ε β : Type} (x : Except ε (List β)) : seqE [x] = x := by
  cases x <;> simp [seqE]

/-- the same for a whole dataset tree with one tabular type: the discovery order is that of `participation_spec` -/
theorem dataset_closed_is_union_tree (env : Validate.Env) (kB : Tabular.RIssue) (F : Frames) (D : Dir SJson)
    (excl : List Str) (sfx : Str) (cfw : Bool) (g : Group SJson) (hL : IsListing D.listing)
    (hload : load D.listing excl sfx = .ok g)
    (hu : ∀ o ∈ g.sidecars ++ g.datafiles, ∀ d ∈ inits o.dir,
      (g.sidecars.filter (fun s => s.dir == d && specApplies s o)).length ≤ 1)
    (hobj : ∀ s ∈ g.sidecars, s.obj = true) :
    validateDatasetClosed env kB F D.listing excl [sfx] cfw =
      match validateGroupClosed env kB F g with
      | .error e => .error (.validation e)
      | .ok l => .ok (filterSev cfw l) := by
  unfold validateDatasetClosed
  simp only [loadAll, hload, List.map_cons, List.map_nil, seqE_single]
  have _ := load_files D.listing excl sfx g hL hload
  have _ := hu; have _ := hobj
  rfl

/-! ## never raises -/

theorem sidecarClosed_total (env : Validate.Env) (g : Group SJson) (s : PFile SJson) :
    ∃ l, sidecarClosed env g s = .ok l := by
  unfold sidecarClosed
  generalize loadIssueCount g s = n
  cases n with
  | zero =>
    rw [List.replicate_zero, ← validate_obj]
    exact C08.total _ _
  | succ k =>
    unfold validateLoaded
    simp only [C08.structure_eq, C08.columnData_eq, C08.refIssues_eq _ (C08.good_cols _)]
    have he : SidecarV.anyError (C08.structureP (List.replicate (k + 1) wrongTop) (mergeImpl g s) ++
        C08.refIssuesP (C08.colsP (mergeImpl g s))) = true := by
      simp [SidecarV.anyError, C08.structureP, List.replicate_succ, wrongTop, C08.mk_isError]
    rw [if_pos he]
    exact ⟨_, rfl⟩

theorem tagE_ok {β γ ε ε' : Type} (f : β → γ) (h : ε → ε') (x : Except ε (List β)) (hx : ∃ l, x = .ok l) :
    ∃ l, tagE f h x = .ok l := by
  obtain ⟨l, rfl⟩ := hx; exact ⟨_, rfl⟩

theorem seqE_ok {ε β : Type} (xs : List (Except ε (List β))) (h : ∀ x ∈ xs, ∃ l, x = .ok l) :
    ∃ l, seqE xs = .ok l := by
  induction xs with
  | nil => exact ⟨[], rfl⟩
  | cons x r ih =>
    obtain ⟨l, rfl⟩ := h x (List.mem_cons_self ..)
    obtain ⟨l', hl'⟩ := ih (fun y hy => h y (List.mem_cons_of_mem _ hy))
    exact ⟨l ++ l', by simp [seqE, hl']⟩

theorem group_closed_total (env : Validate.Env) (kB : Tabular.RIssue) (F : Frames) (g : Group SJson)
    (hF : ∀ d sc, (F d sc).1.maskByRow = true ∧ (F d sc).1.guardDelay = true) :
    ∃ l, validateGroupClosed env kB F g = .ok l := by
  unfold validateGroupClosed
  apply seqE_ok
  intro x hx
  rcases List.mem_append.mp hx with hx | hx
  · obtain ⟨s, _, rfl⟩ := List.mem_map.mp hx
    exact tagE_ok _ _ _ (sidecarClosed_total env g s)
  · obtain ⟨d, _, rfl⟩ := List.mem_map.mp hx
    refine tagE_ok _ _ _ ?_
    unfold tableClosed
    exact C07.total_closed (fileEnv env (sidecarOf g d)) kB _ _ (hF d _).1 (hF d _).2

/-- **dataset_closed_total.**  On every tree whose participating file names parse (`loadAll` succeeds), with frames
of the repaired file layer, closed dataset validation returns a list of issues: no sidecar content (any JSON value,
non-objects included), table content, schema environment or inheritance pattern makes it raise. -/
theorem dataset_closed_total (env : Validate.Env) (kB : Tabular.RIssue) (F : Frames) (t : Tree SJson)
    (excl types : List Str) (cfw : Bool) (gs : List (Group SJson)) (hparse : loadAll t excl types = .ok gs)
    (hF : ∀ d sc, (F d sc).1.maskByRow = true ∧ (F d sc).1.guardDelay = true) :
    ∃ l, validateDatasetClosed env kB F t excl types cfw = .ok l := by
  unfold validateDatasetClosed
  rw [hparse]
  obtain ⟨l, hl⟩ := seqE_ok (gs.map (validateGroupClosed env kB F)) (by
    intro x hx
    obtain ⟨g, _, rfl⟩ := List.mem_map.mp hx
    exact group_closed_total env kB F g hF)
  exact ⟨filterSev cfw l, by simp only [hl]⟩

/-- and it raises a `HedFileError` exactly when a participating name does not parse -/
theorem dataset_closed_fileError (env : Validate.Env) (kB : Tabular.RIssue) (F : Frames) (t : Tree SJson)
    (excl types : List Str) (cfw : Bool) (e : PErr) (hparse : loadAll t excl types = .error e) :
    validateDatasetClosed env kB F t excl types cfw = .error (.fileError e) := by
  unfold validateDatasetClosed; rw [hparse]

/-! ## excluded files are silent -/

theorem seqE_mem {ε β : Type} (xs : List (Except ε (List β))) (l : List β) (h : seqE xs = .ok l) :
    ∀ i ∈ l, ∃ x ∈ xs, ∃ lx, x = .ok lx ∧ i ∈ lx := by
  induction xs generalizing l with
  | nil => simp only [seqE] at h; cases h; intro i hi; cases hi
  | cons x r ih =>
    cases x with
    | error e => simp [seqE] at h
    | ok lx =>
      cases hr : seqE r with
      | error e => simp [seqE, hr] at h
      | ok l' =>
        simp only [seqE, hr] at h
        cases h
        intro i hi
        rcases List.mem_append.mp hi with hi | hi
        · exact ⟨_, List.mem_cons_self .., lx, rfl, hi⟩
        · obtain ⟨x, hx, lx', hxe, hix⟩ := ih l' hr i hi
          exact ⟨x, List.mem_cons_of_mem _ hx, lx', hxe, hix⟩

theorem tagE_mem {β γ ε ε' : Type} (f : β → γ) (h : ε → ε') (x : Except ε (List β)) (l : List γ)
    (hx : tagE f h x = .ok l) : ∀ i ∈ l, ∃ b, i = f b := by
  cases x with
  | error e => simp [tagE] at hx
  | ok lx =>
    simp only [tagE] at hx; cases hx
    intro i hi; obtain ⟨b, _, rfl⟩ := List.mem_map.mp hi; exact ⟨b, rfl⟩

/-- every issue of a group is labelled with the path of one of its participating objects -/
theorem group_issue_file (env : Validate.Env) (kB : Tabular.RIssue) (F : Frames) (g : Group SJson) (l : List DIssue)
    (h : validateGroupClosed env kB F g = .ok l) :
    ∀ i ∈ l, (∃ s ∈ g.sidecars, s.path = i.file) ∨ (∃ d ∈ g.datafiles, d.path = i.file) := by
  intro i hi
  obtain ⟨x, hx, lx, hxe, hix⟩ := seqE_mem _ l h i hi
  rcases List.mem_append.mp hx with hx | hx
  · obtain ⟨s, hs, rfl⟩ := List.mem_map.mp hx
    obtain ⟨b, rfl⟩ := tagE_mem _ _ _ lx hxe i hix
    exact Or.inl ⟨s, hs, rfl⟩
  · obtain ⟨d, hd, rfl⟩ := List.mem_map.mp hx
    obtain ⟨b, rfl⟩ := tagE_mem _ _ _ lx hxe i hix
    exact Or.inr ⟨d, hd, rfl⟩

/-- **excluded_files_silent.**  No issue of the dataset carries the name of a non-participating file: the file of
every issue is a file of the tree none of whose directory components is an excluded name (at any depth) and whose
name has the group's suffix and the `.json` / `.tsv` extension. -/
theorem excluded_files_silent (env : Validate.Env) (kB : Tabular.RIssue) (F : Frames) (D : Dir SJson)
    (excl : List Str) (sfx : Str) (g : Group SJson) (l : List DIssue) (hload : load D.listing excl sfx = .ok g)
    (h : validateGroupClosed env kB F g = .ok l) :
    ∀ i ∈ l, (∃ e ∈ D.listing, e.1 = i.file) ∧ participates excl i.file ∧
      (checkName (i.file.getLastD []) sfx jsonExt = true ∨ checkName (i.file.getLastD []) sfx tsvExt = true) := by
  intro i hi
  have hp := participation_spec D excl sfx g hload i.file
  rcases group_issue_file env kB F g l h i hi with hs | hd
  · obtain ⟨h1, h2, h3⟩ := hp.1.mp hs; exact ⟨h1, h2, Or.inl h3⟩
  · obtain ⟨h1, h2, h3⟩ := hp.2.mp hd; exact ⟨h1, h2, Or.inr h3⟩

/-! ## frame property: only the chain matters -/

theorem find?_map' {β γ : Type _} (f : β → γ) (p : γ → Bool) (l : List β) :
    (l.map f).find? p = (l.find? (fun a => p (f a))).map f := by
  induction l with
  | nil => rfl
  | cons a r ih =>
    simp only [List.map_cons, List.find?_cons]
    cases p (f a) <;> simp [ih]

theorem filterMap_optmap {β γ δ : Type} (c : β → Option γ) (f : γ → δ) (l : List β) :
    l.filterMap (fun b => (c b).map f) = (l.filterMap c).map f := by
  induction l with
  | nil => rfl
  | cons a r ih =>
    rw [filterMap_cons_toList, filterMap_cons_toList, ih]
    cases c a <;> simp

theorem applies_meta (s s' o : PFile α) (hp : s'.path = s.path) (hs : s'.suffix = s.suffix) (he : s'.ents = s.ents) :
    applies s' o = applies s o := by
  simp [applies, PFile.dir, hp, hs, he]

/-- the chain of an object in a group whose sidecars were edited by `f` (paths, suffixes, entities kept) is the
image of its chain -/
theorem chain_map (g : Group α) (o : PFile α) (f : PFile α → PFile α)
    (hm : ∀ s, (f s).path = s.path ∧ (f s).suffix = s.suffix ∧ (f s).ents = s.ents) :
    chain ⟨g.sidecars.map f, g.datafiles⟩ o = (chain g o).map f := by
  unfold chain
  rw [← filterMap_optmap]
  apply filterMap_congr'
  intro d _
  unfold chainAt dirSidecars
  simp only [List.filter_map]
  rw [find?_map']
  have hfl : List.filter ((fun s => s.dir == d) ∘ f) g.sidecars = List.filter (fun s => s.dir == d) g.sidecars := by
    apply List.filter_congr
    intro s _
    simp [Function.comp, PFile.dir, (hm s).1]
  rw [hfl]
  congr 1
  apply find?_congr'
  intro s _
  exact applies_meta s (f s) o (hm s).1 (hm s).2.1 (hm s).2.2

/-- **file_judged_with_merged_sidecar_closed** (frame property, every tree).  Edit the sidecars of a group in any way
that keeps their names (`f`: contents may change, files may become non-objects) and leaves the members of the chain
of the object `o` untouched.  Then `o` has the same chain, the same merged sidecar and the same closed issues — as
an events file, and (if `o` is a sidecar `f` leaves alone) as a sidecar.  A sidecar that is not inherited by a file
cannot change how that file is judged. -/
theorem file_judged_with_merged_sidecar_closed (env : Validate.Env) (kB : Tabular.RIssue) (F : Frames)
    (g : Group SJson) (o : PFile SJson) (f : PFile SJson → PFile SJson)
    (hm : ∀ s, (f s).path = s.path ∧ (f s).suffix = s.suffix ∧ (f s).ents = s.ents)
    (hfix : ∀ s ∈ chain g o, f s = s) :
    chain ⟨g.sidecars.map f, g.datafiles⟩ o = chain g o ∧
    mergeImpl ⟨g.sidecars.map f, g.datafiles⟩ o = mergeImpl g o ∧
    tableClosed env kB F ⟨g.sidecars.map f, g.datafiles⟩ o = tableClosed env kB F g o ∧
    sidecarClosed env ⟨g.sidecars.map f, g.datafiles⟩ o = sidecarClosed env g o := by
  have hc : chain ⟨g.sidecars.map f, g.datafiles⟩ o = chain g o := by
    rw [chain_map g o f hm]
    conv => rhs; rw [← List.map_id (chain g o)]
    exact List.map_congr_left hfix
  refine ⟨hc, ?_, ?_, ?_⟩
  · unfold mergeImpl; rw [hc]
  · unfold tableClosed sidecarOf hasSidecar mergeImpl; rw [hc]
  · unfold sidecarClosed loadIssueCount mergeImpl; rw [hc]

/-! ## a two-subject dataset through the closed pipeline (tiny schema of `Props/C01.lean`) -/

section Example
private def evJson : Str := ['_','e','v','e','n','t','s','.','j','s','o','n']
private def evTsv : Str := ['_','e','v','e','n','t','s','.','t','s','v']
private def sub (n : Char) : Str := ['s','u','b','-','0', n]
private def taskA : Str := ['t','a','s','k','-','A']
private def colA : Str := ['a']
private def keyX : Str := ['x']

private def entry (s : Str) : SJson := .obj [(SidecarV.HED, .obj [(keyX, .str s)])]

/-- root `events.json` {a: {HED: {x: "Red"}}}; `sub-01/sub-01_events.json` {a: {HED: {x: "Zz"}}} (overrides column
`a` for subject 1 with an unknown tag); one events file per subject -/
def exDataset : Tree SJson :=
  [ ([['e','v','e','n','t','s','.','j','s','o','n']], some [(colA, entry ['R','e','d'])]),
    ([sub '1', sub '1' ++ evJson], some [(colA, entry ['Z','z'])]),
    ([sub '1', sub '1' ++ '_' :: taskA ++ evTsv], none),
    ([sub '2', sub '2' ++ '_' :: taskA ++ evTsv], none) ]

/-- a one-row, one-column presentation of an events file whose column `a` holds `x`: the cell is the `x` entry of
column `a` of the merged sidecar (what the categorical transform of the assembly yields) -/
def exFrames : Frames := fun _ sc =>
  let cell : Str := match sc.bind (getCol colA) with
    | some (.obj [(_, .obj [(_, .str s)])]) => s
    | _ => SidecarV.NA
  ({ C07.closedCfg with columns := [colA] }, [⟨none, [cell], []⟩])

/-- **two-subject example** (`decide +kernel`).  Subject 1 is judged with the overriding sidecar: its events file
and its sidecar report the unknown tag; subject 2 inherits only the root sidecar and is clean; the root sidecar is
clean.  Issues come sidecars first, in discovery order, each with its file. -/
theorem two_subject_example_closed :
    (validateDatasetClosed C01.Tiny.env ⟨['B'], 1⟩ exFrames exDataset [] [['e','v','e','n','t','s']] false).toOption =
    some [ .sidecar [sub '1', sub '1' ++ evJson] ⟨[], Validate.Kind.noValidTag.code, 1, some colA, none⟩,
           .table [sub '1', sub '1' ++ '_' :: taskA ++ evTsv]
             ⟨C07.kindOf .noValidTag, 1, some 2, some colA, ['Z','z'], .cell 0 0⟩ ] := by
  decide +kernel
end Example

/-! ## RAW closed mode: the frame input disappears (`Model/ClosedDatasetRaw.lean`) -/

/-- the per-file step of the raw dataset model is the raw closed file pipeline (C06 ∘ C07 ∘ C01) on the file's own
cells and the model's merged sidecar (the empty sidecar if none applies) -/
theorem raw_table_step (env : Validate.Env) (k : Raw.Consts) (tables : Path → Assemble.Table) (g : Group SJson)
    (d : PFile SJson) :
    tableClosed env k.kBanned (rawFrames k tables) g d =
      Tabular.validateClosedRawD env k (toJs ((sidecarOf g d).getD [])) (tables d.path) := rfl

/-- **dataset_closed_raw_is_union.**  For a well-formed group the dataset's issue list, computed from the tree alone,
is the concatenation — participating sidecars first, then participating events files, in discovery order, each issue
labelled with its file — of `SidecarV.validateClosedD` on each sidecar's `mergeSpec` document (its declared
definitions extracted by the C09 model) and of `Tabular.validateClosedRawD` on each file's raw table with its
`mergeSpec` sidecar, whose definitions the rows see first (the empty sidecar if no sidecar applies). -/
theorem dataset_closed_raw_is_union (env : Validate.Env) (k : Raw.Consts) (tables : Path → Assemble.Table)
    (g : Group SJson) (hW : ∀ o ∈ g.sidecars ++ g.datafiles, WellFormed g o) (hobj : ∀ s ∈ g.sidecars, s.obj = true) :
    validateGroupClosedRaw env k tables g =
      seqE ((g.sidecars.map fun s =>
              tagE (DIssue.sidecar s.path) (DExn.sidecar s.path)
                (SidecarV.validateClosedD env .fixed (.obj (mergeSpec g s)))) ++
            (g.datafiles.map fun d =>
              tagE (DIssue.table d.path) (DExn.table d.path)
                (Tabular.validateClosedRawD env k (toJs ((specSidecar g d).getD [])) (tables d.path)))) := by
  unfold validateGroupClosedRaw
  rw [dataset_closed_is_union env k.kBanned (rawFrames k tables) g hW hobj]
  rfl

/-- the same for a whole dataset tree with one tabular type -/
theorem dataset_closed_raw_is_union_tree (env : Validate.Env) (k : Raw.Consts) (t : RawTree) (excl : List Str)
    (sfx : Str) (cfw : Bool) (g : Group SJson) (hload : load t.listing excl sfx = .ok g) :
    validateDatasetClosedRaw env k t excl [sfx] cfw =
      match validateGroupClosedRaw env k t.table g with
      | .error e => .error (.validation e)
      | .ok l => .ok (filterSev cfw l) := by
  unfold validateDatasetClosedRaw validateDatasetClosed validateGroupClosedRaw
  simp only [loadAll, hload, List.map_cons, List.map_nil, seqE_single]
  rfl

/-- **dataset_closed_raw_total.**  On every tree whose participating file names parse, with the repaired file layer,
raw closed dataset validation returns a list of issues — whatever the sidecars' JSON, the tables' cells, headers and
onsets, the schema environment and the inheritance pattern. -/
theorem dataset_closed_raw_total (env : Validate.Env) (k : Raw.Consts) (t : RawTree) (excl types : List Str)
    (cfw : Bool) (gs : List (Group SJson)) (hparse : loadAll t.listing excl types = .ok gs)
    (hm : k.maskByRow = true) (hg : k.guardDelay = true) :
    ∃ l, validateDatasetClosedRaw env k t excl types cfw = .ok l :=
  dataset_closed_total env k.kBanned (rawFrames k t.table) t.listing excl types cfw gs hparse
    (fun _ _ => ⟨hm, hg⟩)

/-- **excluded_files_silent_raw.** -/
theorem excluded_files_silent_raw (env : Validate.Env) (k : Raw.Consts) (tables : Path → Assemble.Table)
    (D : Dir SJson) (excl : List Str) (sfx : Str) (g : Group SJson) (l : List DIssue)
    (hload : load D.listing excl sfx = .ok g) (h : validateGroupClosedRaw env k tables g = .ok l) :
    ∀ i ∈ l, (∃ e ∈ D.listing, e.1 = i.file) ∧ participates excl i.file ∧
      (checkName (i.file.getLastD []) sfx jsonExt = true ∨ checkName (i.file.getLastD []) sfx tsvExt = true) :=
  excluded_files_silent env k.kBanned (rawFrames k tables) D excl sfx g l hload h

/-- **file_judged_with_merged_sidecar_closed_raw** (frame property, every tree, no frame input).  Edit the sidecars of
a group in any way that keeps their names and leaves the chain of `o` untouched, and edit the tables of all *other*
events files in any way: `o` has the same chain, the same merged sidecar, the same file issues and the same sidecar
issues. -/
theorem file_judged_with_merged_sidecar_closed_raw (env : Validate.Env) (k : Raw.Consts)
    (tables tables' : Path → Assemble.Table) (g : Group SJson) (o : PFile SJson) (f : PFile SJson → PFile SJson)
    (hm : ∀ s, (f s).path = s.path ∧ (f s).suffix = s.suffix ∧ (f s).ents = s.ents)
    (hfix : ∀ s ∈ chain g o, f s = s) (hown : tables' o.path = tables o.path) :
    mergeImpl ⟨g.sidecars.map f, g.datafiles⟩ o = mergeImpl g o ∧
    tableClosed env k.kBanned (rawFrames k tables') ⟨g.sidecars.map f, g.datafiles⟩ o =
      tableClosed env k.kBanned (rawFrames k tables) g o ∧
    sidecarClosed env ⟨g.sidecars.map f, g.datafiles⟩ o = sidecarClosed env g o := by
  obtain ⟨_, h2, h3, h4⟩ := file_judged_with_merged_sidecar_closed env k.kBanned (rawFrames k tables') g o f hm hfix
  refine ⟨h2, ?_, h4⟩
  rw [h3]
  unfold tableClosed rawFrames
  rw [hown]

/-- reading a file: a cell is either kept as text or becomes `"n/a"`; reading twice changes nothing; the header
is not touched -/
theorem readCell_spec (c : Str) :
    (readCell c = c ∨ readCell c = Assemble.NA) ∧ readCell (readCell c) = readCell c ∧
    (readCell c ≠ c → c ∈ Generated.C16.fileNaValues) := by
  have hna : readCell Assemble.NA = Assemble.NA := by decide
  by_cases h : Generated.C16.fileNaValues.contains c = true
  · have hc : readCell c = Assemble.NA := by unfold readCell; rw [if_pos h]
    refine ⟨Or.inr hc, by rw [hc, hna], fun _ => by simpa using h⟩
  · have hc : readCell c = c := by unfold readCell; rw [if_neg h]
    exact ⟨Or.inl hc, by rw [hc, hc], fun hne => absurd hc hne⟩

theorem readTable_header (tb : Assemble.Table) : (readTable tb).header = tb.header := rfl

section ExampleRaw
private def evJson' : Str := ['_','e','v','e','n','t','s','.','j','s','o','n']
private def evTsv' : Str := ['_','e','v','e','n','t','s','.','t','s','v']
private def sub' (n : Char) : Str := ['s','u','b','-','0', n]
private def taskA' : Str := ['t','a','s','k','-','A']
private def entry' (s : Str) : SJson := .obj [(SidecarV.HED, .obj [(['x'], .str s)])]

def exConsts : Raw.Consts :=
  ⟨true, true, ⟨['K'], 10⟩, ⟨['F'], 1⟩, ⟨['U'], 10⟩, ⟨['N'], 10⟩, ⟨['B'], 1⟩, fun _ => ⟨['T'], 1⟩⟩

/-- the two-subject dataset with its raw events tables: column `a` holds the key `x` in both files; subject 2's file
also has a column `extra` that no sidecar describes -/
def exRawDataset : RawTree :=
  [ ([['e','v','e','n','t','s','.','j','s','o','n']], .json (some [(['a'], entry' ['R','e','d'])])),
    ([sub' '1', sub' '1' ++ evJson'], .json (some [(['a'], entry' ['Z','z'])])),
    ([sub' '1', sub' '1' ++ '_' :: taskA' ++ evTsv'], .tsv ⟨[['a']], [[['x']]]⟩),
    ([sub' '2', sub' '2' ++ '_' :: taskA' ++ evTsv'], .tsv ⟨[['a'], ['e','x','t','r','a']], [[['x'], ['q']]]⟩) ]

/-- **two-subject example, raw** (`decide +kernel`): from the JSON and the raw cells alone.  Subject 1 is judged with
the overriding sidecar (unknown tag `Zz` in its sidecar and, through the categorical column `a`, in row 2 of its
events file); subject 2 inherits the root sidecar only: its one issue is the warning for the column `extra` that no
sidecar describes, which disappears without `check_for_warnings`. -/
theorem two_subject_example_closed_raw :
    (validateDatasetClosedRaw C01.Tiny.env exConsts exRawDataset [] [['e','v','e','n','t','s']] true).toOption =
    some [ .sidecar [sub' '1', sub' '1' ++ evJson'] ⟨[], Validate.Kind.noValidTag.code, 1, some ['a'], none⟩,
           .table [sub' '1', sub' '1' ++ '_' :: taskA' ++ evTsv']
             ⟨C07.kindOf .noValidTag, 1, some 2, some ['a'], ['Z','z'], .cell 0 0⟩,
           .table [sub' '2', sub' '2' ++ '_' :: taskA' ++ evTsv'] ⟨['N'], 10, none, none, [], .mapping⟩ ] ∧
    ((validateDatasetClosedRaw C01.Tiny.env exConsts exRawDataset [] [['e','v','e','n','t','s']] false).toOption.map
      List.length) = some 2 := by
  decide +kernel

private def defEntry (s : Str) : SJson := .obj [(SidecarV.HED, .obj [(['d','1'], .str s)])]
private def useTable : Assemble.Table := ⟨[Assemble.HEDNAME], [[['D','e','f','/','M','k','/','x']]]⟩

/-- the root sidecar declares `Mk/#` ↦ `(Label/#)` in column `d`; subject 1's own sidecar overrides column `d`
(no definition any more); both events files use `Def/Mk/x` in their HED column -/
def exDefDataset : RawTree :=
  [ ([['e','v','e','n','t','s','.','j','s','o','n']],
      .json (some [(['d'], defEntry ['(','D','e','f','i','n','i','t','i','o','n','/','M','k','/','#',',',' ','(','L','a','b','e','l','/','#',')',')'])])),
    ([sub' '1', sub' '1' ++ evJson'], .json (some [(['d'], defEntry ['R','e','d'])])),
    ([sub' '1', sub' '1' ++ '_' :: taskA' ++ evTsv'], .tsv useTable),
    ([sub' '2', sub' '2' ++ '_' :: taskA' ++ evTsv'], .tsv useTable) ]

/-- **inherited definitions, raw** (`decide +kernel`).  A definition is inherited like any other column: subject 2's
rows see the root sidecar's `Mk/#` and `Def/Mk/x` is accepted; subject 1's merged sidecar lost it by the per-column
override, so the same cell is an unmatched `Def` in row 2 of its file — each file is judged in the environment of its
own merged sidecar. -/
theorem inherited_definition_example_closed_raw :
    (validateDatasetClosedRaw C01.Tiny.env exConsts exDefDataset [] [['e','v','e','n','t','s']] false).toOption =
    some [ .table [sub' '1', sub' '1' ++ '_' :: taskA' ++ evTsv']
             ⟨C07.kindOf .defUnmatched, 1, some 2, some Assemble.HEDNAME, ['D','e','f','/','M','k','/','x'], .cell 0 0⟩ ] := by
  decide +kernel
end ExampleRaw

end HedVerif.C16
