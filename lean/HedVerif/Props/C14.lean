/-
C14 — Schema compliance checking accepts released schemas and flags seeded faults.

Theorems about `HedVerif.Compliance.check` (Model/Compliance.lean):
* `fault_<kind>` for the ten seeded fault kinds: for every environment, every compliant schema and every
  admissible position, the published code of the fault is among the codes `check` reports (warnings on)
  for the seeded schema; the proofs go through `validatorsFor`, for both validator generations.
* `fault_reported`: the same for an arbitrary `Fault`, with the severity at which it is reported.
* `errors_only`: with warnings off `check` returns exactly the error-severity subset.
* `warnings_off_only_structural`, `attr_rules_silent`, `survives_iff`, `error_faults_survive`: which fault
  kinds are still reported with warnings off (duplicate node and undeclared attribute only, because
  `_run_validators` demotes every attribute-rule issue to a warning).
`C14_released_pass` is not a ∀-theorem: `compliantB` is evaluated by the driver on every bundled schema.
-/
import HedVerif.Model.Compliance

namespace HedVerif.C14
open HedVerif HedVerif.Compliance

/-! ## The specification side: fault kind ↦ published code (hand-written, from the property statement and
the probe of DESIGN.md §7 C14) -/
namespace Spec

def schemaCode : Kind → Str
  | .dupNode => -- "SCHEMA_DUPLICATE_NODE"
    ['S','C','H','E','M','A','_','D','U','P','L','I','C','A','T','E','_','N','O','D','E']
  | .undeclared => -- "SCHEMA_ATTRIBUTE_INVALID"
    ['S','C','H','E','M','A','_','A','T','T','R','I','B','U','T','E','_','I','N','V','A','L','I','D']
  | .deprecatedFrom => -- "SCHEMA_DEPRECATION_ERROR"
    ['S','C','H','E','M','A','_','D','E','P','R','E','C','A','T','I','O','N','_','E','R','R','O','R']
  | _ => -- "SCHEMA_ATTRIBUTE_VALUE_INVALID": missing unit class / value class / tag, class attribute on a
    -- non-placeholder, conversion factor, default units, allowedCharacter, inLibrary, hedId
    ['S','C','H','E','M','A','_','A','T','T','R','I','B','U','T','E','_','V','A','L','U','E','_','I','N','V','A','L','I','D']

end Spec

/-! ## Strings and attribute lists -/

theorem splitOn_ne_nil (c : Char) (s : Str) : splitOn c s ≠ [] := by
  induction s with
  | nil => simp [splitOn]
  | cons x r ih =>
    unfold splitOn
    split
    · simp
    · split <;> simp

theorem splitOn_noSep {c : Char} {x : Str} (h : c ∉ x) : splitOn c x = [x] := by
  induction x with
  | nil => simp [splitOn]
  | cons y r ih =>
    have hy : y ≠ c := by intro e; apply h; simp [e]
    have hr : c ∉ r := by intro m; apply h; simp [m]
    unfold splitOn
    simp [hy, ih hr]

theorem splitOn_tail (c : Char) (v x : Str) (h : c ∉ x) : x ∈ (splitOn c (v ++ c :: x)).tail := by
  induction v with
  | nil => simp [splitOn, splitOn_noSep h]
  | cons y r ih =>
    show x ∈ (splitOn c (y :: (r ++ c :: x))).tail
    unfold splitOn
    split
    · exact List.mem_of_mem_tail ih
    · split
      · rename_i heq; exact absurd heq (splitOn_ne_nil _ _)
      · rename_i hd tl heq
        rw [heq] at ih
        simpa using ih

/-- the last item of `v,x` is `x` when `x` contains no separator -/
theorem splitOn_append_last (c : Char) (v x : Str) (h : c ∉ x) : x ∈ splitOn c (v ++ c :: x) :=
  List.mem_of_mem_tail (splitOn_tail c v x h)

theorem getAttr_setAttr_self (a : Str) (v : AttrVal) (l : List (Str × AttrVal)) :
    getAttr a (setAttr a v l) = some v := by
  induction l with
  | nil => simp [setAttr, getAttr]
  | cons p r ih =>
    obtain ⟨b, w⟩ := p
    unfold setAttr
    split
    · simp [getAttr]
    · rename_i hne; simp [getAttr, hne, ih]

theorem getAttr_setAttr_ne {a b : Str} (v : AttrVal) (l : List (Str × AttrVal)) (h : b ≠ a) :
    getAttr b (setAttr a v l) = getAttr b l := by
  induction l with
  | nil => simp [setAttr, getAttr, Ne.symm h]
  | cons p r ih =>
    obtain ⟨c, w⟩ := p
    unfold setAttr
    split
    · rename_i hca; subst hca; simp [getAttr, Ne.symm h]
    · simp [getAttr, ih]

theorem mem_setAttr (a : Str) (v : AttrVal) (l : List (Str × AttrVal)) : (a, v) ∈ setAttr a v l := by
  induction l with
  | nil => simp [setAttr]
  | cons p r ih =>
    obtain ⟨b, w⟩ := p
    unfold setAttr
    split <;> simp [ih]

theorem mem_of_getAttr {a : Str} {v : AttrVal} {l : List (Str × AttrVal)} (h : getAttr a l = some v) :
    (a, v) ∈ l := by
  induction l with
  | nil => simp [getAttr] at h
  | cons p r ih =>
    obtain ⟨b, w⟩ := p
    unfold getAttr at h
    split at h
    · rename_i hb; subst hb; simp at h; simp [h]
    · exact List.mem_cons_of_mem _ (ih h)

@[simp] theorem withAttr_name (a : Str) (v : AttrVal) (e : Entry) : (withAttr a v e).name = e.name := rfl
@[simp] theorem withAttr_owner (a : Str) (v : AttrVal) (e : Entry) : (withAttr a v e).owner = e.owner := rfl

@[simp] theorem appendVal_name (a x : Str) (e : Entry) : (appendVal a x e).name = e.name := by
  unfold appendVal; split <;> rfl

/-- after `appendVal a x`, attribute `a` is a text whose comma items include `x` -/
theorem appendVal_spec (a x : Str) (e : Entry) (hx : ',' ∉ x) :
    ∃ v, getAttr a (appendVal a x e).attrs = some (.text v) ∧ x ∈ splitOn ',' v := by
  unfold appendVal
  split
  · rename_i v _
    exact ⟨v ++ ',' :: x, by simp [withAttr, getAttr_setAttr_self], splitOn_append_last ',' v x hx⟩
  · exact ⟨x, by simp [withAttr, getAttr_setAttr_self], by simp [splitOn_noSep hx]⟩

theorem appendVal_get_ne {a b x : Str} (e : Entry) (h : b ≠ a) :
    getAttr b (appendVal a x e).attrs = getAttr b e.attrs := by
  unfold appendVal
  split <;> simp [withAttr, getAttr_setAttr_ne _ _ h]

/-! ## Editing one entry of a section -/

theorem modifyAt_eq {l : List Entry} {i : Nat} {e : Entry} (f : Entry → Entry) (h : l[i]? = some e) :
    modifyAt l i f = l.take i ++ f e :: l.drop (i + 1) := by
  obtain ⟨hi, he⟩ := List.getElem?_eq_some_iff.mp h
  unfold modifyAt
  rw [List.drop_eq_getElem_cons hi, he]

theorem split_at {l : List Entry} {i : Nat} {e : Entry} (h : l[i]? = some e) :
    l = l.take i ++ e :: l.drop (i + 1) := by
  obtain ⟨hi, he⟩ := List.getElem?_eq_some_iff.mp h
  have := List.take_append_drop i l
  rw [List.drop_eq_getElem_cons hi, he] at this
  exact this.symm

theorem take_length_le {l : List Entry} {i : Nat} {e : Entry} (h : l[i]? = some e) : (l.take i).length = i := by
  obtain ⟨hi, _⟩ := List.getElem?_eq_some_iff.mp h
  simp [List.length_take]; omega

theorem modifyAt_get {l : List Entry} {i : Nat} {e : Entry} (f : Entry → Entry) (h : l[i]? = some e) :
    (modifyAt l i f)[i]? = some (f e) := by
  rw [modifyAt_eq f h]
  have hl := take_length_le h
  rw [List.getElem?_append_right (by omega)]
  simp [hl]

theorem modifyAt_names {l : List Entry} {i : Nat} (f : Entry → Entry) (hf : ∀ e, (f e).name = e.name) :
    (modifyAt l i f).map (·.name) = l.map (·.name) := by
  unfold modifyAt
  split
  · rfl
  · rename_i e r heq
    have : l = l.take i ++ l.drop i := (List.take_append_drop i l).symm
    conv => rhs; rw [this, heq]
    simp [hf]

@[simp] theorem modify_header (s : Schema) (t : Sec) (i : Nat) (f : Entry → Entry) :
    (s.modify t i f).header = s.header := rfl

@[simp] theorem modify_sec_same (s : Schema) (t : Sec) (i : Nat) (f : Entry → Entry) :
    (s.modify t i f).sec t = modifyAt (s.sec t) i f := by simp [Schema.modify]

theorem modify_sec_ne (s : Schema) {t t' : Sec} (i : Nat) (f : Entry → Entry) (h : t' ≠ t) :
    (s.modify t i f).sec t' = s.sec t' := by simp [Schema.modify, h]

theorem modify_names (s : Schema) (t t' : Sec) (i : Nat) (f : Entry → Entry) (hf : ∀ e, (f e).name = e.name) :
    ((s.modify t i f).sec t').map (·.name) = (s.sec t').map (·.name) := by
  by_cases h : t' = t
  · subst h; simp [modifyAt_names f hf]
  · rw [modify_sec_ne s i f h]

/-! ## Visibility bookkeeping -/

theorem visG_append (reg : Entry → List HKey) (probe : Entry → HKey) (keys : KeySet) (k : Nat) (pre rest : List Entry) :
    visG reg probe keys k (pre ++ rest) =
      visG reg probe keys k pre ++ visG reg probe (keysG reg probe keys pre) (k + pre.length) rest := by
  induction pre generalizing keys k with
  | nil => simp [visG, keysG]
  | cons e r ih =>
    simp only [List.cons_append, visG, keysG]
    split
    · rw [ih]; simp [Nat.add_assoc, Nat.add_comm 1]
    · rw [ih]; simp [Nat.add_assoc, Nat.add_comm 1]

theorem dupG_append (reg : Entry → List HKey) (probe : Entry → HKey) (keys : KeySet) (k : Nat) (pre rest : List Entry) :
    dupG reg probe keys k (pre ++ rest) =
      dupG reg probe keys k pre ++ dupG reg probe (keysG reg probe keys pre) (k + pre.length) rest := by
  induction pre generalizing keys k with
  | nil => simp [dupG, keysG]
  | cons e r ih =>
    simp only [List.cons_append, dupG, keysG]
    split
    · rw [ih]; simp [Nat.add_assoc, Nat.add_comm 1]
    · rw [ih]; simp [Nat.add_assoc, Nat.add_comm 1]

/-- an entry whose key is not registered by the entries before it is visible, whatever follows -/
theorem mem_visG_mid (reg : Entry → List HKey) (probe : Entry → HKey) (pre post : List Entry) (e : Entry)
    (h : (keysG reg probe ∅ pre).contains (probe e) = false) :
    (pre.length, e) ∈ visG reg probe ∅ 0 (pre ++ e :: post) := by
  rw [visG_append]
  apply List.mem_append_right
  simp [visG, h]

/-- the key of an entry depends on its name and, for units, on whether it is a unit symbol -/
theorem probeOf_eq (t : Sec) (e e' : Entry) (hn : e'.name = e.name)
    (hs : e'.has Key.UnitSymbol = e.has Key.UnitSymbol) : probeOf t e' = probeOf t e := by
  cases t <;> simp [probeOf, unitKey, hn, hs]

theorem longKeys_modify (s : Schema) (t : Sec) (i : Nat) (f : Entry → Entry) (hf : ∀ e, (f e).name = e.name) :
    longKeys ((s.modify t i f).sec .tags) = longKeys (s.sec .tags) := by
  unfold longKeys
  rw [modify_names s t .tags i f hf]

/-- editing a visible entry (name and key unchanged) leaves it visible -/
theorem visible_modify (s : Schema) (t : Sec) (i : Nat) (e : Entry) (f : Entry → Entry)
    (he : (s.sec t)[i]? = some e) (hv : visibleAt s t i = true) (hf : ∀ e, (f e).name = e.name)
    (hp : probeOf t (f e) = probeOf t e) :
    (i, f e) ∈ visible (s.modify t i f) t := by
  simp only [visibleAt, he, Bool.and_eq_true, Bool.not_eq_true', Bool.and_eq_false_iff, decide_eq_false_iff_not] at hv
  obtain ⟨hk, hsh⟩ := hv
  have hmem : (i, f e) ∈ visG (regOf t) (probeOf t) ∅ 0 ((s.modify t i f).sec t) := by
    rw [modify_sec_same, modifyAt_eq f he]
    have hl := take_length_le he
    have := mem_visG_mid (regOf t) (probeOf t) ((s.sec t).take i) ((s.sec t).drop (i + 1)) (f e)
      (by rw [hp]; exact hk)
    rwa [hl] at this
  unfold visible
  by_cases ht : t = .tags
  · simp only [ht, if_true]
    rw [List.mem_filter]
    subst ht
    refine ⟨hmem, ?_⟩
    rw [longKeys_modify s .tags i f hf]
    rcases hsh with h1 | h1
    · exact absurd rfl h1
    · have h1' : shadowed (longKeys (s.sec .tags)) i e = false := h1
      have : shadowed (longKeys (s.sec .tags)) i (f e) = false := by
        simpa only [shadowed, hf e] using h1'
      simp [this]
  · simp only [ht, if_false]
    exact hmem

theorem has_withAttr_ne {a b : Str} (v : AttrVal) (e : Entry) (h : b ≠ a) :
    (withAttr a v e).has b = e.has b := by
  simp [Entry.has, withAttr, getAttr_setAttr_ne v e.attrs h]

theorem has_appendVal_ne {a b x : Str} (e : Entry) (h : b ≠ a) : (appendVal a x e).has b = e.has b := by
  simp [Entry.has, appendVal_get_ne e h]

theorem sec_mem_order (t : Sec) : t ∈ secOrder := by cases t <;> decide

/-! ## From a checker's verdict to the issue list of `check` -/

/-- an issue kind returned by a selected checker for an attribute of a visible entry is reported
(demoted to WARNING) when warnings are on -/
theorem mem_check_attr (env : Env) (s : Schema) (t : Sec) (ie : IE) (a : Str) (val : AttrVal) (v : V) (k : IK)
    (hvis : ie ∈ visible s t) (ha : (a, val) ∈ ie.2.attrs) (hv : v ∈ validatorsFor s a)
    (hk : k ∈ validate env s (tagCtx s) t ie a v) :
    (⟨k, sevWarning, t.label, ie.2.name, a⟩ : Issue) ∈ check env s true := by
  unfold check
  simp only [List.mem_append]
  left; right
  rw [List.mem_flatMap]
  refine ⟨t, sec_mem_order t, ?_⟩
  unfold secIssues
  apply List.mem_append_right
  unfold attrIssues
  rw [List.mem_flatMap]
  refine ⟨ie, hvis, ?_⟩
  unfold entryIssues
  apply List.mem_append_right
  rw [List.mem_flatMap]
  refine ⟨(a, val), ha, ?_⟩
  rw [List.mem_flatMap]
  refine ⟨v, hv, ?_⟩
  simp only [runValidator, filterW, if_true]
  exact List.mem_map.mpr ⟨k, hk, rfl⟩

/-- an attribute that is not valid for the section of a visible entry is reported, warnings on or off -/
theorem mem_check_unknown (env : Env) (s : Schema) (w : Bool) (t : Sec) (ie : IE) (a : Str) (val : AttrVal)
    (hvis : ie ∈ visible s t) (ha : (a, val) ∈ ie.2.attrs) (hu : a ∉ validAttrs s t) :
    (⟨.unknownAttribute, IK.unknownAttribute.sev, t.label, ie.2.name, []⟩ : Issue) ∈ check env s w := by
  unfold check
  simp only [List.mem_append]
  left; right
  rw [List.mem_flatMap]
  refine ⟨t, sec_mem_order t, ?_⟩
  unfold secIssues
  apply List.mem_append_right
  unfold attrIssues
  rw [List.mem_flatMap]
  refine ⟨ie, hvis, ?_⟩
  unfold entryIssues
  apply List.mem_append_left
  have hmem : (⟨.unknownAttribute, IK.unknownAttribute.sev, t.label, ie.2.name, []⟩ : Issue) ∈
      (unknownAttrs (validAttrs s t) ie.2).map fun _ => (⟨.unknownAttribute, IK.unknownAttribute.sev, t.label, ie.2.name, []⟩ : Issue) := by
    apply List.mem_map.mpr
    refine ⟨a, ?_, rfl⟩
    unfold unknownAttrs
    rw [List.mem_filter]
    exact ⟨List.mem_map.mpr ⟨(a, val), ha, rfl⟩, by simpa using hu⟩
  unfold unknownIssues filterW
  cases w
  · simp only [Bool.false_eq_true, if_false]
    rw [List.mem_filter]
    exact ⟨hmem, by simp [IK.sev, sevError]⟩
  · simpa using hmem

/-- a duplicated key of a section is reported, warnings on or off -/
theorem mem_check_dup (env : Env) (s : Schema) (w : Bool) (t : Sec) (k : IK) (hk : k ∈ dupKinds s (tagCtx s) t)
    (hs : k.sev ≤ sevError) : (⟨k, k.sev, [], [], []⟩ : Issue) ∈ check env s w := by
  unfold check
  simp only [List.mem_append]
  right
  unfold dupIssues
  rw [List.mem_flatMap]
  refine ⟨t, sec_mem_order t, ?_⟩
  have hmem : (⟨k, k.sev, [], [], []⟩ : Issue) ∈ (dupKinds s (tagCtx s) t).map fun k => (⟨k, k.sev, [], [], []⟩ : Issue) :=
    List.mem_map.mpr ⟨k, hk, rfl⟩
  unfold filterW
  cases w
  · simp only [Bool.false_eq_true, if_false]
    rw [List.mem_filter]
    exact ⟨hmem, by simpa using hs⟩
  · simpa using hmem

theorem code_mem {l : List Issue} {i : Issue} (h : i ∈ l) : i.code ∈ codes l := List.mem_map.mpr ⟨i, h, rfl⟩

/-! ## What a name-preserving edit leaves unchanged -/

theorem find_isSome_names (l : List Entry) (n : Str) :
    (l.find? (·.name = n)).isSome = decide (n ∈ l.map (·.name)) := by
  induction l with
  | nil => simp
  | cons e r ih =>
    by_cases h : e.name = n
    · simp [List.find?, h]
    · simp only [List.find?, h, decide_false, List.map_cons, List.mem_cons]
      rw [ih]
      simp [Ne.symm h]

theorem findByName_isSome_modify (s : Schema) (t t' : Sec) (i : Nat) (f : Entry → Entry)
    (hf : ∀ e, (f e).name = e.name) (n : Str) :
    (findByName (s.modify t i f) t' n).isSome = (findByName s t' n).isSome := by
  unfold findByName
  rw [find_isSome_names, find_isSome_names, modify_names s t t' i f hf]

theorem gen83_modify (s : Schema) (t : Sec) (i : Nat) (f : Entry → Entry) (hf : ∀ e, (f e).name = e.name) :
    gen83 (s.modify t i f) = gen83 s := by
  unfold gen83
  rw [findByName_isSome_modify s t .properties i f hf]
  rfl

theorem tagCtx_tbl (s : Schema) : (tagCtx s).tbl = tagTable ∅ 0 ((s.sec .tags).map (·.name)) := rfl

theorem tagCtx_tbl_modify (s : Schema) (t : Sec) (i : Nat) (f : Entry → Entry) (hf : ∀ e, (f e).name = e.name) :
    (tagCtx (s.modify t i f)).tbl = (tagCtx s).tbl := by
  rw [tagCtx_tbl, tagCtx_tbl, modify_names s t .tags i f hf]

theorem libVersion_modify (s : Schema) (t : Sec) (i : Nat) (f : Entry → Entry) (lib : Str) :
    libVersion (s.modify t i f) lib = libVersion s lib := rfl

/-! ## Selection of the checkers (`validatorsFor`) -/

/-- a schema is compliant: `check` reports no error-severity issue, and a ≥ 8.3 schema declares the five
reference attributes with their range property -/
def Compliant (env : Env) (s : Schema) : Prop := compliantB env s = true

/-- a checker that both fixed tables list for `a` is selected in either generation -/
theorem validators_fixed (s : Schema) {a : Str} {v : V} (hOld : v ∈ tableGet tableOld a)
    (hNew : v ∈ tableGet tableNew a) : v ∈ validatorsFor s a := by
  unfold validatorsFor
  split
  · simp only [List.mem_append]; left; left; left; exact hNew
  · exact List.mem_append_left _ hOld

theorem exists_of_has {e : Entry} {p : Str} (h : e.has p = true) : ∃ v, (p, v) ∈ e.attrs := by
  unfold Entry.has at h
  cases hg : getAttr p e.attrs with
  | none => simp [hg] at h
  | some v => exact ⟨v, mem_of_getAttr hg⟩

/-- a checker of the old fixed table that ≥ 8.3 derives from the declared range property `p` of `a` -/
theorem validators_range (s : Schema) {a p : Str} {v : V} (hOld : v ∈ tableGet tableOld a)
    (hdecl : gen83 s = true → rangeDeclared s a p = true) (hr : v ∈ tableGet tableRange p) :
    v ∈ validatorsFor s a := by
  unfold validatorsFor
  split
  · rename_i hg
    have hd := hdecl hg
    unfold rangeDeclared at hd
    cases hf : findByName s .attributes a with
    | none => simp [hf] at hd
    | some ae =>
      simp only [hf] at hd
      obtain ⟨val, hm⟩ := exists_of_has hd
      apply List.mem_append_right
      simp only [rangeValidators]
      exact List.mem_flatMap.mpr ⟨(p, val), hm, hr⟩
  · exact List.mem_append_left _ hOld

theorem validators_hedId (s : Schema) (hg : gen83 s = true) : V.hedId ∈ validatorsFor s Key.HedID := by
  unfold validatorsFor
  simp [hg]

theorem visibleAt_some {s : Schema} {t : Sec} {i : Nat} (h : visibleAt s t i = true) :
    ∃ e, (s.sec t)[i]? = some e := by
  unfold visibleAt at h
  cases hg : (s.sec t)[i]? with
  | none => simp [hg] at h
  | some e => exact ⟨e, rfl⟩

/-- common part of the attribute-fault proofs: the edited entry stays visible, carries the attribute, a
selected checker flags it -/
theorem attr_fault (env : Env) (s : Schema) (t : Sec) (i : Nat) (e : Entry) (f : Entry → Entry) (a : Str)
    (val : AttrVal) (v : V) (k : IK)
    (he : (s.sec t)[i]? = some e) (hv : visibleAt s t i = true) (hf : ∀ e, (f e).name = e.name)
    (hp : probeOf t (f e) = probeOf t e)
    (ha : (a, val) ∈ (f e).attrs) (hval : v ∈ validatorsFor (s.modify t i f) a)
    (hk : k ∈ validate env (s.modify t i f) (tagCtx (s.modify t i f)) t (i, f e) a v) :
    (⟨k, sevWarning, t.label, (f e).name, a⟩ : Issue) ∈ check env (s.modify t i f) true :=
  mem_check_attr env _ t (i, f e) a val v k (visible_modify s t i e f he hv hf hp) ha hval hk

theorem probe_withAttr (t : Sec) (a : Str) (v : AttrVal) (e : Entry) (h : Key.UnitSymbol ≠ a) :
    probeOf t (withAttr a v e) = probeOf t e :=
  probeOf_eq t e _ rfl (has_withAttr_ne v e h)

theorem probe_appendVal (t : Sec) (a x : Str) (e : Entry) (h : Key.UnitSymbol ≠ a) :
    probeOf t (appendVal a x e) = probeOf t e :=
  probeOf_eq t e _ (appendVal_name a x e) (has_appendVal_ne e h)

/-! ## The ten fault kinds -/

/-- severity at which each fault kind is reported: `check_duplicate_names` and `_check_unknown_attributes`
keep the severity of the issue kind (ERROR); everything found by an attribute checker passes through
`_run_validators`, which sets WARNING -/
def reportedSev : Kind → Nat
  | .dupNode => IK.duplicateNode.sev
  | .undeclared => IK.unknownAttribute.sev
  | _ => sevWarning


theorem fault_inLibrary_issue (env : Env) (s : Schema) (_hc : Compliant env s) (t : Sec) (i : Nat) (l : Str)
    (h : admissible env (.inLibrary t i l) s = true) :
    ∃ iss ∈ check env (seed (.inLibrary t i l) s) true, iss.code = Spec.schemaCode .inLibrary ∧ iss.sev = reportedSev .inLibrary := by
  simp only [admissible, Bool.and_eq_true, decide_eq_true_eq] at h
  obtain ⟨hv, hl⟩ := h
  obtain ⟨e, he⟩ := visibleAt_some hv
  have hm := attr_fault env s t i e (withAttr Key.InLibrary (.text l)) Key.InLibrary (.text l) V.inLibrary
    IK.inLibraryInvalid he hv (fun _ => rfl) (probe_withAttr t _ _ e (by decide)) (mem_setAttr _ _ _)
    (validators_fixed _ (by decide) (by decide))
    (by
      simp only [validate, vInLibrary, withAttr, getAttr_setAttr_self, modify_header]
      simp [hl])
  exact ⟨_, hm, rfl, rfl⟩

theorem fault_allowedCharacter_issue (env : Env) (s : Schema) (_hc : Compliant env s) (t : Sec) (i : Nat) (x : Str)
    (h : admissible env (.allowedCharacter t i x) s = true) :
    ∃ iss ∈ check env (seed (.allowedCharacter t i x) s) true, iss.code = Spec.schemaCode .allowedCharacter ∧ iss.sev = reportedSev .allowedCharacter := by
  simp only [admissible, Bool.and_eq_true, decide_eq_true_eq] at h
  obtain ⟨⟨⟨hv, hx1⟩, hx2⟩, hx3⟩ := h
  obtain ⟨e, he⟩ := visibleAt_some hv
  obtain ⟨v', hget, hmem⟩ := appendVal_spec Key.AllowedCharacter x e hx3
  have hm := attr_fault env s t i e (appendVal Key.AllowedCharacter x) Key.AllowedCharacter (.text v')
    V.allowedCharacter IK.allowedCharactersInvalid he hv (fun e => appendVal_name _ _ e) (probe_appendVal t _ _ e (by decide))
    (mem_of_getAttr hget) (validators_fixed _ (by decide) (by decide))
    (by
      simp only [validate, vAllowedCharacter, hget]
      apply List.mem_flatMap.mpr
      exact ⟨x, hmem, by simp [hx1, hx2]⟩)
  exact ⟨_, hm, rfl, rfl⟩

theorem fault_conversionFactor_issue (env : Env) (s : Schema) (_hc : Compliant env s) (t : Sec) (i : Nat) (v : Str)
    (h : admissible env (.conversionFactor t i v) s = true) :
    ∃ iss ∈ check env (seed (.conversionFactor t i v) s) true, iss.code = Spec.schemaCode .conversionFactor ∧ iss.sev = reportedSev .conversionFactor := by
  simp only [admissible, Bool.and_eq_true] at h
  obtain ⟨hv, hbad⟩ := h
  obtain ⟨e, he⟩ := visibleAt_some hv
  have hm := attr_fault env s t i e (withAttr Key.ConversionFactor (.text v)) Key.ConversionFactor (.text v)
    V.conversionFactor IK.conversionFactorNotPositive he hv (fun _ => rfl) (probe_withAttr t _ _ e (by decide)) (mem_setAttr _ _ _)
    (validators_fixed _ (by decide) (by decide))
    (by
      simp only [validate, vConversionFactor, withAttr, getAttr_setAttr_self]
      cases hf : pyFloat (caretToE v) with
      | none => simp
      | some x => simp [hf] at hbad; simp [hbad])
  exact ⟨_, hm, rfl, rfl⟩

theorem fault_classAttr_issue (env : Env) (s : Schema) (_hc : Compliant env s) (c : ClassAttr) (i : Nat) (v : AttrVal)
    (h : admissible env (.classAttr c i v) s = true) :
    ∃ iss ∈ check env (seed (.classAttr c i v) s) true, iss.code = Spec.schemaCode .classAttr ∧ iss.sev = reportedSev .classAttr := by
  simp only [admissible, Bool.and_eq_true] at h
  obtain ⟨hv, hnp⟩ := h
  obtain ⟨e, he⟩ := visibleAt_some hv
  simp only [he] at hnp
  have hsel : V.placeholder ∈ validatorsFor (s.modify .tags i (withAttr c.key v)) c.key := by
    cases c <;> exact validators_fixed _ (by decide) (by decide)
  have hm := attr_fault env s .tags i e (withAttr c.key v) c.key v
    V.placeholder IK.nonPlaceholderHasClass he hv (fun _ => rfl) (probe_withAttr .tags _ _ e (by cases c <;> decide)) (mem_setAttr _ _ _)
    hsel
    (by
      simp only [validate, vPlaceholder, withAttr_name]
      simp [hnp])
  exact ⟨_, hm, rfl, rfl⟩

theorem fault_undeclared_issue (env : Env) (s : Schema) (_hc : Compliant env s) (t : Sec) (i : Nat) (a : Str)
    (h : admissible env (.undeclared t i a) s = true) (w : Bool) :
    ∃ iss ∈ check env (seed (.undeclared t i a) s) w, iss.code = Spec.schemaCode .undeclared ∧ iss.sev = reportedSev .undeclared := by
  simp only [admissible, Bool.and_eq_true, decide_eq_true_eq, Bool.or_eq_true] at h
  obtain ⟨⟨hv, hu⟩, hsym⟩ := h
  obtain ⟨e, he⟩ := visibleAt_some hv
  have hp : probeOf t (withAttr a .flag e) = probeOf t e := by
    rcases hsym with h1 | h1
    · have h1 : t ≠ .units := by simpa using h1
      cases t <;> simp_all [probeOf]
    · exact probe_withAttr t _ _ e (by simpa using (fun h : Key.UnitSymbol = a => h1 h.symm))
  have hvis := visible_modify s t i e (withAttr a .flag) he hv (fun _ => rfl) hp
  have hm := mem_check_unknown env (s.modify t i (withAttr a .flag)) w t (i, withAttr a .flag e) a .flag hvis
    (mem_setAttr _ _ _) hu
  exact ⟨_, hm, rfl, rfl⟩

theorem deprecatedVerdict_of_bad {versions : List Str} {lv : Option Str} {v : Str} (hne : v ≠ [])
    (h : unknownOrNotOlder versions lv v = true) : IK.deprecatedInvalid ∈ deprecatedVerdict versions lv v := by
  unfold unknownOrNotOlder at h
  unfold deprecatedVerdict
  simp only [hne, if_false]
  by_cases hk : v ∈ versions
  · cases lv with
    | none => simp [hk] at h
    | some lv =>
      simp only [hk, not_true, decide_false, Bool.false_or, Bool.and_eq_true, decide_eq_true_eq] at h
      simp [hk, h.1, h.2]
  · simp [hk]

theorem fault_deprecatedFrom_issue (env : Env) (s : Schema) (_hc : Compliant env s) (t : Sec) (i : Nat) (v : Str)
    (h : admissible env (.deprecatedFrom t i v) s = true) :
    ∃ iss ∈ check env (seed (.deprecatedFrom t i v) s) true, iss.code = Spec.schemaCode .deprecatedFrom ∧ iss.sev = reportedSev .deprecatedFrom := by
  simp only [admissible, Bool.and_eq_true, decide_eq_true_eq] at h
  obtain ⟨⟨hv, hne⟩, hbad⟩ := h
  obtain ⟨e, he⟩ := visibleAt_some hv
  have hget := modifyAt_get (withAttr Key.DeprecatedFrom (.text v)) he
  simp only [seed, modify_sec_same, hget] at hbad
  have hm := attr_fault env s t i e (withAttr Key.DeprecatedFrom (.text v)) Key.DeprecatedFrom (.text v)
    V.deprecatedFrom IK.deprecatedInvalid he hv (fun _ => rfl) (probe_withAttr t _ _ e (by decide)) (mem_setAttr _ _ _)
    (validators_fixed _ (by decide) (by decide))
    (by
      simp only [validate, vDeprecatedFrom]
      apply List.mem_append_left
      have hga : getAttr Key.DeprecatedFrom (withAttr Key.DeprecatedFrom (.text v) e).attrs = some (.text v) := by
        simp [withAttr, getAttr_setAttr_self]
      simp only [hga]
      exact deprecatedVerdict_of_bad hne hbad)
  exact ⟨_, hm, rfl, rfl⟩

theorem fault_hedId_issue (env : Env) (s : Schema) (_hc : Compliant env s) (t : Sec) (i : Nat) (v : Str)
    (h : admissible env (.hedId t i v) s = true) :
    ∃ iss ∈ check env (seed (.hedId t i v) s) true, iss.code = Spec.schemaCode .hedId ∧ iss.sev = reportedSev .hedId := by
  simp only [admissible, Bool.and_eq_true] at h
  obtain ⟨⟨hv, hg⟩, hbad⟩ := h
  obtain ⟨e, he⟩ := visibleAt_some hv
  have hget := modifyAt_get (withAttr Key.HedID (.text v)) he
  simp only [seed, modify_sec_same, hget] at hbad
  have hg' : gen83 (s.modify t i (withAttr Key.HedID (.text v))) = true := by
    rw [gen83_modify s t i (withAttr Key.HedID (.text v)) (fun _ => rfl)]; exact hg
  have hm := attr_fault env s t i e (withAttr Key.HedID (.text v)) Key.HedID (.text v)
    V.hedId IK.hedIdInvalid he hv (fun _ => rfl) (probe_withAttr t _ _ e (by decide)) (mem_setAttr _ _ _)
    (validators_hedId _ hg')
    (by
      simp only [validate, vHedId, vHedIdLib]
      simp only [withAttr, getAttr_setAttr_self]
      simp only [withAttr] at hbad
      cases hp : pyInt (removePrefix hedPrefix v) with
      | none => simp
      | some n =>
        simp only [hp, Bool.or_eq_true] at hbad
        rcases hbad with h1 | h1
        · simp [h1]
        · simp [h1])
  exact ⟨_, hm, rfl, rfl⟩

theorem modifiersOf_modify (s : Schema) {t : Sec} (i : Nat) (f : Entry → Entry) (h : Sec.unitModifiers ≠ t) :
    modifiersOf (s.modify t i f) = modifiersOf s := by
  unfold modifiersOf visible
  rw [modify_sec_ne s i f h]
  simp

theorem fault_defaultUnits_issue (env : Env) (s : Schema) (hc : Compliant env s) (i : Nat) (u : Str)
    (h : admissible env (.defaultUnits i u) s = true) :
    ∃ iss ∈ check env (seed (.defaultUnits i u) s) true, iss.code = Spec.schemaCode .defaultUnits ∧ iss.sev = reportedSev .defaultUnits := by
  simp only [admissible, Bool.and_eq_true, decide_eq_true_eq] at h
  obtain ⟨⟨hv, hne⟩, hnone⟩ := h
  obtain ⟨e, he⟩ := visibleAt_some hv
  simp only [he] at hnone
  have hstd : stdRanges s = true := by
    have := hc; unfold Compliant compliantB at this
    exact ((Bool.and_eq_true _ _).mp this).2
  let f := withAttr Key.DefaultUnits (.text u)
  have hsel : V.unitExists ∈ validatorsFor (s.modify .unitClasses i f) Key.DefaultUnits := by
    apply validators_range _ (p := Key.UnitRange) (by decide) _ (by decide)
    intro hg
    rw [gen83_modify s .unitClasses i f (fun _ => rfl)] at hg
    have : rangeDeclared s Key.DefaultUnits Key.UnitRange = true := by
      simp only [stdRanges, hg, Bool.not_true, Bool.false_or, Bool.and_eq_true] at hstd
      exact hstd.2
    unfold rangeDeclared findByName at this ⊢
    rw [modify_sec_ne s i _ (by decide)]
    exact this
  have hm := attr_fault env s .unitClasses i e f Key.DefaultUnits (.text u)
    V.unitExists IK.defaultUnitsInvalid he hv (fun _ => rfl) (probe_withAttr _ _ _ e (by decide)) (mem_setAttr _ _ _) hsel
    (by
      simp only [validate, vUnitExists, f, withAttr, getAttr_setAttr_self]
      rw [modify_sec_ne s i _ (by decide), modifiersOf_modify s i _ (by decide)]
      cases hd : derivUnit (s.sec .units) (modifiersOf s) e.name u with
      | none => simp [hne]
      | some x => simp [hd] at hnone)
  exact ⟨_, hm, rfl, rfl⟩

theorem stdRanges_of_compliant {env : Env} {s : Schema} (hc : Compliant env s) : stdRanges s = true := by
  unfold Compliant compliantB at hc
  exact ((Bool.and_eq_true _ _).mp hc).2

theorem fault_missingRef_issue (env : Env) (s : Schema) (hc : Compliant env s) (r : RefAttr) (i : Nat) (x : Str)
    (h : admissible env (.missingRef r i x) s = true) :
    ∃ iss ∈ check env (seed (.missingRef r i x) s) true, iss.code = Spec.schemaCode .missingRef ∧ iss.sev = reportedSev .missingRef := by
  simp only [admissible, Bool.and_eq_true, decide_eq_true_eq] at h
  obtain ⟨⟨⟨hv, hne⟩, hcomma⟩, hmiss⟩ := h
  obtain ⟨e, he⟩ := visibleAt_some hv
  obtain ⟨v', hget, hmem⟩ := appendVal_spec r.key x e hcomma
  have hstd := stdRanges_of_compliant hc
  have hnames : ∀ e : Entry, (appendVal r.key x e).name = e.name := fun e => appendVal_name _ _ e
  have hsel : V.itemExists r.target ∈ validatorsFor (s.modify .tags i (appendVal r.key x)) r.key := by
    have hdecl : ∀ p, (gen83 s = true → rangeDeclared s r.key p = true) →
        (gen83 (s.modify .tags i (appendVal r.key x)) = true →
          rangeDeclared (s.modify .tags i (appendVal r.key x)) r.key p = true) := by
      intro p hp hg
      rw [gen83_modify s .tags i _ hnames] at hg
      have := hp hg
      unfold rangeDeclared findByName at this ⊢
      rw [modify_sec_ne s i _ (by decide)]
      exact this
    cases r
    · exact validators_range _ (p := Key.UnitClassRange) (by decide) (hdecl _ (fun hg => by
        simp only [stdRanges, hg, Bool.not_true, Bool.false_or, Bool.and_eq_true] at hstd
        exact hstd.1.1.1.1)) (by decide)
    · exact validators_range _ (p := Key.ValueClassRange) (by decide) (hdecl _ (fun hg => by
        simp only [stdRanges, hg, Bool.not_true, Bool.false_or, Bool.and_eq_true] at hstd
        exact hstd.1.1.1.2)) (by decide)
    · exact validators_range _ (p := Key.TagRange) (by decide) (hdecl _ (fun hg => by
        simp only [stdRanges, hg, Bool.not_true, Bool.false_or, Bool.and_eq_true] at hstd
        exact hstd.1.1.2)) (by decide)
    · exact validators_range _ (p := Key.TagRange) (by decide) (hdecl _ (fun hg => by
        simp only [stdRanges, hg, Bool.not_true, Bool.false_or, Bool.and_eq_true] at hstd
        exact hstd.1.2)) (by decide)
  have hm := attr_fault env s .tags i e (appendVal r.key x) r.key (.text v')
    (V.itemExists r.target) IK.genericValueInvalid he hv hnames
    (probe_appendVal .tags _ _ e (by cases r <;> decide)) (mem_of_getAttr hget) hsel
    (by
      simp only [validate, vItemExists, hget]
      apply List.mem_flatMap.mpr
      refine ⟨x, hmem, ?_⟩
      simp only [hne, if_false]
      cases r
      · simp only [RefAttr.target] at hmiss ⊢
        simp only [findIn, findByName]
        rw [modify_sec_ne s i _ (by decide)]
        simp only [findByName] at hmiss
        cases hf : List.find? (fun e => decide (e.name = x)) (s.sec .unitClasses) with
        | none => simp
        | some y => simp [hf] at hmiss
      · simp only [RefAttr.target] at hmiss ⊢
        simp only [findIn, findByName]
        rw [modify_sec_ne s i _ (by decide)]
        simp only [findByName] at hmiss
        cases hf : List.find? (fun e => decide (e.name = x)) (s.sec .valueClasses) with
        | none => simp
        | some y => simp [hf] at hmiss
      · simp only [RefAttr.target] at hmiss ⊢
        simp only [findIn, TagCtx.findTag]
        rw [tagCtx_tbl_modify s .tags i _ hnames]
        cases hl : lookupN (tagCtx s).tbl (mkKey (fold x)) with
        | none => simp
        | some j => simp [hl] at hmiss
      · simp only [RefAttr.target] at hmiss ⊢
        simp only [findIn, TagCtx.findTag]
        rw [tagCtx_tbl_modify s .tags i _ hnames]
        cases hl : lookupN (tagCtx s).tbl (mkKey (fold x)) with
        | none => simp
        | some j => simp [hl] at hmiss)
  exact ⟨_, hm, rfl, rfl⟩

/-! ### duplicate node -/

theorem keysG_mono (reg : Entry → List HKey) (probe : Entry → HKey) (l : List Entry) (keys : KeySet) (k : HKey)
    (h : keys.contains k = true) : (keysG reg probe keys l).contains k = true := by
  induction l generalizing keys with
  | nil => simpa [keysG] using h
  | cons e r ih =>
    unfold keysG
    split
    · exact ih keys h
    · apply ih
      rw [Std.HashSet.contains_insertMany_list]
      simp [h]

/-- every entry whose own key is among the keys it registers has that key registered at the end -/
theorem keysG_contains (reg : Entry → List HKey) (probe : Entry → HKey) (l : List Entry) (keys : KeySet) (e : Entry)
    (he : e ∈ l) (hr : probe e ∈ reg e) : (keysG reg probe keys l).contains (probe e) = true := by
  induction l generalizing keys with
  | nil => simp at he
  | cons e0 r ih =>
    unfold keysG
    rcases List.mem_cons.mp he with h0 | h0
    · subst h0
      split
      · rename_i hc; exact keysG_mono reg probe r keys _ hc
      · apply keysG_mono
        rw [Std.HashSet.contains_insertMany_list]
        simp [hr]
    · split
      · exact ih keys h0
      · exact ih _ h0

theorem last_mem_sufs (cs : List Str) (l : Str) (h : cs.getLast? = some l) : [l] ∈ sufs cs := by
  induction cs with
  | nil => simp at h
  | cons x r ih =>
    cases r with
    | nil => simp at h; simp [sufs, h]
    | cons y r' =>
      have : (y :: r').getLast? = some l := by simpa [List.getLast?_cons_cons] using h
      unfold sufs
      exact List.mem_cons_of_mem _ (ih this)

theorem shortKey_mem_forms (n : Str) (h : shortKey n ≠ hash) : shortKey n ∈ forms n := by
  unfold forms
  unfold shortKey at h ⊢
  cases hl : (splitOn '/' (fold n)).getLast? with
  | none =>
    have := splitOn_ne_nil '/' (fold n)
    simp [List.getLast?_eq_none_iff] at hl
    exact absurd hl this
  | some l =>
    simp only [hl, Option.getD_some] at h ⊢
    rw [List.mem_filter]
    refine ⟨List.mem_map.mpr ⟨[l], last_mem_sufs _ _ hl, rfl⟩, by simpa using h⟩

theorem dupKinds_sev {s : Schema} {c : TagCtx} {t : Sec} {k : IK} (h : k ∈ dupKinds s c t) : k.sev = sevError := by
  unfold dupKinds at h
  obtain ⟨key, _, hk⟩ := List.mem_map.mp h
  subst hk
  unfold dupCodeOf dupCode
  split <;> rfl

theorem dedupKeys_eq_nil {l : List HKey} (h : dedupKeys l = []) : l = [] := by
  cases l with
  | nil => rfl
  | cons x r => simp [dedupKeys] at h

/-- a compliant schema has no duplicate tag names -/
theorem no_tag_dups (env : Env) (s : Schema) (hc : Compliant env s) :
    dupG (regOf .tags) (probeOf .tags) ∅ 0 (s.sec .tags) = [] := by
  unfold Compliant compliantB at hc
  have hall := ((Bool.and_eq_true _ _).mp hc).1
  rw [List.all_eq_true] at hall
  cases hd : dupG (regOf .tags) (probeOf .tags) ∅ 0 (s.sec .tags) with
  | nil => rfl
  | cons p rest =>
    exfalso
    have hk : ∃ k, k ∈ dupKinds s (tagCtx s) .tags := by
      unfold dupKinds dupPairs
      simp only [hd]
      simp [dedupKeys]
    obtain ⟨k, hk⟩ := hk
    have hsev := dupKinds_sev hk
    have hm := mem_check_dup env s true .tags k hk (by rw [hsev]; exact Nat.le_refl _)
    have := hall _ hm
    simp [hsev] at this

/-! ### duplicate names in any section, at any placement -/

@[simp] theorem append_sec_same (s : Schema) (t : Sec) (e : Entry) : (s.append t e).sec t = s.sec t ++ [e] := by
  simp [Schema.append]

theorem append_sec_ne (s : Schema) {t t' : Sec} (e : Entry) (h : t' ≠ t) : (s.append t e).sec t' = s.sec t' := by
  simp [Schema.append, h]

/-- a compliant schema has no duplicate names in any section -/
theorem no_dups (env : Env) (s : Schema) (hc : Compliant env s) (t : Sec) : dupPairs s t = [] := by
  unfold Compliant compliantB at hc
  have hall := ((Bool.and_eq_true _ _).mp hc).1
  rw [List.all_eq_true] at hall
  cases hd : dupPairs s t with
  | nil => rfl
  | cons p rest =>
    exfalso
    have hk : ∃ k, k ∈ dupKinds s (tagCtx s) t := by
      unfold dupKinds
      simp only [hd]
      simp [dedupKeys]
    obtain ⟨k, hk⟩ := hk
    have hsev := dupKinds_sev hk
    have hm := mem_check_dup env s true t k hk (by rw [hsev]; exact Nat.le_refl _)
    have := hall _ hm
    simp [hsev] at this

/-- the duplicate bookkeeping after one more entry whose key is already registered -/
theorem dupPairs_append (s : Schema) (t : Sec) (e : Entry) (h : dupAdmissible s t e = true) :
    dupPairs (s.append t e) t = dupPairs s t ++ [(probeOf t e, ((s.sec t).length, e))] := by
  simp only [dupAdmissible, Bool.and_eq_true, Bool.not_eq_true', Bool.and_eq_false_iff,
    decide_eq_false_iff_not] at h
  obtain ⟨hreg, hext⟩ := h
  have hd : dupG (regOf t) (probeOf t) ∅ 0 ((s.append t e).sec t)
      = dupG (regOf t) (probeOf t) ∅ 0 (s.sec t) ++ [(probeOf t e, ((s.sec t).length, e))] := by
    rw [append_sec_same, dupG_append]
    simp [dupG, hreg]
  unfold dupPairs
  rw [hd]
  cases t <;> simp_all [List.filter_append]

/-- `check_duplicate_names` on a compliant schema plus one duplicate entry: exactly one issue, for that key -/
theorem dupKinds_append (env : Env) (s : Schema) (hc : Compliant env s) (t : Sec) (e : Entry)
    (h : dupAdmissible s t e = true) (c : TagCtx) :
    dupKinds (s.append t e) c t = [dupCodeOf (s.append t e) c t (probeOf t e)] := by
  unfold dupKinds
  rw [dupPairs_append s t e h, no_dups env s hc t]
  simp [dedupKeys]

/-- the members of that duplicate list: the registered entry, then the new one -/
theorem dupMembers_append (env : Env) (s : Schema) (hc : Compliant env s) (t : Sec) (e : Entry)
    (h : dupAdmissible s t e = true) (c : TagCtx) :
    dupMembers (s.append t e) c t (probeOf t e)
      = (dupOwner (s.append t e) c t (probeOf t e)).toList ++ [((s.sec t).length, e)] := by
  unfold dupMembers
  rw [dupPairs_append s t e h, no_dups env s hc t]
  simp

/-- **`duplicate_code_spec`**: the code reported for a duplicated name is `SCHEMA_LIBRARY_INVALID`
(`duplicateFromLibrary`) iff its copies are not all on the same side — some copy is a library entry and some
copy is not — and `SCHEMA_DUPLICATE_NODE` otherwise; whatever the sections, keys, depths or attribute values -/
theorem duplicate_code_spec (s : Schema) (c : TagCtx) (t : Sec) (k : HKey) :
    (dupCodeOf s c t k = IK.duplicateFromLibrary ↔
      (∃ a ∈ dupMembers s c t k, inLib c t a = true) ∧ (∃ b ∈ dupMembers s c t k, inLib c t b = false)) ∧
    (dupCodeOf s c t k = IK.duplicateNode ↔
      ¬ ((∃ a ∈ dupMembers s c t k, inLib c t a = true) ∧ (∃ b ∈ dupMembers s c t k, inLib c t b = false))) := by
  have hiff : ((dupMembers s c t k).map (inLib c t)).any id = true ∧
      ((dupMembers s c t k).map (inLib c t)).any (!·) = true ↔
      (∃ a ∈ dupMembers s c t k, inLib c t a = true) ∧ (∃ b ∈ dupMembers s c t k, inLib c t b = false) := by
    simp [List.any_eq_true]
  unfold dupCodeOf dupCode
  by_cases hb : (((dupMembers s c t k).map (inLib c t)).any id && ((dupMembers s c t k).map (inLib c t)).any (!·)) = true
  · have h1 := hiff.mp ((Bool.and_eq_true _ _).mp hb)
    rw [if_pos hb]
    exact ⟨⟨fun _ => h1, fun _ => rfl⟩, ⟨(fun h => nomatch h), (fun h => absurd h1 h)⟩⟩
  · have hn : ¬ ((∃ a ∈ dupMembers s c t k, inLib c t a = true) ∧ (∃ b ∈ dupMembers s c t k, inLib c t b = false)) :=
      fun h => hb ((Bool.and_eq_true _ _).mpr (hiff.mpr h))
    rw [if_neg hb]
    exact ⟨⟨(fun h => nomatch h), (fun h => absurd h hn)⟩, ⟨fun _ => hn, fun _ => rfl⟩⟩

/-- a duplicate of a registered name, placed anywhere (for a tag: under any node or at top level; for a unit:
in any unit class; …), with any attributes, in any section, is reported, warnings on or off, with the code
`dupCodeOf` — which `duplicate_code_spec` characterises -/
theorem dup_reported (env : Env) (s : Schema) (hc : Compliant env s) (t : Sec) (e : Entry)
    (h : dupAdmissible s t e = true) (w : Bool) :
    (⟨dupCodeOf (s.append t e) (tagCtx (s.append t e)) t (probeOf t e),
      (dupCodeOf (s.append t e) (tagCtx (s.append t e)) t (probeOf t e)).sev, [], [], []⟩ : Issue)
      ∈ check env (s.append t e) w := by
  have hk : dupCodeOf (s.append t e) (tagCtx (s.append t e)) t (probeOf t e)
      ∈ dupKinds (s.append t e) (tagCtx (s.append t e)) t := by
    rw [dupKinds_append env s hc t e h]; simp
  exact mem_check_dup env _ w t _ hk (by rw [dupKinds_sev hk]; exact Nat.le_refl _)

theorem dupCode_two (x y : Bool) :
    dupCode [x, y] = if x = y then IK.duplicateNode else IK.duplicateFromLibrary := by
  cases x <;> cases y <;> rfl

/-- with two copies (the registered entry `o` and the new one) the code is `SCHEMA_DUPLICATE_NODE` iff both are
library entries or both are not, `SCHEMA_LIBRARY_INVALID` iff exactly one is -/
theorem dup_code_two (env : Env) (s : Schema) (hc : Compliant env s) (t : Sec) (e : Entry)
    (h : dupAdmissible s t e = true) (c : TagCtx) (o : IE)
    (ho : dupOwner (s.append t e) c t (probeOf t e) = some o) :
    dupCodeOf (s.append t e) c t (probeOf t e) =
      if inLib c t o = inLib c t ((s.sec t).length, e) then IK.duplicateNode else IK.duplicateFromLibrary := by
  unfold dupCodeOf
  rw [dupMembers_append env s hc t e h, ho]
  show dupCode [inLib c t o, inLib c t ((s.sec t).length, e)] = _
  exact dupCode_two _ _

theorem splitOn_getLast (c : Char) (v x : Str) (h : c ∉ x) : (splitOn c (v ++ c :: x)).getLast? = some x := by
  induction v with
  | nil => simp [splitOn, splitOn_noSep h]
  | cons y r ih =>
    show (splitOn c (y :: (r ++ c :: x))).getLast? = some x
    unfold splitOn
    split
    · cases hs : splitOn c (r ++ c :: x) with
      | nil => exact absurd hs (splitOn_ne_nil _ _)
      | cons a b => rw [hs] at ih; simpa [List.getLast?_cons_cons] using ih
    · split
      · rename_i heq; exact absurd heq (splitOn_ne_nil _ _)
      · rename_i hd tl heq
        rw [heq] at ih
        cases tl with
        | nil =>
          -- a text with a separator splits in at least two items
          exfalso
          have : x ∈ (splitOn c (r ++ c :: x)).tail := splitOn_tail c r x h
          rw [heq] at this; simp at this
        | cons a b => simpa [List.getLast?_cons_cons] using ih

theorem splitOn_item_noSep (c : Char) (s y : Str) (h : y ∈ splitOn c s) : c ∉ y := by
  induction s generalizing y with
  | nil => simp [splitOn] at h; subst h; simp
  | cons z r ih =>
    unfold splitOn at h
    split at h
    · rcases List.mem_cons.mp h with h1 | h1
      · subst h1; simp
      · exact ih y h1
    · rename_i hz
      split at h
      · simp at h; subst h; simpa using fun e => hz e.symm
      · rename_i hd tl heq
        rcases List.mem_cons.mp h with h1 | h1
        · subst h1
          have := ih hd (by rw [heq]; simp)
          intro hm
          rcases List.mem_cons.mp hm with h2 | h2
          · exact hz h2.symm
          · exact this h2
        · exact ih y (by rw [heq]; exact List.mem_cons_of_mem _ h1)

theorem shortKey_noSlash (n : Str) : '/' ∉ shortKey n := by
  unfold shortKey
  cases hl : (splitOn '/' (fold n)).getLast? with
  | none => simp
  | some l => exact splitOn_item_noSep '/' (fold n) l (List.mem_of_getLast? hl)

/-- the name key of a node called `x` is `x` (case-folded), wherever the node is placed -/
theorem shortKey_childName (p : Option Str) (x : Str) (h : '/' ∉ fold x) : shortKey (childName p x) = fold x := by
  unfold shortKey childName
  cases p with
  | none => simp [splitOn_noSep h]
  | some q =>
    have : fold (q ++ '/' :: x) = fold q ++ '/' :: fold x := by simp [fold]
    rw [this, splitOn_getLast '/' (fold q) (fold x) h]
    rfl

/-- **every placement**: a new node that repeats the name of an existing (non-`#`) node `e0` of a compliant
schema — as a sibling, a level up or down, in another subtree, below a `#`-bearing node, at top level: below
*any* parent name `p` — with *any* attributes and description, is reported (warnings on or off) with the code
`dupCodeOf`, i.e. (`duplicate_code_spec`, `dup_code_two`) `SCHEMA_DUPLICATE_NODE` when the two copies are on the
same side and `SCHEMA_LIBRARY_INVALID` when exactly one of them is a library node -/
theorem dup_tag_any_placement (env : Env) (s : Schema) (hc : Compliant env s) (e0 : Entry)
    (h0 : e0 ∈ s.sec .tags) (hhash : shortKey e0.name ≠ hash) (x : Str) (hx : fold x = shortKey e0.name)
    (p : Option Str) (attrs : List (Str × AttrVal)) (desc : Str) (w : Bool) :
    let e : Entry := ⟨childName p x, attrs, desc, [], []⟩
    dupAdmissible s .tags e = true ∧
    (⟨dupCodeOf (s.append .tags e) (tagCtx (s.append .tags e)) .tags (probeOf .tags e),
      (dupCodeOf (s.append .tags e) (tagCtx (s.append .tags e)) .tags (probeOf .tags e)).sev, [], [], []⟩ : Issue)
      ∈ check env (s.append .tags e) w := by
  intro e
  have hns : '/' ∉ fold x := by rw [hx]; exact shortKey_noSlash _
  have hkey : probeOf .tags e = probeOf .tags e0 := by
    simp only [probeOf, e, shortKey_childName p x hns, hx]
  have hreg := keysG_contains (regOf .tags) (probeOf .tags) (s.sec .tags) ∅ e0 h0
    (by
      simp only [probeOf, regOf]
      exact List.mem_map.mpr ⟨_, shortKey_mem_forms e0.name hhash, rfl⟩)
  have hadm : dupAdmissible s .tags e = true := by
    simp [dupAdmissible, hkey, hreg]
  exact ⟨hadm, dup_reported env s hc .tags e hadm w⟩

theorem seed_dupNode_eq (s : Schema) (i : Nat) (e : Entry) (he : (s.sec .tags)[i]? = some e) :
    seed (.dupNode i) s = s.append .tags e := by
  simp [seed, Schema.append, he]

theorem fault_dupNode_issue (env : Env) (s : Schema) (hc : Compliant env s) (i : Nat)
    (h : admissible env (.dupNode i) s = true) (w : Bool) :
    ∃ iss ∈ check env (seed (.dupNode i) s) w, iss.code = Spec.schemaCode .dupNode ∧ iss.sev = reportedSev .dupNode := by
  unfold admissible at h
  simp only at h
  cases he : (s.sec .tags)[i]? with
  | none => simp [he] at h
  | some e =>
    simp only [he, Bool.and_eq_true, decide_eq_true_eq] at h
    obtain ⟨hhash, hown⟩ := h
    have hmem : e ∈ s.sec .tags := List.mem_of_getElem? he
    have hadm : dupAdmissible s .tags e = true := by
      have hreg := keysG_contains (regOf .tags) (probeOf .tags) (s.sec .tags) ∅ e hmem
        (by
          simp only [probeOf, regOf]
          exact List.mem_map.mpr ⟨_, shortKey_mem_forms e.name hhash, rfl⟩)
      simp [dupAdmissible, hreg]
    rw [seed_dupNode_eq s i e he] at hown ⊢
    cases ho : dupOwner (s.append .tags e) (tagCtx (s.append .tags e)) .tags (mkKey (shortKey e.name)) with
    | none => simp [ho] at hown
    | some o =>
      simp only [ho, decide_eq_true_eq] at hown
      have hrep := dup_reported env s hc .tags e hadm w
      have hcode := dup_code_two env s hc .tags e hadm (tagCtx (s.append .tags e)) o (by simpa [probeOf] using ho)
      rw [hcode] at hrep
      simp only [inLib, hown, if_true] at hrep
      exact ⟨_, hrep, rfl, rfl⟩

/-! ## The property theorems -/

theorem code_of_issue {l : List Issue} {c : Str} (h : ∃ iss ∈ l, iss.code = c ∧ iss.sev = n) : c ∈ codes l := by
  obtain ⟨iss, hm, hc, _⟩ := h
  rw [← hc]; exact code_mem hm

/-- a second node with the name of tag `i` → `SCHEMA_DUPLICATE_NODE` -/
theorem fault_dupNode (env : Env) (s : Schema) (hc : Compliant env s) (i : Nat)
    (h : admissible env (.dupNode i) s = true) :
    Spec.schemaCode .dupNode ∈ codes (check env (seed (.dupNode i) s) true) :=
  code_of_issue (fault_dupNode_issue env s hc i h true)

/-- an attribute that is not declared for the section → `SCHEMA_ATTRIBUTE_INVALID` -/
theorem fault_undeclared (env : Env) (s : Schema) (hc : Compliant env s) (t : Sec) (i : Nat) (a : Str)
    (h : admissible env (.undeclared t i a) s = true) :
    Spec.schemaCode .undeclared ∈ codes (check env (seed (.undeclared t i a) s) true) :=
  code_of_issue (fault_undeclared_issue env s hc t i a h true)

/-- a unit class / value class / suggested / related tag that does not exist → `SCHEMA_ATTRIBUTE_VALUE_INVALID`
(≥ 8.3: through the declared range of the attribute) -/
theorem fault_missingRef (env : Env) (s : Schema) (hc : Compliant env s) (r : RefAttr) (i : Nat) (x : Str)
    (h : admissible env (.missingRef r i x) s = true) :
    Spec.schemaCode .missingRef ∈ codes (check env (seed (.missingRef r i x) s) true) :=
  code_of_issue (fault_missingRef_issue env s hc r i x h)

/-- class attributes on a node that is not a `#` placeholder → `SCHEMA_ATTRIBUTE_VALUE_INVALID` -/
theorem fault_classAttr (env : Env) (s : Schema) (hc : Compliant env s) (c : ClassAttr) (i : Nat) (v : AttrVal)
    (h : admissible env (.classAttr c i v) s = true) :
    Spec.schemaCode .classAttr ∈ codes (check env (seed (.classAttr c i v) s) true) :=
  code_of_issue (fault_classAttr_issue env s hc c i v h)

/-- a `deprecatedFrom` version that is unknown or not older than the schema → `SCHEMA_DEPRECATION_ERROR` -/
theorem fault_deprecatedFrom (env : Env) (s : Schema) (hc : Compliant env s) (t : Sec) (i : Nat) (v : Str)
    (h : admissible env (.deprecatedFrom t i v) s = true) :
    Spec.schemaCode .deprecatedFrom ∈ codes (check env (seed (.deprecatedFrom t i v) s) true) :=
  code_of_issue (fault_deprecatedFrom_issue env s hc t i v h)

/-- a non-positive (or non-numeric) conversion factor → `SCHEMA_ATTRIBUTE_VALUE_INVALID` -/
theorem fault_conversionFactor (env : Env) (s : Schema) (hc : Compliant env s) (t : Sec) (i : Nat) (v : Str)
    (h : admissible env (.conversionFactor t i v) s = true) :
    Spec.schemaCode .conversionFactor ∈ codes (check env (seed (.conversionFactor t i v) s) true) :=
  code_of_issue (fault_conversionFactor_issue env s hc t i v h)

/-- default units that are not a unit of the class → `SCHEMA_ATTRIBUTE_VALUE_INVALID`
(≥ 8.3: through the declared `unitRange` of `defaultUnits`) -/
theorem fault_defaultUnits (env : Env) (s : Schema) (hc : Compliant env s) (i : Nat) (u : Str)
    (h : admissible env (.defaultUnits i u) s = true) :
    Spec.schemaCode .defaultUnits ∈ codes (check env (seed (.defaultUnits i u) s) true) :=
  code_of_issue (fault_defaultUnits_issue env s hc i u h)

/-- an unknown `allowedCharacter` value → `SCHEMA_ATTRIBUTE_VALUE_INVALID` -/
theorem fault_allowedCharacter (env : Env) (s : Schema) (hc : Compliant env s) (t : Sec) (i : Nat) (x : Str)
    (h : admissible env (.allowedCharacter t i x) s = true) :
    Spec.schemaCode .allowedCharacter ∈ codes (check env (seed (.allowedCharacter t i x) s) true) :=
  code_of_issue (fault_allowedCharacter_issue env s hc t i x h)

/-- a foreign `inLibrary` name → `SCHEMA_ATTRIBUTE_VALUE_INVALID` -/
theorem fault_inLibrary (env : Env) (s : Schema) (hc : Compliant env s) (t : Sec) (i : Nat) (l : Str)
    (h : admissible env (.inLibrary t i l) s = true) :
    Spec.schemaCode .inLibrary ∈ codes (check env (seed (.inLibrary t i l) s) true) :=
  code_of_issue (fault_inLibrary_issue env s hc t i l h)

/-- a malformed, out-of-range or changed `hedId` (≥ 8.3 schemas) → `SCHEMA_ATTRIBUTE_VALUE_INVALID` -/
theorem fault_hedId (env : Env) (s : Schema) (hc : Compliant env s) (t : Sec) (i : Nat) (v : Str)
    (h : admissible env (.hedId t i v) s = true) :
    Spec.schemaCode .hedId ∈ codes (check env (seed (.hedId t i v) s) true) :=
  code_of_issue (fault_hedId_issue env s hc t i v h)

/-- all ten kinds at once, with the severity: the seeded schema has an issue with the published code of
the fault kind, at severity `reportedSev` -/
theorem fault_reported (env : Env) (s : Schema) (hc : Compliant env s) (f : Fault)
    (h : admissible env f s = true) :
    ∃ iss ∈ check env (seed f s) true, iss.code = Spec.schemaCode f.kind ∧ iss.sev = reportedSev f.kind := by
  cases f with
  | dupNode i => exact fault_dupNode_issue env s hc i h true
  | undeclared t i a => exact fault_undeclared_issue env s hc t i a h true
  | missingRef r i x => exact fault_missingRef_issue env s hc r i x h
  | classAttr c i v => exact fault_classAttr_issue env s hc c i v h
  | deprecatedFrom t i v => exact fault_deprecatedFrom_issue env s hc t i v h
  | conversionFactor t i v => exact fault_conversionFactor_issue env s hc t i v h
  | defaultUnits i u => exact fault_defaultUnits_issue env s hc i u h
  | allowedCharacter t i x => exact fault_allowedCharacter_issue env s hc t i x h
  | inLibrary t i l => exact fault_inLibrary_issue env s hc t i l h
  | hedId t i v => exact fault_hedId_issue env s hc t i v h

/-- the fault kinds whose report survives `check_for_warnings = False` are exactly the two that are not
found by an attribute checker -/
theorem survives_iff (k : Kind) : reportedSev k ≤ sevError ↔ (k = .dupNode ∨ k = .undeclared) := by
  cases k <;> decide

/-- … and those two are indeed still reported with warnings off -/
theorem error_faults_survive (env : Env) (s : Schema) (hc : Compliant env s) (f : Fault)
    (h : admissible env f s = true) (hk : f.kind = .dupNode ∨ f.kind = .undeclared) :
    Spec.schemaCode f.kind ∈ codes (check env (seed f s) false) := by
  cases f with
  | dupNode i => exact code_of_issue (fault_dupNode_issue env s hc i h false)
  | undeclared t i a => exact code_of_issue (fault_undeclared_issue env s hc t i a h false)
  | _ => simp [Fault.kind] at hk

/-! ### warnings off -/

theorem flatMap_congr' {α β : Type} {l : List α} {f g : α → List β} (h : ∀ x ∈ l, f x = g x) :
    l.flatMap f = l.flatMap g := by
  induction l with
  | nil => rfl
  | cons x r ih =>
    simp only [List.flatMap_cons]
    rw [h x (by simp), ih (fun y hy => h y (by simp [hy]))]

theorem filterW_false (l : List Issue) : filterW false l = l.filter (·.sev ≤ sevError) := by simp [filterW]
theorem filterW_true (l : List Issue) : filterW true l = l := by simp [filterW]

theorem secIssues_false (env : Env) (s : Schema) (c : TagCtx) (t : Sec) :
    secIssues env s c false t = (secIssues env s c true t).filter (·.sev ≤ sevError) := by
  simp only [secIssues, charIssues, attrIssues, entryIssues, unknownIssues, runValidator, filterW_false,
    filterW_true, List.filter_append, List.filter_flatMap]
  congr 1
  apply flatMap_congr'
  intro ie _
  split <;> simp

/-- with `check_for_warnings = False` exactly the error-severity subset of the full result is returned -/
theorem errors_only (env : Env) (s : Schema) :
    check env s false = (check env s true).filter (·.sev ≤ sevError) := by
  have h1 : prereleaseIssues env s false = (prereleaseIssues env s true).filter (·.sev ≤ sevError) := by
    simp [prereleaseIssues, filterW_false, filterW_true]
  have h2 : prologueIssues s false = (prologueIssues s true).filter (·.sev ≤ sevError) := by
    unfold prologueIssues
    split <;> simp [filterW_false, filterW_true]
  have h3 : ∀ c, dupIssues s c false = (dupIssues s c true).filter (·.sev ≤ sevError) := by
    intro c
    simp [dupIssues, filterW_false, filterW_true, List.filter_flatMap]
  have h4 : ∀ c, secOrder.flatMap (secIssues env s c false)
      = (secOrder.flatMap (secIssues env s c true)).filter (·.sev ≤ sevError) := by
    intro c
    rw [List.filter_flatMap]
    apply flatMap_congr'
    intro t _
    exact secIssues_false env s c t
  unfold check
  simp only [List.filter_append]
  rw [h1, h2, h3, h4]

/-- no issue found by an attribute checker is returned with warnings off (`_run_validators` has set its
severity to WARNING) -/
theorem attr_rules_silent (env : Env) (s : Schema) (c : TagCtx) (t : Sec) (ie : IE) (a : Str) (v : V) :
    runValidator env s c false t ie a v = [] := by
  simp only [runValidator, filterW_false, List.filter_eq_nil_iff, List.mem_map]
  rintro iss ⟨k, _, rfl⟩
  simp [sevWarning, sevError]

theorem flatMap_nil' {α β : Type} (l : List α) (f : α → List β) (h : ∀ x ∈ l, f x = []) : l.flatMap f = [] := by
  induction l with
  | nil => rfl
  | cons x r ih => simp [List.flatMap_cons, h x (by simp), ih (fun y hy => h y (by simp [hy]))]

theorem nameKinds_sev {env : Env} {g : Bool} {nd : CharSet} {t : Sec} {e : Entry} {k : IK}
    (h : k ∈ nameKinds env g nd t e) : k.sev = sevWarning := by
  unfold nameKinds at h
  simp only at h
  split at h
  · split at h
    · rcases List.mem_append.mp h with h1 | h1
      · split at h1
        · split at h1 <;> simp at h1; subst h1; rfl
        · simp at h1
      · obtain ⟨_, _, rfl⟩ := List.mem_map.mp h1; rfl
    · obtain ⟨_, _, rfl⟩ := List.mem_map.mp h; rfl
  · split at h
    · split at h
      · simp at h
      · rcases List.mem_append.mp h with h1 | h1
        · split at h1 <;> simp at h1; subst h1; rfl
        · obtain ⟨_, _, rfl⟩ := List.mem_map.mp h1; rfl
    · obtain ⟨_, _, rfl⟩ := List.mem_map.mp h; rfl

theorem descKinds_sev {env : Env} {g : Bool} {ds : CharSet} {e : Entry} {k : IK}
    (h : k ∈ descKinds env g ds e) : k.sev = sevWarning := by
  unfold descKinds at h
  split at h <;> (obtain ⟨_, _, rfl⟩ := List.mem_map.mp h; rfl)

/-- name / description character issues are warnings: none is returned with warnings off -/
theorem chars_silent (env : Env) (s : Schema) (c : TagCtx) (t : Sec) (vis : List IE) :
    charIssues env s c false t vis = [] := by
  unfold charIssues
  apply flatMap_nil'
  intro ie _
  split
  · rfl
  · simp only [filterW_false, List.filter_eq_nil_iff, List.mem_map]
    rintro iss ⟨k, hk, rfl⟩
    have : k.sev = sevWarning := by
      rcases List.mem_append.mp hk with h1 | h1
      · exact nameKinds_sev h1
      · exact descKinds_sev h1
    simp [this, sevWarning, sevError]

/-- with warnings off the result consists of: prerelease / prologue issues of error severity (none in the
code: both kinds are warnings), unknown-attribute issues, duplicate-name issues.  Character rules and all
attribute checkers contribute nothing. -/
theorem warnings_off_only_structural (env : Env) (s : Schema) :
    check env s false =
      prereleaseIssues env s false ++ prologueIssues s false ++
      (secOrder.flatMap fun t => (visible s t).flatMap fun ie => unknownIssues (validAttrs s t) false t ie.2) ++
      dupIssues s (tagCtx s) false := by
  have h : secOrder.flatMap (secIssues env s (tagCtx s) false) =
      secOrder.flatMap fun t => (visible s t).flatMap fun ie => unknownIssues (validAttrs s t) false t ie.2 := by
    apply flatMap_congr'
    intro t _
    unfold secIssues
    simp only [chars_silent, List.nil_append, attrIssues]
    apply flatMap_congr'
    intro ie _
    unfold entryIssues
    have : (ie.2.attrs.flatMap fun p => (validatorsFor s p.1).flatMap fun v =>
        runValidator env s (tagCtx s) false t ie p.1 v) = [] := by
      apply flatMap_nil'
      intro p _
      apply flatMap_nil'
      intro v _
      exact attr_rules_silent env s _ t ie p.1 v
    rw [this, List.append_nil]
  show prereleaseIssues env s false ++ prologueIssues s false ++
    secOrder.flatMap (secIssues env s (tagCtx s) false) ++ dupIssues s (tagCtx s) false = _
  rw [h]

/-! ## The defect fixed by aa5708e, on the model of the old code -/

/-- a library tag `Lib/Sub` (hedId 99999, outside the library range 40000–59999) below the library tag `Lib`,
`inLibrary` inheritable as in ≥ 8.3 schemas -/
def nestedCtx : TagCtx :=
  { tags := #[⟨['L','i','b'], [(Key.InLibrary, .text ['s','c','o','r','e'])], [], [], []⟩,
              ⟨['L','i','b','/','S','u','b'],
               [(Key.InLibrary, .text ['s','c','o','r','e']), (Key.HedID, .text ['H','E','D','_','0','0','9','9','9','9','9'])],
               [], [], []⟩],
    tbl := ∅, parent := #[none, some 0], hashChild := #[false, false], inheritable := [Key.InLibrary] }

def nestedEnv : Env := ⟨[], [(['s','c','o','r','e'], 40000, 59999)], [], []⟩

def nestedTag : IE :=
  (1, ⟨['L','i','b','/','S','u','b'],
       [(Key.InLibrary, .text ['s','c','o','r','e']), (Key.HedID, .text ['H','E','D','_','0','0','9','9','9','9','9'])],
       [], [], []⟩)

/-- before aa5708e the library of a nested library tag was read as the inherited, comma-joined value
("score,score"): no id range was found and the out-of-range hedId went unreported; the current code reports it -/
theorem hedid_nested_library_counterexample :
    idLibOld nestedCtx .tags nestedTag = ['s','c','o','r','e',',','s','c','o','r','e'] ∧
    vHedIdOld nestedEnv nestedCtx .tags nestedTag Key.HedID = [] ∧
    idLib nestedCtx .tags nestedTag = ['s','c','o','r','e'] ∧
    vHedId nestedEnv nestedCtx .tags nestedTag Key.HedID = [IK.hedIdInvalid] := by decide

/-! ## Exactness of the value rules: a checker flags the value iff it is the fault (no false alarm either) -/

/-- `tag_is_deprecated_check`, value part: flagged iff the (non-empty) version is unknown for the library or not
older than the schema's version of that library; a released, older version is accepted -/
theorem deprecatedVerdict_iff (versions : List Str) (lv : Option Str) (v : Str) :
    IK.deprecatedInvalid ∈ deprecatedVerdict versions lv v ↔ (v ≠ [] ∧ unknownOrNotOlder versions lv v = true) := by
  constructor
  · intro h
    unfold deprecatedVerdict at h
    unfold unknownOrNotOlder
    by_cases hv : v = []
    · simp [hv] at h
    · refine ⟨hv, ?_⟩
      simp only [hv, if_false] at h
      by_cases hk : v ∈ versions
      · simp only [hk, not_true, if_false] at h
        cases lv with
        | none => simp at h
        | some l =>
          by_cases hl : l = []
          · simp [hl] at h
          · simp only [hl, if_false] at h
            cases hle : verLE l v with
            | none => simp [hle] at h
            | some b => cases b <;> simp [hle] at h; simp [hk, hl, hle]
      · simp [hk]
  · rintro ⟨hv, h⟩
    exact deprecatedVerdict_of_bad hv h

/-- `in_library_check`: silent iff the value is one of the schema's library names -/
theorem inLibrary_exact (s : Schema) (e : Entry) (a l : Str) (h : getAttr a e.attrs = some (.text l)) :
    vInLibrary s e a = [] ↔ l ∈ splitOn ',' s.header.library := by
  unfold vInLibrary
  simp only [h]
  split <;> simp_all

/-- `conversion_factor`: silent iff the text (with `^` read as `e`) is a float literal that is positive (or nan,
which Python does not order) -/
theorem conversionFactor_exact (e : Entry) (a v : Str) (h : getAttr a e.attrs = some (.text v)) :
    vConversionFactor e a = [] ↔ ∃ f, pyFloat (caretToE v) = some f ∧ (f.positive = true ∨ f.nan = true) := by
  unfold vConversionFactor
  simp only [h]
  cases hf : pyFloat (caretToE v) with
  | none => simp
  | some f =>
    by_cases hp : (f.positive || f.nan) = true
    · simp only [hp, if_true, true_iff]
      exact ⟨f, rfl, by simpa using hp⟩
    · simp only [hp]
      simp only [Bool.or_eq_true, not_or] at hp
      simp [hp.1, hp.2]

/-- `verify_tag_id` on a well-formed id: silent iff the id is inside the library's range (when the library has
one) and equal to the id of the previous release (when there is one) -/
theorem hedId_exact (env : Env) (lib : Str) (t : Sec) (ie : IE) (a v : Str) (n : Int)
    (h : getAttr a ie.2.attrs = some (.text v)) (hn : pyInt (removePrefix hedPrefix v) = some n) :
    vHedIdLib env lib t ie a = [] ↔ (idChanged env lib t ie.2.name n = false ∧ idOutOfRange env lib n = false) := by
  unfold vHedIdLib
  simp only [h, hn]
  cases idChanged env lib t ie.2.name n <;> cases idOutOfRange env lib n <;> simp

/-- … and a malformed id is always flagged -/
theorem hedId_malformed (env : Env) (lib : Str) (t : Sec) (ie : IE) (a v : Str)
    (h : getAttr a ie.2.attrs = some (.text v)) (hn : pyInt (removePrefix hedPrefix v) = none) :
    vHedIdLib env lib t ie a = [IK.hedIdInvalid] := by
  unfold vHedIdLib
  simp only [h, hn]

/-- the id `HED_0000000` is the number 0 — a falsy value in Python, but an id like any other: with no id in the
previous release it is outside the library range 40000–59999 (and outside 10000–39999) and is flagged -/
theorem hedId_zero_flagged :
    pyInt (removePrefix hedPrefix ['H','E','D','_','0','0','0','0','0','0','0']) = some 0 ∧
    idOutOfRange nestedEnv ['s','c','o','r','e'] 0 = true ∧
    vHedIdLib nestedEnv ['s','c','o','r','e'] .tags
      (0, ⟨['L','i','b'], [(Key.HedID, .text ['H','E','D','_','0','0','0','0','0','0','0'])], [], [], []⟩) Key.HedID
      = [IK.hedIdInvalid] ∧
    -- the interval is closed: both ends are inside
    idOutOfRange nestedEnv ['s','c','o','r','e'] 40000 = false ∧ idOutOfRange nestedEnv ['s','c','o','r','e'] 59999 = false ∧
    idOutOfRange nestedEnv ['s','c','o','r','e'] 39999 = true ∧ idOutOfRange nestedEnv ['s','c','o','r','e'] 60000 = true := by
  decide

/-- `item_exists_check` flags exactly the comma items that are not found (deprecation aside): an item that
exists and is not deprecated contributes nothing -/
theorem itemExists_silent_of_found (s : Schema) (c : TagCtx) (t : Sec) (ie : IE) (a v : Str) (target : Sec)
    (h : getAttr a ie.2.attrs = some (.text v))
    (hall : ∀ item ∈ splitOn ',' v, item = [] ∨
      ∃ x, findIn s c target item = some (some x) ∧ hasOf c target x Key.DeprecatedFrom = false) :
    vItemExists s c t ie a target = [] := by
  unfold vItemExists
  simp only [h]
  apply flatMap_nil'
  intro item hi
  rcases hall item hi with h0 | ⟨x, hx, hd⟩
  · simp [h0]
  · by_cases h0 : item = []
    · simp [h0]
    · simp [h0, hx, hd]

/-! ## Old-style (< 8.3) tag attributes: `get_tag_attribute_names_old` excludes all four section properties -/

def oldTiny : Schema :=
  { header := ⟨['8','.','2','.','0'], [], []⟩, prologue := [], epilogue := [],
    sec := fun
      | .attributes => [⟨Key.SIUnitModifier, [(Key.UnitModifierProperty, .flag)], [], [], []⟩]
      | .tags => [⟨['A'], [], [], [], []⟩]
      | _ => [] }

/-- in a pre-8.3 schema an attribute declared with `unitModifierProperty` only (SIUnitModifier) is valid for unit
modifiers and is *not* a tag attribute: on a tag it is an undeclared attribute -/
theorem siUnitModifier_not_a_tag_attribute_old :
    gen83 oldTiny = false ∧ Key.SIUnitModifier ∉ validAttrs oldTiny .tags ∧
    Key.SIUnitModifier ∈ validAttrs oldTiny .unitModifiers := by
  have h1 : verLE ['8','.','3','.','0'] ['8','.','2','.','0'] = some false := by decide
  have hg : gen83 oldTiny = false := by simp [gen83, oldTiny, findByName, h1]
  refine ⟨hg, ?_, ?_⟩
  · simp only [validAttrs, hg, elementKey]
    simp [visible, visG, oldTiny, probeOf, regOf, Entry.has, getAttr]
  · simp only [validAttrs, hg, elementKey]
    simp [visible, visG, oldTiny, probeOf, regOf, Entry.has, getAttr]

/-! ## Non-vacuity: the hypotheses are satisfiable (a two-entry schema; the driver evaluates `compliantB`
and `admissible` on every bundled schema and every position the harness uses) -/

def tiny : Schema :=
  { header := ⟨['8','.','2','.','0'], [], []⟩, prologue := [], epilogue := [],
    sec := fun
      | .valueClasses => [⟨['n','c'], [], [], [], []⟩]
      | .tags => [⟨['A'], [], [], [], []⟩]
      | _ => [] }
def tinyEnv : Env := ⟨[([], [['8','.','2','.','0']])], [], [], []⟩

example : Compliant tinyEnv tiny ∧ admissible tinyEnv (.inLibrary .valueClasses 0 ['x']) tiny = true
    ∧ admissible tinyEnv (.classAttr .takesValue 0 .flag) tiny = true := by
  have h1 : verLE ['8','.','3','.','0'] ['8','.','2','.','0'] = some false := by decide
  have h2 : splitOn ',' ([] : Str) = [[]] := by decide
  have h3 : splitOn ',' ['8','.','2','.','0'] = [['8','.','2','.','0']] := by decide
  have h4 : verLT ['8','.','2','.','0'] ['8','.','2','.','0'] = some false := by decide
  have h5 : shortTagName ['A'] = ['A'] := by decide
  have h6 : isPlaceholder ['A'] = false := by decide
  refine ⟨?_, ?_, ?_⟩
  · unfold Compliant compliantB
    simp [check, tiny, tinyEnv, secOrder, secIssues, visible, visG, charIssues, attrIssues, entryIssues,
      unknownIssues, unknownAttrs, dupIssues, dupKinds, dupPairs, dupG, dedupKeys, prereleaseIssues, prologueIssues,
      stdRanges, gen83, findByName, hasOf, attrOf, getAttr, filterW, nameKinds, descKinds, probeOf, regOf,
      h1, h2, h3, h4, h5, knownVersions, shadowed, longKeys, TagCtx.inhVal, tagCtx, mkTagCtx, inheritable, isDigit, isUpper, uniClass]
  · simp [admissible, visibleAt, tiny, keysG, probeOf, h2]
  · simp [admissible, visibleAt, tiny, keysG, probeOf, h6, shadowed, longKeys]

end HedVerif.C14
